
type nat =
| O
| S of nat

(** val app : 'a1 list -> 'a1 list -> 'a1 list **)

let rec app l m =
  match l with
  | [] -> m
  | a :: l1 -> a :: (app l1 m)

type comparison =
| Eq
| Lt
| Gt

(** val compOpp : comparison -> comparison **)

let compOpp = function
| Eq -> Eq
| Lt -> Gt
| Gt -> Lt

type positive =
| XI of positive
| XO of positive
| XH

type n =
| N0
| Npos of positive

type z =
| Z0
| Zpos of positive
| Zneg of positive

module Pos =
 struct
  (** val succ : positive -> positive **)

  let rec succ = function
  | XI p -> XO (succ p)
  | XO p -> XI p
  | XH -> XO XH

  (** val add : positive -> positive -> positive **)

  let rec add x y =
    match x with
    | XI p ->
      (match y with
       | XI q -> XO (add_carry p q)
       | XO q -> XI (add p q)
       | XH -> XO (succ p))
    | XO p ->
      (match y with
       | XI q -> XI (add p q)
       | XO q -> XO (add p q)
       | XH -> XI p)
    | XH -> (match y with
             | XI q -> XO (succ q)
             | XO q -> XI q
             | XH -> XO XH)

  (** val add_carry : positive -> positive -> positive **)

  and add_carry x y =
    match x with
    | XI p ->
      (match y with
       | XI q -> XI (add_carry p q)
       | XO q -> XO (add_carry p q)
       | XH -> XI (succ p))
    | XO p ->
      (match y with
       | XI q -> XO (add_carry p q)
       | XO q -> XI (add p q)
       | XH -> XO (succ p))
    | XH ->
      (match y with
       | XI q -> XI (succ q)
       | XO q -> XO (succ q)
       | XH -> XI XH)

  (** val pred_double : positive -> positive **)

  let rec pred_double = function
  | XI p -> XI (XO p)
  | XO p -> XI (pred_double p)
  | XH -> XH

  (** val pred_N : positive -> n **)

  let pred_N = function
  | XI p -> Npos (XO p)
  | XO p -> Npos (pred_double p)
  | XH -> N0

  (** val mul : positive -> positive -> positive **)

  let rec mul x y =
    match x with
    | XI p -> add y (XO (mul p y))
    | XO p -> XO (mul p y)
    | XH -> y

  (** val iter : ('a1 -> 'a1) -> 'a1 -> positive -> 'a1 **)

  let rec iter f x = function
  | XI n' -> f (iter f (iter f x n') n')
  | XO n' -> iter f (iter f x n') n'
  | XH -> f x

  (** val compare_cont : comparison -> positive -> positive -> comparison **)

  let rec compare_cont r x y =
    match x with
    | XI p ->
      (match y with
       | XI q -> compare_cont r p q
       | XO q -> compare_cont Gt p q
       | XH -> Gt)
    | XO p ->
      (match y with
       | XI q -> compare_cont Lt p q
       | XO q -> compare_cont r p q
       | XH -> Gt)
    | XH -> (match y with
             | XH -> r
             | _ -> Lt)

  (** val compare : positive -> positive -> comparison **)

  let compare =
    compare_cont Eq

  (** val eqb : positive -> positive -> bool **)

  let rec eqb p q =
    match p with
    | XI p0 -> (match q with
                | XI q0 -> eqb p0 q0
                | _ -> false)
    | XO p0 -> (match q with
                | XO q0 -> eqb p0 q0
                | _ -> false)
    | XH -> (match q with
             | XH -> true
             | _ -> false)

  (** val coq_Nsucc_double : n -> n **)

  let coq_Nsucc_double = function
  | N0 -> Npos XH
  | Npos p -> Npos (XI p)

  (** val coq_Ndouble : n -> n **)

  let coq_Ndouble = function
  | N0 -> N0
  | Npos p -> Npos (XO p)

  (** val coq_lxor : positive -> positive -> n **)

  let rec coq_lxor p q =
    match p with
    | XI p0 ->
      (match q with
       | XI q0 -> coq_Ndouble (coq_lxor p0 q0)
       | XO q0 -> coq_Nsucc_double (coq_lxor p0 q0)
       | XH -> Npos (XO p0))
    | XO p0 ->
      (match q with
       | XI q0 -> coq_Nsucc_double (coq_lxor p0 q0)
       | XO q0 -> coq_Ndouble (coq_lxor p0 q0)
       | XH -> Npos (XI p0))
    | XH ->
      (match q with
       | XI q0 -> Npos (XO q0)
       | XO q0 -> Npos (XI q0)
       | XH -> N0)

  (** val of_succ_nat : nat -> positive **)

  let rec of_succ_nat = function
  | O -> XH
  | S x -> succ (of_succ_nat x)
 end

module N =
 struct
  (** val succ_pos : n -> positive **)

  let succ_pos = function
  | N0 -> XH
  | Npos p -> Pos.succ p

  (** val coq_lxor : n -> n -> n **)

  let coq_lxor n0 m =
    match n0 with
    | N0 -> m
    | Npos p -> (match m with
                 | N0 -> n0
                 | Npos q -> Pos.coq_lxor p q)
 end

module Z =
 struct
  (** val double : z -> z **)

  let double = function
  | Z0 -> Z0
  | Zpos p -> Zpos (XO p)
  | Zneg p -> Zneg (XO p)

  (** val succ_double : z -> z **)

  let succ_double = function
  | Z0 -> Zpos XH
  | Zpos p -> Zpos (XI p)
  | Zneg p -> Zneg (Pos.pred_double p)

  (** val pred_double : z -> z **)

  let pred_double = function
  | Z0 -> Zneg XH
  | Zpos p -> Zpos (Pos.pred_double p)
  | Zneg p -> Zneg (XI p)

  (** val pos_sub : positive -> positive -> z **)

  let rec pos_sub x y =
    match x with
    | XI p ->
      (match y with
       | XI q -> double (pos_sub p q)
       | XO q -> succ_double (pos_sub p q)
       | XH -> Zpos (XO p))
    | XO p ->
      (match y with
       | XI q -> pred_double (pos_sub p q)
       | XO q -> double (pos_sub p q)
       | XH -> Zpos (Pos.pred_double p))
    | XH ->
      (match y with
       | XI q -> Zneg (XO q)
       | XO q -> Zneg (Pos.pred_double q)
       | XH -> Z0)

  (** val add : z -> z -> z **)

  let add x y =
    match x with
    | Z0 -> y
    | Zpos x' ->
      (match y with
       | Z0 -> x
       | Zpos y' -> Zpos (Pos.add x' y')
       | Zneg y' -> pos_sub x' y')
    | Zneg x' ->
      (match y with
       | Z0 -> x
       | Zpos y' -> pos_sub y' x'
       | Zneg y' -> Zneg (Pos.add x' y'))

  (** val opp : z -> z **)

  let opp = function
  | Z0 -> Z0
  | Zpos x0 -> Zneg x0
  | Zneg x0 -> Zpos x0

  (** val sub : z -> z -> z **)

  let sub m n0 =
    add m (opp n0)

  (** val mul : z -> z -> z **)

  let mul x y =
    match x with
    | Z0 -> Z0
    | Zpos x' ->
      (match y with
       | Z0 -> Z0
       | Zpos y' -> Zpos (Pos.mul x' y')
       | Zneg y' -> Zneg (Pos.mul x' y'))
    | Zneg x' ->
      (match y with
       | Z0 -> Z0
       | Zpos y' -> Zneg (Pos.mul x' y')
       | Zneg y' -> Zpos (Pos.mul x' y'))

  (** val pow_pos : z -> positive -> z **)

  let pow_pos z0 =
    Pos.iter (mul z0) (Zpos XH)

  (** val pow : z -> z -> z **)

  let pow x = function
  | Z0 -> Zpos XH
  | Zpos p -> pow_pos x p
  | Zneg _ -> Z0

  (** val compare : z -> z -> comparison **)

  let compare x y =
    match x with
    | Z0 -> (match y with
             | Z0 -> Eq
             | Zpos _ -> Lt
             | Zneg _ -> Gt)
    | Zpos x' -> (match y with
                  | Zpos y' -> Pos.compare x' y'
                  | _ -> Gt)
    | Zneg x' ->
      (match y with
       | Zneg y' -> compOpp (Pos.compare x' y')
       | _ -> Lt)

  (** val leb : z -> z -> bool **)

  let leb x y =
    match compare x y with
    | Gt -> false
    | _ -> true

  (** val ltb : z -> z -> bool **)

  let ltb x y =
    match compare x y with
    | Lt -> true
    | _ -> false

  (** val gtb : z -> z -> bool **)

  let gtb x y =
    match compare x y with
    | Gt -> true
    | _ -> false

  (** val eqb : z -> z -> bool **)

  let eqb x y =
    match x with
    | Z0 -> (match y with
             | Z0 -> true
             | _ -> false)
    | Zpos p -> (match y with
                 | Zpos q -> Pos.eqb p q
                 | _ -> false)
    | Zneg p -> (match y with
                 | Zneg q -> Pos.eqb p q
                 | _ -> false)

  (** val of_nat : nat -> z **)

  let of_nat = function
  | O -> Z0
  | S n1 -> Zpos (Pos.of_succ_nat n1)

  (** val of_N : n -> z **)

  let of_N = function
  | N0 -> Z0
  | Npos p -> Zpos p

  (** val pos_div_eucl : positive -> z -> z * z **)

  let rec pos_div_eucl a b =
    match a with
    | XI a' ->
      let (q, r) = pos_div_eucl a' b in
      let r' = add (mul (Zpos (XO XH)) r) (Zpos XH) in
      if ltb r' b
      then ((mul (Zpos (XO XH)) q), r')
      else ((add (mul (Zpos (XO XH)) q) (Zpos XH)), (sub r' b))
    | XO a' ->
      let (q, r) = pos_div_eucl a' b in
      let r' = mul (Zpos (XO XH)) r in
      if ltb r' b
      then ((mul (Zpos (XO XH)) q), r')
      else ((add (mul (Zpos (XO XH)) q) (Zpos XH)), (sub r' b))
    | XH -> if leb (Zpos (XO XH)) b then (Z0, (Zpos XH)) else ((Zpos XH), Z0)

  (** val div_eucl : z -> z -> z * z **)

  let div_eucl a b =
    match a with
    | Z0 -> (Z0, Z0)
    | Zpos a' ->
      (match b with
       | Z0 -> (Z0, a)
       | Zpos _ -> pos_div_eucl a' b
       | Zneg b' ->
         let (q, r) = pos_div_eucl a' (Zpos b') in
         (match r with
          | Z0 -> ((opp q), Z0)
          | _ -> ((opp (add q (Zpos XH))), (add b r))))
    | Zneg a' ->
      (match b with
       | Z0 -> (Z0, a)
       | Zpos _ ->
         let (q, r) = pos_div_eucl a' b in
         (match r with
          | Z0 -> ((opp q), Z0)
          | _ -> ((opp (add q (Zpos XH))), (sub b r)))
       | Zneg b' -> let (q, r) = pos_div_eucl a' (Zpos b') in (q, (opp r)))

  (** val div : z -> z -> z **)

  let div a b =
    let (q, _) = div_eucl a b in q

  (** val modulo : z -> z -> z **)

  let modulo a b =
    let (_, r) = div_eucl a b in r

  (** val coq_lxor : z -> z -> z **)

  let coq_lxor a b =
    match a with
    | Z0 -> b
    | Zpos a0 ->
      (match b with
       | Z0 -> a
       | Zpos b0 -> of_N (Pos.coq_lxor a0 b0)
       | Zneg b0 -> Zneg (N.succ_pos (N.coq_lxor (Npos a0) (Pos.pred_N b0))))
    | Zneg a0 ->
      (match b with
       | Z0 -> a
       | Zpos b0 -> Zneg (N.succ_pos (N.coq_lxor (Pos.pred_N a0) (Npos b0)))
       | Zneg b0 -> of_N (N.coq_lxor (Pos.pred_N a0) (Pos.pred_N b0)))
 end

(** val rev : 'a1 list -> 'a1 list **)

let rec rev = function
| [] -> []
| x :: l' -> app (rev l') (x :: [])

(** val map : ('a1 -> 'a2) -> 'a1 list -> 'a2 list **)

let rec map f = function
| [] -> []
| a :: t -> (f a) :: (map f t)

(** val fold_left : ('a1 -> 'a2 -> 'a1) -> 'a2 list -> 'a1 -> 'a1 **)

let rec fold_left f l a0 =
  match l with
  | [] -> a0
  | b :: t -> fold_left f t (f a0 b)

(** val seq : nat -> nat -> nat list **)

let rec seq start = function
| O -> []
| S len0 -> start :: (seq (S start) len0)

type err =
| ValueError
| TypeError
| KeyError
| IndexError
| OverflowError
| NotImplementedErr
| RecursionErr
| AttributeErr
| OutOfFuel
| Pyctr of z

type 'a result =
| Ok of 'a
| Err of err

(** val le_decode : z list -> z **)

let rec le_decode = function
| [] -> Z0
| b :: r ->
  Z.add b
    (Z.mul (Zpos (XO (XO (XO (XO (XO (XO (XO (XO XH))))))))) (le_decode r))

(** val be_decode : z list -> z **)

let be_decode l =
  le_decode (rev l)

(** val le_encode : nat -> z -> z list **)

let rec le_encode n0 v =
  match n0 with
  | O -> []
  | S n1 ->
    (Z.modulo v (Zpos (XO (XO (XO (XO (XO (XO (XO (XO XH)))))))))) :: 
      (le_encode n1
        (Z.div v (Zpos (XO (XO (XO (XO (XO (XO (XO (XO XH)))))))))))

(** val be_encode : nat -> z -> z list **)

let be_encode n0 v =
  rev (le_encode n0 v)

(** val w : z **)

let w =
  Z.pow (Zpos (XO XH)) (Zpos (XO (XO (XO (XO (XO (XO (XO XH))))))))

(** val rotl128 : z -> z -> z **)

let rotl128 v k =
  Z.add
    (Z.mul (Z.pow (Zpos (XO XH)) k)
      (Z.modulo v
        (Z.pow (Zpos (XO XH))
          (Z.sub (Zpos (XO (XO (XO (XO (XO (XO (XO XH)))))))) k))))
    (Z.div v
      (Z.pow (Zpos (XO XH))
        (Z.sub (Zpos (XO (XO (XO (XO (XO (XO (XO XH)))))))) k)))

(** val c3DS : z **)

let c3DS =
  Zpos (XO (XI (XO (XI (XO (XO (XO (XI (XO (XI (XI (XO (XI (XI (XI (XO (XO
    (XI (XO (XO (XI (XO (XI (XO (XI (XO (XI (XI (XI (XO (XI (XO (XO (XO (XI
    (XI (XI (XO (XI (XI (XI (XO (XO (XO (XI (XO (XO (XI (XI (XO (XI (XO (XO
    (XO (XI (XO (XO (XI (XO (XO (XO (XO (XO (XO (XO (XO (XO (XI (XO (XO (XO
    (XO (XO (XO (XI (XO (XO (XO (XO (XO (XO (XI (XI (XI (XI (XI (XI (XI (XI
    (XO (XI (XO (XO (XO (XI (XI (XO (XI (XO (XI (XO (XI (XO (XI (XI (XO (XO
    (XI (XO (XI (XI (XI (XI (XO (XO (XI (XI (XI (XI (XI (XI (XI (XI (XI
    XH))))))))))))))))))))))))))))))))))))))))))))))))))))))))))))))))))))))))))))))))))))))))))))))))))))))))))))))))))))))))))))

(** val cTWL : z **)

let cTWL =
  Zpos (XI (XO (XO (XI (XI (XI (XI (XO (XO (XI (XI (XI (XI (XI (XO (XO (XI
    (XI (XI (XI (XO (XO (XI (XO (XO (XI (XO (XI (XI (XO (XO (XO (XI (XI (XI
    (XI (XI (XO (XI (XO (XI (XI (XI (XI (XO (XO (XO (XO (XO (XO (XO (XI (XO
    (XI (XI (XO (XO (XI (XO (XI (XO (XI (XO (XO (XO (XO (XO (XI (XI (XO (XI
    (XO (XO (XI (XO (XO (XO (XO (XO (XO (XI (XO (XO (XI (XI (XO (XI (XO (XI
    (XO (XO (XI (XO (XI (XO (XO (XO (XI (XI (XI (XO (XO (XI (XO (XI (XI (XO
    (XI (XI (XI (XI (XI (XO (XI (XI (XI (XI (XI (XI (XI (XI (XI (XI (XI (XI
    (XI (XI
    XH)))))))))))))))))))))))))))))))))))))))))))))))))))))))))))))))))))))))))))))))))))))))))))))))))))))))))))))))))))))))))))))))

(** val scramble3ds : z -> z -> z **)

let scramble3ds x y =
  rotl128 (Z.modulo (Z.add (Z.coq_lxor (rotl128 x (Zpos (XO XH))) y) c3DS) w)
    (Zpos (XI (XI (XI (XO (XI (XO XH)))))))

(** val scrambleTwl : z -> z -> z **)

let scrambleTwl x y =
  rotl128 (Z.modulo (Z.add (Z.coq_lxor x y) cTWL) w) (Zpos (XO (XI (XO (XI
    (XO XH))))))

(** val keygen3ds : z -> z -> z list **)

let keygen3ds x y =
  be_encode (S (S (S (S (S (S (S (S (S (S (S (S (S (S (S (S O))))))))))))))))
    (scramble3ds x y)

(** val keygentwl : z -> z -> z list **)

let keygentwl x y =
  be_encode (S (S (S (S (S (S (S (S (S (S (S (S (S (S (S (S O))))))))))))))))
    (scrambleTwl x y)

type 'a fmap = z -> 'a option

(** val fempty : 'a1 fmap **)

let fempty _ =
  None

(** val fupd : 'a1 fmap -> z -> 'a1 -> 'a1 fmap **)

let fupd m k v k' =
  if Z.eqb k' k then Some v else m k'

type engine = { kx : z fmap; ky : z fmap; kn : z list fmap }

(** val engine0 : engine **)

let engine0 =
  { kx = fempty; ky = fempty; kn = fempty }

(** val keygen_slot : z -> z -> z -> z list **)

let keygen_slot slot x y =
  if Z.ltb slot (Zpos (XO (XO XH))) then keygentwl x y else keygen3ds x y

(** val keygen : engine -> z -> z list result **)

let keygen e slot =
  match e.kx slot with
  | Some x ->
    (match e.ky slot with
     | Some y -> Ok (keygen_slot slot x y)
     | None -> Err KeyError)
  | None -> Err KeyError

type op =
| SetKey of bool * z * z * bool
| SetKeyBytes of bool * z * z list * bool
| SetNormal of z * z list
| Refresh

(** val key_of_bytes : z -> z list -> z **)

let key_of_bytes slot b =
  if Z.gtb slot (Zpos (XI XH)) then be_decode b else le_decode b

(** val set_keyslot : engine -> bool -> z -> z -> bool -> engine **)

let set_keyslot e isx slot key upd =
  let e1 =
    if isx
    then { kx = (fupd e.kx slot key); ky = e.ky; kn = e.kn }
    else { kx = e.kx; ky = (fupd e.ky slot key); kn = e.kn }
  in
  if upd
  then (match keygen e1 slot with
        | Ok k -> { kx = e1.kx; ky = e1.ky; kn = (fupd e1.kn slot k) }
        | Err _ -> e1)
  else e1

(** val refresh : engine -> engine **)

let refresh e =
  { kx = e.kx; ky = e.ky; kn = (fun s ->
    match e.kx s with
    | Some x ->
      (match e.ky s with
       | Some y -> Some (keygen_slot s x y)
       | None -> e.kn s)
    | None -> e.kn s) }

(** val step : engine -> op -> engine **)

let step e = function
| SetKey (isx, slot, key, upd) -> set_keyslot e isx slot key upd
| SetKeyBytes (isx, slot, b, upd) ->
  set_keyslot e isx slot (key_of_bytes slot b) upd
| SetNormal (slot, k) -> { kx = e.kx; ky = e.ky; kn = (fupd e.kn slot k) }
| Refresh -> refresh e

(** val run : engine -> op list -> engine **)

let run e ops =
  fold_left step ops e

(** val normal_for : engine -> z -> z list result **)

let normal_for e slot =
  match e.kn slot with
  | Some k -> Ok k
  | None -> Err (Pyctr (Zpos XH))

(** val dump :
    engine -> nat -> ((z option * z option) * z list option) list **)

let dump e n0 =
  map (fun i -> let s = Z.of_nat i in (((e.kx s), (e.ky s)), (e.kn s)))
    (seq O n0)
