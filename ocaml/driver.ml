(* Line protocol: one case per input line, one result line per case. *)
open BinNums
open Datatypes
open Prelude
open Engine
open PyFile
open Window
open FileIface
open CtrIO
open CbcIO
open Exefs
open Tmd
open TmdSer
open Ncch
open NcchFull
open Romfs
open Ncsd
open Sd
open Ivfc
open IvfcWrite
open Dpfs
open DpfsWrite
open IvfcRead
open Driver_base

let opt f = function None -> "-" | Some x -> f x

(* ---- C08: keyslot machine ------------------------------------------------ *)
let parse_engine_ops (toks : string list) : op list =
  let rec go toks acc =
    match toks with
    | [] -> Stdlib.List.rev acc
    | "K" :: isx :: slot :: key :: upd :: r ->
      go r (SetKey (bool_of_tok isx, z_of_hex slot, z_of_hex key, bool_of_tok upd) :: acc)
    | "B" :: isx :: slot :: key :: upd :: r ->
      go r (SetKeyBytes (bool_of_tok isx, z_of_hex slot, bytes_of_hex key, bool_of_tok upd) :: acc)
    | "N" :: slot :: key :: r -> go r (SetNormal (z_of_hex slot, bytes_of_hex key) :: acc)
    | "R" :: r -> go r (Refresh :: acc)
    | t :: _ -> failwith ("engine op " ^ t) in
  go toks []

let run_engine toks =
  let e = Engine.run engine0 (parse_engine_ops toks) in
  let d = Engine.dump e (nat_of_int 0x45) in
  String.concat " " (Stdlib.List.map (fun ((x, y), n) ->
    opt hex_of_z x ^ "," ^ opt hex_of_z y ^ "," ^ opt hex_of_bytes n) d)

(* ---- file-like op histories ------------------------------------------------ *)
(* ops: r <n> | s <off> <whence> | w <hex> | t *)
let parse_wops (toks : string list) : wop list =
  let rec go toks acc =
    match toks with
    | [] -> Stdlib.List.rev acc
    | "r" :: n :: r -> go r (WRead (z_of_hex n) :: acc)
    | "s" :: o :: wh :: r -> go r (WSeek (z_of_hex o, z_of_hex wh) :: acc)
    | "w" :: d :: r -> go r (WWrite (bytes_of_hex d) :: acc)
    | "t" :: r -> go r (WTell :: acc)
    | t :: _ -> failwith ("file op " ^ t) in
  go toks []

let show_wres (r : wres) : string =
  match r with
  | RBytes b -> hex_of_bytes b
  | RInt n -> "i:" ^ hex_of_z n
  | RErr e -> "e:" ^ err_name e

(* window <off> <sz> <basehex> ops...  ->  results... | final base bytes *)
let run_window toks =
  match toks with
  | off :: sz :: base :: ops ->
    let w0 = { wbase = { fdata = bytes_of_hex base; fpos = Z0 }; wseek = Z0 } in
    let (rs, w) = win_run (z_of_hex off) (z_of_hex sz) w0 (parse_wops ops) in
    String.concat " " (Stdlib.List.map show_wres rs) ^ " | " ^ hex_of_bytes w.wbase.fdata
  | _ -> failwith "window args"

(* ---- primitive call-backs: answered by the Python side over the same pipe ---- *)
let query (name : string) (args : string list) : string =
  print_string ("Q " ^ name ^ " " ^ String.concat " " args); print_newline ();
  input_line stdin

let aes_enc (key : coq_Z list) (blk : coq_Z list) : coq_Z list =
  bytes_of_hex (query "aes_enc" [hex_of_bytes key; hex_of_bytes blk])
let aes_dec (key : coq_Z list) (blk : coq_Z list) : coq_Z list =
  bytes_of_hex (query "aes_dec" [hex_of_bytes key; hex_of_bytes blk])

let parse_cops (toks : string list) : cop list =
  let rec go toks acc =
    match toks with
    | [] -> Stdlib.List.rev acc
    | "r" :: n :: r -> go r (CRead (z_of_hex n) :: acc)
    | "s" :: o :: wh :: r -> go r (CSeek (z_of_hex o, z_of_hex wh) :: acc)
    | "w" :: d :: r -> go r (CWrite (bytes_of_hex d) :: acc)
    | "t" :: r -> go r (CTell :: acc)
    | t :: _ -> failwith ("file op " ^ t) in
  go toks []

let show_cres (r : cres) : string =
  match r with
  | CBytes b -> hex_of_bytes b
  | CInt n -> "i:" ^ hex_of_z n
  | CErr e -> "e:" ^ err_name e

(* ctr <twl> <plain|window> <off> <sz> <key> <counter> <base> ops... *)
let run_ctr toks =
  match toks with
  | twl :: kind :: off :: sz :: key :: ctr :: base :: ops ->
    let twl = bool_of_tok twl in
    let key = bytes_of_hex key and ctr = z_of_hex ctr and ops = parse_cops ops in
    let f0 = { fdata = bytes_of_hex base; fpos = Z0 } in
    if kind = "plain" then begin
      let (rs, io) = ctr_run aes_enc pyfile_ops key ctr twl { cu = f0; ccache = None; cenc = false } ops in
      String.concat " " (Stdlib.List.map show_cres rs) ^ " | " ^ hex_of_bytes io.cu.fdata
    end else begin
      let u = WindowProofs.window_ops (z_of_hex off) (z_of_hex sz) in
      let (rs, io) = ctr_run aes_enc u key ctr twl { cu = { wbase = f0; wseek = Z0 }; ccache = None; cenc = false } ops in
      String.concat " " (Stdlib.List.map show_cres rs) ^ " | " ^ hex_of_bytes io.cu.wbase.fdata
    end
  | _ -> failwith "ctr args"

let parse_bops (toks : string list) : bop list =
  let rec go toks acc =
    match toks with
    | [] -> Stdlib.List.rev acc
    | "r" :: n :: r -> go r (BRead (z_of_hex n) :: acc)
    | "s" :: o :: wh :: r -> go r (BSeek (z_of_hex o, z_of_hex wh) :: acc)
    | "t" :: r -> go r (BTell :: acc)
    | t :: _ -> failwith ("cbc op " ^ t) in
  go toks []

let show_bres (r : bres) : string =
  match r with
  | BBytes b -> hex_of_bytes b
  | BInt n -> "i:" ^ hex_of_z n
  | BErr e -> "e:" ^ err_name e

(* cbc <plain|window> <off> <sz> <key> <iv> <base> ops... *)
let run_cbc toks =
  match toks with
  | kind :: off :: sz :: key :: iv :: base :: ops ->
    let key = bytes_of_hex key and iv = bytes_of_hex iv and ops = parse_bops ops in
    let f0 = { fdata = bytes_of_hex base; fpos = Z0 } in
    if kind = "plain" then begin
      let (rs, s) = cbc_run aes_dec pyfile_ops key iv f0 ops in
      String.concat " " (Stdlib.List.map show_bres rs) ^ " | " ^ hex_of_bytes s.fdata
    end else begin
      let u = WindowProofs.window_ops (z_of_hex off) (z_of_hex sz) in
      let (rs, s) = cbc_run aes_dec u key iv { wbase = f0; wseek = Z0 } ops in
      String.concat " " (Stdlib.List.map show_bres rs) ^ " | " ^ hex_of_bytes s.wbase.fdata
    end
  | _ -> failwith "cbc args"

(* exefs <headerhex>  ->  name,offset,size,hash ...   or e:Error *)
let run_exefs toks =
  match toks with
  | [hdr] ->
    (match exefs_parse (bytes_of_hex hdr) with
     | Ok es -> String.concat " " (Stdlib.List.map (fun e ->
         hex_of_bytes e.en_name ^ "," ^ hex_of_z e.en_offset ^ "," ^ hex_of_z e.en_size ^ "," ^ hex_of_bytes e.en_hash) es)
     | Err e -> "e:" ^ err_name e)
  | _ -> failwith "exefs args"

let sha256 (d : coq_Z list) : coq_Z list = bytes_of_hex (query "sha256" [hex_of_bytes d])

(* tmd <verify 0/1> <rawhex> *)
let run_tmd toks =
  match toks with
  | [v; raw] ->
    (match tmd_load sha256 (bool_of_tok v) (bytes_of_hex raw) with
     | Ok t ->
       "ok " ^ hex_of_z t.t_sigtype ^ " " ^ hex_of_bytes t.t_sig ^ " " ^ hex_of_bytes t.t_header ^ " I "
       ^ String.concat " " (Stdlib.List.map (fun i -> hex_of_z i.i_off ^ "," ^ hex_of_z i.i_cnt ^ "," ^ hex_of_bytes i.i_hash) t.t_infos)
       ^ " C "
       ^ String.concat " " (Stdlib.List.map (fun c -> hex_of_bytes c.c_id ^ "," ^ hex_of_z c.c_index ^ "," ^ hex_of_z c.c_type
                                             ^ "," ^ hex_of_z c.c_size ^ "," ^ hex_of_bytes c.c_hash) t.t_chunks)
     | Err e -> "e:" ^ err_name e)
  | _ -> failwith "tmd args"

(* tmdrt <verify 0/1> <rawhex>: bytes(load(raw)) and the fields of the loaded object *)
let run_tmdrt toks =
  match toks with
  | [v; raw] ->
    (match tmd_load sha256 (bool_of_tok v) (bytes_of_hex raw) with
     | Ok t ->
       let o = obj_of t in
       let ser = (match ser_obj sha256 o with Ok b -> hex_of_bytes b | Err e -> "e:" ^ err_name e) in
       "ok " ^ ser ^ " F " ^ String.concat " " [
         hex_of_bytes o.o_issuer; hex_of_z o.o_version; hex_of_z o.o_ca_crl; hex_of_z o.o_signer_crl; hex_of_z o.o_reserved1;
         hex_of_bytes o.o_sysver; hex_of_bytes o.o_tid; hex_of_bytes o.o_ttype; hex_of_bytes o.o_group;
         hex_of_z o.o_save; hex_of_z o.o_srl_save; hex_of_bytes o.o_reserved2; hex_of_z o.o_srl_flag; hex_of_bytes o.o_reserved3;
         hex_of_bytes o.o_access; hex_of_z o.o_tver; hex_of_z o.o_count; hex_of_bytes o.o_boot; hex_of_bytes o.o_padding]
     | Err e -> "e:" ^ err_name e)
  | _ -> failwith "tmdrt args"

(* ranges <size> s,e s,e ...  ->  a,b,l ... *)
let run_ranges toks =
  match toks with
  | size :: rest ->
    let extra = Stdlib.List.map (fun t -> match String.split_on_char ',' t with
      | [a; b] -> (z_of_hex a, z_of_hex b) | _ -> failwith "range") rest in
    String.concat " " (Stdlib.List.map (fun ((a, b), l) -> hex_of_z a ^ "," ^ hex_of_z b ^ "," ^ (if l then "1" else "0"))
      (exefs_ranges extra (z_of_hex size)))
  | _ -> failwith "ranges args"

(* fulldec <content> <raw> <6 x off,size,plain in the order romfs exefs header extheader logo plain> <off> <size> *)
let run_fulldec toks =
  match toks with
  | [content; raw; r1; r2; r3; r4; r5; r6; off; size] ->
    let reg t = match String.split_on_char ',' t with
      | [o; s; p] -> { r_off = z_of_hex o; r_size = z_of_hex s; r_plain = bytes_of_hex p } | _ -> failwith "region" in
    let n = { n_romfs = reg r1; n_exefs = reg r2; n_header = reg r3; n_ext = reg r4; n_logo = reg r5; n_plain = reg r6;
              n_content = z_of_hex content; n_raw = bytes_of_hex raw } in
    hex_of_bytes (fulldec_read n (z_of_hex off) (z_of_hex size))
  | _ -> failwith "fulldec args"

(* fulldeca: the same with the length of the file as the bound (the header may declare more than the file holds): raw = the file
   from the start of the container  ->  bytes | units walked over *)
let run_fulldeca toks =
  match toks with
  | [content; raw; r1; r2; r3; r4; r5; r6; off; size] ->
    let reg t = match String.split_on_char ',' t with
      | [o; s; p] -> { r_off = z_of_hex o; r_size = z_of_hex s; r_plain = bytes_of_hex p } | _ -> failwith "region" in
    let rawb = bytes_of_hex raw in
    let n = { n_romfs = reg r1; n_exefs = reg r2; n_header = reg r3; n_ext = reg r4; n_logo = reg r5; n_plain = reg r6;
              n_content = z_of_hex content; n_raw = rawb } in
    let avail = z_of_int (Stdlib.List.length rawb) in
    hex_of_bytes (fulldec_read_avail n avail (z_of_hex off) (z_of_hex size)) ^ " " ^ hex_of_z (fulldec_units (z_of_hex content) avail (z_of_hex off) (z_of_hex size))
  | _ -> failwith "fulldeca args"

(* romfs <dirmeta> <filemeta>  ->  tree dump | e:Err *)
let rec show_node (n : node) : string =
  match n with
  | NDir (nm, ch) -> "D" ^ hex_of_bytes nm ^ "(" ^ String.concat ";" (Stdlib.List.map show_node ch) ^ ")"
  | NFile (nm, o, s) -> "F" ^ hex_of_bytes nm ^ "," ^ hex_of_z o ^ "," ^ hex_of_z s

let run_romfs toks =
  match toks with
  | [dm; fm] ->
    (match walk_bounded (bytes_of_hex dm) (bytes_of_hex fm) with
     | Ok n -> show_node n
     | Err e -> "e:" ^ err_name e)
  | _ -> failwith "romfs args"

(* romfspath <dirmeta> <filemeta> <path as UTF-16 code units, comma separated hex; "-" for the empty path>
   -> the entry the path names in case-sensitive mode (same dump as romfs, children left out) | e:Err *)
let run_romfspath toks =
  match toks with
  | [dm; fm; path] ->
    let units = if path = "-" then [] else Stdlib.List.map z_of_hex (String.split_on_char ',' path) in
    (match walk_bounded (bytes_of_hex dm) (bytes_of_hex fm) with
     | Err e -> "walk-e:" ^ err_name e
     | Ok root ->
       (match RomfsPath.lookup_path units root with
        | Err e -> "e:" ^ err_name e
        | Ok (NDir (nm, ch)) -> "D" ^ hex_of_bytes nm ^ "," ^ string_of_int (Stdlib.List.length ch)
        | Ok (NFile (nm, o, s)) -> "F" ^ hex_of_bytes nm ^ "," ^ hex_of_z o ^ "," ^ hex_of_z s))
  | _ -> failwith "romfspath args"

(* ncsd <0x100 header bytes>  ->  idx,offset,size ... | e:Err *)
let run_ncsd toks =
  match toks with
  | [hdr] ->
    (match ncsd_partitions (bytes_of_hex hdr) with
     | Ok ps -> String.concat " " (Stdlib.List.map (fun ((i, o), s) -> hex_of_z i ^ "," ^ hex_of_z o ^ "," ^ hex_of_z s) ps)
     | Err e -> "e:" ^ err_name e)
  | _ -> failwith "ncsd args"

(* sdkey <movable.sed hex>  ->  key id0 | e:Err *)
let run_sdkey toks =
  match toks with
  | [d] ->
    (match sd_key_of (bytes_of_hex d) with
     | Ok k -> hex_of_bytes k ^ " " ^ hex_of_bytes (id0_of sha256 k)
     | Err e -> "e:" ^ err_name e)
  | _ -> failwith "sdkey args"

(* ivfc <bs1> <bs2> <bs3> <bs4> <L1> <L2> <L3> <L4> <master hashes concatenated> li,b ...  ->  T/F/N per request *)
let run_ivfc toks =
  match toks with
  | b1 :: b2 :: b3 :: b4 :: l1 :: l2 :: l3 :: l4 :: mh :: reqs ->
    let lv d b = { lv_data = bytes_of_hex d; lv_bs = z_of_hex b } in
    let tree = [lv l1 b1; lv l2 b2; lv l3 b3; lv l4 b4] in
    let mbytes = bytes_of_hex mh in
    let rec chunks l = match l with [] -> [] | _ ->
      let rec take n l = if n = 0 then ([], l) else match l with [] -> ([], []) | x :: r -> let (a, b) = take (n - 1) r in (x :: a, b) in
      let (h, r) = take 32 l in h :: chunks r in
    let master = chunks mbytes in
    let rq = Stdlib.List.map (fun t -> match String.split_on_char ',' t with
      | [a; b] -> (nat_of_int (int_of_string a), z_of_hex b) | _ -> failwith "req") reqs in
    String.concat " " (Stdlib.List.map (fun v -> match v with Some true -> "T" | Some false -> "F" | None -> "N")
      (run_blocks sha256 tree master rq cempty))
  | _ -> failwith "ivfc args"

(* ivfcw <bs1..bs4> <L1..L4> <master> off,hex ...  ->  L1 L2 L3 L4 master *)
let run_ivfcw toks =
  match toks with
  | b1 :: b2 :: b3 :: b4 :: l1 :: l2 :: l3 :: l4 :: mh :: ws ->
    let lv d b = { lv_data = bytes_of_hex d; lv_bs = z_of_hex b } in
    let tree = [lv l1 b1; lv l2 b2; lv l3 b3; lv l4 b4] in
    let rec chunks l = match l with [] -> [] | _ ->
      let rec take n l = if n = 0 then ([], l) else match l with [] -> ([], []) | x :: r -> let (a, b) = take (n - 1) r in (x :: a, b) in
      let (h, r) = take 32 l in h :: chunks r in
    let master = chunks (bytes_of_hex mh) in
    let (t, m) = Stdlib.List.fold_left (fun (t, m) w -> match String.split_on_char ',' w with
      | [o; d] -> write_level sha256 (nat_of_int 3) (z_of_hex o) (bytes_of_hex d) t m | _ -> failwith "write") (tree, master) ws in
    String.concat " " (Stdlib.List.map (fun l -> hex_of_bytes l.lv_data) t) ^ " " ^ hex_of_bytes (Stdlib.List.concat m)
  | _ -> failwith "ivfcw args"

(* dpfsread <lv1 data> <selector> <lv2 data> <bs2> <lv3 area> <size3> <bs3> pos,n ...  ->  hex per read ("-" for empty) *)
let run_dpfsread toks =
  match toks with
  | l1 :: sel :: l2 :: bs2 :: l3 :: size3 :: bs3 :: reqs ->
    let d1 = bytes_of_hex l1 and d2 = bytes_of_hex l2 and d3 = bytes_of_hex l3 in
    String.concat " " (Stdlib.List.map (fun t -> match String.split_on_char ',' t with
      | [p; n] -> let r = dpfs_read d1 (z_of_hex sel) d2 (z_of_hex bs2) d3 (z_of_hex size3) (z_of_hex bs3) (z_of_hex p) (z_of_hex n) in
                  if r = [] then "-" else hex_of_bytes r
      | _ -> failwith "req") reqs)
  | _ -> failwith "dpfsread args"

(* dpfswrite <lv1 data> <selector> <lv2 data> <bs2> <lv3 area> <size3> <bs3> pos,hex ...  ->  counts... | final area *)
let run_dpfswrite toks =
  match toks with
  | l1 :: sel :: l2 :: bs2 :: l3 :: size3 :: bs3 :: ws ->
    let d1 = bytes_of_hex l1 and d2 = bytes_of_hex l2 in
    let words = lv2_words d2 (z_of_hex bs2) (lv1_words d1 (z_of_hex sel)) in
    let (area, counts) = Stdlib.List.fold_left (fun (area, counts) w -> match String.split_on_char ',' w with
      | [p; d] -> let (a, n) = lv3_write area (z_of_hex size3) (z_of_hex bs3) words (z_of_hex p) (bytes_of_hex d) in (a, hex_of_z n :: counts)
      | _ -> failwith "write") (bytes_of_hex l3, []) ws in
    String.concat " " (Stdlib.List.rev counts) ^ " | " ^ hex_of_bytes area
  | _ -> failwith "dpfswrite args"

(* lv4read <verify 0/1> <bs1..bs4> <L1..L4> <master> pos,n ...  ->  hex per read *)
let run_lv4read toks =
  match toks with
  | v :: b1 :: b2 :: b3 :: b4 :: l1 :: l2 :: l3 :: l4 :: mh :: reqs ->
    let lv d b = { lv_data = bytes_of_hex d; lv_bs = z_of_hex b } in
    let tree = [lv l1 b1; lv l2 b2; lv l3 b3; lv l4 b4] in
    let rec chunks l = match l with [] -> [] | _ ->
      let rec take n l = if n = 0 then ([], l) else match l with [] -> ([], []) | x :: r -> let (a, b) = take (n - 1) r in (x :: a, b) in
      let (h, r) = take 32 l in h :: chunks r in
    let master = chunks (bytes_of_hex mh) in
    String.concat " " (Stdlib.List.map (fun t -> match String.split_on_char ',' t with
      | [p; n] -> let r = lv4_read sha256 tree master (bool_of_tok v) (z_of_hex p) (z_of_hex n) in
                  if r = [] then "-" else hex_of_bytes r
      | _ -> failwith "req") reqs)
  | _ -> failwith "lv4read args"

(* lv4bound <level-4 data the file holds> <block size> <claimed size> <pos,n> ...  ->  per request the lengths of the blocks the
   loop fetches (hex, comma separated; "-" for none) | e:Err *)
let run_lv4bound toks =
  match toks with
  | d :: b :: c :: reqs ->
    String.concat " " (Stdlib.List.map (fun t -> match String.split_on_char ',' t with
      | [p; n] -> (match IvfcBound.read_blocks (bytes_of_hex d) (z_of_hex b) (z_of_hex c) (z_of_hex p) (z_of_hex n) with
                   | Err e -> "e:" ^ err_name e
                   | Ok bl -> if bl = [] then "-" else String.concat "," (Stdlib.List.map (fun x -> string_of_int (Stdlib.List.length x)) bl))
      | _ -> failwith "req") reqs)
  | _ -> failwith "lv4bound args"

(* ---- C16: closing ------------------------------------------------------ *)
let run_close toks =
  match toks with
  | [gs; ops] ->
    let ints s = if s = "" then [] else Stdlib.List.map (fun x -> nat_of_int (int_of_string x)) (String.split_on_char ',' s) in
    let g = Stdlib.List.map (fun n -> match String.split_on_char '|' n with
      | [a; b; c; d] -> { Close.n_guard = ints a; Close.n_under = ints b; Close.n_closes = ints c; Close.n_self = (d = "1") } | _ -> failwith "node") (String.split_on_char ';' gs) in
    let ops = if ops = "-" then [] else Stdlib.List.map (fun o ->
      let k = nat_of_int (int_of_string (String.sub o 1 (String.length o - 1))) in
      match o.[0] with 'c' -> Close.Close k | 's' -> Close.UseS k | 'd' -> Close.UseD k | _ -> failwith "op") (String.split_on_char ',' ops) in
    let (s, outs) = Close.run g Close.s0 ops in
    let n = Stdlib.List.length g in
    let flags = String.concat "" (Stdlib.List.init n (fun i -> if s (nat_of_int i) then "1" else "0")) in
    String.concat "" (Stdlib.List.map (function None -> "-" | Some true -> "1" | Some false -> "0") outs) ^ " " ^ flags
  | _ -> failwith "close args"

(* ---- C13: NAND header and counter inference ------------------------------ *)
let run_nandhdr toks =
  match toks with
  | [d] ->
    (match Nand.nand_parse (bytes_of_hex d) with
     | Err e -> "e:" ^ err_name e
     | Ok h ->
       let base_name b = match int_of_z b with 1 -> "twl" | 2 -> "ctr_old" | 3 -> "ctr_new" | 4 -> "firm" | 5 -> "agb" | _ -> "-" in
       let slots = Stdlib.List.mapi (fun i s -> (i, s)) h.Nand.h_slots in
       let show k (e : Nand.entry) = Printf.sprintf "%d,%d,%d,%s,%s,%s" k (int_of_z e.Nand.e_fs) (int_of_z e.Nand.e_crypt)
           (hex_of_z e.Nand.e_off) (hex_of_z e.Nand.e_size) (base_name e.Nand.e_base) in
       let direct = Stdlib.List.filter_map (fun (i, s) -> match s with Some e -> Some (i, show i e) | None -> None) slots in
       let alias = Stdlib.List.filter_map (fun (a, i) ->
         match Stdlib.List.nth h.Nand.h_slots (int_of_z i) with Some e -> Some (int_of_z a, show (int_of_z a) e) | None -> None) h.Nand.h_alias in
       let all = Stdlib.List.sort compare (direct @ alias) in
       String.concat " " (Stdlib.List.map snd all) ^ " | " ^ hex_of_bytes (Nand.nand_bytes h))
  | _ -> failwith "nandhdr args"

let run_nandinfer toks =
  match toks with
  | [mode; key; b0; b1; boff] ->
    let k = bytes_of_hex ("h:" ^ key) in
    let r = if mode = "ctr" then Nand.infer_ctr aes_enc aes_dec k (bytes_of_hex b0) (bytes_of_hex b1) (z_of_hex boff)
            else Nand.infer_twl aes_enc aes_dec k (bytes_of_hex b0) (bytes_of_hex b1) (z_of_hex boff) in
    (match r with Some c -> hex_of_z c | None -> "none")
  | _ -> failwith "nandinfer args"

(* ---- C19 / C20: backward LZSS decoder -------------------------------------- *)
let run_lzss toks =
  match toks with
  | [d] -> (match Lzss.decompress (bytes_of_hex d) with Ok out -> "ok:" ^ (let h = hex_of_bytes out in String.sub h 2 (String.length h - 2)) | Err e -> "e:" ^ err_name e)
  | _ -> failwith "lzss args"

(* ---- C15: threads, locks, shared positions -------------------------------- *)
let run_sched toks =
  match toks with
  | [lockofs; inits; files; progs; schedule] ->
    let split c s = if s = "-" || s = "" then [] else String.split_on_char c s in
    let pairs s = Stdlib.List.map (fun kv -> match String.split_on_char ':' kv with [k; v] -> (int_of_string k, v) | _ -> failwith "pair") (split ',' s) in
    let lk = Stdlib.List.map (fun (k, v) -> (k, int_of_string v)) (pairs lockofs) in
    let lockof n = nat_of_int (try Stdlib.List.assoc (int_of_nat n) lk with Not_found -> 0) in
    let iv = Stdlib.List.map (fun (k, v) -> (k, z_of_hex v)) (pairs inits) in
    let s0 n = (try Stdlib.List.assoc (int_of_nat n) iv with Not_found -> Z0) in
    let fl = Stdlib.List.map (fun (k, v) -> (k, z_of_hex v)) (pairs files) in
    let cont f = ((try Stdlib.List.assoc (int_of_nat f) fl with Not_found -> Z0), (fun (i : coq_Z) -> Z0)) in
    let var s = let k = nat_of_int (int_of_string (String.sub s 1 (String.length s - 1))) in if s.[0] = 's' then Sched.Sh k else Sched.Lo k in
    let expr s = match s.[0] with
      | 'c' -> Sched.EConst (z_of_hex (String.sub s 1 (String.length s - 1)))
      | 'L' -> Sched.EVarLast (var (String.sub s 1 (String.length s - 1)))
      | 'v' -> (match String.split_on_char '+' (String.sub s 1 (String.length s - 1)) with
                | [v; c] -> Sched.EVar (var v, z_of_hex c) | _ -> failwith "expr")
      | _ -> failwith "expr" in
    let action s = let body = String.sub s 1 (String.length s - 1) in
      match s.[0] with
      | 'A' -> Sched.Acq (nat_of_int (int_of_string body))
      | 'R' -> Sched.Rel (nat_of_int (int_of_string body))
      | 'S' -> (match String.split_on_char '=' body with [v; e] -> Sched.Set_ (var v, expr e) | _ -> failwith "set")
      | 'D' -> (match String.split_on_char ':' body with [v; f; n] -> Sched.Read (var v, nat_of_int (int_of_string f), z_of_hex n) | _ -> failwith "read")
      | 'W' -> (match String.split_on_char ':' body with [v; f; n] -> Sched.Write (var v, nat_of_int (int_of_string f), Stdlib.List.init (int_of_string n) (fun _ -> Z0)) | _ -> failwith "write")
      | 'T' -> Sched.Tell (var body)
      | _ -> failwith "action" in
    let ps = Stdlib.List.map (fun p -> Stdlib.List.map action (split ',' p)) (String.split_on_char '/' progs) in
    let sched = Stdlib.List.map (fun x -> nat_of_int (int_of_string x)) (split ',' schedule) in
    let g = Sched.guarded lockof ps in
    let c = Sched.run lockof (Sched.init_cfg ps s0 cont) sched in
    let show_obs = function
      | Sched.OBytes (p, b) -> "B" ^ hex_of_z p ^ ":" ^ string_of_int (Stdlib.List.length b)
      | Sched.OPos p -> "P" ^ hex_of_z p
      | Sched.OWrote (p, n) -> "W" ^ hex_of_z p ^ ":" ^ string_of_int (int_of_z n) in
    let n = Stdlib.List.length ps in
    let per t = let th = c.Sched.ths (nat_of_int t) in
      (if th.Sched.rem = [] then "F" else "U") ^ String.concat "," (Stdlib.List.map show_obs th.Sched.outS) in
    (if g then "guarded" else "unguarded") ^ " " ^ String.concat "/" (Stdlib.List.init n per)
  | _ -> failwith "sched args"

(* ---- C09: merged split file ------------------------------------------------ *)
let run_merger toks =
  match toks with
  | segs :: ops ->
    let segl = if segs = "-" then [] else Stdlib.List.map (fun h -> bytes_of_hex ("h:" ^ h)) (String.split_on_char ',' segs) in
    let op s = match String.split_on_char ',' s with
      | ["r"; n] -> Merger.MRead (z_of_hex n) | ["s"; o; w] -> Merger.MSeek (z_of_hex o, z_of_hex w) | ["t"] -> Merger.MTell | _ -> failwith "mop" in
    let res = Merger.m_run segl { Merger.m_fake = Z0; Merger.m_idx = O } (Stdlib.List.map op ops) in
    String.concat " " (Stdlib.List.map (function
      | Merger.RBytes b -> hex_of_bytes b | Merger.RInt z -> "i:" ^ hex_of_z z | Merger.RErr e -> "e:" ^ err_name e) res)
  | _ -> failwith "merger args"

(* posreader <datahex> ops (r,n / s,off,wh / t)  ->  results: a handle with a position of its own over `data` (_ReaderOpenFileBase) *)
let run_posreader toks =
  match toks with
  | data :: ops ->
    let d = bytes_of_hex data in
    let u = PosReader.pr_ops (Prelude.len d) (PosReader.rof_fetch d) in
    let rec go s ops acc = match ops with
      | [] -> Stdlib.List.rev acc
      | o :: r -> (match String.split_on_char ',' o with
          | ["r"; n] -> (match u.f_read s (z_of_hex n) with Ok (b, s') -> go s' r (hex_of_bytes b :: acc) | Err e -> go s r (("e:" ^ err_name e) :: acc))
          | ["s"; off; w] -> (match u.f_seek s (z_of_hex off) (z_of_hex w) with Ok (p, s') -> go s' r (("i:" ^ hex_of_z p) :: acc) | Err e -> go s r (("e:" ^ err_name e) :: acc))
          | ["t"] -> go s r (("i:" ^ hex_of_z (u.f_tell s)) :: acc)
          | _ -> failwith "posreader op") in
    String.concat " " (go { PosReader.pr_pos = Z0 } ops [])
  | _ -> failwith "posreader args"

(* ---- C20: hand-modelled codecs ------------------------------------------------ *)
let run_codec toks =
  match toks with
  | ["ivfc"; d] -> (match Codecs.ivfc_from_bytes (bytes_of_hex d) with
      | Err e -> "e:" ^ err_name e
      | Ok v -> String.concat "," (Stdlib.List.map (fun l -> hex_of_z l.Codecs.l_off ^ ":" ^ hex_of_z l.Codecs.l_size ^ ":" ^ hex_of_z l.Codecs.l_log2) v.Codecs.iv_levels)
                ^ " " ^ hex_of_z v.Codecs.iv_mhs ^ " " ^ hex_of_z v.Codecs.iv_dsize ^ " " ^ hex_of_bytes (Codecs.ivfc_to_bytes v))
  | ["dpfs"; d] -> (match Codecs.dpfs_from_bytes (bytes_of_hex d) with
      | Err e -> "e:" ^ err_name e
      | Ok v -> String.concat "," (Stdlib.List.map (fun l -> hex_of_z l.Codecs.l_off ^ ":" ^ hex_of_z l.Codecs.l_size ^ ":" ^ hex_of_z l.Codecs.l_log2) v.Codecs.dp_levels)
                ^ " " ^ hex_of_bytes (Codecs.dpfs_to_bytes v))
  | ["seeddb"; d] ->
      let db = Codecs.seeddb_load (bytes_of_hex d) [] in
      String.concat "," (Stdlib.List.map (fun (k, v) -> hex_of_z k ^ ":" ^ (let h = hex_of_bytes v in String.sub h 2 (String.length h - 2))) db)
      ^ " " ^ hex_of_bytes (Codecs.seeddb_save db)
  | ["cfgsave"; table; d] ->
      (* table: id:flags:size,... (KNOWN_BLOCKS of the module under test); d: a 0x8000-byte image.  -> loaded blocks, re-serialised image *)
      let tbl = if table = "-" then [] else Stdlib.List.map (fun t -> match String.split_on_char ':' t with
        | [i; f; z] -> (z_of_hex i, (z_of_hex f, z_of_hex z)) | _ -> failwith "known") (String.split_on_char ',' table) in
      let known id = (try Some (Stdlib.List.assoc id tbl) with Not_found -> None) in
      (match CfgSave.cfg_load known (bytes_of_hex d) with
       | Err e -> "e:" ^ err_name e
       | Ok bs -> String.concat "," (Stdlib.List.map (fun b -> hex_of_z b.CfgSave.b_id ^ ":" ^ hex_of_z b.CfgSave.b_flags ^ ":" ^
                                       (let h = hex_of_bytes b.CfgSave.b_data in String.sub h 2 (String.length h - 2))) bs)
                  ^ " " ^ (match CfgSave.cfg_bytes bs with Ok r -> hex_of_bytes r | Err e -> "e:" ^ err_name e))
  | ["apptitle"; d] ->
      (* 0x200 bytes -> the three strings as code points (hex, comma separated; "-" for empty), then the re-serialisation *)
      let cps l = if l = [] then "-" else String.concat "," (Stdlib.List.map hex_of_z l) in
      (match AppTitle.title_parse (bytes_of_hex d) with
       | Err e -> "e:" ^ err_name e
       | Ok t -> cps t.AppTitle.short_desc ^ " " ^ cps t.AppTitle.long_desc ^ " " ^ cps t.AppTitle.publisher ^ " " ^ hex_of_bytes (AppTitle.title_bytes t))
  | _ -> failwith "codec args"

let dispatch (line : string) : string =
  match String.split_on_char ' ' (String.trim line) with
  | "engine" :: toks -> run_engine toks
  | "window" :: toks -> run_window toks
  | "ctr" :: toks -> run_ctr toks
  | "cbc" :: toks -> run_cbc toks
  | "exefs" :: toks -> run_exefs toks
  | "tmd" :: toks -> run_tmd toks
  | "tmdrt" :: toks -> run_tmdrt toks
  | "ranges" :: toks -> run_ranges toks
  | "fulldec" :: toks -> run_fulldec toks
  | "fulldeca" :: toks -> run_fulldeca toks
  | "romfs" :: toks -> run_romfs toks
  | "romfspath" :: toks -> run_romfspath toks
  | "ncsd" :: toks -> run_ncsd toks
  | "sdkey" :: toks -> run_sdkey toks
  | "ivfc" :: toks -> run_ivfc toks
  | "ivfcw" :: toks -> run_ivfcw toks
  | "dpfsread" :: toks -> run_dpfsread toks
  | "dpfswrite" :: toks -> run_dpfswrite toks
  | "lv4read" :: toks -> run_lv4read toks
  | "lv4bound" :: toks -> run_lv4bound toks
  | "close" :: toks -> run_close toks
  | "nandhdr" :: toks -> run_nandhdr toks
  | "lzss" :: toks -> run_lzss toks
  | "sched" :: toks -> run_sched toks
  | "merger" :: toks -> run_merger toks
  | "posreader" :: toks -> run_posreader toks
  | "codec" :: toks -> run_codec toks
  | "nandinfer" :: toks -> run_nandinfer toks
  | e :: _ -> failwith ("unknown entry " ^ e)
  | [] -> ""

let () =
  try
    while true do
      let line = input_line stdin in
      let out = try dispatch line with Failure m -> "DRIVER-ERROR " ^ m in
      print_string out; print_newline ()
    done
  with End_of_file -> ()
