
type nat =
| O
| S of nat

val app : 'a1 list -> 'a1 list -> 'a1 list

type comparison =
| Eq
| Lt
| Gt

val compOpp : comparison -> comparison

type positive =
| XI of positive
| XO of positive
| XH

type n =
| N0
| Npos of positive

type z =
| Z0
| Zpos of positive
| Zneg of positive

module Pos :
 sig
  val succ : positive -> positive

  val add : positive -> positive -> positive

  val add_carry : positive -> positive -> positive

  val pred_double : positive -> positive

  val pred_N : positive -> n

  val mul : positive -> positive -> positive

  val iter : ('a1 -> 'a1) -> 'a1 -> positive -> 'a1

  val compare_cont : comparison -> positive -> positive -> comparison

  val compare : positive -> positive -> comparison

  val eqb : positive -> positive -> bool

  val coq_Nsucc_double : n -> n

  val coq_Ndouble : n -> n

  val coq_lxor : positive -> positive -> n

  val of_succ_nat : nat -> positive
 end

module N :
 sig
  val succ_pos : n -> positive

  val coq_lxor : n -> n -> n
 end

module Z :
 sig
  val double : z -> z

  val succ_double : z -> z

  val pred_double : z -> z

  val pos_sub : positive -> positive -> z

  val add : z -> z -> z

  val opp : z -> z

  val sub : z -> z -> z

  val mul : z -> z -> z

  val pow_pos : z -> positive -> z

  val pow : z -> z -> z

  val compare : z -> z -> comparison

  val leb : z -> z -> bool

  val ltb : z -> z -> bool

  val gtb : z -> z -> bool

  val eqb : z -> z -> bool

  val of_nat : nat -> z

  val of_N : n -> z

  val pos_div_eucl : positive -> z -> z * z

  val div_eucl : z -> z -> z * z

  val div : z -> z -> z

  val modulo : z -> z -> z

  val coq_lxor : z -> z -> z
 end

val rev : 'a1 list -> 'a1 list

val map : ('a1 -> 'a2) -> 'a1 list -> 'a2 list

val fold_left : ('a1 -> 'a2 -> 'a1) -> 'a2 list -> 'a1 -> 'a1

val seq : nat -> nat -> nat list

type err =
| ValueError
| TypeError
| KeyError
| IndexError
| OverflowError
| NotImplementedErr
| RecursionErr
| AttributeErr
| OutOfFuel
| Pyctr of z

type 'a result =
| Ok of 'a
| Err of err

val le_decode : z list -> z

val be_decode : z list -> z

val le_encode : nat -> z -> z list

val be_encode : nat -> z -> z list

val w : z

val rotl128 : z -> z -> z

val c3DS : z

val cTWL : z

val scramble3ds : z -> z -> z

val scrambleTwl : z -> z -> z

val keygen3ds : z -> z -> z list

val keygentwl : z -> z -> z list

type 'a fmap = z -> 'a option

val fempty : 'a1 fmap

val fupd : 'a1 fmap -> z -> 'a1 -> 'a1 fmap

type engine = { kx : z fmap; ky : z fmap; kn : z list fmap }

val engine0 : engine

val keygen_slot : z -> z -> z -> z list

val keygen : engine -> z -> z list result

type op =
| SetKey of bool * z * z * bool
| SetKeyBytes of bool * z * z list * bool
| SetNormal of z * z list
| Refresh

val key_of_bytes : z -> z list -> z

val set_keyslot : engine -> bool -> z -> z -> bool -> engine

val refresh : engine -> engine

val step : engine -> op -> engine

val run : engine -> op list -> engine

val normal_for : engine -> z -> z list result

val dump : engine -> nat -> ((z option * z option) * z list option) list
