#!/bin/sh
# Extract the models (one OCaml module per Coq module) and build the model runner.
set -e
cd "$(dirname "$0")"
rm -rf gen && mkdir gen && cd gen
timeout 900 coqc -Q ../../coq Pyctr ../../coq/Extract/Extract.v >/dev/null
rm -f ../../coq/Extract/Extract.vo ../../coq/Extract/Extract.glob ../../coq/Extract/.Extract.aux ../../coq/Extract/Extract.vok ../../coq/Extract/Extract.vos
cp ../driver_base.ml ../driver.ml .
files=$(ocamlfind ocamldep -sort *.ml *.mli)
timeout 900 ocamlfind ocamlopt -O3 -unboxed-types 2>/dev/null -w -a $files -o ../modelrun || \
timeout 900 ocamlfind ocamlopt -w -a $files -o ../modelrun
