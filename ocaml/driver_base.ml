(* Trusted glue: conversions between text and the extracted inductive numbers. *)
open BinNums
open Datatypes
open Prelude

let rec pos_of_bits (bits : bool list) : positive =
  (* bits: most significant first, first bit is 1 *)
  match bits with
  | [] -> failwith "pos_of_bits"
  | _ :: rest -> Stdlib.List.fold_left (fun acc b -> if b then Coq_xI acc else Coq_xO acc) Coq_xH rest

let hexval c =
  match c with
  | '0'..'9' -> Char.code c - 48
  | 'a'..'f' -> Char.code c - 87
  | 'A'..'F' -> Char.code c - 55
  | _ -> failwith ("bad hex digit " ^ String.make 1 c)

let z_of_hex (s : string) : coq_Z =
  let neg, s = if String.length s > 0 && s.[0] = '-' then true, String.sub s 1 (String.length s - 1) else false, s in
  let s = if String.length s >= 2 && s.[0] = '0' && (s.[1] = 'x' || s.[1] = 'X') then String.sub s 2 (String.length s - 2) else s in
  let bits = ref [] in
  String.iter (fun c -> let v = hexval c in
    bits := (v land 1 <> 0) :: (v land 2 <> 0) :: (v land 4 <> 0) :: (v land 8 <> 0) :: !bits) s;
  let bits = Stdlib.List.rev !bits in
  let rec strip = function false :: r -> strip r | l -> l in
  match strip bits with
  | [] -> Z0
  | l -> let p = pos_of_bits l in if neg then Zneg p else Zpos p

let z_of_int (n : int) : coq_Z = z_of_hex (if n < 0 then Printf.sprintf "-%x" (-n) else Printf.sprintf "%x" n)

let rec pos_bits (p : positive) (acc : bool list) : bool list =
  (* returns bits most significant first *)
  match p with
  | Coq_xH -> true :: acc
  | Coq_xO q -> pos_bits q (false :: acc)
  | Coq_xI q -> pos_bits q (true :: acc)

let hex_of_pos (p : positive) : string =
  let bits = pos_bits p [] in
  let n = Stdlib.List.length bits in
  let pad = (4 - n mod 4) mod 4 in
  let bits = Stdlib.List.init pad (fun _ -> false) @ bits in
  let buf = Buffer.create 16 in
  let rec go = function
    | a :: b :: c :: d :: r ->
      let v = (if a then 8 else 0) + (if b then 4 else 0) + (if c then 2 else 0) + (if d then 1 else 0) in
      Buffer.add_char buf "0123456789abcdef".[v]; go r
    | [] -> ()
    | _ -> failwith "hex_of_pos" in
  go bits; Buffer.contents buf

let hex_of_z (v : coq_Z) : string =
  match v with
  | Z0 -> "0"
  | Zpos p -> hex_of_pos p
  | Zneg p -> "-" ^ hex_of_pos p

let int_of_z (v : coq_Z) : int = int_of_string ((match v with Zneg _ -> "-0x" | _ -> "0x") ^ (match v with Z0 -> "0" | Zpos p | Zneg p -> hex_of_pos p))

(* small integers 0..255 cached *)
let byte_tab : coq_Z array = Array.init 256 z_of_int

let bytes_of_hex (s : string) : coq_Z list =
  (* "h:" prefix then hex pairs *)
  let s = if String.length s >= 2 && s.[0] = 'h' && s.[1] = ':' then String.sub s 2 (String.length s - 2) else s in
  let n = String.length s / 2 in
  Stdlib.List.init n (fun i -> byte_tab.(hexval s.[2*i] * 16 + hexval s.[2*i+1]))

let hex_of_bytes (l : coq_Z list) : string =
  let buf = Buffer.create 64 in
  Buffer.add_string buf "h:";
  Stdlib.List.iter (fun b -> Buffer.add_string buf (Printf.sprintf "%02x" (int_of_z b land 255))) l;
  Buffer.contents buf

let rec nat_of_int (n : int) : nat = if n <= 0 then O else S (nat_of_int (n - 1))
let rec int_of_nat (n : nat) : int = match n with O -> 0 | S m -> 1 + int_of_nat m

let bool_of_tok s = (s = "1" || s = "T")

let err_name (e : err) : string =
  match e with
  | ValueError -> "ValueError" | TypeError -> "TypeError" | KeyError -> "KeyError"
  | IndexError -> "IndexError" | OverflowError -> "OverflowError"
  | NotImplementedErr -> "NotImplementedError" | RecursionErr -> "RecursionError"
  | AttributeErr -> "AttributeError" | OutOfFuel -> "OutOfFuel" | UnicodeErr -> "UnicodeDecodeError"
  | Pyctr n -> "Pyctr" ^ string_of_int (int_of_z n)
