(* C15: threads, locks and shared positions.
   Objects with a position that more than one thread can reach (the base file, a window or wrapper shared between handles) are
   SHARED variables [Sh n] holding an integer; what only one thread reaches (its own handle, its private wrappers) are LOCAL
   variables [Lo n] of that thread.  A thread (one per handle) is a list of atomic ACTIONS read off the real code by
   harness/threadtrace.py.
   The semantics is instrumented: next to the shared store every thread carries a PRIVATE copy of the shared variables, and the
   machine produces two observation streams -- what the thread really sees (through the shared store) and what it would see if
   nobody else could touch the positions (through its private copy).  The theorems say the two coincide for every schedule when
   the programs pass the computable discipline [guarded]. *)
From Coq Require Import List ZArith Bool Arith Lia.
Import ListNotations.
Open Scope Z_scope.

Inductive var := Sh (n : nat) | Lo (n : nat).
Definition lock := nat.
Definition fileid := nat.
Definition tid := nat.

Inductive expr := EConst (c : Z) | EVar (v : var) (c : Z) | EVarLast (v : var).    (* c | v + c | v + (length of my last transfer) *)

Inductive action :=
| Acq (l : lock) | Rel (l : lock)
| Set_ (v : var) (e : expr)
| Read (v : var) (f : fileid) (n : Z)            (* transfer n bytes of file f at position v; v advances *)
| Write (v : var) (f : fileid) (d : list Z)
| Tell (v : var).

Inductive obs := OBytes (pos : Z) (b : list Z) | OPos (p : Z) | OWrote (pos : Z) (n : Z).

Definition store := nat -> Z.
Definition upd (s : store) (v : nat) (x : Z) : store := fun w => if Nat.eqb w v then x else s w.

(* a file = (length, byte at each index); positions can be anywhere in a sparse gigabyte image, so no list of that length is built *)
Definition fcont := (Z * (Z -> Z))%type.
Fixpoint zrange (p : Z) (k : nat) : list Z := match k with O => [] | S k => p :: zrange (p + 1) k end.
Definition slicez (c : fcont) (p n : Z) : list Z :=
  let '(L, g) := c in map g (zrange p (Z.to_nat (Z.min n (L - p)))).
Definition overlayz (c : fcont) (p : Z) (d : list Z) : fcont :=
  let '(L, g) := c in
  (Z.max L (p + Z.of_nat (length d)), fun i => if (p <=? i) && (i <? p + Z.of_nat (length d)) then nth (Z.to_nat (i - p)) d 0 else g i).

Definition get (s lo : store) (v : var) : Z := match v with Sh n => s n | Lo n => lo n end.
Definition eval (s lo : store) (last : Z) (e : expr) : Z :=
  match e with EConst c => c | EVar v c => get s lo v + c | EVarLast v => get s lo v + last end.

Record thread := mkTh { rem : list action; loc : store; lastS : Z; outS : list obs;       (* as it runs on the shared store *)
                        priv : store; locP : store; lastP : Z; outP : list obs;           (* as it would run alone on the positions *)
                        held : list lock; stable : list nat }.

Definition files := fileid -> fcont.
Definition updf (c : files) (f : fileid) (x : fcont) : files := fun g => if Nat.eqb g f then x else c g.

Record config := mkCfg { sh : store; contS : files; contP : files; owner : lock -> option tid; ths : tid -> thread }.

Definition updo (o : lock -> option tid) (l : lock) (x : option tid) := fun m => if Nat.eqb m l then x else o m.
Definition updt (ts : tid -> thread) (t : tid) (x : thread) := fun u => if Nat.eqb u t then x else ts u.

Definition memn (x : nat) (l : list nat) : bool := existsb (Nat.eqb x) l.
Definition remn (x : nat) (l : list nat) : list nat := filter (fun y => negb (Nat.eqb y x)) l.

Section Sem.
Variable lockof : nat -> lock.            (* which lock protects shared variable n *)

(* assignment / advance of a variable in the shared world and in the private world *)
Definition setS (c : config) (th : thread) (v : var) (x : Z) : store * store :=
  match v with Sh n => (upd (sh c) n x, loc th) | Lo n => (sh c, upd (loc th) n x) end.
Definition setP (th : thread) (v : var) (x : Z) : store * store :=
  match v with Sh n => (upd (priv th) n x, locP th) | Lo n => (priv th, upd (locP th) n x) end.
Definition stab_after (th : thread) (v : var) : list nat :=
  match v with Sh n => if memn (lockof n) (held th) then n :: stable th else stable th | Lo _ => stable th end.

(* one step of thread t; None = not enabled (blocked on a lock) or finished *)
Definition step (c : config) (t : tid) : option config :=
  let th := ths c t in
  match rem th with
  | [] => None
  | a :: r =>
      match a with
      | Acq l =>
          match owner c l with
          | Some _ => None
          | None => Some (mkCfg (sh c) (contS c) (contP c) (updo (owner c) l (Some t))
                            (updt (ths c) t (mkTh r (loc th) (lastS th) (outS th) (priv th) (locP th) (lastP th) (outP th) (l :: held th) (stable th))))
          end
      | Rel l =>
          Some (mkCfg (sh c) (contS c) (contP c) (updo (owner c) l None)
                  (updt (ths c) t (mkTh r (loc th) (lastS th) (outS th) (priv th) (locP th) (lastP th) (outP th) (remn l (held th))
                                        (filter (fun v => negb (Nat.eqb (lockof v) l)) (stable th)))))
      | Set_ v e =>
          let '(s', lo') := setS c th v (eval (sh c) (loc th) (lastS th) e) in
          let '(p', lp') := setP th v (eval (priv th) (locP th) (lastP th) e) in
          Some (mkCfg s' (contS c) (contP c) (owner c)
                  (updt (ths c) t (mkTh r lo' (lastS th) (outS th) p' lp' (lastP th) (outP th) (held th) (stab_after th v))))
      | Read v f n =>
          let ps := get (sh c) (loc th) v in let pp := get (priv th) (locP th) v in
          let bs := slicez (contS c f) ps n in let bp := slicez (contP c f) pp n in
          let '(s', lo') := setS c th v (ps + Z.of_nat (length bs)) in
          let '(p', lp') := setP th v (pp + Z.of_nat (length bp)) in
          Some (mkCfg s' (contS c) (contP c) (owner c)
                  (updt (ths c) t (mkTh r lo' (Z.of_nat (length bs)) (outS th ++ [OBytes ps bs]) p' lp' (Z.of_nat (length bp)) (outP th ++ [OBytes pp bp])
                                        (held th) (stable th))))
      | Write v f d =>
          let ps := get (sh c) (loc th) v in let pp := get (priv th) (locP th) v in
          let '(s', lo') := setS c th v (ps + Z.of_nat (length d)) in
          let '(p', lp') := setP th v (pp + Z.of_nat (length d)) in
          Some (mkCfg s' (updf (contS c) f (overlayz (contS c f) ps d)) (updf (contP c) f (overlayz (contP c f) pp d)) (owner c)
                  (updt (ths c) t (mkTh r lo' (Z.of_nat (length d)) (outS th ++ [OWrote ps (Z.of_nat (length d))]) p' lp' (Z.of_nat (length d))
                                        (outP th ++ [OWrote pp (Z.of_nat (length d))]) (held th) (stable th))))
      | Tell v =>
          Some (mkCfg (sh c) (contS c) (contP c) (owner c)
                  (updt (ths c) t (mkTh r (loc th) (lastS th) (outS th ++ [OPos (get (sh c) (loc th) v)]) (priv th) (locP th) (lastP th)
                                        (outP th ++ [OPos (get (priv th) (locP th) v)]) (held th) (stable th))))
      end
  end.

(* a schedule is any list of thread ids; a step that is not enabled is skipped *)
Fixpoint run (c : config) (sched : list tid) : config :=
  match sched with
  | [] => c
  | t :: r => match step c t with Some c' => run c' r | None => run c r end
  end.

(* ---- the discipline, as an abstract interpretation of one thread's program ---- *)
Definition var_ok (stab : list nat) (v : var) : bool := match v with Sh n => memn n stab | Lo _ => true end.
Definition src_ok (stab : list nat) (e : expr) : bool :=
  match e with EConst _ => true | EVar v _ | EVarLast v => var_ok stab v end.

Fixpoint ok_from (hd : list lock) (stab : list nat) (p : list action) : bool :=
  match p with
  | [] => match hd with [] => true | _ => false end
  | a :: r =>
      match a with
      | Acq l => negb (memn l hd) && forallb (fun m => Nat.ltb m l) hd && ok_from (l :: hd) stab r
      | Rel l => memn l hd && ok_from (remn l hd) (filter (fun v => negb (Nat.eqb (lockof v) l)) stab) r
      | Set_ (Sh n) e => memn (lockof n) hd && src_ok stab e && ok_from hd (n :: stab) r
      | Set_ (Lo _) e => src_ok stab e && ok_from hd stab r
      | Read v _ _ | Write v _ _ | Tell v => var_ok stab v && ok_from hd stab r
      end
  end.

End Sem.

Definition init_thread (p : list action) (s : store) : thread := mkTh p (fun _ => 0) 0 [] s (fun _ => 0) 0 [] [] [].
Definition init_cfg (progs : list (list action)) (s : store) (c : files) : config :=
  mkCfg s c c (fun _ => None) (fun t => init_thread (nth t progs []) s).

Definition guarded (lockof : nat -> lock) (progs : list (list action)) : bool := forallb (ok_from lockof [] []) progs.

Definition finished (c : config) (n : nat) : bool := forallb (fun t => match rem (ths c t) with [] => true | _ => false end) (seq 0 n).
