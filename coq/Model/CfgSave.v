(* Executable model of the 3DS config savegame codec (pyctr/type/config/save.py): ConfigSaveReader.to_bytes / load /
   set_block.  Blocks of up to 4 bytes live inside their 12-byte entry; larger ones are laid out from the end of the 0x8000-byte
   file towards the entries, in entry order. *)
From Pyctr Require Import Base.Prelude Base.ListExt Base.PyInt Base.PySlice.

Record blk := mkBlk { b_id : Z; b_flags : Z; b_data : list Z }.

Definition CFG_SIZE : Z := 0x8000.
Definition allowed_flags (f : Z) : bool := (f =? 0x8) || (f =? 0xC) || (f =? 0xA) || (f =? 0xE).

(* dict[key] = value: an existing key keeps its place *)
Fixpoint dict_put (d : list blk) (b : blk) : list blk :=
  match d with
  | [] => [b]
  | x :: r => if b_id x =? b_id b then b :: r else x :: dict_put r b
  end.

Section C.
(* KNOWN_BLOCKS: block id -> (flags, size); regenerated from the module on every run for the correspondence *)
Variable known : Z -> option (Z * Z).

(* set_block(block_id, data, flags), strict *)
Definition set_block (d : list blk) (b : blk) : result (list blk) :=
  match known (b_id b) with
  | None => Err (Pyctr 91)
  | Some (ef, es) =>
      if negb (b_flags b =? ef) then Err (Pyctr 91) else
      if negb (len (b_data b) =? es) then Err (Pyctr 91) else
      if negb (allowed_flags (b_flags b)) then Err (Pyctr 92) else
      Ok (dict_put d b)
  end.

(* ---- to_bytes ---- *)
Definition ljust4 (d : list Z) : list Z := d ++ repeat 0 (Z.to_nat (4 - len d)).

Definition entry_bytes (b : blk) (field : list Z) : list Z :=
  le_encode 4 (b_id b) ++ field ++ le_encode 2 (len (b_data b)) ++ le_encode 2 (b_flags b).

(* the loop over self.blocks.items(): state = (current_offset, raw_entries joined, raw_block_datas joined) *)
Fixpoint tb_loop (limit : Z) (bs : list blk) (cur : Z) (entries datas : list Z) : result (Z * (list Z * list Z)) :=
  match bs with
  | [] => Ok (cur, (entries, datas))
  | b :: r =>
      let sz := len (b_data b) in
      if sz >? 4 then
        let cur' := cur - sz in
        if cur' <? limit then Err (Pyctr 93)
        else tb_loop limit r cur' (entries ++ entry_bytes b (le_encode 4 cur')) (b_data b ++ datas)
      else tb_loop limit r cur (entries ++ entry_bytes b (ljust4 (b_data b))) datas
  end.

Definition cfg_bytes (bs : list blk) : result (list Z) :=
  let limit := 4 + len bs * 12 in
  do (cur, (entries, datas)) <- tb_loop limit bs CFG_SIZE [] [];
  let hdr := le_encode 2 (len bs) ++ le_encode 2 cur ++ entries in
  if negb (len hdr =? limit) then Err (Pyctr 94) else
  if negb (cur =? CFG_SIZE - len datas) then Err (Pyctr 94) else
  let config := hdr ++ repeat 0 (Z.to_nat (CFG_SIZE - len datas - len hdr)) ++ datas in
  if negb (len config =? CFG_SIZE) then Err (Pyctr 94) else Ok config.

(* ---- load ---- *)
Fixpoint ld_loop (raw : list Z) (doff : Z) (ents : list Z) (n : nat) (last : Z) (d : list blk) : result (list blk) :=
  match n with
  | O => Ok d
  | S n =>
      let e := slice ents 0 12 in
      let id := le_decode (slice e 0 4) in
      let sz := le_decode (slice e 8 2) in
      let fl := le_decode (slice e 0xA 2) in
      if sz >? 4 then
        let off := le_decode (slice e 4 4) in
        let data := pyslice raw (Some off) (Some (off + sz)) in
        let last' := last - sz in
        if negb (last' =? off) || (last' <? doff) then Err (Pyctr 90) else
        do d' <- set_block d (mkBlk id fl data);
        ld_loop raw doff (drop ents 12) n last' d'
      else
        let data := pyslice e (Some 4) (Some (4 + sz)) in
        do d' <- set_block d (mkBlk id fl data);
        ld_loop raw doff (drop ents 12) n last d'
  end.

Definition cfg_load (raw : list Z) : result (list blk) :=
  if negb (len raw =? CFG_SIZE) then Err (Pyctr 90) else
  let count := le_decode (slice raw 0 2) in
  let doff := le_decode (slice raw 2 2) in
  let roof := 4 + 12 * count in
  if roof >? doff then Err (Pyctr 90) else
  ld_loop raw doff (pyslice raw (Some 4) (Some roof)) (Z.to_nat count) CFG_SIZE [].
End C.
