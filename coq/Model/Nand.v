(* C13: NAND.  Model of NANDNCSDHeader.from_bytes / __bytes__ (pyctr/type/nand.py): the typing table, the partition loop with its
   aliases and duplicate detection, the serialiser; the two counter-inference routines; a window read on any file-like object
   (SubsectionIO.read), used for partition views on the CTR wrappers. *)
From Pyctr Require Import Base.Prelude Base.ListExt Base.PyInt Base.PySlice Env.FileIface Spec.StreamCipher Model.Ncsd.

(* base file of a partition: 0 none, 1 twl, 2 ctr_old, 3 ctr_new, 4 firm, 5 agb *)
Definition base_of (fs crypt : Z) : Z :=
  if fs =? 1 then (if crypt =? 1 then 1 else if crypt =? 2 then 2 else if crypt =? 3 then 3 else 0)
  else if fs =? 3 then 4
  else if fs =? 4 then 5
  else 0.

(* keyslot and mode each base file is opened with (NAND.__init__): (keyslot, DSi mode, TWL counter) *)
Definition slot_of (base : Z) : option (Z * bool) :=
  if base =? 1 then Some (0x03, true) else if base =? 2 then Some (0x04, false) else if base =? 3 then Some (0x05, false)
  else if base =? 4 then Some (0x06, false) else if base =? 5 then Some (0x07, false) else None.

Record entry := mkEntry { e_fs : Z; e_crypt : Z; e_off : Z; e_size : Z; e_base : Z }.

Record nandhdr := mkHdr { h_sig : list Z; h_image_size : Z; h_actual : Z; h_slots : list (option entry);
                          h_alias : list (Z * Z);      (* alias section id -> slot *)
                          h_unknown : list Z; h_mbr : list Z }.

Definition zg (l : list Z) (i : Z) : Z := match zth l i with Some v => v | None => 0 end.

Definition slot_entry (fs_types crypt_types table : list Z) (i : Z) : option entry :=
  let fs := zg fs_types i in
  if fs =? 0 then None
  else let cr := zg crypt_types i in
       let info := slice table (8 * i) 8 in
       Some (mkEntry fs cr (le_decode (slice info 0 4) * 0x200) (le_decode (slice info 4 4) * 0x200) (base_of fs cr)).

Definition has_alias (al : list (Z * Z)) (a : Z) : bool := existsb (fun p => fst p =? a) al.

(* the alias part of the loop: extra_section_id per entry, FIRM0/FIRM1 by count, duplicates rejected *)
Fixpoint alias_loop (slots : list (option entry)) (i : Z) (firm_count : Z) (al : list (Z * Z)) : result (list (Z * Z)) :=
  match slots with
  | [] => Ok al
  | None :: r => alias_loop r (i + 1) firm_count al
  | Some e :: r =>
      let b := e_base e in
      let extra := if b =? 1 then Some (-11) else if (b =? 2) || (b =? 3) then Some (-15)
                   else if b =? 4 then (if firm_count =? 0 then Some (-13) else if firm_count =? 1 then Some (-14) else None)
                   else if b =? 5 then Some (-12) else None in
      let fc := if b =? 4 then firm_count + 1 else firm_count in
      match extra with
      | None => alias_loop r (i + 1) fc al
      | Some a => if has_alias al a then Err (Pyctr 80) else alias_loop r (i + 1) fc (al ++ [(a, i)])
      end
  end.

Definition nand_size (mu : Z) : option Z := if mu =? 0x200000 then Some 0x3AF00000 else if mu =? 0x280000 then Some 0x4D800000 else None.

Definition nand_parse (data : list Z) : result nandhdr :=
  if negb (len data =? 0x200) then Err (Pyctr 99)   (* struct.error *)
  else
    let mu := le_decode (slice data 0x104 4) in
    match nand_size mu with
    | None => Err KeyError
    | Some actual =>
        if negb (list_eqb (slice data 0x100 4) [78; 67; 83; 68]) then Err (Pyctr 80)
        else if negb (le_decode (slice data 0x108 8) =? 0) then Err (Pyctr 80)
        else
          let slots := map (slot_entry (slice data 0x110 8) (slice data 0x118 8) (slice data 0x120 64)) [0; 1; 2; 3; 4; 5; 6; 7] in
          do al <- alias_loop slots 0 0 [];
          Ok (mkHdr (slice data 0 0x100) (mu * 0x200) actual slots al (slice data 0x160 94) (slice data 0x1BE 66))
    end.

Definition nand_bytes (h : nandhdr) : list Z :=
  h_sig h ++ [78; 67; 83; 68] ++ le_encode 4 (h_image_size h / 0x200) ++ le_encode 8 0
  ++ map (fun s => match s with Some e => e_fs e | None => 0 end) (h_slots h)
  ++ map (fun s => match s with Some e => e_crypt e | None => 0 end) (h_slots h)
  ++ encode_table (map (fun s => match s with Some e => (e_off e / 0x200, e_size e / 0x200) | None => (0, 0) end) (h_slots h))
  ++ h_unknown h ++ h_mbr h.

(* ---- counter inference (NAND._generate_ctr_counter / _generate_twl_counter) ---- *)
Section I.
Variable E D : list Z -> list Z -> list Z.

Definition infer_ctr (key blk0 blk1 : list Z) (boff : Z) : option Z :=
  let c := be_decode (D key blk0) - boff in
  if list_eqb (xor_bytes blk1 (E key (be_encode 16 (c + boff + 1)))) (repeat 0 16) then Some c else None.

Definition twl_known0 : list Z := [0x18; 0x00; 0x06; 0x01; 0xA0; 0x3F; 0x97; 0x00; 0x00; 0x00; 0xA9; 0x7D; 0x04; 0x00; 0x00; 0x04].
Definition twl_known1 : list Z := [0x8e; 0x40; 0x06; 0x01; 0xa0; 0xc3; 0x8d; 0x80; 0x04; 0x00; 0xb3; 0x05; 0x01; 0x00; 0x00; 0x00].

Definition infer_twl (key blk0 blk1 : list Z) (boff : Z) : option Z :=
  let xored := Z.lxor (be_decode blk0) (be_decode twl_known0) in
  let c := be_decode (D key (le_encode 16 xored)) - boff in
  if list_eqb (xor_bytes blk1 (rev (E key (be_encode 16 (c + boff + 1))))) twl_known1 then Some c else None.
End I.

(* ---- SubsectionIO.read on any file-like object ---- *)
Definition sub_read {S} (U : fileops S) (off size sk : Z) (s : S) (n : Z) : result (list Z * S) :=
  let n1 := if n <? 0 then size - sk else n in
  if sk >? size then Ok ([], s)
  else let n2 := if sk + n1 >? size then size - sk else n1 in
       do (_, s1) <- f_seek U s (sk + off) 0;
       f_read U s1 n2.
