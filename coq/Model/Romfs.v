(* Executable model of the RomFS level-3 metadata walk (iterate_dir in pyctr/type/romfs.py, after the
   cycle / bounds repair) and of path lookup.  Loops that follow on-disk links run on explicit fuel. *)
From Pyctr Require Import Base.Prelude Base.ListExt Base.PyInt Base.PySlice.

Definition NONE : Z := 0xFFFFFFFF.

Inductive node :=
| NDir (name : list Z) (children : list node)           (* name: raw UTF-16LE bytes *)
| NFile (name : list Z) (offset size : Z).

Definition node_name (n : node) : list Z := match n with NDir nm _ => nm | NFile nm _ _ => nm end.

(* decode('utf-16le') fails on an odd number of bytes and on unpaired surrogates *)
Fixpoint utf16_ok_units (us : list Z) : bool :=
  match us with
  | [] => true
  | u :: r =>
      if (0xD800 <=? u) && (u <=? 0xDBFF) then
        match r with
        | l :: r' => (0xDC00 <=? l) && (l <=? 0xDFFF) && utf16_ok_units r'
        | [] => false
        end
      else if (0xDC00 <=? u) && (u <=? 0xDFFF) then false
      else utf16_ok_units r
  end.
Fixpoint units_of (b : list Z) : option (list Z) :=
  match b with
  | [] => Some []
  | lo :: hi :: r => match units_of r with Some us => Some (lo + 256 * hi :: us) | None => None end
  | _ => None
  end.
Definition utf16_ok (b : list Z) : bool := match units_of b with Some us => utf16_ok_units us | None => false end.

Definition memz (x : Z) (l : list Z) : bool := existsb (Z.eqb x) l.

Section W.
Variables (dirmeta filemeta : list Z).

(* the sibling chain of file entries starting at [off] *)
Fixpoint file_chain (fuel : nat) (off : Z) (seen : list Z) : result (list node * list Z) :=
  match fuel with
  | O => Err OutOfFuel
  | S f =>
      if memz off seen then Err (Pyctr 42) else
      let meta := slice filemeta off 0x20 in
      if negb (len meta =? 0x20) then Err (Pyctr 42) else
      let next := le_decode (slice meta 4 4) in
      let name := slice filemeta (off + 0x20) (le_decode (slice meta 0x1C 4)) in
      if negb (utf16_ok name) then Err UnicodeErr else
      let nd := NFile name (le_decode (slice meta 8 8)) (le_decode (slice meta 0x10 8)) in
      if next =? NONE then Ok ([nd], off :: seen)
      else do (rest, seen') <- file_chain f next (off :: seen); Ok (nd :: rest, seen')
  end.

(* a child directory named '' or containing '/' (UTF-16LE code unit 2F 00) is refused: it would alias its parent's path *)
Fixpoint has_slash (l : list Z) : bool :=
  match l with a :: b :: r => ((a =? 0x2F) && (b =? 0)) || has_slash r | _ => false end.
Definition bad_dir_name (nm : list Z) : bool := (len nm =? 0) || has_slash nm.

(* state: (seen directory offsets, seen file offsets) *)
Fixpoint dir_chain (fuel ffuel : nat) (off : Z) (seen : list Z * list Z) : result (list node * (list Z * list Z)) :=
  match fuel with
  | O => Err OutOfFuel
  | S f =>
      let '(sd, sf) := seen in
      if memz off sd then Err (Pyctr 42) else
      let meta := slice dirmeta off 0x18 in
      if negb (len meta =? 0x18) then Err (Pyctr 42) else
      let next := le_decode (slice meta 4 4) in
      let name := slice dirmeta (off + 0x18) (le_decode (slice meta 0x14 4)) in
      if negb (utf16_ok name) then Err UnicodeErr else
      if bad_dir_name name then Err (Pyctr 42) else
      let first_child := le_decode (slice meta 8 4) in
      let first_file := le_decode (slice meta 0xC 4) in
      (* iterate_dir on the child: its sub-directories, then its files *)
      do (subdirs, st1) <- (if first_child =? NONE then Ok ([], (off :: sd, sf))
                            else dir_chain f ffuel first_child (off :: sd, sf));
      do (files, sf2) <- (if first_file =? NONE then Ok ([], snd st1) else file_chain ffuel first_file (snd st1));
      let nd := NDir name (subdirs ++ files) in
      let st2 := (fst st1, sf2) in
      if next =? NONE then Ok ([nd], st2)
      else do (rest, st3) <- dir_chain f ffuel next st2; Ok (nd :: rest, st3)
  end.

(* the whole walk from the root entry at offset 0 *)
Definition walk (fuel ffuel : nat) : result node :=
  let meta := slice dirmeta 0 0x18 in
  if negb (len meta =? 0x18) then Err (Pyctr 42) else
  let first_child := le_decode (slice meta 8 4) in
  let first_file := le_decode (slice meta 0xC 4) in
  do (subdirs, st1) <- (if first_child =? NONE then Ok ([], ([0], [])) else dir_chain fuel ffuel first_child ([0], []));
  do (files, _) <- (if first_file =? NONE then Ok ([], snd st1) else file_chain ffuel first_file (snd st1));
  Ok (NDir [] (subdirs ++ files)).

(* fuel that depends on the table sizes only *)
Definition dir_fuel : nat := Z.to_nat (len dirmeta) + 1.
Definition file_fuel : nat := Z.to_nat (len filemeta) + 1.
Definition walk_bounded : result node := walk dir_fuel file_fuel.

End W.

(* ---- lookup ---- *)
Section L.
Variable lower : list Z -> list Z.          (* str.lower on the decoded name; uninterpreted *)
Variable ci : bool.

Definition key_of (nm : list Z) : list Z := if ci then lower nm else nm.

(* the reader's dict: a later entry with the same key replaces an earlier one *)
Fixpoint find_last (k : list Z) (ns : list node) : option node :=
  match ns with
  | [] => None
  | n :: r => match find_last k r with Some x => Some x | None => if list_eqb (key_of (node_name n)) k then Some n else None end
  end.

Fixpoint lookup (parts : list (list Z)) (cur : node) : result node :=
  match parts with
  | [] => Ok cur
  | p :: r =>
      match cur with
      | NDir _ children => match find_last (key_of p) children with Some n => lookup r n | None => Err (Pyctr 40) end
      | NFile _ _ _ => Err (Pyctr 40)       (* a file has no 'contents': KeyError -> not found *)
      end
  end.
End L.
