(* Executable model of CTRFileIO / TWLCTRFileIO / _TWLCryptoWrapper (pyctr/crypto/engine.py)
   over any file-like interface. *)
From Pyctr Require Import Base.Prelude Base.ListExt Base.PyInt Base.PySlice Env.FileIface Spec.StreamCipher Env.Cipher.

Section M.
Variable E : list Z -> list Z -> list Z.
Context {S : Type} (U : fileops S).
Variables (key : list Z) (counter : Z).

(* _reader state, _current_cipher, _current_cipher_encrypts *)
Record ctrio := mkCtrIO { cu : S; ccache : option ctr_cipher; cenc : bool }.

(* generated twins: Gen_engine.ctr_counter_expr / ctr_pad_before *)
Definition ctr_start_counter (cur : Z) : Z := counter + Z.shiftr cur 4.
Definition pad_before (cur : Z) : Z := cur mod 16.
Definition pad_after (pb dlen : Z) : Z := (- (pb + dlen)) mod 16.

Definition zeros (n : Z) : list Z := repeat 0 (Z.to_nat n).

(* the cached cipher, or a fresh one positioned at [cur] by discarding cur % 16 keystream bytes *)
Definition fresh_cipher (cur : Z) (enc : bool) : result ctr_cipher :=
  let c := ctr_new key (ctr_start_counter cur) in
  do (_, c') <- ctr_crypt E c enc (zeros (pad_before cur));
  Ok c'.

(* reuse only a cached cipher that runs in the wanted direction *)
Definition cipher_at (io : ctrio) (cur : Z) (enc : bool) : result ctr_cipher :=
  match ccache io with
  | Some c => if Bool.eqb (cenc io) enc then Ok c else fresh_cipher cur enc
  | None => fresh_cipher cur enc
  end.

Definition ctr_read (io : ctrio) (n : Z) : result (list Z * ctrio) :=
  let cur := f_tell U (cu io) in
  do (data, u') <- f_read U (cu io) n;
  do c <- cipher_at io cur false;
  do (out, c') <- ctr_crypt E c false data;
  Ok (out, mkCtrIO u' (Some c') false).

Definition ctr_write (io : ctrio) (d : list Z) : result (Z * ctrio) :=
  let cur := f_tell U (cu io) in
  do c <- cipher_at io cur true;
  do (ct, c') <- ctr_crypt E c true d;
  do (k, u') <- f_write U (cu io) ct;
  Ok (k, mkCtrIO u' (Some c') true).

Definition ctr_seek (io : ctrio) (o w : Z) : result (Z * ctrio) :=
  (* the cached cipher is dropped before the underlying seek is attempted *)
  do (p, u') <- f_seek U (cu io) o w;
  Ok (p, mkCtrIO u' None (cenc io)).

(* ---- DSi flavour ---- *)
Fixpoint revblocks_n (n : nat) (l : list Z) : list Z :=
  match n with O => [] | Datatypes.S n => rev (firstn 16 l) ++ revblocks_n n (skipn 16 l) end.
Definition revblocks (l : list Z) : list Z := revblocks_n ((length l + 15) / 16) l.

(* _TWLCryptoWrapper.encrypt = decrypt *)
Definition twl_crypt (c : ctr_cipher) (enc : bool) (data : list Z) : result (list Z) :=
  do (out, _) <- ctr_crypt E c enc (revblocks data);
  Ok (firstn (length data) (revblocks out)).

Definition twl_read (io : ctrio) (n : Z) : result (list Z * ctrio) :=
  let cur := f_tell U (cu io) in
  do (data, u') <- f_read U (cu io) n;
  let pb := pad_before cur in
  let pa := pad_after pb (len data) in
  let c := ctr_new key (ctr_start_counter cur) in
  let padded := zeros pb ++ data ++ zeros pa in
  do out <- twl_crypt c false padded;
  Ok (pyslice out (Some pb) (Some (len padded - pa)), mkCtrIO u' (ccache io) (cenc io)).

Definition twl_write (io : ctrio) (d : list Z) : result (Z * ctrio) :=
  let cur := f_tell U (cu io) in
  let pb := pad_before cur in
  let pa := pad_after pb (len d) in
  let c := ctr_new key (ctr_start_counter cur) in
  let padded := zeros pb ++ d ++ zeros pa in
  do out <- twl_crypt c true padded;
  do (k, u') <- f_write U (cu io) (pyslice out (Some pb) (Some (len padded - pa)));
  Ok (k, mkCtrIO u' (ccache io) (cenc io)).

Inductive cop := CRead (n : Z) | CSeek (o w : Z) | CWrite (d : list Z) | CTell.
Inductive cres := CBytes (b : list Z) | CInt (n : Z) | CErr (e : err).

Definition ctr_step (twl : bool) (io : ctrio) (o : cop) : cres * ctrio :=
  match o with
  | CRead n => match (if twl then twl_read io n else ctr_read io n) with
               | Ok (b, io') => (CBytes b, io') | Err e => (CErr e, io) end
  | CSeek o w => match ctr_seek io o w with
                 | Ok (p, io') => (CInt p, io') | Err e => (CErr e, mkCtrIO (cu io) None (cenc io)) end
  | CWrite d => match (if twl then twl_write io d else ctr_write io d) with
                | Ok (k, io') => (CInt k, io') | Err e => (CErr e, io) end
  | CTell => (CInt (f_tell U (cu io)), io)
  end.

Fixpoint ctr_run (twl : bool) (io : ctrio) (ops : list cop) : list cres * ctrio :=
  match ops with
  | [] => ([], io)
  | o :: r => let '(x, io1) := ctr_step twl io o in let '(xs, io2) := ctr_run twl io1 r in (x :: xs, io2)
  end.

End M.
