(* Executable model of the ExeFS header parser (pyctr/type/exefs.py: ExeFSReader.__init__). *)
From Pyctr Require Import Base.Prelude Base.ListExt Base.PyInt Base.PySlice.

Record exefs_entry := mkEntry { en_name : list Z; en_offset : Z; en_size : Z; en_hash : list Z }.

(* bytes.rstrip(b'\0') *)
Fixpoint rstrip0 (l : list Z) : list Z :=
  match l with
  | [] => []
  | x :: r => let r' := rstrip0 r in if (x =? 0) && (match r' with [] => true | _ => false end) then [] else x :: r'
  end.

Definition all_zero (l : list Z) : bool := forallb (fun x => x =? 0) l.
Definition is_ascii (l : list Z) : bool := forallb (fun x => x <? 128) l.

(* one 16-byte slot: None = empty slot *)
Definition decode_slot (raw hash : list Z) : result (option exefs_entry) :=
  if all_zero raw then Ok None else
  let name := rstrip0 (slice raw 0 8) in
  if negb (is_ascii name) then Err (Pyctr 12) else
  let off := le_decode (slice raw 8 4) in
  let sz := le_decode (slice raw 12 4) in
  if negb (off mod 512 =? 0) then Err (Pyctr 11) else
  Ok (Some (mkEntry name off sz hash)).

Fixpoint parse_slots (hdr : list Z) (i : nat) (n : nat) : result (list exefs_entry) :=
  match n with
  | O => Ok []
  | Datatypes.S n =>
      let zi := Z.of_nat i in
      do e <- decode_slot (slice hdr (16 * zi) 16) (slice hdr (480 - 32 * zi) 32);
      do rest <- parse_slots hdr (Datatypes.S i) n;
      Ok (match e with Some e => e :: rest | None => rest end)
  end.

(* entries in slot order; the reader's dict keeps the last entry of a repeated name *)
Definition exefs_parse (hdr : list Z) : result (list exefs_entry) := parse_slots hdr 0 10.

Definition encode_slot (e : exefs_entry) : list Z :=
  en_name e ++ repeat 0 (8 - length (en_name e)) ++ le_encode 4 (en_offset e) ++ le_encode 4 (en_size e).

Definition wf_entry (e : exefs_entry) : Prop :=
  (1 <= length (en_name e) <= 8)%nat /\ Forall (fun x => 1 <= x < 128) (en_name e) /\
  0 <= en_offset e < 2 ^ 32 /\ en_offset e mod 512 = 0 /\ 0 <= en_size e < 2 ^ 32.
