(* C16: closing.  Objects (files, windows, crypto wrappers, handles, readers) are the nodes of a graph;
   node i = nth i g.  Three kinds of edges, all read off the live Python objects by harness/closegraph.py:
     n_closes : the objects whose close() this object's close() calls (owned file when closefd, tracked handles, nested readers);
     n_guard  : the objects whose `closed` flag the closed-check decorator of this object's methods tests besides its own;
     n_under  : the objects an actual transfer of bytes goes through;
     n_self   : whether close() marks the object itself closed (false for the classes whose close() leaves `closed` alone).
   A state is the set of closed objects. *)
From Coq Require Import List Arith Bool.
Import ListNotations.

Record node := mkNode { n_guard : list nat; n_under : list nat; n_closes : list nat; n_self : bool }.
Definition graph := list node.
Definition nd (g : graph) (i : nat) : node := nth i g (mkNode [] [] [] true).

(* everything close() of [a] reaches; fuel = number of nodes is enough for any acyclic ownership structure *)
Fixpoint cl (g : graph) (fuel : nat) (a : nat) : list nat :=
  match fuel with
  | O => if n_self (nd g a) then [a] else []
  | S k => (if n_self (nd g a) then [a] else []) ++ flat_map (cl g k) (n_closes (nd g a))
  end.
Definition closure (g : graph) (a : nat) : list nat := cl g (length g) a.

Definition state := nat -> bool.
Definition s0 : state := fun _ => false.
Definition mem (i : nat) (l : list nat) : bool := existsb (Nat.eqb i) l.
Definition mark (s : state) (l : list nat) : state := fun i => s i || mem i l.
Definition close (g : graph) (s : state) (a : nat) : state := mark s (closure g a).

(* true = the call raises ValueError *)
Definition shallow (g : graph) (s : state) (h : nat) : bool := s h || existsb s (n_guard (nd g h)).
Fixpoint deep (g : graph) (fuel : nat) (s : state) (h : nat) : bool :=
  match fuel with
  | O => shallow g s h
  | S k => shallow g s h || existsb (deep g k s) (n_under (nd g h))
  end.

Inductive op := Close (a : nat) | UseS (h : nat) | UseD (h : nat).

Definition step (g : graph) (s : state) (o : op) : state * option bool :=
  match o with
  | Close a => (close g s a, None)
  | UseS h => (s, Some (shallow g s h))
  | UseD h => (s, Some (deep g (length g) s h))
  end.

Fixpoint run (g : graph) (s : state) (ops : list op) : state * list (option bool) :=
  match ops with
  | [] => (s, [])
  | o :: r => let '(s1, out) := step g s o in let '(s2, outs) := run g s1 r in (s2, out :: outs)
  end.

(* decidable facts about one graph (evaluated on the graphs read off the implementation) *)
Definition covers (g : graph) (r h : nat) : bool :=
  existsb (fun x => Nat.eqb x h || mem x (n_guard (nd g h))) (closure g r).
Definition covers_all (g : graph) (r : nat) (hs : list nat) : bool := forallb (covers g r) hs.

(* closing handle h alone leaves every other listed object answering *)
Definition contained (g : graph) (h : nat) (others : list nat) : bool :=
  forallb (fun x => Nat.eqb x h || negb (deep g (length g) (close g s0 h) x)) others.

Definition closes_file (g : graph) (a f : nat) : bool := mem f (closure g a).
