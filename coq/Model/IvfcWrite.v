(* Executable model of IVFCHashTree.write_data (pyctr/type/save/partdesc/ivfc.py, after the repairs):
   write into a level, re-hash the touched blocks, store the hashes in the level above, up to the master hashes. *)
From Pyctr Require Import Base.Prelude Base.ListExt Base.PyInt Base.PySlice Model.Ivfc.

Section W.
Variable H : list Z -> list Z.

Definition set_level (t : list level) (li : nat) (d : list Z) : list level :=
  firstn li t ++ [mkLevel d (lv_bs (nth li t (mkLevel [] 1)))] ++ skipn (S li) t.

Definition bhash (bs : Z) (d : list Z) (x : Z) : list Z := H (ljust (slice d (x * bs) bs) bs).

Fixpoint hashes_from (bs : Z) (d : list Z) (x : Z) (n : nat) : list (list Z) :=
  match n with O => [] | S n => bhash bs d x :: hashes_from bs d (x + 1) n end.

(* master_hashes[idx] = h for idx = start, start+1, ... *)
Fixpoint set_master (m : list (list Z)) (start : Z) (hs : list (list Z)) : list (list Z) :=
  match hs with
  | [] => m
  | h :: r => set_master (firstn (Z.to_nat start) m ++ [h] ++ skipn (S (Z.to_nat start)) m) (start + 1) r
  end.

Fixpoint write_level (li : nat) (off : Z) (d : list Z) (t : list level) (m : list (list Z)) : list level * list (list Z) :=
  let lv := nth li t (mkLevel [] 1) in
  let bs := lv_bs lv in
  let data' := overlay 0 (lv_data lv) off d in
  let t' := set_level t li data' in
  let start := off / bs in
  let last := Z.max ((off + len d + bs - 1) / bs - 1) start in
  let hs := hashes_from bs data' start (Z.to_nat (last - start + 1)) in
  match li with
  | O => (t', set_master m start hs)
  | S u => write_level u (start * 32) (concat hs) t' m
  end.

End W.
