(* Executable model of the SMDH application title (pyctr/type/smdh.py AppTitle.from_bytes / __bytes__): three UTF-16LE
   strings in fixed-width, NUL-padded fields.  A string is a list of code points. *)
From Pyctr Require Import Base.Prelude Base.ListExt Base.PyInt Base.PySlice Base.PyStr.

(* bytes.decode('utf-16le'): pairs of bytes -> code units -> code points; an odd length, a lone or misordered surrogate fails *)
Fixpoint units_of (b : list Z) : option (list Z) :=
  match b with
  | [] => Some []
  | lo :: hi :: r => match units_of r with Some us => Some (lo + 256 * hi :: us) | None => None end
  | _ => None
  end.

Fixpoint dec_units (us : list Z) : option (list Z) :=
  match us with
  | [] => Some []
  | u :: r =>
      if (0xD800 <=? u) && (u <=? 0xDBFF) then
        match r with
        | l :: r' =>
            if (0xDC00 <=? l) && (l <=? 0xDFFF)
            then match dec_units r' with Some s => Some (0x10000 + (u - 0xD800) * 0x400 + (l - 0xDC00) :: s) | None => None end
            else None
        | [] => None
        end
      else if (0xDC00 <=? u) && (u <=? 0xDFFF) then None
      else match dec_units r with Some s => Some (u :: s) | None => None end
  end.

Definition utf16le_decode (b : list Z) : option (list Z) :=
  match units_of b with Some us => dec_units us | None => None end.

(* str.strip('\0') *)
Fixpoint lstrip_nul (s : list Z) : list Z := match s with 0 :: r => lstrip_nul r | _ => s end.
Definition strip_nul (s : list Z) : list Z := rev (lstrip_nul (rev (lstrip_nul s))).

Record apptitle := mkTitle { short_desc : list Z; long_desc : list Z; publisher : list Z }.

Definition ljustz (n : Z) (l : list Z) : list Z := l ++ repeat 0 (Z.to_nat (n - len l)).

Definition title_bytes (t : apptitle) : list Z :=
  ljustz 0x80 (utf16le_encode (short_desc t)) ++ ljustz 0x100 (utf16le_encode (long_desc t)) ++ ljustz 0x80 (utf16le_encode (publisher t)).

Definition field (raw : list Z) (a b : Z) : result (list Z) :=
  match utf16le_decode (pyslice raw (Some a) (Some b)) with Some s => Ok (strip_nul s) | None => Err UnicodeErr end.

Definition title_parse (raw : list Z) : result apptitle :=
  do s <- field raw 0 0x80; do l <- field raw 0x80 0x180; do p <- field raw 0x180 0x200; Ok (mkTitle s l p).
