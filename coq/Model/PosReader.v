(* Handles that keep a position of their own and fetch their bytes from somewhere else: _ReaderOpenFileBase (pyctr/common.py,
   the files a reader hands out when the data is not a plain window, e.g. the decompressed .code of an ExeFS),
   DPFSLevel3FileIO and IVFCLevel4Reader (pyctr/type/save/partdesc).  They share one seek method, word for word. *)
From Pyctr Require Import Base.Prelude Base.ListExt Base.PyInt Base.PySlice Env.PyFile Env.FileIface.

(* seek(offset, whence): the new position (also the return value); other whence values leave the position alone *)
Definition pr_seek_pos (size pos off whence : Z) : result Z :=
  if whence =? 0 then (if off <? 0 then Err ValueError else Ok (Z.min off size))
  else if whence =? 1 then Ok (Z.max (pos + off) 0)
  else if whence =? 2 then Ok (Z.max (size + off) 0)
  else Ok pos.

Record prd := mkPrd { pr_pos : Z }.

Section P.
Variable size : Z.
(* what a read of n bytes at a position returns (the class-specific part) *)
Variable fetch : Z -> Z -> list Z.

Definition pr_read (s : prd) (n : Z) : list Z * prd :=
  let d := fetch (pr_pos s) n in (d, mkPrd (pr_pos s + len d)).
Definition pr_seek (s : prd) (off whence : Z) : result (Z * prd) :=
  match pr_seek_pos size (pr_pos s) off whence with Ok p => Ok (p, mkPrd p) | Err e => Err e end.

Definition pr_ops : fileops prd :=
  mkOps (fun s n => Ok (pr_read s n)) pr_seek pr_pos (fun _ _ => Err NotImplementedErr).
End P.

(* _ReaderOpenFileBase.read: size < 0 means "the rest"; the reader's get_data is a slice of the entry's data *)
Definition rof_fetch (data : list Z) (pos n : Z) : list Z :=
  let n := if n <? 0 then len data - pos else n in
  pyslice data (Some pos) (Some (pos + n)).
