(* Executable model of pyctr.fileio.SubsectionIO over a base file. *)
From Pyctr Require Import Base.Prelude Base.ListExt Base.PySlice Env.PyFile.

Record window := mkWin { wbase : pyfile; wseek : Z }.

Section W.
Variables (off sz : Z).   (* _offset, _size; _end = off + sz *)

(* the clamp applied to the requested size (generated twin: Gen_fileio.SubsectionIO_read_size) *)
Definition win_read_size (sk n : Z) : Z :=
  let n1 := if n <? 0 then sz - sk else n in
  if sk + n1 >? sz then sz - sk else n1.

Definition win_read (w : window) (n : Z) : result (list Z * window) :=
  let sk := wseek w in
  if off + sk >? off + sz then Ok ([], w) else
  let n2 := win_read_size sk n in
  do (_, b1) <- pf_seek (wbase w) (sk + off) 0;
  let '(data, b2) := pf_read b1 n2 in
  Ok (data, mkWin b2 (sk + len data)).

(* generated twin: Gen_fileio.SubsectionIO_seek *)
Definition win_seek_pos (sk seek whence : Z) : result Z :=
  if whence =? 0 then (if seek <? 0 then Err ValueError else Ok (Z.min seek sz))
  else if whence =? 1 then Ok (Z.max (sk + seek) 0)
  else if whence =? 2 then Ok (Z.max (sz + seek) 0)
  else Err ValueError.

Definition win_seek (w : window) (seek whence : Z) : result (Z * window) :=
  do p <- win_seek_pos (wseek w) seek whence;
  Ok (p, mkWin (wbase w) p).

Definition win_tell (w : window) : Z := wseek w.     (* RawIOBase.tell = seek(0, 1) *)

Definition win_write_data (sk : Z) (d : list Z) : list Z :=
  if len d + sk >? sz then pyslice d None (Some (- (len d + sk - sz))) else d.

Definition win_write (w : window) (d : list Z) : result (Z * window) :=
  let sk := wseek w in
  if sk >? sz then Ok (0, w) else
  let d' := win_write_data sk d in
  do (_, b1) <- pf_seek (wbase w) (sk + off) 0;
  let '(k, b2) := pf_write b1 d' in
  Ok (k, mkWin b2 (sk + k)).

Inductive wop := WRead (n : Z) | WSeek (seek whence : Z) | WWrite (d : list Z) | WTell.
Inductive wres := RBytes (b : list Z) | RInt (n : Z) | RErr (e : err).

Definition win_step (w : window) (o : wop) : wres * window :=
  match o with
  | WRead n => match win_read w n with Ok (b, w') => (RBytes b, w') | Err e => (RErr e, w) end
  | WSeek s wh => match win_seek w s wh with Ok (p, w') => (RInt p, w') | Err e => (RErr e, w) end
  | WWrite d => match win_write w d with Ok (k, w') => (RInt k, w') | Err e => (RErr e, w) end
  | WTell => (RInt (win_tell w), w)
  end.

Fixpoint win_run (w : window) (ops : list wop) : list wres * window :=
  match ops with
  | [] => ([], w)
  | o :: r => let '(x, w1) := win_step w o in let '(xs, w2) := win_run w1 r in (x :: xs, w2)
  end.

End W.
