(* DPFSLevel3.write_data (pyctr/type/save/partdesc/dpfs.py): a write through the level-3 view goes, block by block, into the copy
   the level-2 bitmap marks active. *)
From Pyctr Require Import Base.Prelude Base.ListExt Base.PyInt Base.PySlice Base.Sweep Model.Blocks Model.Dpfs.

(* for x in range(0, len(data), bs): data[x:x+bs] *)
Fixpoint chunks_fuel (fuel : nat) (bs : Z) (l : list Z) : list (list Z) :=
  match fuel with
  | O => []
  | S f => match l with [] => [] | _ => take l bs :: chunks_fuel f bs (drop l bs) end
  end.
Definition chunks (bs : Z) (l : list Z) : list (list Z) := chunks_fuel (length l) bs l.

(* the loop over enumerate(data_blocks, starting_block); first_block_offset is 0 after the first round *)
Fixpoint wloop (size bs : Z) (lv2 : list Z) (pair : list Z) (b fbo : Z) (blocks : list (list Z)) : list Z :=
  match blocks with
  | [] => pair
  | blk :: r =>
      let chunk := if active_bit lv2 b then size else 0 in
      wloop size bs lv2 (overlay 0 pair (chunk + b * bs + fbo) blk) (b + 1) 0 r
  end.

(* returns the new contents of the two-copy area and the number of bytes written *)
Definition lv3_write (pair : list Z) (size bs : Z) (lv2 : list Z) (off : Z) (data : list Z) : list Z * Z :=
  let data := if off + len data >? size then pyslice data None (Some (Z.max (size - off) 0)) else data in
  if len data =? 0 then (pair, 0) else
  let '(sb, _) := block_range off (len data) bs in
  let fbo := off mod bs in
  let blocks := trim_first fbo (chunks bs (repeat 0 (Z.to_nat fbo) ++ data)) in
  (wloop size bs lv2 pair sb fbo blocks, len data).
