(* IVFCLevel4Reader.read (pyctr/type/save/partdesc/ivfc.py): the byte-level read of the verified level-4 view, on top of
   the block verdicts of Model/Ivfc.v. *)
From Pyctr Require Import Base.Prelude Base.ListExt Base.PyInt Base.PySlice Base.Sweep Model.Blocks Model.Ivfc.

Section R.
Variable H : list Z -> list Z.
Variable tree : list level.
Variable master : list (list Z).

Definition lv4_size : Z := len (lv_data (lvl tree 3)).
Definition lv4_bs : Z := lv_bs (lvl tree 3).

(* what the reader puts into its block list: the stored bytes, or 0xDD filler of the same length when verification is on
   and the block is not valid *)
Definition lv4_block (verify : bool) (b : Z) : list Z :=
  if verify then served tree 3 b (status H tree master 3 b) else block tree 3 b.

Definition lv4_read (verify : bool) (pos n : Z) : list Z :=
  if pos >=? lv4_size then [] else
  let remaining := lv4_size - pos in
  let n := if (n <? 0) || (n >? remaining) then remaining else n in
  if n =? 0 then [] else assemble (lv4_block verify) pos n lv4_bs.

(* specification: the level-4 data with every block that is not valid replaced by filler *)
Definition lv4_view (verify : bool) : list Z :=
  concat (map (lv4_block verify) (zseq 0 (Z.to_nat ((lv4_size + lv4_bs - 1) / lv4_bs)))).
End R.
