(* Executable model of the DPFS levels (pyctr/type/save/partdesc/dpfs.py): level 1 (one of two copies, chosen by the DIFI
   selector), level 2 (per block the copy chosen by a level-1 bit), level 3 (per block the copy chosen by a level-2 bit) and
   the read of the level-3 file; and the specification they are proved against: the "active view" of a two-copy area. *)
From Pyctr Require Import Base.Prelude Base.ListExt Base.PyInt Base.PySlice Base.Sweep Model.Blocks.

(* read_le_u32_array: for o in range(0, len(data), 4): readle(data[o:o+4]) *)
Fixpoint u32s_fuel (fuel : nat) (data : list Z) : list Z :=
  match fuel with
  | O => []
  | S f => match data with [] => [] | _ => le_decode (take data 4) :: u32s_fuel f (drop data 4) end
  end.
Definition u32s (data : list Z) : list Z := u32s_fuel (length data) data.

(* DPFSLevelChunkBase.get_active_bit (the regenerated kernel is proved equal to this in dyn/C17_props.v) *)
Definition active_bit (words : list Z) (bit : Z) : bool :=
  negb (Z.land (Z.shiftr (pyidx words (Z.shiftr bit 5)) (31 - bit mod 32)) 1 =? 0).

(* get_all_active_bits: every word, most significant bit first *)
Definition word_bits (w : Z) : list bool := map (fun c => negb (Z.land (Z.shiftr w c) 1 =? 0)) (rev (zseq 0 32)).
Definition all_bits (words : list Z) : list bool := flat_map word_bits words.

(* DPFSLevel1.__init__ *)
Definition lv1_words (data : list Z) (selector : Z) : list Z :=
  let half := len data / 2 in
  u32s (if selector =? 0 then pyslice data None (Some half) else pyslice data (Some half) None).

(* range(0, stop, step) for step > 0 *)
Definition offsets (stop step : Z) : list Z := map (fun i => i * step) (zseq 0 (Z.to_nat ((stop + step - 1) / step))).

(* DPFSLevel2.__init__ *)
Definition lv2_words (data : list Z) (bs : Z) (lv1 : list Z) : list Z :=
  let half := len data / 2 in
  flat_map (fun '(bit, offs) =>
              let chunk := if (bit : bool) then half else 0 in
              u32s (pyslice data (Some (offs + chunk)) (Some (offs + chunk + bs))))
           (combine (all_bits lv1) (offsets half bs)).

(* DPFSLevel3.get_data: block b is read at chunk_offset + b * block_size from the two-copy area *)
Definition lv3_block (pair : list Z) (size bs : Z) (lv2 : list Z) (b : Z) : list Z :=
  slice pair ((if active_bit lv2 b then size else 0) + b * bs) bs.

Definition lv3_get_data (pair : list Z) (size bs : Z) (lv2 : list Z) (off n : Z) : list Z :=
  let n := if off + n >? size then size - off else n in
  assemble (lv3_block pair size bs lv2) off n bs.

(* DPFSLevel3FileIO.read at position pos *)
Definition lv3_file_read (pair : list Z) (size bs : Z) (lv2 : list Z) (pos n : Z) : list Z :=
  let remaining := Z.max (size - pos) 0 in
  let n := if (n <? 0) || (n >? remaining) then remaining else n in
  if n =? 0 then [] else lv3_get_data pair size bs lv2 pos n.

(* the whole tree as Partition builds it *)
Definition dpfs_read (lv1data : list Z) (selector : Z) (lv2data : list Z) (bs2 : Z) (lv3pair : list Z) (size3 bs3 : Z)
                     (pos n : Z) : list Z :=
  lv3_file_read lv3pair size3 bs3 (lv2_words lv2data bs2 (lv1_words lv1data selector)) pos n.

(* ---- specification: the active view of a two-copy area ---- *)
Definition nblocks (size bs : Z) : Z := (size + bs - 1) / bs.
(* bit b of a bitmap held as bytes: little-endian 32-bit words, most significant bit of a word first *)
Definition bitmap_bit (bytes : list Z) (b : Z) : bool :=
  Z.testbit (le_decode (slice bytes (b / 32 * 4) 4)) (31 - b mod 32).
Definition piece (pair : list Z) (size bs : Z) (bit : Z -> bool) (b : Z) : list Z :=
  slice pair ((if bit b then size else 0) + b * bs) (Z.min bs (size - b * bs)).
Definition active_view (pair : list Z) (size bs : Z) (bit : Z -> bool) : list Z :=
  concat (map (piece pair size bs bit) (zseq 0 (Z.to_nat (nblocks size bs)))).

Definition spec_lv1 (lv1data : list Z) (selector : Z) : list Z :=
  let half := len lv1data / 2 in if selector =? 0 then take lv1data half else drop lv1data half.
Definition spec_lv2 (lv1data : list Z) (selector : Z) (lv2data : list Z) (bs2 : Z) : list Z :=
  active_view lv2data (len lv2data / 2) bs2 (bitmap_bit (spec_lv1 lv1data selector)).
Definition spec_lv3 (lv1data : list Z) (selector : Z) (lv2data : list Z) (bs2 : Z) (lv3pair : list Z) (size3 bs3 : Z) : list Z :=
  active_view lv3pair size3 bs3 (bitmap_bit (spec_lv2 lv1data selector lv2data bs2)).
