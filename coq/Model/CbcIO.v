(* Executable model of CBCFileIO (pyctr/crypto/engine.py) over any file-like interface. *)
From Pyctr Require Import Base.Prelude Base.ListExt Base.PyInt Base.PySlice Env.FileIface Spec.StreamCipher Env.Cipher.

Section M.
Variable D : list Z -> list Z -> list Z.
Context {S : Type} (U : fileops S).
Variables (key iv0 : list Z).

(* generated twin: Gen_engine.cbc_before *)
Definition cbc_before_of (offset : Z) : Z := offset mod 16.

Definition cbc_read (s : S) (n : Z) : result (list Z * S) :=
  let offset := f_tell U s in
  let before := cbc_before_of offset in
  do (iv, s1) <- (if offset - before =? 0
                  then (do (_, s') <- f_seek U s 0 0; Ok (iv0, s'))
                  else (do (_, s') <- f_seek U s (- 16 - before) 1; f_read U s' 16));
  do (data_before, s2) <- f_read U s1 before;
  if negb (len iv =? 16) || negb (len data_before =? before) then
    (* beyond the end of the data: restore the position, return nothing *)
    do (_, s3) <- f_seek U s2 (offset - f_tell U s2) 1;
    Ok ([], s3)
  else
  do (data_requested, s3) <- f_read U s2 n;
  let total := len data_before + len data_requested in
  do (data_after, s5) <- (if negb (total mod 16 =? 0)
                          then (do (da, s4) <- f_read U s3 (16 - total mod 16);
                                do (_, s5) <- f_seek U s4 (- len da) 1; Ok (da, s5))
                          else Ok ([], s3));
  do out <- cbc_decrypt D key iv (data_before ++ data_requested ++ data_after);
  Ok (pyslice out (Some before) (Some (len data_requested + before)), s5).

Inductive bop := BRead (n : Z) | BSeek (o w : Z) | BTell.
Inductive bres := BBytes (b : list Z) | BInt (n : Z) | BErr (e : err).

Definition cbc_step (s : S) (o : bop) : bres * S :=
  match o with
  | BRead n => match cbc_read s n with Ok (b, s') => (BBytes b, s') | Err e => (BErr e, s) end
  | BSeek o w => match f_seek U s o w with Ok (p, s') => (BInt p, s') | Err e => (BErr e, s) end
  | BTell => (BInt (f_tell U s), s)
  end.

Fixpoint cbc_run (s : S) (ops : list bop) : list bres * S :=
  match ops with
  | [] => ([], s)
  | o :: r => let '(x, s1) := cbc_step s o in let '(xs, s2) := cbc_run s1 r in (x :: xs, s2)
  end.

End M.
