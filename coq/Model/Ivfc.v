(* Executable model of IVFCHashTree.get_block / _get_block_internal (pyctr/type/save/partdesc/ivfc.py, deep
   verification, after the per-level cache repair) and of the DPFS active-bit selection. *)
From Pyctr Require Import Base.Prelude Base.ListExt Base.PyInt Base.PySlice.

Record level := mkLevel { lv_data : list Z; lv_bs : Z }.
Definition vstatus := option bool.        (* Some true = valid, Some false = invalid, None = uninitialised *)

Section T.
Variable H : list Z -> list Z.            (* SHA-256 *)
Variable tree : list level.               (* levels 1..4 at indices 0..3 *)
Variable master : list (list Z).          (* master hashes: one per level-1 block *)

Definition lvl (li : nat) : level := nth li tree (mkLevel [] 1).
Definition block (li : nat) (b : Z) : list Z := slice (lv_data (lvl li)) (b * lv_bs (lvl li)) (lv_bs (lvl li)).
Definition ljust (d : list Z) (n : Z) : list Z := d ++ repeat 0 (Z.to_nat (n - len d)).
Definition block_hash (li : nat) (b : Z) : list Z := H (ljust (block li b) (lv_bs (lvl li))).
Definition all0 (l : list Z) : bool := forallb (fun x => x =? 0) l.
Definition master_at (b : Z) : list Z := match zth master b with Some h => h | None => [] end.

(* the hash the level above stores for block b of level li (li >= 1) *)
Definition stored_hash (li : nat) (b : Z) : list Z := slice (lv_data (lvl (li - 1))) (b * 32) 32.
Definition upper_block (li : nat) (b : Z) : Z := (b * 32) / lv_bs (lvl (li - 1)).

(* what deep verification of block b of level li establishes, as a pure function of the (static) file *)
Fixpoint status (li : nat) (b : Z) : vstatus :=
  match li with
  | O => Some (list_eqb (master_at b) (block_hash 0 b))
  | S u =>
      match status u (upper_block (S u) b) with
      | Some true =>
          let expected := stored_hash (S u) b in
          if (len expected =? 32) && all0 expected then None
          else Some (list_eqb expected (block_hash (S u) b))
      | other => other
      end
  end.

(* the authenticated chain: every hash from the block up to the master hash matches *)
Fixpoint chain_ok (li : nat) (b : Z) : Prop :=
  match li with
  | O => master_at b = block_hash 0 b
  | S u => stored_hash (S u) b = block_hash (S u) b /\ chain_ok u (upper_block (S u) b)
  end.

(* ---- the cached implementation ---- *)
Definition caches := nat -> Z -> option vstatus.
Definition cempty : caches := fun _ _ => None.
Definition cstore (c : caches) (li : nat) (b : Z) (v : vstatus) : caches :=
  fun li' b' => if Nat.eqb li' li && (b' =? b) then Some v else c li' b'.

Fixpoint get_block (li : nat) (b : Z) (c : caches) : vstatus * caches :=
  match c li b with
  | Some v => (v, c)
  | None =>
      let '(v, c') :=
        match li with
        | O => (Some (list_eqb (master_at b) (block_hash 0 b)), c)
        | S u =>
            let '(up, c1) := get_block u (upper_block (S u) b) c in
            match up with
            | Some true =>
                let expected := stored_hash (S u) b in
                (if (len expected =? 32) && all0 expected then None
                 else Some (list_eqb expected (block_hash (S u) b)), c1)
            | other => (other, c1)
            end
        end in
      (v, cstore c' li b v)
  end.

(* a history of block requests on one tree object *)
Fixpoint run_blocks (reqs : list (nat * Z)) (c : caches) : list vstatus :=
  match reqs with
  | [] => []
  | (li, b) :: r => let '(v, c') := get_block li b c in v :: run_blocks r c'
  end.

(* the level-4 reader hands out the block only when it is valid, 0xDD filler otherwise *)
Definition served (li : nat) (b : Z) (v : vstatus) : list Z :=
  match v with Some true => block li b | _ => repeat 0xDD (length (block li b)) end.

End T.

(* DPFS: bit [bit] of a bitmap stored as little-endian u32 words, most significant bit of each word first *)
Definition dpfs_active_bit (u32s : list Z) (bit : Z) : bool :=
  match zth u32s (bit / 32) with Some w => Z.testbit w (31 - bit mod 32) | None => false end.
