(* C13: SubsectionIO.write on any file-like object (pyctr/fileio.py): what a partition view does with data written through it. *)
From Pyctr Require Import Base.Prelude Base.ListExt Base.PySlice Env.FileIface.

Definition sub_write {S} (U : fileops S) (off size sk : Z) (s : S) (d : list Z) : result (Z * S) :=
  if sk >? size then Ok (0, s)                                     (* attempting to write past the subsection *)
  else
    (* data = data[:-(data_end - size)] when the write would cross the end of the window *)
    let d' := if sk + len d >? size then take d (len d - (sk + len d - size)) else d in
    do (_, s1) <- f_seek U s (sk + off) 0;
    f_write U s1 d'.
