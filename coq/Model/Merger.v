(* C09: executable model of SplitFileMerger (pyctr/fileio.py) over pieces that behave like windows:
   piece i exposes the byte string [nth i segs]; seek(negative) raises, read(negative) returns the rest. *)
From Pyctr Require Import Base.Prelude Base.ListExt Base.PySlice Env.PyFile.

Record merger := mkM { m_fake : Z; m_idx : nat }.      (* _fake_seek, _seek_info[0] *)

Section M.
Variable segs : list (list Z).

Definition seg_start (i : nat) : Z := len (concat (firstn i segs)).
Definition total : Z := len (concat segs).

(* _calc_seek: the first piece whose range contains pos; the index stays as it was when there is none *)
Fixpoint find_seg (start : Z) (i : nat) (pos : Z) (l : list (list Z)) : option nat :=
  match l with
  | [] => None
  | s :: r => if (start <=? pos) && (pos <? start + len s) then Some i else find_seg (start + len s) (S i) pos r
  end.
Definition calc_seek (m : merger) (pos : Z) : merger :=
  match find_seg 0 0 pos segs with Some i => mkM pos i | None => mkM pos (m_idx m) end.

Definition m_seek (m : merger) (pos whence : Z) : result (Z * merger) :=
  if whence =? 0 then (if pos <? 0 then Err ValueError else let m' := calc_seek m pos in Ok (m_fake m', m'))
  else if whence =? 1 then
    let p := if m_fake m + pos <? 0 then - m_fake m else pos in
    let m' := calc_seek m (m_fake m + p) in Ok (m_fake m', m')
  else if whence =? 2 then
    let p := if total + pos <? 0 then - total else pos in
    let m' := calc_seek m (total + p) in Ok (m_fake m', m')
  else Err ValueError.

(* fh.seek(real_seek); fh.read(to_read) on a window holding s *)
Definition piece_read (s : list Z) (real k : Z) : result (list Z) :=
  if real <? 0 then Err ValueError
  else Ok (slice s real (if k <? 0 then len s - real else k)).

Fixpoint read_loop (fuel : nat) (idx : nat) (fake left : Z) (acc : list Z) : result (list Z * Z * nat) :=
  match fuel with
  | O => Err OutOfFuel
  | S f =>
      match nth_error segs idx with
      | None => Err IndexError
      | Some s =>
          let real := fake - seg_start idx in
          let to_read := Z.min (len s - real) left in
          do piece <- piece_read s real to_read;
          let fake' := fake + to_read in
          let left' := left - to_read in
          if left' <=? 0 then Ok (acc ++ piece, fake', idx)
          else read_loop f (S idx) fake' left' (acc ++ piece)
      end
  end.

Definition m_read (m : merger) (n : Z) : result (list Z * merger) :=
  let rest := Z.max (total - m_fake m) 0 in
  let n1 := if n <? 0 then rest else if m_fake m + n >? total then rest else n in
  if n1 =? 0 then Ok ([], m)
  else match read_loop (S (length segs)) (m_idx m) (m_fake m) n1 [] with
       | Err e => Err e
       | Ok (data, fake', idx') => Ok (data, mkM fake' idx')
       end.

Inductive mop := MRead (n : Z) | MSeek (o w : Z) | MTell.
Inductive mres := RBytes (b : list Z) | RInt (z : Z) | RErr (e : err).

Definition m_step (m : merger) (o : mop) : mres * merger :=
  match o with
  | MRead n => match m_read m n with Ok (b, m') => (RBytes b, m') | Err e => (RErr e, m) end
  | MSeek p w => match m_seek m p w with Ok (q, m') => (RInt q, m') | Err e => (RErr e, m) end
  | MTell => (RInt (m_fake m), m)
  end.

Fixpoint m_run (m : merger) (ops : list mop) : list mres :=
  match ops with [] => [] | o :: r => let '(x, m') := m_step m o in x :: m_run m' r end.

End M.
