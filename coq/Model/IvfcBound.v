(* The block loop of IVFCLevel4Reader.read (pyctr/type/save/partdesc/ivfc.py) as it is since the repair for C19: the level-4 size
   field of the partition descriptor (64 bits, on disk) decides which blocks are ASKED for, the file decides which blocks EXIST; the
   loop stops at the first block the file does not hold.  [claimed] is the size field, [data] what the level file holds. *)
From Pyctr Require Import Base.Prelude Base.ListExt Base.PyInt Base.PySlice Base.Sweep Model.Blocks.

Section B.
Variable data : list Z.
Variable bs : Z.

(* level_fp.seek(b * bs); level_fp.read(bs): short at the end of the file, empty beyond it *)
Definition blk (b : Z) : list Z := slice data (b * bs) bs.

Fixpoint fetch (fuel : nat) (b e : Z) : result (list (list Z)) :=
  match fuel with
  | O => Err OutOfFuel
  | S f =>
      if b >? e then Ok [] else
      match blk b with
      | [] => Ok []                                   (* `if not data: break` *)
      | d => match fetch f (b + 1) e with Ok r => Ok (d :: r) | Err x => Err x end
      end
  end.

(* fuel computed from the length of the file alone *)
Definition fetch_fuel : nat := S (Z.to_nat (len data / bs + 1)).

(* one read(n) at position pos of a view whose descriptor claims [claimed] bytes *)
Definition read_blocks (claimed pos n : Z) : result (list (list Z)) :=
  if pos >=? claimed then Ok [] else
  let remaining := claimed - pos in
  let n := if (n <? 0) || (n >? remaining) then remaining else n in
  if n =? 0 then Ok [] else
  let '(sb, eb) := block_range pos n bs in
  fetch fetch_fuel sb eb.
End B.
