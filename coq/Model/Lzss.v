(* C19 / C20: executable model of decompress_code (pyctr/type/exefs.py): the backward LZSS decoder of ExeFS .code.
   The fuel of the outer loop is a list (the buffer itself), so that no data-dependent number is ever turned into a unary nat. *)
From Pyctr Require Import Base.Prelude Base.ListExt Base.PyInt Base.PySlice.

Definition CODE_MAX : Z := 0x2300000.
Definition DecErr : err := Pyctr 13.       (* CodeDecompressionError *)

(* dec[i] = v *)
Definition setz (l : list Z) (i v : Z) : list Z := firstn (Z.to_nat i) l ++ [v] ++ skipn (S (Z.to_nat i)) l.
Definition getz (l : list Z) (i : Z) : option Z := if i <? 0 then None else nth_error l (Z.to_nat i).

(* the copy loop of a back-reference: seg_len bytes, each from dec[ptr_out + seg_off] to dec[ptr_out - 1] *)
Fixpoint copy_seg (n : nat) (dec : list Z) (ptr_out seg_off : Z) : result (list Z * Z) :=
  match n with
  | O => Ok (dec, ptr_out)
  | S n =>
      match getz dec (ptr_out + seg_off) with
      | None => Err IndexError
      | Some b => copy_seg n (setz dec (ptr_out - 1) b) (ptr_out - 1) seg_off
      end
  end.

Record st := mkSt { s_dec : list Z; s_in : Z; s_out : Z }.

(* one token; [stop] = the inner for loop breaks *)
Definition token (cs data_end : Z) (ctrl : Z) (i : Z) (s : st) : result (st * bool) :=
  if (s_in s <=? cs) || (s_out s <=? cs) then Ok (s, true)
  else if Z.testbit ctrl i then
    let pin := s_in s - 2 in
    if pin <? cs then Err DecErr
    else
      let seg_code := le_decode (slice (s_dec s) pin 2) in
      let seg_off := Z.land seg_code 0x0FFF + 2 in
      let seg_len := Z.land (Z.shiftr seg_code 12) 0xF + 3 in
      if s_out s - seg_len <? cs then Err DecErr
      else if s_out s + seg_off >=? data_end then Err DecErr
      else do (d, po) <- copy_seg (Z.to_nat seg_len) (s_dec s) (s_out s) seg_off; Ok (mkSt d pin po, false)
  else
    (* ptr_out == comp_start / ptr_in == comp_start cannot hold here: both are > comp_start *)
    let po := s_out s - 1 in let pin := s_in s - 1 in
    match getz (s_dec s) pin with
    | None => Err IndexError
    | Some b => Ok (mkSt (setz (s_dec s) po b) pin po, false)
    end.

Fixpoint tokens (cs data_end ctrl : Z) (is : list Z) (s : st) : result st :=
  match is with
  | [] => Ok s
  | i :: r => do (s', stop) <- token cs data_end ctrl i s; if stop then Ok s' else tokens cs data_end ctrl r s'
  end.

(* the while loop; fuel is consumed once per control byte *)
Fixpoint outer {A} (fuel : list A) (cs data_end : Z) (s : st) : result st :=
  if (s_in s >? cs) && (s_out s >? cs) then
    match fuel with
    | [] => Err OutOfFuel
    | _ :: f =>
        if s_out s <? s_in s then Err DecErr
        else
          let pin := s_in s - 1 in
          match getz (s_dec s) pin with
          | None => Err IndexError
          | Some ctrl => do s' <- tokens cs data_end ctrl [7; 6; 5; 4; 3; 2; 1; 0] (mkSt (s_dec s) pin (s_out s)); outer f cs data_end s'
          end
    end
  else Ok s.

Definition decompress (code : list Z) : result (list Z) :=
  let code_len := len code in
  let off_size_comp := le_decode (pyslice code (Some (-8)) (Some (-4))) in
  let add_size := le_decode (pyslice code (Some (-4)) None) in
  let comp_size := Z.land off_size_comp 0xFFFFFF in
  let comp_end := comp_size - (Z.shiftr off_size_comp 24) mod 0xFF in
  let dec_size := code_len + add_size in
  if code_len <? 8 then Err DecErr
  else if code_len >? CODE_MAX then Err DecErr
  else
    let cs := if comp_size <=? code_len then code_len - comp_size else 0 in
    if comp_end <? 0 then Err DecErr
    else if dec_size >? CODE_MAX then Err DecErr
    else
      let dec := code ++ repeat 0 (Z.to_nat add_size) in
      do s <- outer (0 :: dec) cs (cs + dec_size) (mkSt dec (cs + comp_end) dec_size);
      if negb (s_in s =? cs) then Err DecErr
      else if negb (s_out s =? cs) then Err DecErr
      else Ok (s_dec s).
