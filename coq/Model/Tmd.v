(* Executable model of TitleMetadataReader.load (pyctr/type/tmd.py): layout, hash checks, record parsing. *)
From Pyctr Require Import Base.Prelude Base.ListExt Base.PyInt Base.PySlice.

Record chunk := mkChunk { c_id : list Z; c_index : Z; c_type : Z; c_size : Z; c_hash : list Z }.
Record inforec := mkInfo { i_off : Z; i_cnt : Z; i_hash : list Z }.
Record tmd := mkTmd { t_sigtype : Z; t_sig : list Z; t_header : list Z; t_infos : list inforec; t_chunks : list chunk }.

(* sig-type -> (signature size, padding) *)
Definition sig_layout (ty : Z) : option (Z * Z) :=
  if ty =? 0x10000 then Some (0x200, 0x3C) else if ty =? 0x10001 then Some (0x100, 0x3C)
  else if ty =? 0x10002 then Some (0x3C, 0x40) else if ty =? 0x10003 then Some (0x200, 0x3C)
  else if ty =? 0x10004 then Some (0x100, 0x3C) else if ty =? 0x10005 then Some (0x3C, 0x40) else None.

(* the five flag bits that a loaded record keeps (ContentTypeFlags.from_int then __int__) *)
Definition type_mask (w : Z) : Z := Z.land w 0xC007.

Definition parse_chunk (raw : list Z) : chunk :=
  mkChunk (slice raw 0 4) (be_decode (slice raw 4 2)) (type_mask (be_decode (slice raw 6 2)))
          (be_decode (slice raw 8 8)) (slice raw 16 32).

(* bytes(ContentChunkRecord) *)
Definition ser_chunk (c : chunk) : list Z :=
  c_id c ++ be_encode 2 (c_index c) ++ be_encode 2 (c_type c) ++ be_encode 8 (c_size c) ++ c_hash c.

Fixpoint parse_chunks (raw : list Z) (n : nat) : list chunk :=
  match n with O => [] | S n => parse_chunk (slice raw 0 48) :: parse_chunks (drop raw 48) n end.

Definition all_zero (l : list Z) : bool := forallb (fun x => x =? 0) l.

Fixpoint parse_infos (raw : list Z) (n : nat) : list inforec :=
  match n with
  | O => []
  | S n => let r := slice raw 0 36 in
           let rest := parse_infos (drop raw 36) n in
           if all_zero r then rest
           else mkInfo (be_decode (slice r 0 2)) (be_decode (slice r 2 2)) (slice r 4 32) :: rest
  end.

Definition chunk_eqb (a b : chunk) : bool :=
  list_eqb (c_id a) (c_id b) && (c_index a =? c_index b) && (c_type a =? c_type b) && (c_size a =? c_size b)
  && list_eqb (c_hash a) (c_hash b).

(* the records an info record covers: chunk_records[off : off+cnt] *)
Definition covered (chunks : list chunk) (ir : inforec) : list chunk :=
  pyslice chunks (Some (i_off ir)) (Some (i_off ir + i_cnt ir)).

(* "attempting to hash chunk record twice": records are compared by value *)
Fixpoint check_dups (cs seen : list chunk) : option (list chunk) :=
  match cs with
  | [] => Some seen
  | c :: r => if existsb (chunk_eqb c) seen then None else check_dups r (c :: seen)
  end.

Section T.
Variable H : list Z -> list Z.      (* SHA-256: uninterpreted *)

Fixpoint verify_infos (chunks : list chunk) (irs : list inforec) (seen : list chunk) : result unit :=
  match irs with
  | [] => Ok tt
  | ir :: rest =>
      let cs := covered chunks ir in
      match check_dups cs seen with
      | None => Err (Pyctr 30)
      | Some seen' =>
          if negb (list_eqb (H (concat (map ser_chunk cs))) (i_hash ir)) then Err (Pyctr 32)
          else verify_infos chunks rest seen'
      end
  end.

(* the checks performed after the fixed-size parts have been read *)
Definition tmd_check (verify : bool) (header info_raw : list Z) (chunks : list chunk) (infos : list inforec) : result unit :=
  if verify && negb (list_eqb (H info_raw) (slice header 0xA4 32)) then Err (Pyctr 31) else
  do _ <- (if verify then verify_infos chunks infos [] else Ok tt);
  if negb (forallb (fun x => x <? 128) (slice header 0 0x40)) then Err UnicodeErr else Ok tt.

Definition tmd_load (verify : bool) (raw : list Z) : result tmd :=
  let ty := be_decode (slice raw 0 4) in
  match sig_layout ty with
  | None => Err (Pyctr 33)
  | Some (ss, pad) =>
      let sig := slice raw 4 ss in
      let hs := 4 + ss + pad in
      let header := slice raw hs 0xC4 in
      if negb (len header =? 0xC4) then Err (Pyctr 30) else
      let count := be_decode (slice header 0x9E 2) in
      let info_raw := slice raw (hs + 0xC4) 0x900 in
      if negb (len info_raw =? 0x900) then Err (Pyctr 30) else
      let chunks := parse_chunks (slice raw (hs + 0xC4 + 0x900) (count * 48)) (Z.to_nat count) in
      let infos := parse_infos info_raw 64 in
      do _ <- tmd_check verify header info_raw chunks infos;
      Ok (mkTmd ty sig header infos chunks)
  end.

End T.
