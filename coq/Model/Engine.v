(* Executable model of CryptoEngine's keyslot state (pyctr/crypto/engine.py:
   set_keyslot, set_normal_key, update_normal_keys, keygen, cipher factories). *)
From Pyctr Require Import Base.Prelude Base.ListExt Base.PyInt Spec.Scrambler.

Definition keygen3ds (x y : Z) : list Z := be_encode 16 (scramble3ds x y).
Definition keygentwl (x y : Z) : list Z := be_encode 16 (scrambleTwl x y).

Definition fmap (A : Type) := Z -> option A.
Definition fempty {A} : fmap A := fun _ => None.
Definition fupd {A} (m : fmap A) (k : Z) (v : A) : fmap A :=
  fun k' => if k' =? k then Some v else m k'.

Record engine := mkEngine { kx : fmap Z; ky : fmap Z; kn : fmap (list Z) }.

Definition engine0 : engine := mkEngine fempty fempty fempty.

Definition keygen_slot (slot x y : Z) : list Z :=
  if slot <? 4 then keygentwl x y else keygen3ds x y.

(* CryptoEngine.keygen: KeyError when X or Y is missing *)
Definition keygen (e : engine) (slot : Z) : result (list Z) :=
  match kx e slot, ky e slot with
  | Some x, Some y => Ok (keygen_slot slot x y)
  | _, _ => Err KeyError
  end.

Inductive op :=
| SetKey (isx : bool) (slot key : Z) (upd : bool)
| SetKeyBytes (isx : bool) (slot : Z) (key : list Z) (upd : bool)
| SetNormal (slot : Z) (key : list Z)
| Refresh.

Definition key_of_bytes (slot : Z) (b : list Z) : Z :=
  if slot >? 3 then be_decode b else le_decode b.

Definition set_keyslot (e : engine) (isx : bool) (slot key : Z) (upd : bool) : engine :=
  let e1 := if isx then mkEngine (fupd (kx e) slot key) (ky e) (kn e)
            else mkEngine (kx e) (fupd (ky e) slot key) (kn e) in
  if upd then
    match keygen e1 slot with
    | Ok k => mkEngine (kx e1) (ky e1) (fupd (kn e1) slot k)
    | Err _ => e1                       (* except KeyError: pass *)
    end
  else e1.

Definition refresh (e : engine) : engine :=
  mkEngine (kx e) (ky e)
    (fun s => match kx e s, ky e s with
              | Some x, Some y => Some (keygen_slot s x y)
              | _, _ => kn e s
              end).

Definition step (e : engine) (o : op) : engine :=
  match o with
  | SetKey isx slot key upd => set_keyslot e isx slot key upd
  | SetKeyBytes isx slot b upd => set_keyslot e isx slot (key_of_bytes slot b) upd
  | SetNormal slot k => mkEngine (kx e) (ky e) (fupd (kn e) slot k)
  | Refresh => refresh e
  end.

Definition run (e : engine) (ops : list op) : engine := fold_left step ops e.

(* create_*_cipher: the normal key or KeyslotMissingError (Pyctr 1) *)
Definition normal_for (e : engine) (slot : Z) : result (list Z) :=
  match kn e slot with Some k => Ok k | None => Err (Pyctr 1) end.

(* which slot an operation writes X or Y of *)
Definition sets_xy (o : op) (slot : Z) : bool :=
  match o with
  | SetKey _ s _ _ | SetKeyBytes _ s _ _ => s =? slot
  | _ => false
  end.
Definition is_refresh (o : op) : bool := match o with Refresh => true | _ => false end.
Definition sets_normal (o : op) (slot : Z) : bool :=
  match o with SetNormal s _ => s =? slot | _ => false end.

(* dump of the observable state on slots 0..n-1, for the correspondence run *)
Definition dump (e : engine) (n : nat) : list (option Z * option Z * option (list Z)) :=
  map (fun i => let s := Z.of_nat i in (kx e s, ky e s, kn e s)) (seq 0 n).
