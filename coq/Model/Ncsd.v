(* Model of the NCSD partition-table loop of CCIReader.__init__ (pyctr/type/cci.py) and of the content-file resolution
   rule of CDNReader / SDTitleReader. *)
From Pyctr Require Import Base.Prelude Base.ListExt Base.PyInt Base.PySlice.

Definition all_zeroZ (l : list Z) : bool := forallb (fun x => x =? 0) l.

(* table: 8 x (offset units u32, size units u32); a partition exists iff its offset is not 0 *)
Fixpoint ncsd_loop (part_raw : list Z) (idx : Z) (n : nat) : list (Z * Z * Z) :=
  match n with
  | O => []
  | S n =>
      let info := slice part_raw (8 * idx) 8 in
      let off := le_decode (slice info 0 4) * 0x200 in
      let size := le_decode (slice info 4 4) * 0x200 in
      (if negb (off =? 0) then [(idx, off, size)] else []) ++ ncsd_loop part_raw (idx + 1) n
  end.

(* header = the 0x100 bytes at 0x100 of the image *)
Definition ncsd_partitions (header : list Z) : result (list (Z * Z * Z)) :=
  if negb (list_eqb (slice header 0 4) [78; 67; 83; 68]) then Err (Pyctr 50)            (* 'NCSD' *)
  else if all_zeroZ (slice header 8 8) then Err (Pyctr 50)                               (* media id 0: a NAND *)
  else Ok (ncsd_loop (slice header 0x20 0x40) 0 8).

(* the table as a builder writes it *)
Definition encode_table (tbl : list (Z * Z)) : list Z := flat_map (fun p => le_encode 4 (fst p) ++ le_encode 4 (snd p)) tbl.

(* CDN: a content record is listed when a file named by its id (lower case) or by the upper-cased id exists *)
Section R.
Variable upper : list Z -> list Z.
Definition has (names : list (list Z)) (n : list Z) : bool := existsb (list_eqb n) names.
Definition cdn_listed (names : list (list Z)) (ids : list (list Z)) : list (list Z) :=
  filter (fun id => has names id || has names (upper id)) ids.
End R.
