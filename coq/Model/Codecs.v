(* C20: codecs that are modelled by hand (the loops and named tuples of the code are outside the translator's subset):
   the seed database (pyctr/crypto/seeddb.py) and the IVFC / DPFS partition descriptors (pyctr/type/save/partdesc). *)
From Pyctr Require Import Base.Prelude Base.ListExt Base.PyInt Base.PySlice.

(* ---- seed database: dict program id -> 16-byte seed, insertion ordered ---- *)
Definition seeddb := list (Z * list Z).

Fixpoint dict_set (d : seeddb) (k : Z) (v : list Z) : seeddb :=
  match d with
  | [] => [(k, v)]
  | (k', v') :: r => if k' =? k then (k', v) :: r else (k', v') :: dict_set r k v
  end.

(* save_seeddb *)
Definition seed_entry (e : Z * list Z) : list Z := le_encode 8 (fst e) ++ snd e ++ repeat 0 8.
Definition seeddb_save (d : seeddb) : list Z := le_encode 4 (len d) ++ repeat 0 12 ++ flat_map seed_entry d.

(* _load_seeds_from_file_object into an existing dict; stops at the first incomplete entry *)
Fixpoint load_entries (raw : list Z) (n : nat) (d : seeddb) : seeddb :=
  match n with
  | O => d
  | S n => let e := slice raw 0 0x20 in
           if len e <? 0x20 then d
           else load_entries (drop raw 0x20) n (dict_set d (le_decode (slice e 0 8)) (slice e 8 16))
  end.
Definition seeddb_load (raw : list Z) (d : seeddb) : seeddb :=
  load_entries (drop raw 0x10) (Z.to_nat (le_decode (slice raw 0 4))) d.

(* ---- IVFC / DPFS descriptors ---- *)
Record level := mkLevel { l_off : Z; l_size : Z; l_log2 : Z }.     (* block_size = 1 << log2 is derived *)

Definition level_bytes (l : level) : list Z := le_encode 8 (l_off l) ++ le_encode 8 (l_size l) ++ le_encode 4 (l_log2 l) ++ repeat 0 4.
Definition level_parse (raw : list Z) : level := mkLevel (le_decode (slice raw 0 8)) (le_decode (slice raw 8 8)) (le_decode (slice raw 16 4)).

Definition IVFC_MAGIC : list Z := [73; 86; 70; 67; 0; 0; 2; 0].
Definition DPFS_MAGIC : list Z := [68; 80; 70; 83; 0; 0; 1; 0].

Record ivfc := mkIvfc { iv_mhs : Z; iv_levels : list level; iv_dsize : Z }.   (* 4 levels *)

Definition ivfc_to_bytes (v : ivfc) : list Z :=
  IVFC_MAGIC ++ le_encode 8 (iv_mhs v) ++ flat_map level_bytes (iv_levels v) ++ le_encode 8 (iv_dsize v).

Definition ivfc_from_bytes (data : list Z) : result ivfc :=
  if negb (list_eqb (slice data 0 8) IVFC_MAGIC) then Err (Pyctr 70)
  else if negb (len data =? 0x78) then Err (Pyctr 71)
  else
    let lv := map (fun i => level_parse (slice data (0x10 + i * 0x18) 0x18)) [0; 1; 2; 3] in
    if existsb (fun l => 64 <=? l_log2 l) lv then Err (Pyctr 70)
    else Ok (mkIvfc (le_decode (slice data 8 8)) lv (le_decode (slice data 0x70 8))).

Record dpfs := mkDpfs { dp_levels : list level }.     (* 3 levels *)

Definition dpfs_to_bytes (v : dpfs) : list Z := DPFS_MAGIC ++ flat_map level_bytes (dp_levels v).

Definition dpfs_from_bytes (data : list Z) : result dpfs :=
  if negb (list_eqb (slice data 0 8) DPFS_MAGIC) then Err (Pyctr 70)
  else if negb (len data =? 0x50) then Err (Pyctr 71)
  else
    let lv := map (fun i => level_parse (slice data (0x8 + i * 0x18) 0x18)) [0; 1; 2] in
    if existsb (fun l => 64 <=? l_log2 l) lv then Err (Pyctr 70)
    else Ok (mkDpfs lv).
