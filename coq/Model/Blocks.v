(* Block-wise reads shared by the save-container levels (pyctr/type/save/partdesc/common.py get_block_range, and the
   identical assembly code of DPFSLevel3.get_data and IVFCLevel4Reader.read): fetch the blocks that overlap the request,
   cut the first at the front, the last at the back, join. *)
From Pyctr Require Import Base.Prelude Base.ListExt Base.Sweep.

Definition roundup (x a : Z) : Z := (- ((- x) / a)) * a.

Definition block_range (off size bs : Z) : Z * Z :=
  let sb := roundup (off - bs + 1) bs / bs in
  let eb := Z.max (roundup (off + size) bs / bs - 1) sb in
  (sb, eb).

(* blocks[0] = blocks[0][n:] *)
Definition trim_first (n : Z) (bl : list (list Z)) : list (list Z) :=
  match bl with [] => [] | b :: r => drop b n :: r end.

(* blocks[-1] = blocks[-1][:n] *)
Fixpoint trim_last (n : Z) (bl : list (list Z)) : list (list Z) :=
  match bl with
  | [] => []
  | [b] => [take b n]
  | b :: r => b :: trim_last n r
  end.

Definition assemble (blk : Z -> list Z) (off size bs : Z) : list Z :=
  let '(sb, eb) := block_range off size bs in
  let blocks := map blk (zseq sb (Z.to_nat (eb + 1 - sb))) in
  let fbo := off mod bs in
  let last0 := if sb =? eb then size mod bs else (fbo + size) mod bs in
  let last := if last0 =? 0 then bs else last0 in
  concat (trim_last last (trim_first fbo blocks)).
