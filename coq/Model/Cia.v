(* Model of the pieces of CIAReader.__init__ that decide which contents exist and where (pyctr/type/cia.py),
   and of the title-key decryption of load_encrypted_titlekey (pyctr/crypto/engine.py). *)
From Pyctr Require Import Base.Prelude Base.ListExt Base.PyInt Spec.StreamCipher.

(* one byte of the content index: the loop  for x in range(7, -1, -1): if curr & 1: add(x + offset); curr >>= 1 *)
Fixpoint index_byte_loop (curr offset : Z) (xs : list Z) : list Z :=
  match xs with
  | [] => []
  | x :: r => (if negb (Z.land curr 1 =? 0) then [x + offset] else []) ++ index_byte_loop (Z.shiftr curr 1) offset r
  end.
Definition index_byte (idx b : Z) : list Z := index_byte_loop b (idx * 8) [7; 6; 5; 4; 3; 2; 1; 0].

Fixpoint index_decode_from (idx : Z) (bytes : list Z) : list Z :=
  match bytes with [] => [] | b :: r => index_byte idx b ++ index_decode_from (idx + 1) r end.
Definition index_decode (bytes : list Z) : list Z := index_decode_from 0 bytes.

(* the bit that stands for content i: most significant bit first *)
Definition index_bit (bytes : list Z) (i : Z) : bool :=
  match zth bytes (i / 8) with Some b => Z.testbit b (7 - i mod 8) | None => false end.

(* content selection: TMD records whose index is active, in TMD order; reject when an active index has no record *)
Definition mem (x : Z) (l : list Z) : bool := existsb (Z.eqb x) l.
Definition select_contents (active : list Z) (tmd_indices : list Z) : result (list Z) :=
  let chosen := filter (fun c => mem c active) tmd_indices in
  if forallb (fun a => mem a chosen) active then Ok chosen else Err (Pyctr 20).

(* content regions: back to back from content_offset, in the order of the chosen records *)
Fixpoint content_offsets (cur : Z) (sizes : list Z) : list Z :=
  match sizes with [] => [] | s :: r => cur :: content_offsets (cur + s) r end.

Section K.
Variables E D : list Z -> list Z -> list Z.
(* AES-CBC of the single 16-byte title key: encrypt = E(k, tk xor iv), decrypt = D(k, c) xor iv *)
Definition titlekey_encrypt (common iv tk : list Z) : list Z := E common (xor_bytes tk iv).
Definition titlekey_decrypt (common iv enc : list Z) : list Z := xor_bytes (D common enc) iv.
End K.
