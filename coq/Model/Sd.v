(* Model of CryptoEngine.setup_sd_key (pyctr/crypto/engine.py): accepted movable.sed lengths, ID0 derivation. *)
From Pyctr Require Import Base.Prelude Base.ListExt Base.PyInt Base.PySlice.

Definition sd_key_of (data : list Z) : result (list Z) :=
  if len data =? 0x10 then Ok data
  else if (len data =? 0x120) || (len data =? 0x140) then Ok (slice data 0x110 0x10)
  else Err (Pyctr 2).

Section S.
Variable H : list Z -> list Z.     (* SHA-256 *)
(* unpack('<IIII', hash[:16]) then pack('>IIII', ...): each 32-bit word byte-reversed *)
Definition id0_of (key : list Z) : list Z :=
  let h := slice (H key) 0 16 in
  rev (slice h 0 4) ++ rev (slice h 4 4) ++ rev (slice h 8 4) ++ rev (slice h 12 4).
End S.
