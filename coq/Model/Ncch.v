(* Model of the ExeFS crypto-range construction of NCCHReader.load_sections (pyctr/type/ncch.py). *)
From Pyctr Require Import Base.Prelude Base.ListExt.

(* extra : the (start, end) byte ranges of the files that use the extra keyslot, sorted by start;
   returns (start, end, uses_extra) ranges *)
Fixpoint build_ranges (extra : list (Z * Z)) (prev size : Z) : list (Z * Z * bool) :=
  match extra with
  | [] => if prev <? size then [(prev, size, false)] else []
  | (s, e) :: r =>
      let s' := Z.max s prev in
      let e' := Z.min e size in
      if e' <=? s' then build_ranges r prev size
      else (if s' >? prev then [(prev, s', false)] else []) ++ (s', e', true) :: build_ranges r e' size
  end.

Definition exefs_ranges (extra : list (Z * Z)) (size : Z) : list (Z * Z * bool) := build_ranges extra 0 size.

(* the label of byte o according to a range list *)
Fixpoint label (rs : list (Z * Z * bool)) (o : Z) : option bool :=
  match rs with
  | [] => None
  | (a, b, l) :: r => if (a <=? o) && (o <? b) then Some l else label r o
  end.

(* ranges are non-empty, chained, and go from [from] to [to] *)
Fixpoint chained (rs : list (Z * Z * bool)) (from to : Z) : Prop :=
  match rs with
  | [] => from = to
  | (a, b, _) :: r => a = from /\ a < b /\ chained r b to
  end.

Definition in_extra (extra : list (Z * Z)) (o : Z) : bool := existsb (fun p => (fst p <=? o) && (o <? snd p)) extra.

(* sorted, pairwise disjoint, inside [lo, size] *)
Fixpoint sorted_disjoint (extra : list (Z * Z)) (lo size : Z) : Prop :=
  match extra with
  | [] => True
  | (s, e) :: r => lo <= s /\ s < e /\ e <= size /\ sorted_disjoint r e size
  end.
