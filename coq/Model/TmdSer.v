(* Executable model of the TitleMetadataReader object and of its serialiser (pyctr/type/tmd.py __bytes__, and the field
   extraction at the end of load).  The object keeps what the Python object keeps: the fields, not the raw header; in
   particular the hash of the info block is NOT a field, it is recomputed by the serialiser. *)
From Pyctr Require Import Base.Prelude Base.ListExt Base.PyInt Base.PySlice Model.Tmd.

(* struct 'Ns': cut to N bytes or pad with NULs *)
Definition fit (n : Z) (l : list Z) : list Z := take l n ++ repeat 0 (Z.to_nat (n - len l)).
(* bytes.ljust(n, b'\0'): pads, never cuts *)
Definition ljust (n : Z) (l : list Z) : list Z := l ++ repeat 0 (Z.to_nat (n - len l)).

Fixpoint lstrip0 (l : list Z) : list Z :=
  match l with [] => [] | x :: r => if x =? 0 then lstrip0 r else l end.
(* str.rstrip('\0') on the ASCII-decoded issuer *)
Definition rstrip0 (l : list Z) : list Z := rev (lstrip0 (rev l)).

Record tobj := mkObj {
  o_sigtype : Z; o_sig : list Z;
  o_issuer : list Z; o_version : Z; o_ca_crl : Z; o_signer_crl : Z; o_reserved1 : Z;
  o_sysver : list Z; o_tid : list Z; o_ttype : list Z; o_group : list Z;
  o_save : Z; o_srl_save : Z; o_reserved2 : list Z; o_srl_flag : Z; o_reserved3 : list Z; o_access : list Z;
  o_tver : Z;        (* the 16-bit word; TitleVersion.from_int / __index__ are inverse on words (C11_version_word) *)
  o_count : Z; o_boot : list Z; o_padding : list Z;
  o_infos : list inforec; o_chunks : list chunk }.

(* the object load() builds from what tmd_load accepted *)
Definition obj_of (t : tmd) : tobj :=
  let h := t_header t in
  mkObj (t_sigtype t) (t_sig t)
        (rstrip0 (slice h 0 0x40)) (pyidx h 0x40) (pyidx h 0x41) (pyidx h 0x42) (pyidx h 0x43)
        (slice h 0x44 8) (slice h 0x4C 8) (slice h 0x54 4) (slice h 0x58 2)
        (le_decode (slice h 0x5A 4)) (le_decode (slice h 0x5E 4)) (slice h 0x62 4) (pyidx h 0x66) (slice h 0x67 0x31) (slice h 0x98 4)
        (be_decode (slice h 0x9C 2)) (be_decode (slice h 0x9E 2)) (slice h 0xA0 2) (slice h 0xA2 2)
        (t_infos t) (t_chunks t).

Definition ser_info (i : inforec) : list Z := be_encode 2 (i_off i) ++ be_encode 2 (i_cnt i) ++ i_hash i.

Section S.
Variable H : list Z -> list Z.

Definition info_block (o : tobj) : list Z := ljust 0x900 (concat (map ser_info (o_infos o))).

Definition header_parts (o : tobj) : list (list Z) :=
  [ fit 0x40 (o_issuer o); [o_version o]; [o_ca_crl o]; [o_signer_crl o]; [o_reserved1 o];
    fit 8 (o_sysver o); fit 8 (o_tid o); fit 4 (o_ttype o); fit 2 (o_group o);
    le_encode 4 (o_save o); le_encode 4 (o_srl_save o); fit 4 (o_reserved2 o); [o_srl_flag o]; fit 0x31 (o_reserved3 o);
    fit 4 (o_access o); be_encode 2 (o_tver o); be_encode 2 (o_count o); fit 2 (o_boot o); fit 2 (o_padding o);
    fit 32 (H (info_block o)) ].

Definition ser_header (o : tobj) : list Z := concat (header_parts o).

(* bytes(tmd); a signature type outside the table raises KeyError *)
Definition ser_obj (o : tobj) : result (list Z) :=
  match sig_layout (o_sigtype o) with
  | None => Err KeyError
  | Some (ss, pad) =>
      Ok (be_encode 4 (o_sigtype o) ++ fit ss (o_sig o) ++ repeat 0 (Z.to_nat pad)
          ++ ser_header o ++ info_block o ++ concat (map ser_chunk (o_chunks o)))
  end.

(* bytes(TitleMetadataReader.load(raw, verify_hashes=verify)) *)
Definition tmd_reserialise (verify : bool) (raw : list Z) : result (list Z) :=
  do t <- tmd_load H verify raw; ser_obj (obj_of t).

End S.
