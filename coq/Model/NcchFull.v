(* Executable model of the FullDecrypted branch of NCCHReader.get_data (pyctr/type/ncch.py):
   0x200-chunk classification, the grouping dictionary, header patch, trimming. *)
From Pyctr Require Import Base.Prelude Base.ListExt Base.PySlice.

Inductive tag := TRomfs | TExefs | THeader | TExt | TLogo | TPlain | TRaw (c : Z).

Definition tag_eqb (a b : tag) : bool :=
  match a, b with
  | TRomfs, TRomfs | TExefs, TExefs | THeader, THeader | TExt, TExt | TLogo, TLogo | TPlain, TPlain => true
  | TRaw x, TRaw y => x =? y
  | _, _ => false
  end.

Lemma tag_eqb_spec a b : tag_eqb a b = true <-> a = b.
Proof.
  destruct a, b; cbn; split; intros H; try discriminate; try reflexivity; try congruence.
  - f_equal. lia.
  - inversion H. lia.
Qed.

(* r_plain: what get_data returns for the section (the decrypted bytes; raw bytes for unencrypted sections) *)
Record region := mkReg { r_off : Z; r_size : Z; r_plain : list Z }.
Record ncch := mkNcch { n_romfs : region; n_exefs : region; n_header : region; n_ext : region; n_logo : region;
                        n_plain : region; n_content : Z; n_raw : list Z }.

Definition inreg (r : region) (c : Z) : bool := (r_off r <=? c) && (c <? r_off r + r_size r).

(* the if / elif chain: (dictionary key, offset the region starts at) *)
Definition classify (N : ncch) (c : Z) : tag * Z :=
  if inreg (n_romfs N) c then (TRomfs, r_off (n_romfs N))
  else if inreg (n_exefs N) c then (TExefs, r_off (n_exefs N))
  else if inreg (n_header N) c then (THeader, r_off (n_header N))
  else if inreg (n_ext N) c then (TExt, r_off (n_ext N))
  else if inreg (n_logo N) c then (TLogo, r_off (n_logo N))
  else if inreg (n_plain N) c then (TPlain, r_off (n_plain N))
  else (TRaw c, 0).

Definition region_of (N : ncch) (t : tag) : region :=
  match t with
  | TRomfs => n_romfs N | TExefs => n_exefs N | THeader => n_header N | TExt => n_ext N | TLogo => n_logo N
  | TPlain => n_plain N | TRaw _ => mkReg 0 (n_content N) (n_raw N)
  end.

(* get_data for an ordinary section: clamp at the region size, then read *)
Definition get_data (N : ncch) (t : tag) (off size : Z) : list Z :=
  let r := region_of N t in
  let size := if off + size >? r_size r then r_size r - off else size in
  if size <? 0 then drop (r_plain r) off else slice (r_plain r) off size.

(* ncch_array[0x18B] = 0; ncch_array[0x18F] = 4 *)
Definition set_byte (d : list Z) (i v : Z) : list Z := take d i ++ [v] ++ drop d (i + 1).
Definition patch_header (d : list Z) : list Z := set_byte (set_byte d 0x18B 0) 0x18F 4.

Definition group_data (N : ncch) (t : tag) (off size : Z) : list Z :=
  let d := get_data N t off size in
  match t with THeader => patch_header d | _ => d end.

(* to_read: insertion-ordered dictionary key -> [start, total] *)
Fixpoint add_chunk (tr : list (tag * (Z * Z))) (key : tag) (start : Z) : list (tag * (Z * Z)) :=
  match tr with
  | [] => [(key, (start, 0x200))]
  | (k, (s, n)) :: r => if tag_eqb k key then (k, (s, n + 0x200)) :: r else (k, (s, n)) :: add_chunk r key start
  end.

Section Generic.
(* the grouping loop, generic in the classifier and the per-group reader *)
Variable cls : Z -> tag * Z.
Variable gd : tag -> Z -> Z -> list Z.

Fixpoint scan (c : Z) (n : nat) (tr : list (tag * (Z * Z))) (last : option tag) : list (tag * (Z * Z)) * option tag :=
  match n with
  | O => (tr, last)
  | S n => let '(k, cur) := cls c in scan (c + 0x200) n (add_chunk tr k (c - cur)) (Some k)
  end.

Definition is_last (k : tag) (last : option tag) : bool :=
  match last with Some l => tag_eqb k l | None => false end.

Fixpoint emit (tr : list (tag * (Z * Z))) (last : option tag) (is_start : bool) (cut_start cut_end : Z) : list Z :=
  match tr with
  | [] => []
  | (k, (s, n)) :: r =>
      let d := gd k s n in
      let d := if is_start then pyslice d (Some cut_start) None else d in
      let d := if is_last k last && negb (cut_end =? 0x200) then pyslice d None (Some (- cut_end)) else d in
      d ++ emit r last false cut_start cut_end
  end.

Definition fulldec_generic (content off size : Z) : list Z :=
  let size := if off + size >? content then content - off else size in
  let before := off mod 0x200 in
  let al_off := off - before in
  let al_size := size + before in
  let nchunks := (al_size + 0x1FF) / 0x200 in
  let '(tr, last) := scan al_off (Z.to_nat nchunks) [] None in
  emit tr last true before (0x200 - (size + before) mod 0x200).
End Generic.

Definition fulldec_read (N : ncch) (off size : Z) : list Z :=
  fulldec_generic (classify N) (group_data N) (n_content N) off size.

(* the image the property talks about: per chunk, the section's plaintext chunk or the raw chunk; header flags patched *)
Definition chunk_img (N : ncch) (c : Z) : list Z :=
  let '(k, cur) := classify N c in group_data N k (c - cur) 0x200.

Fixpoint chunks_from (c : Z) (n : nat) : list Z := match n with O => [] | S n => c :: chunks_from (c + 0x200) n end.

Definition image (N : ncch) : list Z := concat (map (chunk_img N) (chunks_from 0 (Z.to_nat (n_content N / 0x200)))).

(* Since the repair for C19 the FullDecrypted branch first cuts the request down to what the FILE holds ([avail] = length of the
   file counted from the container's start), after the generic clamp at the declared size: the per-media-unit work below is then
   bounded by the file, whatever size the header declares. *)
Definition avail_size (content avail off size : Z) : Z :=
  let size := if off + size >? content then content - off else size in
  Z.max (Z.min size (avail - off)) 0.

Definition fulldec_read_avail (N : ncch) (avail off size : Z) : list Z :=
  fulldec_read N off (avail_size (n_content N) avail off size).

(* the number of 0x200-byte units one read walks over *)
Definition fulldec_units (content avail off size : Z) : Z :=
  (avail_size content avail off size + off mod 0x200 + 0x1FF) / 0x200.
