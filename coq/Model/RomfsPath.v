(* How RomFSReader._get_raw_info takes a path apart (case-sensitive mode): "." alone is the root; one leading "./" or "/" is dropped;
   the rest is cut at every "/" and EMPTY components are skipped (repeated and trailing separators, the empty path).  A path is a list
   of UTF-16 code units here, the entry names of the tree are UTF-16LE byte strings (Model/Romfs.v). *)
From Pyctr Require Import Base.Prelude Base.ListExt Base.PyInt Base.PySlice Model.Romfs.

Fixpoint split_on (l cur : list Z) : list (list Z) :=
  match l with
  | [] => [rev cur]
  | c :: r => if c =? 47 then rev cur :: split_on r [] else split_on r (c :: cur)
  end.

Definition nonempty (c : list Z) : bool := match c with [] => false | _ => true end.

(* str.split('/') followed by the loop's `if part == '': continue` *)
Definition components (p : list Z) : list (list Z) := filter nonempty (split_on p []).

Definition strip_prefix (p : list Z) : list Z :=
  match p with
  | 46 :: 47 :: r => r
  | 47 :: r => r
  | _ => p
  end.

Fixpoint bytes_of_units (us : list Z) : list Z :=
  match us with
  | [] => []
  | u :: r => (u mod 256) :: (u / 256) :: bytes_of_units r
  end.

Definition path_parts (p : list Z) : list (list Z) :=
  if list_eqb p [46] then [] else map bytes_of_units (components (strip_prefix p)).

(* getinfo / openbin / listdir all start here *)
Definition lookup_path (p : list Z) (root : node) : result node :=
  lookup (fun x => x) false (path_parts p) root.
