(* Extraction of the executable models for the correspondence runs.
   ExtrOcamlBasic only: bool, list, option, prod, unit, sumbool map to OCaml's;
   Z / N / positive / nat stay the extracted inductives.  No Extract Constant. *)
From Coq Require Extraction ExtrOcamlBasic.
From Pyctr Require Import Base.Prelude Base.ListExt Base.PyInt Base.PySlice Base.PyStr.
From Pyctr Require Import Spec.Scrambler Model.Engine Env.PyFile Model.Window Env.FileIface Spec.StreamCipher Env.Cipher Model.CtrIO Model.CbcIO Model.Exefs Model.Tmd Model.TmdSer Model.Ncch Model.NcchFull Model.Romfs Model.RomfsPath Model.Ncsd Model.Sd Model.Ivfc Model.IvfcWrite Model.Blocks Model.Dpfs Model.DpfsWrite Model.IvfcRead Model.IvfcBound Model.PosReader Model.CfgSave Model.AppTitle Model.Close Model.Nand Model.Lzss Model.Sched Model.Merger Model.Codecs Proofs.WindowProofs.

Extraction Language OCaml.
Set Extraction KeepSingleton.

Separate Extraction
  PyInt.le_decode PyInt.be_decode PyInt.le_encode PyInt.be_encode
  Engine.run Engine.dump Engine.engine0 Engine.normal_for
  PyFile.pf_read PyFile.pf_seek PyFile.pf_write PyFile.pf_tell
  Window.win_run
  FileIface.pyfile_ops WindowProofs.window_ops CtrIO.ctr_run CbcIO.cbc_run Exefs.exefs_parse Tmd.tmd_load TmdSer.tmd_reserialise TmdSer.obj_of TmdSer.ser_obj Ncch.exefs_ranges NcchFull.fulldec_read NcchFull.fulldec_read_avail NcchFull.fulldec_units NcchFull.image Romfs.walk_bounded Romfs.lookup RomfsPath.lookup_path Ncsd.ncsd_partitions Sd.sd_key_of Sd.id0_of Ivfc.run_blocks Ivfc.cempty Ivfc.dpfs_active_bit IvfcWrite.write_level Dpfs.dpfs_read Dpfs.spec_lv3 Dpfs.lv1_words Dpfs.lv2_words DpfsWrite.lv3_write IvfcRead.lv4_read IvfcBound.read_blocks PosReader.pr_ops PosReader.rof_fetch CfgSave.cfg_bytes CfgSave.cfg_load AppTitle.title_parse AppTitle.title_bytes Close.run Close.s0 Nand.nand_parse Nand.nand_bytes Nand.infer_ctr Nand.infer_twl Lzss.decompress Sched.run Sched.guarded Sched.init_cfg Merger.m_run Codecs.seeddb_load Codecs.seeddb_save Codecs.ivfc_from_bytes Codecs.ivfc_to_bytes Codecs.dpfs_from_bytes Codecs.dpfs_to_bytes StreamCipher.stream_dec StreamCipher.cbc_dec.
