(* Model of an in-memory binary file (io.BytesIO), the base of every wrapper stack.
   Conformance-tested against the real object on every run (harness/envconf.py). *)
From Pyctr Require Import Base.Prelude Base.ListExt.

Record pyfile := mkFile { fdata : list Z; fpos : Z }.

(* how many bytes a read of n returns from position p of a file of length L *)
Definition read_count (L p n : Z) : Z :=
  let rest := Z.max 0 (L - p) in if n <? 0 then rest else Z.min n rest.

Definition pf_read (f : pyfile) (n : Z) : list Z * pyfile :=
  let k := read_count (len (fdata f)) (fpos f) n in
  (slice (fdata f) (fpos f) k, mkFile (fdata f) (fpos f + k)).

Definition pf_seek (f : pyfile) (off whence : Z) : result (Z * pyfile) :=
  if whence =? 0 then
    if off <? 0 then Err ValueError else Ok (off, mkFile (fdata f) off)
  else if whence =? 1 then
    let p := Z.max 0 (fpos f + off) in Ok (p, mkFile (fdata f) p)
  else if whence =? 2 then
    let p := Z.max 0 (len (fdata f) + off) in Ok (p, mkFile (fdata f) p)
  else Err ValueError.

Definition pf_tell (f : pyfile) : Z := fpos f.

(* write: zero-fills a gap when the position is past the end; an empty write does nothing *)
Definition pf_write (f : pyfile) (d : list Z) : Z * pyfile :=
  (len d, mkFile (overlay 0 (fdata f) (fpos f) d) (fpos f + len d)).

Definition pf_ok (f : pyfile) : Prop := 0 <= fpos f.

Lemma read_count_nonneg L p n : 0 <= read_count L p n.
Proof. unfold read_count. destruct (n <? 0) eqn:?; lia. Qed.

Lemma pf_read_spec f n :
  pf_ok f ->
  let '(r, f') := pf_read f n in
  r = slice (fdata f) (fpos f) (len r) /\
  len r = read_count (len (fdata f)) (fpos f) n /\
  fdata f' = fdata f /\ fpos f' = fpos f + len r.
Proof.
  unfold pf_ok, pf_read. intros Hp. cbn [fdata fpos].
  pose proof (read_count_nonneg (len (fdata f)) (fpos f) n) as Hk.
  set (k := read_count (len (fdata f)) (fpos f) n) in *.
  assert (Hl : len (slice (fdata f) (fpos f) k) = k).
  { rewrite len_slice by lia. unfold k, read_count in *. destruct (n <? 0) eqn:?; lia. }
  rewrite Hl. auto.
Qed.
