(* PyCryptodome cipher objects as state machines (AES-CTR with a 128-bit big-endian counter,
   AES-CBC decryption), over an uninterpreted block function.  Conformance-tested against
   the real objects by the correspondence runs. *)
From Pyctr Require Import Base.Prelude Base.ListExt Base.PyInt Spec.StreamCipher.

Section C.
Variable E : list Z -> list Z -> list Z.
Variable D : list Z -> list Z -> list Z.

(* AES.new(key, MODE_CTR, counter=Counter.new(128, initial_value=c0)) *)
Record ctr_cipher := mkCtr { ck : list Z; cc0 : Z; cused : Z; cdir : option bool (* Some true = encrypting *) }.

Definition ctr_new (key : list Z) (c0 : Z) : ctr_cipher := mkCtr key c0 0 None.

(* encrypt/decrypt: xor with the next keystream bytes; mixing the two on one object is a TypeError *)
Definition ctr_crypt (c : ctr_cipher) (enc : bool) (data : list Z) : result (list Z * ctr_cipher) :=
  match cdir c with
  | Some d => if Bool.eqb d enc then
                Ok (xor_ks E (fun j => j) (ck c) (cc0 c) (cused c) data, mkCtr (ck c) (cc0 c) (cused c + len data) (Some enc))
              else Err TypeError
  | None => Ok (xor_ks E (fun j => j) (ck c) (cc0 c) (cused c) data, mkCtr (ck c) (cc0 c) (cused c + len data) (Some enc))
  end.

(* AES.new(key, MODE_CBC, iv).decrypt(data): length must be a multiple of 16, iv 16 bytes *)
Definition cbc_decrypt (key iv data : list Z) : result (list Z) :=
  if negb (len iv =? 16) then Err ValueError
  else if negb (len data mod 16 =? 0) then Err ValueError
  else Ok (cbc_dec D key iv data).

End C.
