(* The file-like interface the crypto wrappers are stacked on, and what they rely on
   ("lawful" underlying files).  Instances: the in-memory file and the window. *)
From Pyctr Require Import Base.Prelude Base.ListExt Env.PyFile.

Record fileops (S : Type) := mkOps {
  f_read : S -> Z -> result (list Z * S);
  f_seek : S -> Z -> Z -> result (Z * S);
  f_tell : S -> Z;
  f_write : S -> list Z -> result (Z * S)
}.
Arguments f_read {S}. Arguments f_seek {S}. Arguments f_tell {S}. Arguments f_write {S}.
Arguments mkOps {S}.

(* view s = (logical contents, position) *)
Record lawful {S} (U : fileops S) (inv : S -> Prop) (content : S -> list Z) (pos : S -> Z) : Prop := mkLawful {
  law_pos : forall s, inv s -> 0 <= pos s;
  law_tell : forall s, inv s -> f_tell U s = pos s;
  law_read : forall s n, inv s ->
    exists r s', f_read U s n = Ok (r, s') /\ inv s' /\
      r = slice (content s) (pos s) (len r) /\
      len r = read_count (len (content s)) (pos s) n /\
      content s' = content s /\ pos s' = pos s + len r;
  law_seek : forall s o w, inv s ->
    match f_seek U s o w with
    | Ok (p, s') => inv s' /\ content s' = content s /\ pos s' = p
    | Err _ => True
    end;
  law_seek0 : forall s, inv s -> exists s', f_seek U s 0 0 = Ok (0, s');
  law_seek_rel : forall s d, inv s -> exists s', f_seek U s d 1 = Ok (Z.max 0 (pos s + d), s');
}.

(* the in-memory file *)
Definition pyfile_ops : fileops pyfile :=
  mkOps (fun f n => Ok (pf_read f n)) pf_seek pf_tell (fun f d => Ok (pf_write f d)).

Lemma pyfile_lawful : lawful pyfile_ops pf_ok fdata fpos.
Proof.
  constructor.
  - intros s H. exact H.
  - reflexivity.
  - intros s n H. cbn [pyfile_ops f_read].
    pose proof (pf_read_spec s n H) as P. destruct (pf_read s n) as [r s'].
    destruct P as (P1 & P2 & P3 & P4).
    exists r, s'. repeat split; auto. unfold pf_ok in *. pose proof (len_nonneg r). lia.
  - intros s o w H. cbn [pyfile_ops f_seek]. unfold pf_seek.
    destruct (w =? 0); [destruct (o <? 0) eqn:?; [exact I|]|destruct (w =? 1); [|destruct (w =? 2); [|exact I]]];
      unfold pf_ok; cbn [fdata fpos]; repeat split; lia.
  - intros s H. cbn [pyfile_ops f_seek]. unfold pf_seek. cbn. eauto.
  - intros s d H. cbn [pyfile_ops f_seek]. unfold pf_seek. cbn. eauto.
Qed.
