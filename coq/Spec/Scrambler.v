(* Specification of 128-bit rotation and of the 3DS / DSi key scramblers, and the
   bit-level facts that connect them to shift/mask code. *)
From Pyctr Require Import Base.Prelude Base.ListExt Base.PyInt.

Definition W : Z := 2 ^ 128.

(* rotate left by k (0 <= k < 128) of a 128-bit value: the low 128-k bits move up by k,
   the high k bits move down *)
Definition rotl128 (v k : Z) : Z := 2 ^ k * (v mod 2 ^ (128 - k)) + v / 2 ^ (128 - k).

Definition C3DS : Z := 0x1FF9E9AAC5FE0408024591DC5D52768A.
Definition CTWL : Z := 0xFFFEFB4E295902582A680F5F1A4F3E79.

Definition scramble3ds (x y : Z) : Z := rotl128 ((Z.lxor (rotl128 x 2) y + C3DS) mod W) 87.
Definition scrambleTwl (x y : Z) : Z := rotl128 ((Z.lxor x y + CTWL) mod W) 42.

Lemma rotl128_range v k : 0 <= v < W -> 0 <= k < 128 -> 0 <= rotl128 v k < W.
Proof.
  unfold rotl128, W. intros Hv Hk.
  assert (Hp : 2 ^ 128 = 2 ^ k * 2 ^ (128 - k)) by (rewrite <- Z.pow_add_r by lia; f_equal; lia).
  assert (0 < 2 ^ k) by (apply Z.pow_pos_nonneg; lia).
  assert (0 < 2 ^ (128 - k)) by (apply Z.pow_pos_nonneg; lia).
  set (m := 2 ^ (128 - k)) in *. set (p := 2 ^ k) in *.
  assert (0 <= v mod m < m) by (apply Z.mod_pos_bound; lia).
  assert (0 <= v / m) by (apply Z.div_pos; lia).
  assert (v / m < p) by (apply Z.div_lt_upper_bound; lia).
  nia.
Qed.

Lemma hi_small v k : 0 <= v < W -> 0 <= k < 128 -> 0 <= v / 2 ^ (128 - k) < 2 ^ k.
Proof.
  unfold W. intros Hv Hk.
  assert (0 < 2 ^ (128 - k)) by (apply Z.pow_pos_nonneg; lia).
  split; [apply Z.div_pos; lia|]. apply Z.div_lt_upper_bound; [lia|].
  rewrite <- Z.pow_add_r by lia. replace (128 - k + k) with 128 by lia. lia.
Qed.

Lemma bits_small b k n : 0 <= b < 2 ^ k -> k <= n -> Z.testbit b n = false.
Proof.
  intros Hb Hn. destruct (Z.eq_dec b 0) as [->|]; [apply Z.bits_0|].
  assert (0 <= k). { destruct (Z.lt_ge_cases k 0); [|lia]. rewrite Z.pow_neg_r in Hb; lia. }
  apply Z.bits_above_log2; [lia|].
  apply Z.lt_le_trans with k; [apply Z.log2_lt_pow2; lia|lia].
Qed.

Lemma land_shiftl_small a b k : 0 <= k -> 0 <= b < 2 ^ k -> Z.land (Z.shiftl a k) b = 0.
Proof.
  intros Hk Hb. apply Z.bits_inj'. intros n Hn. rewrite Z.land_spec, Z.bits_0.
  destruct (Z.lt_ge_cases n k).
  - rewrite Z.shiftl_spec_low by assumption. reflexivity.
  - rewrite (bits_small b k n) by assumption. apply andb_false_r.
Qed.

Lemma rotl128_bits v k i :
  0 <= v < W -> 0 <= k < 128 -> 0 <= i < 128 ->
  Z.testbit (rotl128 v k) i = Z.testbit v ((i - k) mod 128).
Proof.
  intros Hv Hk Hi. pose proof (hi_small v k Hv Hk) as Hhi. unfold rotl128.
  rewrite Z.mul_comm, <- Z.shiftl_mul_pow2 by lia.
  rewrite Z.add_nocarry_lxor by (apply land_shiftl_small; [lia|exact Hhi]).
  rewrite Z.lxor_spec.
  destruct (Z.lt_ge_cases i k) as [Hlt|Hge].
  - rewrite Z.shiftl_spec_low by exact Hlt. rewrite xorb_false_l.
    rewrite <- Z.shiftr_div_pow2 by lia. rewrite Z.shiftr_spec by lia.
    f_equal. clear Hhi Hv. apply Z.mod_unique with (q := -1); lia.
  - rewrite (bits_small _ k i Hhi Hge), xorb_false_r.
    rewrite Z.shiftl_spec by lia. rewrite Z.mod_pow2_bits_low by lia.
    f_equal. clear Hhi Hv. symmetry. apply Z.mod_small. lia.
Qed.

(* a | b = a + b when a is a multiple of 2^k and b < 2^k *)
Lemma lor_disjoint_add a b k :
  0 <= k -> 0 <= a -> a mod 2 ^ k = 0 -> 0 <= b < 2 ^ k -> Z.lor a b = a + b.
Proof.
  intros Hk Ha Hm Hb.
  rewrite Z.add_nocarry_lxor; [symmetry; apply Z.lxor_lor|];
  (apply Z.bits_inj'; intros n Hn; rewrite Z.land_spec, Z.bits_0;
   destruct (Z.lt_ge_cases n k);
   [ replace a with (a / 2 ^ k * 2 ^ k) by (pose proof (Z.div_mod a (2 ^ k)); assert (0 < 2 ^ k) by (apply Z.pow_pos_nonneg; lia); lia);
     rewrite Z.mul_pow2_bits_low by lia; reflexivity
   | destruct (Z.eq_dec b 0) as [->|]; [rewrite Z.bits_0; apply andb_false_r|];
     rewrite (Z.bits_above_log2 b n); [apply andb_false_r|lia|];
     apply Z.lt_le_trans with k; [apply Z.log2_lt_pow2; lia|lia] ]).
Qed.

(* the shift/mask expression used by the code computes rotl128 of the reduced operand *)
Lemma shift_mask_rotl v k :
  0 <= v -> 0 <= k < 128 ->
  Z.lor (Z.land (Z.shiftl v k) (2 ^ 128 - 1)) (Z.shiftr (Z.land v (2 ^ 128 - 1)) (128 - k))
  = rotl128 (v mod W) k.
Proof.
  intros Hv Hk. unfold rotl128, W.
  assert (Hones : 2 ^ 128 - 1 = Z.ones 128) by (rewrite Z.ones_equiv; reflexivity).
  rewrite Hones, !Z.land_ones by lia.
  rewrite Z.shiftl_mul_pow2, Z.shiftr_div_pow2 by lia.
  assert (0 < 2 ^ k) by (apply Z.pow_pos_nonneg; lia).
  assert (0 < 2 ^ (128 - k)) by (apply Z.pow_pos_nonneg; lia).
  assert (Hp : 2 ^ 128 = 2 ^ k * 2 ^ (128 - k)) by (rewrite <- Z.pow_add_r by lia; f_equal; lia).
  assert (E1 : (v * 2 ^ k) mod 2 ^ 128 = 2 ^ k * (v mod 2 ^ (128 - k))).
  { rewrite Hp, (Z.mul_comm v). rewrite Z.mul_mod_distr_l by lia. reflexivity. }
  assert (E2 : (v mod 2 ^ 128) mod 2 ^ (128 - k) = v mod 2 ^ (128 - k)).
  { rewrite Hp. rewrite (Z.mul_comm (2 ^ k)). rewrite Z.rem_mul_r by lia.
    rewrite Z.mul_comm, Z.mod_add by lia. apply Z.mod_mod. lia. }
  rewrite E1, E2.
  assert (Ha : 0 <= 2 ^ k * (v mod 2 ^ (128 - k))).
  { apply Z.mul_nonneg_nonneg; [lia|]. apply Z.mod_pos_bound. lia. }
  assert (Hm : (2 ^ k * (v mod 2 ^ (128 - k))) mod 2 ^ k = 0).
  { rewrite Z.mul_comm. apply Z.mod_mul. lia. }
  assert (Hb : 0 <= (v mod 2 ^ 128) / 2 ^ (128 - k) < 2 ^ k).
  { apply hi_small; [|lia]. unfold W. apply Z.mod_pos_bound. lia. }
  apply lor_disjoint_add with (k := k); [lia|exact Ha|exact Hm|exact Hb].
Qed.
