(* Whole-stream AES-CTR (3DS and DSi flavour) and AES-CBC decryption, over an
   uninterpreted block cipher. *)
From Pyctr Require Import Base.Prelude Base.ListExt Base.PyInt.

Section C.
Variable E : list Z -> list Z -> list Z.      (* AES block encryption: key -> block -> block *)

(* keystream byte j of the stream that starts at counter c0 *)
Definition ksb (key : list Z) (c0 j : Z) : Z :=
  nth (Z.to_nat (j mod 16)) (E key (be_encode 16 ((c0 + j / 16) mod 2 ^ 128))) 0.

(* position of the keystream byte the DSi engine applies to byte j: same block, mirrored *)
Definition twl_idx (j : Z) : Z := 16 * (j / 16) + 15 - j mod 16.

(* data xor keystream, data[0] being stream byte [start] *)
Fixpoint xor_ks (idx : Z -> Z) (key : list Z) (c0 start : Z) (data : list Z) : list Z :=
  match data with
  | [] => []
  | b :: r => Z.lxor b (ksb key c0 (idx start)) :: xor_ks idx key c0 (start + 1) r
  end.

Definition stream_dec (twl : bool) (key : list Z) (c0 : Z) (ct : list Z) : list Z :=
  xor_ks (if twl then twl_idx else (fun j => j)) key c0 0 ct.

Lemma length_xor_ks idx key c0 s d : length (xor_ks idx key c0 s d) = length d.
Proof. revert s; induction d as [|b r IH]; intros s; simpl; auto. Qed.

Lemma len_xor_ks idx key c0 s d : len (xor_ks idx key c0 s d) = len d.
Proof. unfold len. now rewrite length_xor_ks. Qed.

Lemma nth_error_xor_ks idx key c0 s d i :
  nth_error (xor_ks idx key c0 s d) i =
  option_map (fun b => Z.lxor b (ksb key c0 (idx (s + Z.of_nat i)))) (nth_error d i).
Proof.
  revert s i; induction d as [|b r IH]; intros s i.
  - destruct i; reflexivity.
  - destruct i as [|i]; cbn [xor_ks nth_error option_map].
    + now rewrite Z.add_0_r.
    + rewrite IH. replace (s + 1 + Z.of_nat i) with (s + Z.of_nat (Datatypes.S i)) by lia. reflexivity.
Qed.

Lemma xor_ks_app idx key c0 s a b :
  xor_ks idx key c0 s (a ++ b) = xor_ks idx key c0 s a ++ xor_ks idx key c0 (s + len a) b.
Proof.
  revert s; induction a as [|x a IH]; intros s.
  - simpl. now rewrite len_nil, Z.add_0_r.
  - cbn [app xor_ks]. rewrite IH. rewrite len_cons. replace (s + 1 + len a) with (s + (1 + len a)) by lia. reflexivity.
Qed.

(* a slice of the decrypted stream is the decryption of the slice *)
Lemma slice_xor_ks idx key c0 s d p n :
  0 <= p -> 0 <= n ->
  slice (xor_ks idx key c0 s d) p n = xor_ks idx key c0 (s + p) (slice d p n).
Proof.
  intros Hp Hn. apply list_ext. intros i.
  rewrite nth_error_slice by lia. rewrite !nth_error_xor_ks. rewrite nth_error_slice by lia.
  destruct (Z.ltb_spec (Z.of_nat i) n); [|reflexivity].
  destruct (nth_error d (Z.to_nat p + i)); cbn [option_map]; [|reflexivity].
  replace (s + Z.of_nat (Z.to_nat p + i)) with (s + p + Z.of_nat i) by lia. reflexivity.
Qed.

(* shifting the counter by whole blocks *)
Lemma ksb_shift key c0 q j : ksb key (c0 + q) j = ksb key c0 (j + 16 * q).
Proof.
  unfold ksb. replace ((j + 16 * q) mod 16) with (j mod 16) by lia.
  replace ((j + 16 * q) / 16) with (j / 16 + q) by lia.
  replace (c0 + q + j / 16) with (c0 + (j / 16 + q)) by lia. reflexivity.
Qed.

Lemma xor_ks_shift key c0 q s d :
  xor_ks (fun j => j) key (c0 + q) s d = xor_ks (fun j => j) key c0 (s + 16 * q) d.
Proof.
  revert s; induction d as [|b r IH]; intros s; [reflexivity|].
  cbn [xor_ks]. rewrite ksb_shift, IH. replace (s + 1 + 16 * q) with (s + 16 * q + 1) by lia. reflexivity.
Qed.

End C.

(* ---- CBC ---- *)
Section CBC.
Variable D : list Z -> list Z -> list Z.      (* AES block decryption *)

Definition xor_bytes (a b : list Z) : list Z := map (fun p => Z.lxor (fst p) (snd p)) (combine a b).

(* block i of the plaintext: D(c_i) xor (iv or c_{i-1}) *)
Definition cbc_block (key iv ct : list Z) (i : Z) : list Z :=
  xor_bytes (D key (slice ct (16 * i) 16)) (if i =? 0 then iv else slice ct (16 * (i - 1)) 16).

Fixpoint cbc_blocks (key iv ct : list Z) (i : Z) (n : nat) : list Z :=
  match n with O => [] | S n => cbc_block key iv ct i ++ cbc_blocks key iv ct (i + 1) n end.

Definition cbc_dec (key iv ct : list Z) : list Z := cbc_blocks key iv ct 0 (Z.to_nat (len ct / 16)).

End CBC.
