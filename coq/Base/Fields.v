(* Extracting fixed-width fields from a concatenation of parts (record serialisers). *)
From Pyctr Require Import Base.Prelude Base.ListExt Base.PyInt Base.PySlice.

Lemma len_le_encode n v : len (le_encode n v) = Z.of_nat n.
Proof. unfold len. now rewrite length_le_encode. Qed.
Lemma len_be_encode n v : len (be_encode n v) = Z.of_nat n.
Proof. unfold len. now rewrite length_be_encode. Qed.

Lemma concat_split (parts : list (list Z)) k :
  (k < length parts)%nat ->
  concat parts = concat (firstn k parts) ++ nth k parts [] ++ concat (skipn (S k) parts).
Proof.
  revert k; induction parts as [|p ps IH]; intros k Hk; [simpl in Hk; lia|].
  destruct k as [|k]; cbn [firstn concat nth skipn app].
  - reflexivity.
  - rewrite (IH k) by (simpl in Hk; lia). now rewrite app_assoc.
Qed.

(* data[a:b] of a concatenation is part k when a is the total length of the parts before it *)
Lemma pyslice_part (parts : list (list Z)) k a b :
  (k < length parts)%nat -> len (concat (firstn k parts)) = a -> len (nth k parts []) = b - a ->
  pyslice (concat parts) (Some a) (Some b) = nth k parts [].
Proof.
  intros Hk Ha Hb. rewrite (concat_split parts k Hk).
  set (pre := concat (firstn k parts)) in *. set (x := nth k parts []) in *. set (post := concat (skipn (S k) parts)).
  pose proof (len_nonneg pre). pose proof (len_nonneg x). pose proof (len_nonneg post).
  rewrite pyslice_nonneg by lia. rewrite !len_app.
  replace (Z.min a (len pre + (len x + len post))) with a by lia.
  replace (Z.min b (len pre + (len x + len post)) - a) with (len x) by lia.
  rewrite slice_app_r by lia. replace (a - len pre) with 0 by lia.
  rewrite slice_app_l by lia. apply slice_all.
Qed.

(* data[a] when part k is the single byte at offset a *)
Lemma pyidx_part (parts : list (list Z)) k a x :
  (k < length parts)%nat -> len (concat (firstn k parts)) = a -> nth k parts [] = [x] ->
  pyidx (concat parts) a = x.
Proof.
  intros Hk Ha Hx. rewrite (concat_split parts k Hk). rewrite Hx.
  set (pre := concat (firstn k parts)) in *. pose proof (len_nonneg pre).
  unfold pyidx. destruct (a <? 0) eqn:?; [lia|]. unfold zth. destruct (a <? 0) eqn:?; [lia|].
  rewrite nth_error_app2 by (unfold len in *; lia).
  replace (Z.to_nat a - length pre)%nat with 0%nat by (unfold len in *; lia). reflexivity.
Qed.

(* lengths of concatenations of encoders and literals *)
Ltac len_parts :=
  cbn [firstn concat app nth];
  repeat rewrite len_app; repeat rewrite len_le_encode; repeat rewrite len_be_encode;
  rewrite ?len_nil; cbn [len length Z.of_nat Pos.of_succ_nat Pos.succ]; try lia; try reflexivity.
