(* int.from_bytes / int.to_bytes, little and big endian. *)
From Pyctr Require Import Base.Prelude Base.ListExt.

Fixpoint le_decode (l : list Z) : Z :=
  match l with [] => 0 | b :: r => b + 256 * le_decode r end.
Definition be_decode (l : list Z) : Z := le_decode (rev l).

Fixpoint le_encode (n : nat) (v : Z) : list Z :=
  match n with O => [] | S n => v mod 256 :: le_encode n (v / 256) end.
Definition be_encode (n : nat) (v : Z) : list Z := rev (le_encode n v).

(* Python's to_bytes raises OverflowError outside [0, 256^n) *)
Definition to_bytes_ok (n : nat) (v : Z) : bool := (0 <=? v) && (v <? 256 ^ Z.of_nat n).

Lemma length_le_encode n v : length (le_encode n v) = n.
Proof. revert v; induction n; intros; simpl; auto. Qed.

Lemma length_be_encode n v : length (be_encode n v) = n.
Proof. unfold be_encode. now rewrite rev_length, length_le_encode. Qed.

Lemma bytes_ok_le_encode n v : bytes_ok (le_encode n v).
Proof.
  revert v; induction n as [|n IH]; intros v; cbn [le_encode]; constructor.
  - unfold byte_ok. lia.
  - apply IH.
Qed.

Lemma bytes_ok_rev l : bytes_ok l -> bytes_ok (rev l).
Proof. unfold bytes_ok. rewrite !Forall_forall. intros H x Hx. apply H. now apply in_rev. Qed.

Lemma bytes_ok_be_encode n v : bytes_ok (be_encode n v).
Proof. apply bytes_ok_rev, bytes_ok_le_encode. Qed.

Lemma le_decode_range l : bytes_ok l -> 0 <= le_decode l < 256 ^ len l.
Proof.
  induction 1 as [|b l Hb Hl IH]; [simpl; lia|].
  rewrite len_cons. cbn [le_decode]. pose proof (len_nonneg l).
  rewrite Z.pow_add_r by lia. unfold byte_ok in Hb. lia.
Qed.

Lemma be_decode_range l : bytes_ok l -> 0 <= be_decode l < 256 ^ len l.
Proof.
  intros H. unfold be_decode. rewrite <- (len_rev l). apply le_decode_range. now apply bytes_ok_rev.
Qed.

Lemma le_decode_encode n v : le_decode (le_encode n v) = v mod 256 ^ Z.of_nat n.
Proof.
  revert v; induction n as [|n IH]; intros v.
  - simpl. now rewrite Z.mod_1_r.
  - cbn [le_encode le_decode]. rewrite IH.
    rewrite Nat2Z.inj_succ, Z.pow_succ_r by lia.
    rewrite Z.rem_mul_r by lia. lia.
Qed.

Lemma le_decode_encode_id n v : 0 <= v < 256 ^ Z.of_nat n -> le_decode (le_encode n v) = v.
Proof. intros. rewrite le_decode_encode. now apply Z.mod_small. Qed.

Lemma be_decode_encode n v : be_decode (be_encode n v) = v mod 256 ^ Z.of_nat n.
Proof. unfold be_decode, be_encode. rewrite rev_involutive. apply le_decode_encode. Qed.

Lemma be_decode_encode_id n v : 0 <= v < 256 ^ Z.of_nat n -> be_decode (be_encode n v) = v.
Proof. intros. rewrite be_decode_encode. now apply Z.mod_small. Qed.

Lemma le_encode_decode l : bytes_ok l -> le_encode (length l) (le_decode l) = l.
Proof.
  induction 1 as [|b l Hb Hl IH]; [reflexivity|].
  cbn [length le_encode le_decode]. unfold byte_ok in Hb.
  replace ((b + 256 * le_decode l) mod 256) with b by lia.
  replace ((b + 256 * le_decode l) / 256) with (le_decode l) by lia.
  now rewrite IH.
Qed.

Lemma be_encode_decode l : bytes_ok l -> be_encode (length l) (be_decode l) = l.
Proof.
  intros H. unfold be_encode, be_decode.
  rewrite <- (rev_length l). rewrite le_encode_decode by now apply bytes_ok_rev.
  apply rev_involutive.
Qed.

Lemma le_encode_inj n v w :
  0 <= v < 256 ^ Z.of_nat n -> 0 <= w < 256 ^ Z.of_nat n -> le_encode n v = le_encode n w -> v = w.
Proof.
  intros Hv Hw H. rewrite <- (le_decode_encode_id n v Hv), <- (le_decode_encode_id n w Hw). now rewrite H.
Qed.

(* single byte XOR stays a byte *)
Lemma byte_lxor a b : byte_ok a -> byte_ok b -> byte_ok (Z.lxor a b).
Proof.
  unfold byte_ok. intros Ha Hb.
  split.
  - apply Z.lxor_nonneg. lia.
  - destruct (Z.eq_dec (Z.lxor a b) 0) as [->|Hne]; [lia|].
    assert (Hnn : 0 <= Z.lxor a b) by (apply Z.lxor_nonneg; lia).
    apply Z.log2_lt_pow2 with (b := 8); [lia|].
    assert (Ha8 : Z.log2 a < 8) by (destruct (Z.eq_dec a 0) as [->|]; [simpl; lia| apply Z.log2_lt_pow2; lia]).
    assert (Hb8 : Z.log2 b < 8) by (destruct (Z.eq_dec b 0) as [->|]; [simpl; lia| apply Z.log2_lt_pow2; lia]).
    pose proof (Z.log2_lxor a b ltac:(lia) ltac:(lia)). lia.
Qed.
