(* Finite sweeps lifted to universally quantified statements, and small bit lemmas. *)
From Pyctr Require Import Base.Prelude.

Fixpoint zseq (start : Z) (n : nat) : list Z :=
  match n with O => [] | S n => start :: zseq (start + 1) n end.

Lemma in_zseq start n w : start <= w < start + Z.of_nat n -> In w (zseq start n).
Proof.
  revert start; induction n as [|n IH]; intros start H; [lia|].
  cbn [zseq]. destruct (Z.eq_dec w start) as [->|Hne]; [now left|].
  right. apply IH. lia.
Qed.

Lemma length_zseq s n : length (zseq s n) = n.
Proof. revert s; induction n as [|n IH]; intros s; cbn [zseq length]; [reflexivity|now rewrite IH]. Qed.

Lemma sweep (P : Z -> bool) (N : Z) :
  forallb P (zseq 0 (Z.to_nat N)) = true -> forall w, 0 <= w < N -> P w = true.
Proof.
  intros H w Hw. rewrite forallb_forall in H. apply H. apply in_zseq. lia.
Qed.

Lemma sweep2 (P : Z -> Z -> bool) (N M : Z) :
  forallb (fun a => forallb (P a) (zseq 0 (Z.to_nat M))) (zseq 0 (Z.to_nat N)) = true ->
  forall a b, 0 <= a < N -> 0 <= b < M -> P a b = true.
Proof.
  intros H a b Ha Hb. rewrite forallb_forall in H. specialize (H a (in_zseq 0 (Z.to_nat N) a ltac:(lia))).
  rewrite forallb_forall in H. apply H. apply in_zseq. lia.
Qed.

(* w & 2^i is non-zero exactly when bit i is set *)
Lemma land_pow2_testbit w i : 0 <= i -> negb (Z.land w (2 ^ i) =? 0) = Z.testbit w i.
Proof.
  intros Hi.
  assert (E : Z.land w (2 ^ i) = if Z.testbit w i then 2 ^ i else 0).
  { apply Z.bits_inj'. intros n Hn. rewrite Z.land_spec.
    destruct (Z.eq_dec n i) as [->|Hne].
    - rewrite Z.pow2_bits_true by lia. rewrite andb_true_r.
      destruct (Z.testbit w i); [now rewrite Z.pow2_bits_true by lia|now rewrite Z.bits_0].
    - rewrite Z.pow2_bits_false by lia. rewrite andb_false_r.
      destruct (Z.testbit w i); [now rewrite Z.pow2_bits_false by lia|now rewrite Z.bits_0]. }
  rewrite E. destruct (Z.testbit w i); [|reflexivity].
  assert (0 < 2 ^ i) by (apply Z.pow_pos_nonneg; lia).
  replace (2 ^ i =? 0) with false by lia. reflexivity.
Qed.

(* destruct a list of known length into its elements *)
Ltac explode l H :=
  repeat (destruct l as [|? l]; [discriminate H|]; cbn [length] in H; apply Nat.succ_inj in H || idtac);
  try (destruct l; [|discriminate H]).
