(* Slices, overlays and extensional list reasoning with integer indices. *)
From Pyctr Require Import Base.Prelude.

Section Lists.
Context {A : Type}.
Implicit Types l : list A.

(* element at integer index *)
Definition zth l (i : Z) : option A :=
  if i <? 0 then None else nth_error l (Z.to_nat i).

(* l[off : off+n] for off, n >= 0 (negative arguments behave as 0).
   slice0 / drop0 / take0 are the plain definitions used in proofs; slice / drop / take first clamp their integer
   arguments to the length of the list, so that the extracted code never converts a huge (data-dependent) integer
   to a unary natural number.  They are equal (slice_raw, drop_raw, take_raw). *)
Definition slice0 l (off n : Z) : list A :=
  firstn (Z.to_nat n) (skipn (Z.to_nat off) l).
Definition drop0 l (off : Z) : list A := skipn (Z.to_nat off) l.
Definition take0 l (n : Z) : list A := firstn (Z.to_nat n) l.

Definition slice l (off n : Z) : list A := slice0 l (Z.min off (len l)) (Z.min n (len l)).
Definition drop l (off : Z) : list A := drop0 l (Z.min off (len l)).
Definition take l (n : Z) : list A := take0 l (Z.min n (len l)).

Lemma drop_raw l off : drop l off = drop0 l off.
Proof.
  unfold drop, drop0. destruct (Z.le_gt_cases (len l) off).
  - rewrite Z.min_r by lia. unfold len in *. rewrite !skipn_all2 by lia. reflexivity.
  - now rewrite Z.min_l by lia.
Qed.

Lemma take_raw l n : take l n = take0 l n.
Proof.
  unfold take, take0. destruct (Z.le_gt_cases (len l) n).
  - rewrite Z.min_r by lia. unfold len in *. rewrite !firstn_all2 by lia. reflexivity.
  - now rewrite Z.min_l by lia.
Qed.

Lemma slice_raw l off n : slice l off n = slice0 l off n.
Proof.
  unfold slice, slice0.
  replace (skipn (Z.to_nat (Z.min off (len l))) l) with (skipn (Z.to_nat off) l)
    by (pose proof (drop_raw l off) as D; unfold drop, drop0 in D; now rewrite D).
  destruct (Z.le_gt_cases (len l) n).
  - rewrite Z.min_r by lia. unfold len in *. rewrite !firstn_all2 by (rewrite skipn_length; lia). reflexivity.
  - now rewrite Z.min_l by lia.
Qed.

Lemma list_ext l1 l2 : (forall i, nth_error l1 i = nth_error l2 i) -> l1 = l2.
Proof.
  revert l2; induction l1 as [|x xs IH]; intros [|y ys] H; auto.
  - specialize (H 0%nat); discriminate.
  - specialize (H 0%nat); discriminate.
  - f_equal. { specialize (H 0%nat); now inversion H. }
    apply IH; intros i; exact (H (S i)).
Qed.

Lemma nth_error_firstn l n i :
  nth_error (firstn n l) i = if (i <? n)%nat then nth_error l i else None.
Proof.
  revert l i; induction n as [|n IH]; intros l i.
  - simpl. destruct i; reflexivity.
  - destruct l as [|x l]; simpl firstn.
    + destruct (i <? S n)%nat; destruct i; reflexivity.
    + destruct i as [|i]; [reflexivity|]. simpl nth_error. rewrite IH.
      change (S i <? S n)%nat with (i <? n)%nat. reflexivity.
Qed.

Lemma nth_error_skipn l n i : nth_error (skipn n l) i = nth_error l (n + i).
Proof.
  revert l; induction n as [|n IH]; intros l; [reflexivity|].
  destruct l as [|x l]; simpl.
  - now destruct i.
  - apply IH.
Qed.

Lemma nth_error_repeat (x : A) n i :
  nth_error (repeat x n) i = if (i <? n)%nat then Some x else None.
Proof.
  revert i; induction n as [|n IH]; intros [|i]; simpl; auto.
  rewrite IH. reflexivity.
Qed.

Lemma nth_error_app l1 l2 i :
  nth_error (l1 ++ l2) i =
  if (i <? length l1)%nat then nth_error l1 i else nth_error l2 (i - length l1).
Proof.
  destruct (Nat.ltb_spec i (length l1)).
  - now apply nth_error_app1.
  - now apply nth_error_app2.
Qed.

Lemma nth_error_slice l off n i :
  0 <= off -> 0 <= n ->
  nth_error (slice l off n) i =
  if (Z.of_nat i <? n) then nth_error l (Z.to_nat off + i) else None.
Proof.
  intros Ho Hn. rewrite ?slice_raw; unfold slice0. rewrite nth_error_firstn, nth_error_skipn.
  destruct (Nat.ltb_spec i (Z.to_nat n)); destruct (Z.ltb_spec (Z.of_nat i) n); auto; lia.
Qed.

Lemma length_slice l off n :
  length (slice l off n) = Nat.min (Z.to_nat n) (length l - Z.to_nat off).
Proof. rewrite ?slice_raw; unfold slice0. now rewrite firstn_length, skipn_length. Qed.

Lemma len_slice l off n :
  0 <= off -> 0 <= n -> len (slice l off n) = Z.min n (Z.max 0 (len l - off)).
Proof. intros. unfold len. rewrite length_slice. lia. Qed.

Lemma len_drop l off : 0 <= off -> len (drop l off) = Z.max 0 (len l - off).
Proof. intros. unfold len; rewrite ?drop_raw; unfold drop0. rewrite skipn_length. lia. Qed.

Lemma len_take l n : 0 <= n -> len (take l n) = Z.min n (len l).
Proof. intros. unfold len; rewrite ?take_raw; unfold take0. rewrite firstn_length. lia. Qed.

Lemma slice_all l : slice l 0 (len l) = l.
Proof. unfold len; rewrite ?slice_raw; unfold slice0. simpl. rewrite Nat2Z.id. apply firstn_all. Qed.

Lemma slice_ge l off n : len l - off <= n -> slice l off n = drop l off.
Proof.
  intros H. rewrite ?slice_raw, ?drop_raw; unfold slice0, drop0. apply firstn_all2. rewrite skipn_length. unfold len in H. lia.
Qed.

Lemma slice_0 l off : slice l off 0 = [].
Proof. rewrite slice_raw. reflexivity. Qed.

Lemma slice_nil l off n : n <= 0 -> slice l off n = [].
Proof. intros. rewrite ?slice_raw; unfold slice0. replace (Z.to_nat n) with 0%nat by lia. reflexivity. Qed.

Lemma slice_slice l a n b m :
  0 <= a -> 0 <= n -> 0 <= b -> 0 <= m ->
  slice (slice l a n) b m = slice l (a + b) (Z.min m (Z.max 0 (n - b))).
Proof.
  intros. apply list_ext; intros i.
  rewrite !nth_error_slice by lia.
  destruct (Z.ltb_spec (Z.of_nat i) m); destruct (Z.ltb_spec (Z.of_nat i) (Z.min m (Z.max 0 (n - b)))); try lia; auto.
  - destruct (Z.ltb_spec (Z.of_nat (Z.to_nat b + i)) n); try lia.
    f_equal; lia.
  - destruct (Z.ltb_spec (Z.of_nat (Z.to_nat b + i)) n); try lia. reflexivity.
Qed.

Lemma firstn_add_split l (a b : nat) :
  firstn (a + b) l = firstn a l ++ firstn b (skipn a l).
Proof.
  revert l; induction a as [|a IH]; intros l; [reflexivity|].
  destruct l as [|x l]; simpl.
  - now rewrite firstn_nil.
  - now rewrite IH.
Qed.

Lemma skipn_add l (a b : nat) : skipn (a + b) l = skipn b (skipn a l).
Proof.
  revert l; induction a as [|a IH]; intros l; [reflexivity|].
  destruct l as [|x l]; simpl.
  - now rewrite skipn_nil.
  - apply IH.
Qed.

Lemma slice_app_split l off n m :
  0 <= off -> 0 <= n -> 0 <= m ->
  slice l off (n + m) = slice l off n ++ slice l (off + n) m.
Proof.
  intros. rewrite ?slice_raw; unfold slice0.
  rewrite !Z2Nat.inj_add by lia.
  rewrite firstn_add_split. f_equal. now rewrite skipn_add.
Qed.

Lemma slice_app_l l1 l2 off n :
  0 <= off -> 0 <= n -> off + n <= len l1 -> slice (l1 ++ l2) off n = slice l1 off n.
Proof.
  intros. apply list_ext; intros i. rewrite !nth_error_slice by lia.
  destruct (Z.ltb_spec (Z.of_nat i) n); auto.
  rewrite nth_error_app. unfold len in *.
  destruct (Nat.ltb_spec (Z.to_nat off + i) (length l1)); auto; lia.
Qed.

Lemma slice_app_r l1 l2 off n :
  len l1 <= off -> 0 <= n -> slice (l1 ++ l2) off n = slice l2 (off - len l1) n.
Proof.
  intros. pose proof (len_nonneg l1). apply list_ext; intros i. rewrite !nth_error_slice by lia.
  destruct (Z.ltb_spec (Z.of_nat i) n); auto.
  rewrite nth_error_app. unfold len in *.
  destruct (Nat.ltb_spec (Z.to_nat off + i) (length l1)); try lia.
  f_equal; lia.
Qed.

Lemma take_0 l : take l 0 = [].
Proof. rewrite take_raw. reflexivity. Qed.

Lemma drop_0 l : drop l 0 = l.
Proof. rewrite drop_raw. reflexivity. Qed.

Lemma drop_ge l off : len l <= off -> drop l off = [].
Proof. intros. rewrite ?drop_raw; unfold drop0. apply skipn_all2. unfold len in *; lia. Qed.

Lemma take_drop l n : take l n ++ drop l n = l.
Proof. rewrite take_raw, drop_raw. apply firstn_skipn. Qed.

(* overlay: write d into l at offset off (0 <= off), zero-filling with [z] past the end *)
Definition overlay (z : A) l (off : Z) (d : list A) : list A :=
  match d with
  | [] => l
  | _ =>
    let n := Z.to_nat off in
    firstn n l ++ repeat z (n - length l) ++ d ++ skipn (n + length d) l
  end.

Lemma length_overlay z l off d :
  d <> [] -> length (overlay z l off d) = Nat.max (length l) (Z.to_nat off + length d).
Proof.
  intros Hd. unfold overlay. destruct d as [|x d]; [congruence|].
  rewrite !app_length, firstn_length, repeat_length, skipn_length. lia.
Qed.

Lemma len_overlay z l off d :
  0 <= off -> d <> [] -> len (overlay z l off d) = Z.max (len l) (off + len d).
Proof. intros. unfold len. rewrite length_overlay by auto. lia. Qed.

Lemma nth_error_overlay z l off d i :
  d <> [] ->
  nth_error (overlay z l off d) i =
  let n := Z.to_nat off in
  if (i <? n)%nat then (if (i <? length l)%nat then nth_error l i else Some z)
  else if (i <? n + length d)%nat then nth_error d (i - n)
  else nth_error l i.
Proof.
  intros Hd. unfold overlay. destruct d as [|x d]; [congruence|]. clear Hd.
  set (dd := x :: d). cbv zeta. set (n := Z.to_nat off).
  rewrite nth_error_app, firstn_length.
  destruct (Nat.ltb_spec i (Nat.min n (length l))).
  - rewrite nth_error_firstn.
    destruct (Nat.ltb_spec i n); try lia.
    destruct (Nat.ltb_spec i (length l)); try lia. reflexivity.
  - rewrite nth_error_app, repeat_length.
    destruct (Nat.ltb_spec (i - Nat.min n (length l)) (n - length l)).
    + rewrite nth_error_repeat.
      destruct (Nat.ltb_spec (i - Nat.min n (length l)) (n - length l)); try lia.
      destruct (Nat.ltb_spec i n); try lia.
      destruct (Nat.ltb_spec i (length l)); try lia. reflexivity.
    + rewrite nth_error_app.
      destruct (Nat.ltb_spec i n); try lia.
      destruct (Nat.ltb_spec (i - Nat.min n (length l) - (n - length l)) (length dd)).
      * destruct (Nat.ltb_spec i (n + length dd)); try lia. f_equal; lia.
      * destruct (Nat.ltb_spec i (n + length dd)); try lia.
        rewrite nth_error_skipn. f_equal. lia.
Qed.

End Lists.

Lemma bytes_ok_app a b : bytes_ok a -> bytes_ok b -> bytes_ok (a ++ b).
Proof. apply Forall_app_intro || (intros; apply Forall_app; auto). Qed.

Lemma bytes_ok_firstn n l : bytes_ok l -> bytes_ok (firstn n l).
Proof.
  unfold bytes_ok. rewrite !Forall_forall. intros H x Hx. apply H.
  rewrite <- (firstn_skipn n l). apply in_or_app; auto.
Qed.

Lemma bytes_ok_skipn n l : bytes_ok l -> bytes_ok (skipn n l).
Proof.
  unfold bytes_ok. rewrite !Forall_forall. intros H x Hx. apply H.
  rewrite <- (firstn_skipn n l). apply in_or_app; auto.
Qed.

Lemma bytes_ok_slice l off n : bytes_ok l -> bytes_ok (slice l off n).
Proof. intros. rewrite ?slice_raw; unfold slice0. now apply bytes_ok_firstn, bytes_ok_skipn. Qed.

Lemma bytes_ok_repeat b n : byte_ok b -> bytes_ok (repeat b n).
Proof. intros. unfold bytes_ok. apply Forall_forall. intros x Hx. apply repeat_spec in Hx. now subst. Qed.
