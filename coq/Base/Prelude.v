(* Common imports, arithmetic automation, the result type of the models. *)
From Coq Require Export ZArith List Bool Lia ZifyBool ZifyNat.
Export ListNotations.
Global Open Scope Z_scope.

Ltac Zify.zify_post_hook ::= Z.to_euclidean_division_equations.

(* Exceptions the models can raise.  [Pyctr n] stands for a pyctr-specific
   exception class; the numbering is fixed in harness/errs.py. *)
Inductive err : Set :=
| ValueError | TypeError | KeyError | IndexError | OverflowError
| NotImplementedErr | RecursionErr | AttributeErr | OutOfFuel | UnicodeErr
| Pyctr (n : Z).

Inductive result (A : Type) : Type :=
| Ok (a : A)
| Err (e : err).
Arguments Ok {A} a.
Arguments Err {A} e.

Definition bind {A B} (r : result A) (f : A -> result B) : result B :=
  match r with Ok a => f a | Err e => Err e end.
Notation "'do' x <- r ; k" := (bind r (fun x => k))
  (at level 200, x pattern, r at level 100, k at level 200, right associativity).

Definition is_ok {A} (r : result A) : bool := match r with Ok _ => true | Err _ => false end.

(* bytes are integers in [0,256) *)
Definition byte_ok (b : Z) : Prop := 0 <= b < 256.
Definition bytes_ok (l : list Z) : Prop := Forall byte_ok l.
Definition byte_okb (b : Z) : bool := (0 <=? b) && (b <? 256).
Definition bytes_okb (l : list Z) : bool := forallb byte_okb l.

Lemma bytes_okb_spec l : bytes_okb l = true <-> bytes_ok l.
Proof.
  unfold bytes_okb, bytes_ok. rewrite forallb_forall, Forall_forall.
  split; intros H x Hx; specialize (H x Hx); unfold byte_okb, byte_ok in *; lia.
Qed.

Definition len {A} (l : list A) : Z := Z.of_nat (length l).
Lemma len_nonneg {A} (l : list A) : 0 <= len l.
Proof. unfold len; lia. Qed.
Lemma len_app {A} (a b : list A) : len (a ++ b) = len a + len b.
Proof. unfold len; rewrite app_length; lia. Qed.
Lemma len_nil {A} : len (@nil A) = 0.
Proof. reflexivity. Qed.
Lemma len_cons {A} (x : A) l : len (x :: l) = 1 + len l.
Proof. unfold len; simpl length; lia. Qed.
Lemma len_map {A B} (f : A -> B) l : len (map f l) = len l.
Proof. unfold len; now rewrite map_length. Qed.
Lemma len_repeat {A} (x : A) n : len (repeat x n) = Z.of_nat n.
Proof. unfold len; now rewrite repeat_length. Qed.
Lemma len_rev {A} (l : list A) : len (rev l) = len l.
Proof. unfold len; now rewrite rev_length. Qed.
