(* A few str/bytes helpers used by generated kernels. *)
From Pyctr Require Import Base.Prelude Base.ListExt.

(* b * n *)
Definition seq_mul (l : list Z) (n : Z) : list Z := concat (repeat l (Z.to_nat n)).

(* s.replace(c, b) for a one-character pattern c *)
Definition str_replace1 (s : list Z) (c : Z) (b : list Z) : list Z :=
  flat_map (fun x => if x =? c then b else [x]) s.

Lemma len_seq_mul_single (x : Z) n : 0 <= n -> len (seq_mul [x] n) = n.
Proof.
  intros. unfold seq_mul, len.
  assert (forall k, length (concat (repeat [x] k)) = k) as E by (induction k; simpl; auto).
  rewrite E. lia.
Qed.

Lemma seq_mul_single (x : Z) n : seq_mul [x] n = repeat x (Z.to_nat n).
Proof. unfold seq_mul. induction (Z.to_nat n); simpl; congruence. Qed.

(* str.encode('utf-16le') on a list of code points (scalar values; lone surrogates make Python raise) *)
Definition utf16_units (cp : Z) : list Z :=
  if cp <? 0x10000 then [cp] else let c := cp - 0x10000 in [0xD800 + c / 0x400; 0xDC00 + c mod 0x400].
Definition utf16le_encode (s : list Z) : list Z :=
  flat_map (fun cp => flat_map (fun u => [u mod 256; u / 256]) (utf16_units cp)) s.
Definition scalar (cp : Z) : Prop := 0 <= cp < 0x110000 /\ ~ (0xD800 <= cp < 0xE000).

Lemma flat_map_no_c (c : Z) (b l : list Z) : ~ In c l -> flat_map (fun x => if x =? c then b else [x]) l = l.
Proof.
  induction l as [|y l IH]; intros Hn; [reflexivity|]. cbn [flat_map].
  destruct (y =? c) eqn:Ey; [exfalso; apply Hn; left; lia|]. cbn [app]. f_equal. apply IH. intros H. apply Hn. now right.
Qed.

Lemma str_replace1_idem s c b : ~ In c b -> str_replace1 (str_replace1 s c b) c b = str_replace1 s c b.
Proof.
  intros Hn. unfold str_replace1. induction s as [|x s IH]; [reflexivity|].
  cbn [flat_map]. rewrite flat_map_app, IH. f_equal.
  destruct (x =? c) eqn:E.
  - now apply flat_map_no_c.
  - cbn [flat_map]. rewrite E. reflexivity.
Qed.
