(* A few str/bytes helpers used by generated kernels. *)
From Pyctr Require Import Base.Prelude Base.ListExt.

(* b * n *)
Definition seq_mul (l : list Z) (n : Z) : list Z := concat (repeat l (Z.to_nat n)).

(* s.replace(c, b) for a one-character pattern c *)
Definition str_replace1 (s : list Z) (c : Z) (b : list Z) : list Z :=
  flat_map (fun x => if x =? c then b else [x]) s.

Lemma len_seq_mul_single (x : Z) n : 0 <= n -> len (seq_mul [x] n) = n.
Proof.
  intros. unfold seq_mul, len.
  assert (forall k, length (concat (repeat [x] k)) = k) as E by (induction k; simpl; auto).
  rewrite E. lia.
Qed.

Lemma seq_mul_single (x : Z) n : seq_mul [x] n = repeat x (Z.to_nat n).
Proof. unfold seq_mul. induction (Z.to_nat n); simpl; congruence. Qed.
