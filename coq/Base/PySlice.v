(* Python slicing / indexing / prefix tests on sequences (bytes and str as lists of integers). *)
From Pyctr Require Import Base.Prelude Base.ListExt.

Section S.
Context {A : Type}.

(* how Python normalises one slice bound against a length *)
Definition clampidx (n i : Z) : Z := if i <? 0 then Z.max 0 (n + i) else Z.min i n.

(* l[a:b] with optional bounds (step 1) *)
Definition pyslice (l : list A) (a b : option Z) : list A :=
  let n := len l in
  let a' := match a with None => 0 | Some a => clampidx n a end in
  let b' := match b with None => n | Some b => clampidx n b end in
  slice l a' (b' - a').

Lemma clampidx_range n i : 0 <= n -> 0 <= clampidx n i <= n.
Proof. unfold clampidx. destruct (i <? 0) eqn:?; lia. Qed.

Lemma pyslice_nonneg (l : list A) a b :
  0 <= a -> 0 <= b -> pyslice l (Some a) (Some b) = slice l (Z.min a (len l)) (Z.min b (len l) - Z.min a (len l)).
Proof.
  intros. unfold pyslice, clampidx.
  destruct (a <? 0) eqn:?; destruct (b <? 0) eqn:?; try lia. reflexivity.
Qed.

Lemma pyslice_from (l : list A) a : 0 <= a -> pyslice l (Some a) None = drop l a.
Proof.
  intros. unfold pyslice, clampidx. pose proof (len_nonneg l).
  destruct (a <? 0) eqn:?; try lia.
  destruct (Z.le_gt_cases (len l) a).
  - rewrite Z.min_r by lia. rewrite slice_nil by lia. symmetry. now apply drop_ge.
  - rewrite Z.min_l by lia. apply slice_ge. lia.
Qed.

Lemma pyslice_to (l : list A) b : 0 <= b -> pyslice l None (Some b) = take l b.
Proof.
  intros. unfold pyslice, clampidx; rewrite ?slice_raw, ?take_raw; unfold slice0, take0. pose proof (len_nonneg l).
  destruct (b <? 0) eqn:?; try lia. simpl skipn. rewrite Z.sub_0_r.
  destruct (Z.le_gt_cases (len l) b).
  - rewrite Z.min_r by lia. unfold len in *. rewrite !firstn_all2 by lia. reflexivity.
  - now rewrite Z.min_l by lia.
Qed.

End S.

(* element by index; the real code raises IndexError outside the range, the
   model returns 0 there and every use is guarded by a length fact *)
Definition pyidx (l : list Z) (i : Z) : Z :=
  let j := if i <? 0 then len l + i else i in
  match zth l j with Some x => x | None => 0 end.

Fixpoint list_eqb (a b : list Z) : bool :=
  match a, b with
  | [], [] => true
  | x :: a, y :: b => (x =? y) && list_eqb a b
  | _, _ => false
  end.

Lemma list_eqb_spec a b : list_eqb a b = true <-> a = b.
Proof.
  revert b; induction a as [|x a IH]; intros [|y b]; simpl; split; intros H; try congruence; auto.
  - apply andb_true_iff in H as [H1 H2]. apply Z.eqb_eq in H1. apply IH in H2. congruence.
  - inversion H; subst. rewrite Z.eqb_refl. simpl. now apply IH.
Qed.

Definition starts_with (s p : list Z) : bool := list_eqb (take s (len p)) p.
Definition ends_with (s p : list Z) : bool :=
  (len p <=? len s) && list_eqb (drop s (len s - len p)) p.

Lemma starts_with_app p s : starts_with (p ++ s) p = true.
Proof.
  unfold starts_with, len; rewrite ?take_raw; unfold take0. rewrite Nat2Z.id.
  rewrite firstn_app, Nat.sub_diag, firstn_all. simpl. rewrite app_nil_r. now apply list_eqb_spec.
Qed.

Lemma ends_with_app s p : ends_with (s ++ p) p = true.
Proof.
  unfold ends_with. rewrite len_app. pose proof (len_nonneg s). pose proof (len_nonneg p).
  apply andb_true_iff; split; [lia|].
  apply list_eqb_spec. rewrite ?drop_raw; unfold drop0. replace (len s + len p - len p) with (len s) by lia.
  unfold len. rewrite Nat2Z.id. rewrite skipn_app, Nat.sub_diag, skipn_all. reflexivity.
Qed.

Lemma ends_with_split s p : ends_with s p = true -> s = take s (len s - len p) ++ p.
Proof.
  unfold ends_with. intros H. apply andb_true_iff in H as [H1 H2].
  apply list_eqb_spec in H2. rewrite <- H2 at 2. rewrite ?take_raw, ?drop_raw; unfold take0, drop0. now rewrite firstn_skipn.
Qed.
