(* C04: the grouped, trimmed read of the FullDecrypted branch equals the slice of one whole image. *)
From Pyctr Require Import Base.Prelude Base.ListExt Base.PySlice Model.NcchFull.

Definition is_raw (t : tag) : bool := match t with TRaw _ => true | _ => false end.
Definition keys (tr : list (tag * (Z * Z))) : list tag := map fst tr.

Lemma tag_eqb_refl t : tag_eqb t t = true.
Proof. now apply tag_eqb_spec. Qed.
Lemma tag_eqb_neq a b : a <> b -> tag_eqb a b = false.
Proof. intros H. destruct (tag_eqb a b) eqn:E; [apply tag_eqb_spec in E; congruence|reflexivity]. Qed.

Lemma add_chunk_new tr k s : ~ In k (keys tr) -> add_chunk tr k s = tr ++ [(k, (s, 0x200))].
Proof.
  induction tr as [|[k' [s' n']] r IH]; intros H; cbn [add_chunk app]; [reflexivity|].
  cbn [keys map fst In] in H. rewrite tag_eqb_neq by tauto. f_equal. apply IH. tauto.
Qed.

Lemma add_chunk_last tr k s n s' :
  ~ In k (keys tr) -> add_chunk (tr ++ [(k, (s, n))]) k s' = tr ++ [(k, (s, n + 0x200))].
Proof.
  induction tr as [|[k' [s0 n0]] r IH]; intros H; cbn [add_chunk app].
  - now rewrite tag_eqb_refl.
  - cbn [keys map fst In] in H. rewrite tag_eqb_neq by tauto. f_equal. apply IH. tauto.
Qed.

Lemma chunks_from_app c n m : chunks_from c (n + m) = chunks_from c n ++ chunks_from (c + 0x200 * Z.of_nat n) m.
Proof.
  revert c; induction n as [|n IH]; intros c; cbn [Nat.add chunks_from app].
  - replace (c + 0x200 * Z.of_nat 0) with c by lia. reflexivity.
  - rewrite IH. replace (c + 0x200 + 0x200 * Z.of_nat n) with (c + 0x200 * Z.of_nat (S n)) by lia. reflexivity.
Qed.

Lemma in_chunks_from c n x : In x (chunks_from c n) <-> exists j, (j < n)%nat /\ x = c + 0x200 * Z.of_nat j.
Proof.
  revert c; induction n as [|n IH]; intros c; cbn [chunks_from In].
  - split; [tauto|intros (j & Hj & _); lia].
  - rewrite IH. split.
    + intros [<-|(j & Hj & ->)]; [exists 0%nat; split; lia|exists (S j); split; lia].
    + intros (j & Hj & ->). destruct j as [|j]; [left; lia|right; exists j; split; lia].
Qed.

Section G.
Variable cls : Z -> tag * Z.
Variable gd : tag -> Z -> Z -> list Z.
Variable img : Z -> list Z.

(* raw keys name their own chunk *)
Hypothesis Hraw : forall c x cur, cls c = (TRaw x, cur) -> x = c /\ cur = 0.
(* a known section is an interval of chunks *)
Hypothesis Hconv : forall c1 c2 c3 t cur1 cur3,
  c1 <= c2 <= c3 -> is_raw t = false -> cls c1 = (t, cur1) -> cls c3 = (t, cur3) -> cls c2 = (t, cur1) /\ cur3 = cur1.
(* reading a run of m chunks of one key in one go = the m chunk images *)
Hypothesis Hgd : forall c t cur m, c mod 0x200 = 0 -> (0 < m)%nat ->
  (forall j, (j < m)%nat -> cls (c + 0x200 * Z.of_nat j) = (t, cur)) ->
  gd t (c - cur) (0x200 * Z.of_nat m) = concat (map img (chunks_from c m)).

Definition gdata (tr : list (tag * (Z * Z))) : list Z := concat (map (fun g => gd (fst g) (fst (snd g)) (snd (snd g))) tr).

(* the dictionary after n chunks from c0: consecutive runs, distinct keys *)
Inductive Groups (c0 : Z) : list (tag * (Z * Z)) -> nat -> Prop :=
| G_nil : Groups c0 [] 0
| G_snoc tr n k cur m :
    Groups c0 tr n -> (0 < m)%nat ->
    (forall j, (j < m)%nat -> cls (c0 + 0x200 * Z.of_nat n + 0x200 * Z.of_nat j) = (k, cur)) ->
    (is_raw k = true -> m = 1%nat) -> ~ In k (keys tr) ->
    Groups c0 (tr ++ [(k, (c0 + 0x200 * Z.of_nat n - cur, 0x200 * Z.of_nat m))]) (n + m).

Lemma groups_key_chunk c0 tr n : Groups c0 tr n ->
  forall k, In k (keys tr) -> exists j cur, (j < n)%nat /\ cls (c0 + 0x200 * Z.of_nat j) = (k, cur).
Proof.
  induction 1 as [|tr n k cur m G IH Hm Hrun Hr Hnin]; intros k' Hin; [inversion Hin|].
  unfold keys in Hin. rewrite map_app in Hin. apply in_app_or in Hin as [Hin|Hin].
  - destruct (IH k' Hin) as (j & c & Hj & Hc). exists j, c. split; [lia|exact Hc].
  - cbn in Hin. destruct Hin as [<-|[]]. exists n, cur. split; [lia|].
    specialize (Hrun 0%nat Hm). rewrite Z.mul_0_r, Z.add_0_r in Hrun. exact Hrun.
Qed.

Lemma groups_data c0 tr n : c0 mod 0x200 = 0 -> Groups c0 tr n -> gdata tr = concat (map img (chunks_from c0 n)).
Proof.
  intros Hal. induction 1 as [|tr n k cur m G IH Hm Hrun Hr Hnin]; [reflexivity|].
  unfold gdata in *. rewrite map_app, concat_app, IH. cbn [map concat fst snd]. rewrite app_nil_r.
  rewrite chunks_from_app, map_app, concat_app. f_equal.
  apply Hgd; try assumption. lia.
Qed.

(* one iteration of the loop *)
Lemma groups_step c0 tr n k cur :
  Groups c0 tr n -> cls (c0 + 0x200 * Z.of_nat n) = (k, cur) ->
  Groups c0 (add_chunk tr k (c0 + 0x200 * Z.of_nat n - cur)) (n + 1) /\
  exists front s sz, add_chunk tr k (c0 + 0x200 * Z.of_nat n - cur) = front ++ [(k, (s, sz))] /\ ~ In k (keys front).
Proof.
  intros G Hc. set (c := c0 + 0x200 * Z.of_nat n) in *.
  assert (Fresh : ~ In k (keys tr) ->
     Groups c0 (add_chunk tr k (c - cur)) (n + 1) /\
     exists front s sz, add_chunk tr k (c - cur) = front ++ [(k, (s, sz))] /\ ~ In k (keys front)).
  { intros Hnin. rewrite add_chunk_new by exact Hnin. split.
    - change 512 with (0x200 * Z.of_nat 1). apply G_snoc; auto.
      + intros j Hj. assert (j = 0%nat) as -> by lia. rewrite Z.mul_0_r, Z.add_0_r. exact Hc.
    - eauto. }
  destruct G as [|tr n k' cur' m G Hm Hrun Hr Hnin]; [apply Fresh; intros []|].
  destruct (tag_eqb k' k) eqn:Ek.
  - (* the current run continues *)
    apply tag_eqb_spec in Ek. subst k'.
    assert (Hk : is_raw k = false).
    { destruct (is_raw k) eqn:Er; [|reflexivity]. exfalso.
      specialize (Hr eq_refl). subst m. specialize (Hrun 0%nat ltac:(lia)).
      destruct k; try discriminate. apply Hraw in Hrun as [-> _]. apply Hraw in Hc as [Hx _]. unfold c in Hx. lia. }
    assert (Hcur : cur = cur').
    { pose proof (Hrun 0%nat Hm) as H0.
      assert (Hle : c0 + 0x200 * Z.of_nat n + 0x200 * Z.of_nat 0 <= c <= c) by (unfold c; lia).
      destruct (Hconv _ c c k cur' cur Hle Hk H0 Hc) as [_ E]. exact E. }
    subst cur'. rewrite add_chunk_last by exact Hnin. split.
    + replace (0x200 * Z.of_nat m + 0x200) with (0x200 * Z.of_nat (m + 1)) by lia.
      replace (n + m + 1)%nat with (n + (m + 1))%nat by lia.
      apply G_snoc; auto; try lia.
      * intros j Hj. destruct (Nat.eq_dec j m) as [->|]; [|apply Hrun; lia].
        replace (c0 + 0x200 * Z.of_nat n + 0x200 * Z.of_nat m) with c by (unfold c; lia). exact Hc.
      * intros Hr'. congruence.
    + eauto.
  - (* a different key: it cannot be one seen before *)
    apply Fresh. unfold keys. rewrite map_app. intros Hin. apply in_app_or in Hin as [Hin|Hin].
    + destruct (groups_key_chunk _ _ _ G k Hin) as (j & cj & Hj & Hcj).
      destruct (is_raw k) eqn:Er.
      * destruct k; try discriminate. apply Hraw in Hcj as [-> _]. apply Hraw in Hc as [Hx _]. unfold c in Hx. lia.
      * pose proof (Hrun 0%nat Hm) as H0. rewrite Z.mul_0_r, Z.add_0_r in H0.
        assert (Hle : c0 + 0x200 * Z.of_nat j <= c0 + 0x200 * Z.of_nat n <= c) by (unfold c; lia).
        destruct (Hconv (c0 + 0x200 * Z.of_nat j) (c0 + 0x200 * Z.of_nat n) c k cj cur Hle Er Hcj Hc) as [E _].
        rewrite H0 in E. inversion E. subst. rewrite tag_eqb_refl in Ek. discriminate.
    + cbn in Hin. destruct Hin as [E|[]]. subst. rewrite tag_eqb_refl in Ek. discriminate.
Qed.

Lemma scan_groups c0 n0 tr last n :
  Groups c0 tr n0 ->
  let '(tr', last') := scan cls (c0 + 0x200 * Z.of_nat n0) n tr last in
  Groups c0 tr' (n0 + n) /\
  ((n = 0)%nat /\ tr' = tr /\ last' = last \/
   exists front k s sz, tr' = front ++ [(k, (s, sz))] /\ ~ In k (keys front) /\ last' = Some k).
Proof.
  revert n0 tr last; induction n as [|n IH]; intros n0 tr last G; cbn [scan].
  - rewrite Nat.add_0_r. auto.
  - destruct (cls (c0 + 0x200 * Z.of_nat n0)) as [k cur] eqn:Ec.
    destruct (groups_step c0 tr n0 k cur G Ec) as [G' (front & s & sz & Ea & Hnin)].
    specialize (IH (n0 + 1)%nat _ (Some k) G').
    replace (c0 + 0x200 * Z.of_nat (n0 + 1)) with (c0 + 0x200 * Z.of_nat n0 + 512) in IH by lia.
    destruct (scan cls (c0 + 0x200 * Z.of_nat n0 + 512) n (add_chunk tr k (c0 + 0x200 * Z.of_nat n0 - cur)) (Some k)) as [tr' last'].
    destruct IH as [G'' IH]. replace (n0 + S n)%nat with (n0 + 1 + n)%nat by lia. split; [exact G''|].
    right. destruct IH as [(-> & -> & ->)|IH]; [|exact IH]. eauto 8.
Qed.


(* ---- trimming ---- *)
Definition cutend (ce : Z) (d : list Z) : list Z :=
  if negb (ce =? 0x200) then pyslice d None (Some (- ce)) else d.

Lemma is_last_other k k' : k' <> k -> is_last k' (Some k) = false.
Proof. intros. cbn. now apply tag_eqb_neq. Qed.

Lemma emit_tail front k s sz cs ce :
  ~ In k (keys front) ->
  emit gd (front ++ [(k, (s, sz))]) (Some k) false cs ce = gdata front ++ cutend ce (gd k s sz).
Proof.
  induction front as [|[k' [s' n']] r IH]; intros Hnin; cbn [app emit].
  - cbn [is_last]. rewrite tag_eqb_refl. unfold cutend, gdata. cbn [andb map concat app]. now rewrite app_nil_r.
  - cbn [keys map fst In] in Hnin. rewrite is_last_other by tauto. cbn [andb].
    rewrite IH by tauto. unfold gdata. cbn [map concat fst snd]. now rewrite app_assoc.
Qed.

Lemma emit_all front k s sz cs ce :
  ~ In k (keys front) ->
  emit gd (front ++ [(k, (s, sz))]) (Some k) true cs ce =
  match front with
  | [] => cutend ce (pyslice (gd k s sz) (Some cs) None)
  | (k1, (s1, n1)) :: f' => pyslice (gd k1 s1 n1) (Some cs) None ++ gdata f' ++ cutend ce (gd k s sz)
  end.
Proof.
  intros Hnin. destruct front as [|[k1 [s1 n1]] f']; cbn [app emit].
  - cbn [is_last]. rewrite tag_eqb_refl. unfold cutend. cbn [andb]. now rewrite app_nil_r.
  - cbn [keys map fst In] in Hnin. rewrite is_last_other by tauto. cbn [andb].
    rewrite emit_tail by tauto. reflexivity.
Qed.

End G.

(* list facts for the cuts *)
Lemma drop_app_l {A} (a b : list A) n : 0 <= n <= len a -> drop (a ++ b) n = drop a n ++ b.
Proof.
  intros H. rewrite ?drop_raw; unfold drop0. rewrite skipn_app. replace (Z.to_nat n - length a)%nat with 0%nat by (unfold len in H; lia).
  reflexivity.
Qed.

Lemma take_app_r {A} (a b : list A) m : 0 <= m -> take (a ++ b) (len a + m) = a ++ take b m.
Proof.
  intros H. rewrite ?take_raw; unfold take0. rewrite firstn_app. rewrite firstn_all2 by (unfold len; lia).
  f_equal. f_equal. unfold len. lia.
Qed.

Lemma slice_as_take_drop {A} (l : list A) a n : 0 <= a -> 0 <= n -> slice l a n = take (drop l a) n.
Proof. intros. rewrite slice_raw, take_raw, drop_raw. reflexivity. Qed.

Lemma pyslice_drop {A} (d : list A) cs : 0 <= cs -> pyslice d (Some cs) None = drop d cs.
Proof. apply pyslice_from. Qed.

Lemma pyslice_cut_end {A} (d : list A) ce : 0 < ce <= len d -> pyslice d None (Some (- ce)) = take d (len d - ce).
Proof.
  intros H. unfold pyslice, clampidx. destruct (- ce <? 0) eqn:E; [|lia].
  rewrite Z.sub_0_r. replace (Z.max 0 (len d + - ce)) with (len d - ce) by lia.
  rewrite slice_raw, take_raw. reflexivity.
Qed.

Lemma slice_three {A} (a m z : list A) cs ce :
  0 <= cs <= len a -> 0 <= ce <= len z ->
  slice (a ++ m ++ z) cs (len (a ++ m ++ z) - cs - ce) = drop a cs ++ m ++ take z (len z - ce).
Proof.
  intros Ha Hz. pose proof (len_nonneg m).
  assert (HL : len (a ++ m ++ z) = len a + (len m + len z)) by (now rewrite !len_app).
  rewrite slice_as_take_drop by lia.
  rewrite drop_app_l by lia.
  rewrite HL.
  replace (len a + (len m + len z) - cs - ce) with (len (drop a cs) + (len m + (len z - ce))) by (rewrite len_drop by lia; lia).
  rewrite take_app_r by lia. f_equal. rewrite take_app_r by lia. reflexivity.
Qed.

Lemma len_concat_imgs (img : Z -> list Z) c n :
  (forall j, (j < n)%nat -> len (img (c + 0x200 * Z.of_nat j)) = 0x200) ->
  len (concat (map img (chunks_from c n))) = 0x200 * Z.of_nat n.
Proof.
  revert c; induction n as [|n IH]; intros c H; [reflexivity|].
  cbn [chunks_from map concat]. rewrite len_app.
  rewrite <- (Z.add_0_r c) at 1. change 0 with (0x200 * Z.of_nat 0). rewrite H by lia.
  rewrite IH; [lia|]. intros j Hj. replace (c + 0x200 + 0x200 * Z.of_nat j) with (c + 0x200 * Z.of_nat (S j)) by lia.
  apply H. lia.
Qed.

Section G2.
Variable cls : Z -> tag * Z.
Variable gd : tag -> Z -> Z -> list Z.
Variable img : Z -> list Z.
Hypothesis Hraw : forall c x cur, cls c = (TRaw x, cur) -> x = c /\ cur = 0.
Hypothesis Hconv : forall c1 c2 c3 t cur1 cur3,
  c1 <= c2 <= c3 -> is_raw t = false -> cls c1 = (t, cur1) -> cls c3 = (t, cur3) -> cls c2 = (t, cur1) /\ cur3 = cur1.
Hypothesis Hgd : forall c t cur m, c mod 0x200 = 0 -> (0 < m)%nat ->
  (forall j, (j < m)%nat -> cls (c + 0x200 * Z.of_nat j) = (t, cur)) ->
  gd t (c - cur) (0x200 * Z.of_nat m) = concat (map img (chunks_from c m)).

(* every group holds at least one whole chunk *)
Lemma groups_lens c0 tr n :
  c0 mod 0x200 = 0 ->
  Groups cls c0 tr n -> (forall j, (j < n)%nat -> len (img (c0 + 0x200 * Z.of_nat j)) = 0x200) ->
  Forall (fun g => 0x200 <= len (gd (fst g) (fst (snd g)) (snd (snd g)))) tr.
Proof.
  intros Hal. induction 1 as [|tr n k cur m G IH Hm Hrun Hr Hnin]; intros Hl; [constructor|].
  apply Forall_app. split; [apply IH; intros; apply Hl; lia|]. constructor; [|constructor]. cbn [fst snd].
  assert (Hcal : (c0 + 0x200 * Z.of_nat n) mod 0x200 = 0) by lia.
  rewrite (Hgd _ k cur m Hcal Hm Hrun). rewrite len_concat_imgs; [lia|].
  intros j Hj. replace (c0 + 0x200 * Z.of_nat n + 0x200 * Z.of_nat j) with (c0 + 0x200 * Z.of_nat (n + j)) by lia.
  apply Hl. lia.
Qed.

Theorem fulldec_generic_ok content off size :
  0 <= off -> 0 <= size -> off + size <= content ->
  let before := off mod 0x200 in
  let nch := Z.to_nat ((size + before + 0x1FF) / 0x200) in
  (forall j, (j < nch)%nat -> len (img (off - before + 0x200 * Z.of_nat j)) = 0x200) ->
  fulldec_generic cls gd content off size = slice (concat (map img (chunks_from (off - before) nch))) before size.
Proof.
  intros Ho Hs Hfit before nch Hlen. unfold fulldec_generic.
  replace (off + size >? content) with false by lia. fold before. fold nch.
  set (al := off - before) in *.
  pose proof scan_groups as SG. specialize (SG cls gd img Hraw Hconv). try specialize (SG Hgd).
  specialize (SG al 0%nat [] None nch (G_nil cls al)).
  replace (al + 0x200 * Z.of_nat 0) with al in SG by lia.
  destruct (scan cls al nch [] None) as [tr last]. destruct SG as [G SG]. rewrite Nat.add_0_l in G.
  set (D := concat (map img (chunks_from al nch))).
  assert (Hal0 : al mod 0x200 = 0) by (unfold al, before; lia).
  assert (HD : gdata gd tr = D) by (eapply groups_data; eauto).
  assert (HlD : len D = 0x200 * Z.of_nat nch) by (apply len_concat_imgs; exact Hlen).
  assert (Hb : 0 <= before < 0x200) by (unfold before; lia).
  destruct SG as [(Hn0 & -> & ->)|(front & k & s & sz & -> & Hnin & ->)].
  - (* nothing to read *)
    cbn [emit]. assert (size = 0) by (unfold nch in Hn0; lia). subst size. now rewrite slice_0.
  - rewrite (emit_all gd front k s sz before _ Hnin).
    pose proof (groups_lens al _ nch Hal0 G Hlen) as FL. apply Forall_app in FL as [FLf FLl].
    inversion FLl as [|g gs Hgl _]; subst. cbn [fst snd] in Hgl.
    assert (Hnch : 0x200 * Z.of_nat nch = size + before + (0x200 - (size + before) mod 0x200) mod 0x200) by (unfold nch; lia).
    set (ce := 0x200 - (size + before) mod 0x200) in *.
    assert (Hce : 0 < ce <= 0x200) by (unfold ce; lia).
    unfold cutend.
    destruct front as [|[k1 [s1 n1]] f'].
    + (* one group: both cuts on it *)
      unfold gdata in HD. cbn [app map concat fst snd] in HD. rewrite app_nil_r in HD. rewrite HD.
      rewrite pyslice_drop by lia.
      destruct (ce =? 0x200) eqn:Ec; cbn [negb].
      * rewrite slice_as_take_drop by lia. rewrite ?take_raw; unfold take0. symmetry. apply firstn_all2.
        assert (len (drop D before) = size) by (rewrite len_drop by lia; lia). unfold len in *. lia.
      * rewrite pyslice_cut_end by (rewrite len_drop by lia; lia).
        rewrite slice_as_take_drop by lia. f_equal. rewrite len_drop by lia. lia.
    + inversion FLf as [|g1 gs1 Hg1 _]; subst. cbn [fst snd] in Hg1.
      unfold gdata in HD. rewrite map_app, concat_app in HD. cbn [map concat fst snd] in HD. rewrite app_nil_r in HD.
      fold (gdata gd f') in HD. rewrite <- app_assoc in HD.
      rewrite pyslice_drop by lia.
      set (d1 := gd k1 s1 n1) in *. set (dl := gd k s sz) in *.
      assert (HlD' : len (d1 ++ gdata gd f' ++ dl) = 0x200 * Z.of_nat nch) by (rewrite HD; exact HlD).
      destruct (ce =? 0x200) eqn:Ec; cbn [negb].
      * rewrite <- HD. replace size with (len (d1 ++ gdata gd f' ++ dl) - before - 0) by lia.
        rewrite slice_three by lia. rewrite Z.sub_0_r.
        rewrite ?take_raw; unfold take0 at 1. rewrite firstn_all2 by (unfold len; lia). reflexivity.
      * rewrite pyslice_cut_end by lia.
        rewrite <- HD. replace size with (len (d1 ++ gdata gd f' ++ dl) - before - ce) by lia.
        rewrite slice_three by lia. reflexivity.
Qed.

End G2.

(* ---- the concrete classifier of the reader, for well-formed region tables ---- *)
Definition reg_ok (N : ncch) (r : region) : Prop :=
  0 <= r_off r /\ 0 <= r_size r /\ r_off r mod 0x200 = 0 /\ r_size r mod 0x200 = 0 /\
  r_off r + r_size r <= n_content N /\ len (r_plain r) = r_size r.
Definition disj (r r' : region) : Prop := r_off r + r_size r <= r_off r' \/ r_off r' + r_size r' <= r_off r.

Record wf (N : ncch) : Prop := mkWf {
  wf_content : 0 <= n_content N /\ n_content N mod 0x200 = 0 /\ len (n_raw N) = n_content N;
  wf_romfs : reg_ok N (n_romfs N); wf_exefs : reg_ok N (n_exefs N); wf_header : reg_ok N (n_header N);
  wf_ext : reg_ok N (n_ext N); wf_logo : reg_ok N (n_logo N); wf_plain : reg_ok N (n_plain N);
  wf_hdr1 : r_size (n_header N) <= 0x200;
  wf_d1 : disj (n_romfs N) (n_exefs N); wf_d2 : disj (n_romfs N) (n_header N); wf_d3 : disj (n_romfs N) (n_ext N);
  wf_d4 : disj (n_romfs N) (n_logo N); wf_d5 : disj (n_romfs N) (n_plain N);
  wf_d6 : disj (n_exefs N) (n_header N); wf_d7 : disj (n_exefs N) (n_ext N); wf_d8 : disj (n_exefs N) (n_logo N);
  wf_d9 : disj (n_exefs N) (n_plain N);
  wf_d10 : disj (n_header N) (n_ext N); wf_d11 : disj (n_header N) (n_logo N); wf_d12 : disj (n_header N) (n_plain N);
  wf_d13 : disj (n_ext N) (n_logo N); wf_d14 : disj (n_ext N) (n_plain N);
  wf_d15 : disj (n_logo N) (n_plain N)
}.

Section Concrete.
Variable N : ncch.
Hypothesis W : wf N.

Lemma classify_raw c x cur : classify N c = (TRaw x, cur) -> x = c /\ cur = 0.
Proof.
  unfold classify.
  repeat match goal with |- context [if ?b then _ else _] => destruct b end; intros E; inversion E; auto.
Qed.

Lemma classify_known c t cur :
  classify N c = (t, cur) -> is_raw t = false -> inreg (region_of N t) c = true /\ cur = r_off (region_of N t).
Proof.
  unfold classify.
  destruct (inreg (n_romfs N) c) eqn:E1; [intros E _; inversion E; subst; auto|].
  destruct (inreg (n_exefs N) c) eqn:E2; [intros E _; inversion E; subst; auto|].
  destruct (inreg (n_header N) c) eqn:E3; [intros E _; inversion E; subst; auto|].
  destruct (inreg (n_ext N) c) eqn:E4; [intros E _; inversion E; subst; auto|].
  destruct (inreg (n_logo N) c) eqn:E5; [intros E _; inversion E; subst; auto|].
  destruct (inreg (n_plain N) c) eqn:E6; [intros E _; inversion E; subst; auto|].
  intros E Hr. inversion E; subst. discriminate.
Qed.

Lemma inreg_disj r r' c : disj r r' -> 0 <= r_size r -> 0 <= r_size r' -> inreg r c = true -> inreg r' c = false.
Proof. unfold disj, inreg. intros. lia. Qed.
Lemma inreg_disj' r r' c : disj r' r -> 0 <= r_size r -> 0 <= r_size r' -> inreg r c = true -> inreg r' c = false.
Proof. unfold disj, inreg. intros. lia. Qed.

Lemma classify_in c t :
  is_raw t = false -> inreg (region_of N t) c = true -> classify N c = (t, r_off (region_of N t)).
Proof.
  destruct W as [_ (?&?&_) (?&?&_) (?&?&_) (?&?&_) (?&?&_) (?&?&_) _ D1 D2 D3 D4 D5 D6 D7 D8 D9 D10 D11 D12 D13 D14 D15].
  intros Hr Hin. unfold classify. destruct t; try discriminate; cbn [region_of] in *.
  - now rewrite Hin.
  - rewrite (inreg_disj' _ _ c D1) by assumption. now rewrite Hin.
  - rewrite (inreg_disj' _ _ c D2), (inreg_disj' _ _ c D6) by assumption. now rewrite Hin.
  - rewrite (inreg_disj' _ _ c D3), (inreg_disj' _ _ c D7), (inreg_disj' _ _ c D10) by assumption. now rewrite Hin.
  - rewrite (inreg_disj' _ _ c D4), (inreg_disj' _ _ c D8), (inreg_disj' _ _ c D11), (inreg_disj' _ _ c D13) by assumption.
    now rewrite Hin.
  - rewrite (inreg_disj' _ _ c D5), (inreg_disj' _ _ c D9), (inreg_disj' _ _ c D12), (inreg_disj' _ _ c D14),
      (inreg_disj' _ _ c D15) by assumption. now rewrite Hin.
Qed.

Lemma classify_conv c1 c2 c3 t cur1 cur3 :
  c1 <= c2 <= c3 -> is_raw t = false -> classify N c1 = (t, cur1) -> classify N c3 = (t, cur3) ->
  classify N c2 = (t, cur1) /\ cur3 = cur1.
Proof.
  intros Hle Hr H1 H3.
  destruct (classify_known _ _ _ H1 Hr) as [I1 ->]. destruct (classify_known _ _ _ H3 Hr) as [I3 ->].
  split; [|reflexivity]. apply classify_in; [exact Hr|]. unfold inreg in *. lia.
Qed.

Lemma region_ok t : is_raw t = false -> reg_ok N (region_of N t).
Proof. destruct W. destruct t; cbn; intros; try discriminate; assumption. Qed.

Lemma len_set_byte d i v : 0 <= i < len d -> len (set_byte d i v) = len d.
Proof.
  intros H. unfold set_byte. rewrite !len_app, len_take, len_drop by lia. rewrite len_cons, len_nil. lia.
Qed.

(* reading a run of whole chunks of one section in one go is reading them one by one *)
Lemma group_run c t cur m :
  c mod 0x200 = 0 ->
  (0 < m)%nat -> (forall j, (j < m)%nat -> classify N (c + 0x200 * Z.of_nat j) = (t, cur)) ->
  group_data N t (c - cur) (0x200 * Z.of_nat m) = concat (map (chunk_img N) (chunks_from c m)).
Proof.
  intros Hcal Hm Hrun.
  destruct (Nat.eq_dec m 1) as [->|Hm1].
  - cbn [chunks_from map concat]. rewrite app_nil_r. unfold chunk_img.
    specialize (Hrun 0%nat ltac:(lia)). rewrite Z.mul_0_r, Z.add_0_r in Hrun. rewrite Hrun. reflexivity.
  - (* several chunks: a known section other than the one-chunk header *)
    pose proof (Hrun 0%nat ltac:(lia)) as H0. rewrite Z.mul_0_r, Z.add_0_r in H0.
    pose proof (Hrun 1%nat ltac:(lia)) as H1.
    assert (Hr : is_raw t = false).
    { destruct t; try reflexivity. apply classify_raw in H0 as [-> _]. apply classify_raw in H1 as [E _]. lia. }
    destruct (classify_known _ _ _ H0 Hr) as [I0 ->].
    destruct (region_ok t Hr) as (R1 & R2 & R3 & R4 & R5 & R6).
    assert (Hnh : t <> THeader).
    { intros ->. destruct (classify_known _ _ _ H1 eq_refl) as [I1 _]. cbn [region_of] in *.
      pose proof (wf_hdr1 N W). unfold inreg in *. lia. }
    set (r := region_of N t) in *.
    assert (Hall : forall j, (j < m)%nat -> inreg r (c + 0x200 * Z.of_nat j) = true).
    { intros j Hj. destruct (classify_known _ _ _ (Hrun j Hj) Hr) as [I _]. exact I. }
    assert (Gd : forall c' k, r_off r <= c' -> c' + 0x200 * Z.of_nat k <= r_off r + r_size r ->
              group_data N t (c' - r_off r) (0x200 * Z.of_nat k) = slice (r_plain r) (c' - r_off r) (0x200 * Z.of_nat k)).
    { intros c' k H1' H2'. unfold group_data, get_data. fold r.
      replace (c' - r_off r + 0x200 * Z.of_nat k >? r_size r) with false by lia.
      replace (0x200 * Z.of_nat k <? 0) with false by lia. destruct t; try reflexivity. congruence. }
    assert (Hlast := Hall (m - 1)%nat ltac:(lia)). assert (Hfirst := Hall 0%nat ltac:(lia)).
    unfold inreg in Hlast, Hfirst.
    rewrite Gd by lia.
    clear Hrun H0 H1 I0 Hm1.
    revert c Hcal Hall Hlast Hfirst. induction m as [|m IH]; intros c Hcal Hall Hlast Hfirst; [lia|].
    cbn [chunks_from map concat].
    replace (0x200 * Z.of_nat (S m)) with (0x200 + 0x200 * Z.of_nat m) by lia.
    rewrite slice_app_split by lia. f_equal.
    + unfold chunk_img. rewrite (classify_in c t Hr) by (specialize (Hall 0%nat ltac:(lia)); now rewrite Z.mul_0_r, Z.add_0_r in Hall).
      fold r. change 512 with (0x200 * Z.of_nat 1). rewrite Gd by lia. reflexivity.
    + destruct m as [|m]; [cbn [chunks_from map concat]; rewrite Z.mul_0_r; apply slice_0|].
      replace (c - r_off r + 0x200) with (c + 0x200 - r_off r) by lia.
      apply IH; try lia.
      intros j Hj. replace (c + 0x200 + 0x200 * Z.of_nat j) with (c + 0x200 * Z.of_nat (S j)) by lia. apply Hall. lia.
Qed.

Lemma len_chunk_img c : 0 <= c -> c mod 0x200 = 0 -> c + 0x200 <= n_content N -> len (chunk_img N c) = 0x200.
Proof.
  intros H0 Hm Hc. unfold chunk_img. destruct (classify N c) as [t cur] eqn:E.
  destruct (is_raw t) eqn:Hr.
  - destruct t; try discriminate. apply classify_raw in E as [-> ->].
    unfold group_data, get_data. cbn [region_of r_size r_plain].
    destruct W as [(? & ? & Hl) _]. replace (c - 0 + 512 >? n_content N) with false by lia. cbn [Z.ltb Z.compare].
    rewrite len_slice by lia. lia.
  - destruct (classify_known _ _ _ E Hr) as [I ->]. destruct (region_ok t Hr) as (R1 & R2 & R3 & R4 & R5 & R6).
    unfold inreg in I.
    assert (Hl : len (get_data N t (c - r_off (region_of N t)) 0x200) = 0x200).
    { unfold get_data. replace (c - r_off (region_of N t) + 512 >? r_size (region_of N t)) with false by lia.
      cbn [Z.ltb Z.compare]. rewrite len_slice by lia. lia. }
    unfold group_data. destruct t; try exact Hl.
    unfold patch_header. rewrite !len_set_byte; rewrite ?len_set_byte; lia.
Qed.

Lemma chunks_from_split n a b : (n = a + b)%nat -> chunks_from 0 n = chunks_from 0 a ++ chunks_from (0x200 * Z.of_nat a) b.
Proof. intros ->. rewrite chunks_from_app. reflexivity. Qed.

Lemma len_image_part c n :
  0 <= c -> c mod 0x200 = 0 -> c + 0x200 * Z.of_nat n <= n_content N ->
  len (concat (map (chunk_img N) (chunks_from c n))) = 0x200 * Z.of_nat n.
Proof.
  intros. apply len_concat_imgs. intros j Hj. apply len_chunk_img; lia.
Qed.

Theorem image_size : len (image N) = n_content N.
Proof.
  destruct W as [(Hc & Hm & _) _]. unfold image. rewrite len_image_part; lia.
Qed.

(* any read of the fully-decrypted view is the corresponding slice of the one image *)
Theorem fulldec_read_ok off size :
  0 <= off -> 0 <= size -> off + size <= n_content N ->
  fulldec_read N off size = slice (image N) off size.
Proof.
  intros Ho Hs Hfit. destruct W as [(Hc & Hm & _) _].
  unfold fulldec_read.
  set (before := off mod 0x200). set (nch := Z.to_nat ((size + before + 0x1FF) / 0x200)). set (al := off - before).
  assert (Hal : 0 <= al /\ al mod 0x200 = 0) by (unfold al, before; lia).
  assert (Hend : al + 0x200 * Z.of_nat nch <= n_content N) by (unfold nch, al, before; lia).
  rewrite (fulldec_generic_ok (classify N) (group_data N) (chunk_img N) classify_raw classify_conv group_run
             (n_content N) off size Ho Hs Hfit).
  2:{ intros j Hj. fold before al. apply len_chunk_img; fold nch in Hj; lia. }
  fold before nch al.
  (* locate the run of chunks inside the whole image *)
  set (total := Z.to_nat (n_content N / 0x200)).
  set (a := Z.to_nat (al / 0x200)).
  assert (Ht : total = (a + (nch + (total - a - nch)))%nat) by (unfold total, a; lia).
  unfold image. fold total. rewrite Ht.
  rewrite !chunks_from_app, !map_app, !concat_app.
  replace (0 + 0x200 * Z.of_nat a) with al by (unfold a; lia).
  set (A := concat (map (chunk_img N) (chunks_from 0 a))).
  set (D := concat (map (chunk_img N) (chunks_from al nch))).
  set (R := concat (map (chunk_img N) (chunks_from (al + 0x200 * Z.of_nat nch) (total - a - nch)))).
  assert (HlA : len A = al) by (unfold A; rewrite len_image_part; unfold a; lia).
  assert (HlD : len D = 0x200 * Z.of_nat nch) by (unfold D; apply len_image_part; lia).
  rewrite slice_app_r by lia. rewrite HlA. replace (off - al) with before by (unfold al; lia).
  rewrite slice_app_l; [reflexivity| | |]; unfold nch, before in *; lia.
Qed.

End Concrete.
