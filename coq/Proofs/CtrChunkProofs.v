(* C01, composition: reading a CTR stream sequentially in ANY chunking glues back to one slice of the whole-stream
   decryption (3DS mode), whatever state the cached cipher object was left in by earlier calls. *)
From Pyctr Require Import Base.Prelude Base.ListExt Base.PyInt Base.PySlice Env.PyFile Env.FileIface
  Spec.StreamCipher Env.Cipher Model.CtrIO Proofs.CtrProofs.

Section Chunks.
Variable E : list Z -> list Z -> list Z.
Context {S : Type} (U : fileops S).
Variables (inv : S -> Prop) (content : S -> list Z) (pos : S -> Z).
Hypothesis Hlaw : lawful U inv content pos.
Variable extends : bool.
Hypothesis law_write : forall s d, inv s ->
  exists k s', f_write U s d = Ok (k, s') /\ inv s' /\
    k = (if extends then len d else Z.min (len d) (Z.max 0 (len (content s) - pos s))) /\
    content s' = overlay 0 (content s) (pos s) (take d k) /\ pos s' = pos s + k.
Variables (key : list Z) (counter : Z).

Notation dec := (stream_dec E false key counter).
Notation Inv := (io_inv inv content pos extends key counter).

Fixpoint cglue (rs : list cres) : option (list Z) :=
  match rs with
  | [] => Some []
  | CBytes b :: r => match cglue r with Some t => Some (b ++ t) | None => None end
  | _ :: _ => None
  end.

Lemma cread_step io n : Inv io ->
  exists out io', ctr_step E U key counter false io (CRead n) = (CBytes out, io') /\ Inv io' /\
    content (cu io') = content (cu io) /\
    out = slice (dec (content (cu io))) (pos (cu io)) (len out) /\
    len out = read_count (len (content (cu io))) (pos (cu io)) n /\ pos (cu io') = pos (cu io) + len out.
Proof.
  intros Hi. pose proof (cstep_ok E U inv content pos Hlaw extends law_write key counter io (CRead n) Hi) as H.
  destruct (ctr_step E U key counter false io (CRead n)) as [r io'] eqn:Eq. destruct H as (Hc & Hi').
  destruct r as [out|q|e]; cbn [cstep_contract] in Hc; try contradiction.
  destruct Hc as (H1 & H2 & H3 & H4). exists out, io'. split; [reflexivity|]. split; [exact Hi'|]. split; [exact H3|]. split; [exact H1|]. split; [exact H2|exact H4].
Qed.

Theorem ctr_chunks_glue ns : forall io, Inv io -> 0 <= pos (cu io) ->
  let '(rs, io') := ctr_run E U key counter false io (map CRead ns) in
  exists t, cglue rs = Some t /\
    t = slice (dec (content (cu io))) (pos (cu io)) (len t) /\
    pos (cu io') = pos (cu io) + len t /\ content (cu io') = content (cu io) /\ Inv io'.
Proof.
  induction ns as [|n ns IH]; intros io Hi Hp.
  - cbn [map ctr_run]. exists []. cbn [cglue]. rewrite slice_0. change (len (@nil Z)) with 0.
    split; [reflexivity|]. split; [reflexivity|]. split; [lia|]. split; [reflexivity|exact Hi].
  - cbn [map ctr_run].
    destruct (cread_step io n Hi) as (out & io1 & Eq & Hi1 & Hc1 & Ho & Hl & Hp1).
    rewrite Eq.
    assert (Hlo : 0 <= len out) by (rewrite Hl; apply read_count_nonneg).
    specialize (IH io1 Hi1 ltac:(lia)).
    destruct (ctr_run E U key counter false io1 (map CRead ns)) as [rs io2].
    destruct IH as (t & Hg & Ht & Hp2 & Hc2 & Hi2).
    exists (out ++ t). cbn [cglue]. rewrite Hg. split; [reflexivity|].
    assert (Hlt : 0 <= len t) by (unfold len; lia).
    rewrite len_app. split; [|split; [lia|split; [congruence|exact Hi2]]].
    rewrite slice_app_split by lia. rewrite <- Ho. f_equal.
    rewrite Ht at 1. rewrite Hc1, Hp1. reflexivity.
Qed.

(* a read after ANY history of reads, writes and seeks depends only on the contents and the position then: the cached
   cipher object (made for another position or another direction, or absent) never shows *)
Theorem ctr_read_cache_invisible io1 io2 n : Inv io1 -> Inv io2 ->
  content (cu io1) = content (cu io2) -> pos (cu io1) = pos (cu io2) ->
  forall out1 io1' out2 io2',
  ctr_step E U key counter false io1 (CRead n) = (CBytes out1, io1') ->
  ctr_step E U key counter false io2 (CRead n) = (CBytes out2, io2') -> out1 = out2.
Proof.
  intros H1 H2 Hc Hp out1 io1' out2 io2' E1 E2.
  destruct (cread_step io1 n H1) as (o1 & j1 & F1 & _ & _ & Ho1 & Hl1 & _).
  destruct (cread_step io2 n H2) as (o2 & j2 & F2 & _ & _ & Ho2 & Hl2 & _).
  rewrite E1 in F1. rewrite E2 in F2. inversion F1; inversion F2; subst o1 o2 j1 j2.
  rewrite Ho1, Ho2, Hl1, Hl2, Hc, Hp. reflexivity.
Qed.

End Chunks.
