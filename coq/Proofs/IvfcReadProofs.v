(* C17: a read of the verified level-4 view at any position and size is the slice of "stored bytes where the block is valid,
   filler elsewhere". *)
From Pyctr Require Import Base.Prelude Base.ListExt Base.PyInt Base.PySlice Base.Sweep Model.Blocks Proofs.BlocksProofs Model.Ivfc Model.IvfcRead.

Section R.
Variable H : list Z -> list Z.
Variable tree : list level.
Variable master : list (list Z).
Variable verify : bool.
Let size := lv4_size tree.
Let bs := lv4_bs tree.
Hypothesis Hbs : 0 < bs.
Hypothesis Hsize : 0 < size.

Let nb := (size + bs - 1) / bs.
Let blk := lv4_block H tree master verify.

Lemma len_lv4_block b : 0 <= b -> len (blk b) = Z.min bs (Z.max 0 (size - b * bs)).
Proof.
  intros Hb. subst blk. unfold lv4_block.
  assert (L : len (block tree 3 b) = Z.min bs (Z.max 0 (size - b * bs))).
  { unfold block. change (lv_bs (lvl tree 3)) with bs. rewrite len_slice by nia. reflexivity. }
  destruct verify; [|exact L]. unfold served. destruct (status H tree master 3 b) as [[|]|]; try exact L;
    unfold len in *; now rewrite repeat_length.
Qed.

Lemma nb_bounds : 0 < nb /\ (nb - 1) * bs < size <= nb * bs.
Proof. subst nb. split; nia. Qed.

Lemma len_lv4_view : len (lv4_view H tree master verify) = size.
Proof.
  pose proof nb_bounds as [N0 N1]. unfold lv4_view. fold size bs nb blk.
  rewrite (pieces_len bs) by (try lia; intros i Hi; rewrite len_lv4_block by lia; nia).
  rewrite len_lv4_block by lia. rewrite Z2Nat.id by lia. nia.
Qed.

Lemma lv4_view_block b : 0 <= b < nb -> slice (lv4_view H tree master verify) (b * bs) bs = blk b.
Proof.
  intros Hb. pose proof nb_bounds as [N0 N1]. unfold lv4_view. fold size bs nb blk.
  replace (b * bs) with ((b - 0) * bs) by lia.
  apply (pieces_block bs Hbs); rewrite ?Z2Nat.id by lia; try lia.
  - intros i Hi. rewrite len_lv4_block by lia. nia.
  - rewrite len_lv4_block by lia. lia.
Qed.

Theorem lv4_read_spec pos n :
  0 <= pos ->
  lv4_read H tree master verify pos n =
  let view := lv4_view H tree master verify in slice view pos (if n <? 0 then len view else n).
Proof.
  intros Hp. cbv zeta. pose proof nb_bounds as [N0 N1]. pose proof len_lv4_view as Lv.
  set (view := lv4_view H tree master verify) in *.
  unfold lv4_read. fold size bs blk.
  destruct (pos >=? size) eqn:E0.
  { symmetry. rewrite slice_ge by (destruct (n <? 0) eqn:?; lia). apply drop_ge. lia. }
  assert (Hblk : forall b, 0 <= b -> b * bs < len view ->
            len (blk b) <= bs /\ Z.min bs (len view - b * bs) <= len (blk b) /\
            take (blk b) (Z.min bs (len view - b * bs)) = slice view (b * bs) bs).
  { intros b Hb Hv. rewrite Lv in *. rewrite len_lv4_block by lia. repeat split; try lia.
    subst view. rewrite lv4_view_block by (subst nb; nia). rewrite take_raw. unfold take0. apply firstn_all2.
    pose proof (len_lv4_block b Hb). unfold len in *. lia. }
  set (remaining := size - pos).
  destruct ((n <? 0) || (n >? remaining)) eqn:E.
  - destruct (remaining =? 0) eqn:R; [lia|].
    rewrite (assemble_spec view bs Hbs blk Hblk) by lia.
    rewrite !slice_ge by (destruct (n <? 0) eqn:?; lia). reflexivity.
  - assert (0 <= n <= remaining) by lia. destruct (n <? 0) eqn:N; [lia|].
    destruct (n =? 0) eqn:Z0; [assert (n = 0) as -> by lia; now rewrite slice_0|].
    apply (assemble_spec view bs Hbs blk Hblk); lia.
Qed.

(* every byte of a read comes from a block: stored bytes if the block is valid, 0xDD otherwise; with verification on, a
   block that is not valid contributes only filler *)
Theorem lv4_view_blocks b : 0 <= b < nb ->
  slice (lv4_view H tree master verify) (b * bs) bs =
  if verify then served tree 3 b (status H tree master 3 b) else block tree 3 b.
Proof. intros Hb. rewrite lv4_view_block by exact Hb. reflexivity. Qed.
End R.
