(* Whatever the size field claims, one level-4 read asks for at most (length of the file / block size) + 2 blocks and returns at most
   that many: the work is bounded by the input, not by a 64-bit field of it. *)
From Pyctr Require Import Base.Prelude Base.ListExt Base.PyInt Base.PySlice Base.Sweep Model.Blocks Model.IvfcBound.

Section P.
Variable data : list Z.
Variable bs : Z.
Hypothesis Hbs : 0 < bs.

Lemma blk_beyond b : 0 <= b -> len data <= b * bs -> blk data bs b = [].
Proof.
  intros Hb Hl. unfold blk.
  assert (E : len (slice data (b * bs) bs) = 0) by (rewrite len_slice by nia; lia).
  destruct (slice data (b * bs) bs); [reflexivity|]. unfold len in E. cbn [length] in E. lia.
Qed.

Lemma fetch_enough : forall fuel b e, 0 <= b -> len data - b * bs <= Z.of_nat fuel * bs ->
  fetch data bs (S fuel) b e <> Err OutOfFuel.
Proof.
  induction fuel as [|fuel IH]; intros b e Hb Hl.
  - cbn [fetch]. destruct (b >? e); [intros C; discriminate C|]. rewrite blk_beyond by lia. intros C; discriminate C.
  - change (fetch data bs (S (S fuel)) b e) with
      (if b >? e then Ok [] else match blk data bs b with [] => Ok [] | d => match fetch data bs (S fuel) (b + 1) e with Ok r => Ok (d :: r) | Err x => Err x end end).
    destruct (b >? e); [intros C; discriminate C|].
    destruct (blk data bs b) as [|x d] eqn:E; [intros C; discriminate C|].
    specialize (IH (b + 1) e ltac:(lia) ltac:(nia)).
    destruct (fetch data bs (S fuel) (b + 1) e) as [r|x']; [intros C; discriminate C|].
    intros C. apply IH. congruence.
Qed.

Lemma fetch_length : forall fuel b e r, 0 <= b -> fetch data bs fuel b e = Ok r ->
  Z.of_nat (length r) * bs < Z.max 0 (len data - b * bs) + bs /\ Forall (fun d => d <> []) r.
Proof.
  induction fuel as [|fuel IH]; intros b e r Hb; cbn [fetch]; [discriminate|].
  destruct (b >? e); [intros [= <-]; cbn [length]; split; [change (Z.of_nat 0 * bs) with 0; lia|constructor]|].
  destruct (blk data bs b) as [|x d] eqn:E; [intros [= <-]; cbn [length]; split; [change (Z.of_nat 0 * bs) with 0; lia|constructor]|].
  destruct (fetch data bs fuel (b + 1) e) as [r'|x'] eqn:F; [|discriminate].
  intros [= <-]. destruct (IH (b + 1) e r' ltac:(lia) F) as [Hl Hn].
  assert (Hin : b * bs < len data).
  { destruct (Z_lt_le_dec (b * bs) (len data)) as [?|G]; [assumption|]. rewrite blk_beyond in E by lia. discriminate. }
  split; [|constructor; [discriminate|exact Hn]].
  cbn [length]. rewrite Nat2Z.inj_succ, Z.mul_succ_l.
  replace ((b + 1) * bs) with (b * bs + bs) in Hl by ring.
  assert (Hq : Z.of_nat (length r') * bs = 0 \/ bs <= Z.of_nat (length r') * bs).
  { destruct (length r') as [|k]; [left; reflexivity|right]. rewrite Nat2Z.inj_succ, Z.mul_succ_l.
    assert (0 <= Z.of_nat k * bs) by (apply Z.mul_nonneg_nonneg; lia). lia. }
  set (nb := Z.of_nat (length r') * bs) in *. set (bb := b * bs) in *. lia.
Qed.

Lemma first_block_nonneg pos : 0 <= pos -> 0 <= roundup (pos - bs + 1) bs / bs.
Proof.
  intros Hp. unfold roundup. apply Z.div_pos; [|lia].
  assert (E : (- (pos - bs + 1)) / bs < 1) by (apply Z.div_lt_upper_bound; lia).
  nia.
Qed.

(* the loop ends within the fuel computed from the file's length, for every claimed size, position and request *)
Theorem read_blocks_total claimed pos n : 0 <= pos -> read_blocks data bs claimed pos n <> Err OutOfFuel.
Proof.
  intros Hp. unfold read_blocks.
  destruct (pos >=? claimed); [discriminate|].
  set (n' := if (n <? 0) || (n >? claimed - pos) then claimed - pos else n).
  destruct (n' =? 0); [discriminate|].
  destruct (block_range pos n' bs) as [sb eb] eqn:E.
  unfold fetch_fuel. apply fetch_enough.
  - unfold block_range in E. injection E as <- _. now apply first_block_nonneg.
  - assert (0 <= sb) by (unfold block_range in E; injection E as <- _; now apply first_block_nonneg).
    pose proof (len_nonneg data). rewrite Z2Nat.id by (assert (0 <= len data / bs) by (apply Z.div_pos; lia); lia).
    pose proof (Z.mul_succ_div_gt (len data) bs Hbs). nia.
Qed.

(* ... and what it returns is bounded by the file as well: at most len/bs + 2 blocks, none of them empty *)
Theorem read_blocks_bounded claimed pos n r : 0 <= pos -> read_blocks data bs claimed pos n = Ok r ->
  Z.of_nat (length r) <= len data / bs + 2.
Proof.
  intros Hp. unfold read_blocks.
  destruct (pos >=? claimed); [intros [= <-]; cbn [length]; pose proof (len_nonneg data); assert (0 <= len data / bs) by (apply Z.div_pos; lia); lia|].
  set (n' := if (n <? 0) || (n >? claimed - pos) then claimed - pos else n).
  destruct (n' =? 0); [intros [= <-]; cbn [length]; pose proof (len_nonneg data); assert (0 <= len data / bs) by (apply Z.div_pos; lia); lia|].
  destruct (block_range pos n' bs) as [sb eb] eqn:E. intros F.
  assert (Hsb : 0 <= sb) by (unfold block_range in E; injection E as <- _; now apply first_block_nonneg).
  destruct (fetch_length _ _ _ _ Hsb F) as [Hl _].
  pose proof (len_nonneg data).
  pose proof (Z.mul_succ_div_gt (len data) bs Hbs).
  assert (Z.max 0 (len data - sb * bs) <= len data) by nia.
  assert (Z.of_nat (length r) * bs < (len data / bs + 2) * bs) by nia.
  nia.
Qed.
End P.

(* a 3-block file whose descriptor claims 2^63 bytes: one read of everything fetches the three blocks and stops *)
Example bound_nonvacuous :
  read_blocks [1; 2; 3; 4; 5; 6; 7; 8; 9; 10] 4 (2 ^ 63) 0 (-1) = Ok [[1; 2; 3; 4]; [5; 6; 7; 8]; [9; 10]].
Proof. vm_compute. reflexivity. Qed.
