(* C06: the walk returns the tree the tables represent.  [rep_*] is the format read declaratively: which entry chains stand
   for which list of nodes.  For EVERY pair of tables and every tree they represent without sharing an entry, the reader's
   walk (Model/Romfs.v) returns exactly that tree: names, nesting, order, file offsets and sizes. *)
From Pyctr Require Import Base.Prelude Base.ListExt Base.PyInt Base.PySlice Model.Romfs Proofs.RomfsProofs.

Lemma memz_false x l : ~ In x l -> memz x l = false.
Proof. intros H. destruct (memz x l) eqn:E; [|reflexivity]. apply memz_spec in E. contradiction. Qed.

Lemma NoDup_app_iff {A} (a b : list A) : NoDup (a ++ b) <-> NoDup a /\ NoDup b /\ (forall x, In x a -> ~ In x b).
Proof.
  induction a as [|x a IH]; cbn [app].
  - split; [intros H; repeat split; [constructor|exact H|intros ? []]|intros (_ & H & _); exact H].
  - split.
    + intros H. inversion H as [|? ? Hx Hr]; subst. apply IH in Hr as (Ha & Hb & Hd). repeat split; auto.
      * constructor; [intros Hin; apply Hx; apply in_or_app; now left|exact Ha].
      * intros y [<-|Hy]; [intros Hin; apply Hx; apply in_or_app; now right|now apply Hd].
    + intros (Ha & Hb & Hd). inversion Ha as [|? ? Hx Hr]; subst. constructor.
      * intros Hin. apply in_app_or in Hin as [Hin|Hin]; [now apply Hx|]. apply (Hd x); [now left|exact Hin].
      * apply IH. repeat split; auto. intros y Hy. apply Hd. now right.
Qed.

Section R.
Variables (dm fm : list Z).

(* ---- file chains ---- *)
Definition f_meta (off : Z) : list Z := slice fm off 0x20.
Definition f_next (off : Z) : Z := le_decode (slice (f_meta off) 4 4).
Definition f_name (off : Z) : list Z := slice fm (off + 0x20) (le_decode (slice (f_meta off) 0x1C 4)).
Definition f_node (off : Z) : node := NFile (f_name off) (le_decode (slice (f_meta off) 8 8)) (le_decode (slice (f_meta off) 0x10 8)).
Definition f_entry (off : Z) : Prop := len (f_meta off) = 0x20 /\ utf16_ok (f_name off) = true.

(* rep_files off nodes offs: the sibling chain starting at entry [off] lists [nodes]; [offs] = the entries, in order *)
Inductive rep_files : Z -> list node -> list Z -> Prop :=
| RF_last off : f_entry off -> f_next off = NONE -> rep_files off [f_node off] [off]
| RF_cons off rest offs : f_entry off -> f_next off <> NONE -> rep_files (f_next off) rest offs ->
    rep_files off (f_node off :: rest) (off :: offs).

Inductive rep_fopt : Z -> list node -> list Z -> Prop :=
| RFO_none : rep_fopt NONE [] []
| RFO_some link nodes offs : link <> NONE -> rep_files link nodes offs -> rep_fopt link nodes offs.

Lemma file_chain_rep off nodes offs : rep_files off nodes offs ->
  forall fuel seen, NoDup offs -> (forall o, In o offs -> ~ In o seen) -> (length offs <= fuel)%nat ->
  file_chain fm fuel off seen = Ok (nodes, rev offs ++ seen).
Proof.
  induction 1 as [off [Hl Hu] Hn | off rest offs [Hl Hu] Hn Hr IH]; intros fuel seen Hnd Hdis Hf.
  - destruct fuel as [|f]; [cbn [length] in Hf; lia|]. cbn [file_chain].
    rewrite memz_false by (apply Hdis; now left). fold (f_meta off). rewrite Hl. cbn [Z.eqb Pos.eqb negb].
    fold (f_name off). rewrite Hu. cbn [negb]. fold (f_next off). rewrite Hn, Z.eqb_refl. reflexivity.
  - destruct fuel as [|f]; [cbn [length] in Hf; lia|]. cbn [file_chain].
    rewrite memz_false by (apply Hdis; now left). fold (f_meta off). rewrite Hl. cbn [Z.eqb Pos.eqb negb].
    fold (f_name off). rewrite Hu. cbn [negb]. fold (f_next off).
    destruct (f_next off =? NONE) eqn:E; [apply Z.eqb_eq in E; contradiction|].
    inversion Hnd as [|? ? Hx Hnd']; subst.
    rewrite IH; [| exact Hnd' | | cbn [length] in Hf; lia].
    + cbn [bind]. fold (f_node off). cbn [rev]. rewrite <- app_assoc. reflexivity.
    + intros o Ho [<-|Hin]; [contradiction|]. apply (Hdis o); [now right|exact Hin].
Qed.

Lemma fopt_rep link nodes offs : rep_fopt link nodes offs ->
  forall fuel seen, NoDup offs -> (forall o, In o offs -> ~ In o seen) -> (length offs <= fuel)%nat ->
  (if link =? NONE then Ok ([], seen) else file_chain fm fuel link seen) = Ok (nodes, rev offs ++ seen).
Proof.
  intros [|l n o Hne Hr] fuel seen Hnd Hdis Hf.
  - rewrite Z.eqb_refl. reflexivity.
  - destruct (l =? NONE) eqn:E; [apply Z.eqb_eq in E; contradiction|]. now apply file_chain_rep.
Qed.

(* ---- directory chains ---- *)
Definition d_meta (off : Z) : list Z := slice dm off 0x18.
Definition d_next (off : Z) : Z := le_decode (slice (d_meta off) 4 4).
Definition d_child (off : Z) : Z := le_decode (slice (d_meta off) 8 4).
Definition d_file (off : Z) : Z := le_decode (slice (d_meta off) 0xC 4).
Definition d_name (off : Z) : list Z := slice dm (off + 0x18) (le_decode (slice (d_meta off) 0x14 4)).
Definition d_entry (off : Z) : Prop :=
  len (d_meta off) = 0x18 /\ utf16_ok (d_name off) = true /\ bad_dir_name (d_name off) = false.

(* rep_dirs off nodes doffs foffs: the sibling chain of directory entries starting at [off] lists the directories [nodes]
   (each with its sub-directories, then its files); doffs / foffs = the directory / file entries met, in visiting order *)
Inductive rep_dirs : Z -> list node -> list Z -> list Z -> Prop :=
| RD off subdirs sdo sfo files fo rest rdo rfo :
    d_entry off ->
    rep_dopt (d_child off) subdirs sdo sfo ->
    rep_fopt (d_file off) files fo ->
    rep_dopt (d_next off) rest rdo rfo ->
    rep_dirs off (NDir (d_name off) (subdirs ++ files) :: rest) (off :: sdo ++ rdo) (sfo ++ fo ++ rfo)
with rep_dopt : Z -> list node -> list Z -> list Z -> Prop :=
| RDO_none : rep_dopt NONE [] [] []
| RDO_some link nodes d f : link <> NONE -> rep_dirs link nodes d f -> rep_dopt link nodes d f.

Scheme rep_dirs_ind2 := Minimality for rep_dirs Sort Prop
  with rep_dopt_ind2 := Minimality for rep_dopt Sort Prop.
Combined Scheme rep_mutind from rep_dirs_ind2, rep_dopt_ind2.

Definition ok_run (doffs foffs sd sf : list Z) (fuel ffuel : nat) : Prop :=
  NoDup doffs /\ NoDup foffs /\ (forall o, In o doffs -> ~ In o sd) /\ (forall o, In o foffs -> ~ In o sf) /\
  (length doffs <= fuel)%nat /\ (length foffs <= ffuel)%nat.

Lemma dir_chain_rep :
  (forall off nodes doffs foffs, rep_dirs off nodes doffs foffs ->
     forall fuel ffuel sd sf, ok_run doffs foffs sd sf fuel ffuel ->
     dir_chain dm fm fuel ffuel off (sd, sf) = Ok (nodes, (rev doffs ++ sd, rev foffs ++ sf))) /\
  (forall link nodes doffs foffs, rep_dopt link nodes doffs foffs ->
     forall fuel ffuel sd sf, ok_run doffs foffs sd sf fuel ffuel ->
     (if link =? NONE then Ok ([], (sd, sf)) else dir_chain dm fm fuel ffuel link (sd, sf))
     = Ok (nodes, (rev doffs ++ sd, rev foffs ++ sf))).
Proof.
  apply rep_mutind.
  - (* one entry, its children, its files, its siblings *)
    intros off subdirs sdo sfo files fo rest rdo rfo (Hl & Hu & Hb) _ IHc Hf _ IHn fuel ffuel sd sf
      (Nd & Nf & Dd & Df & Ld & Lf).
    destruct fuel as [|f]; [cbn [length] in Ld; lia|]. cbn [dir_chain].
    rewrite memz_false by (apply Dd; now left). fold (d_meta off). rewrite Hl. cbn [Z.eqb Pos.eqb negb].
    fold (d_name off). rewrite Hu, Hb. cbn [negb]. fold (d_child off) (d_file off) (d_next off).
    (* split the bookkeeping *)
    inversion Nd as [|? ? Hx Nd']; subst. apply NoDup_app_iff in Nd' as (Nsd & Nrd & Xd).
    apply NoDup_app_iff in Nf as (Nsf & Nf' & Xf1). apply NoDup_app_iff in Nf' as (Nfo & Nrf & Xf2).
    cbn [length] in Ld. rewrite app_length in Ld. rewrite !app_length in Lf.
    (* children *)
    rewrite (IHc f ffuel (off :: sd) sf).
    2:{ repeat split; auto; try lia.
        - intros o Ho [<-|Hin]; [apply Hx; apply in_or_app; now left|]. apply (Dd o); [right; apply in_or_app; now left|exact Hin].
        - intros o Ho. apply Df. apply in_or_app. now left. }
    cbn [bind snd fst].
    (* files *)
    rewrite (fopt_rep (d_file off) files fo Hf ffuel (rev sfo ++ sf)); [| exact Nfo | | lia].
    2:{ intros o Ho Hin. apply in_app_or in Hin as [Hin|Hin].
        - apply in_rev in Hin. apply (Xf1 o Hin). apply in_or_app. now left.
        - apply (Df o); [apply in_or_app; right; apply in_or_app; now left|exact Hin]. }
    cbn [bind].
    (* siblings *)
    assert (Enext : (if d_next off =? NONE then Ok ([], (rev sdo ++ off :: sd, rev fo ++ rev sfo ++ sf))
                     else dir_chain dm fm f ffuel (d_next off) (rev sdo ++ off :: sd, rev fo ++ rev sfo ++ sf))
                    = Ok (rest, (rev rdo ++ rev sdo ++ off :: sd, rev rfo ++ rev fo ++ rev sfo ++ sf))).
    { apply IHn. repeat split; auto; try lia.
      - intros o Ho Hin. apply in_app_or in Hin as [Hin|[<-|Hin]].
        + apply in_rev in Hin. apply (Xd o Hin Ho).
        + apply Hx. apply in_or_app. now right.
        + apply (Dd o); [right; apply in_or_app; now right|exact Hin].
      - intros o Ho Hin. apply in_app_or in Hin as [Hin|Hin]; [|apply in_app_or in Hin as [Hin|Hin]].
        + apply in_rev in Hin. apply (Xf2 o Hin Ho).
        + apply in_rev in Hin. apply (Xf1 o Hin). apply in_or_app. now right.
        + apply (Df o); [apply in_or_app; right; apply in_or_app; now right|exact Hin]. }
    destruct (d_next off =? NONE) eqn:E.
    + injection Enext as <- E1 E2.
      assert (R1 : rdo = []).
      { apply (f_equal (@length Z)) in E1. rewrite !app_length, !rev_length in E1. destruct rdo; [reflexivity|cbn [length] in E1; lia]. }
      assert (R2 : rfo = []).
      { apply (f_equal (@length Z)) in E2. rewrite !app_length, !rev_length in E2. destruct rfo; [reflexivity|cbn [length] in E2; lia]. }
      subst rdo rfo. rewrite !app_nil_r. f_equal. f_equal. f_equal.
      * cbn [rev]. now rewrite <- app_assoc.
      * rewrite rev_app_distr. now rewrite <- app_assoc.
    + rewrite Enext. cbn [bind]. f_equal. f_equal. f_equal.
      * cbn [rev]. rewrite rev_app_distr. rewrite <- !app_assoc. reflexivity.
      * rewrite !rev_app_distr. rewrite <- !app_assoc. reflexivity.
  - intros fuel ffuel sd sf _. rewrite Z.eqb_refl. reflexivity.
  - intros link nodes d f Hne _ IH fuel ffuel sd sf Hok.
    destruct (link =? NONE) eqn:E; [apply Z.eqb_eq in E; contradiction|]. now apply IH.
Qed.

(* every entry a representation uses is a whole entry inside its table *)
Lemma rep_files_entries off nodes offs : rep_files off nodes offs -> forall o, In o offs -> len (f_meta o) = 0x20.
Proof.
  induction 1 as [off [Hl _] _ | off rest offs [Hl _] _ _ IH]; intros o [<-|Hin]; auto. inversion Hin.
Qed.

Lemma rep_fopt_entries link nodes offs : rep_fopt link nodes offs -> forall o, In o offs -> len (f_meta o) = 0x20.
Proof. intros [|l n o' _ Hr] o Ho; [inversion Ho|]. eapply rep_files_entries; eauto. Qed.

Lemma rep_dirs_entries :
  (forall off nodes doffs foffs, rep_dirs off nodes doffs foffs ->
     (forall o, In o doffs -> len (d_meta o) = 0x18) /\ (forall o, In o foffs -> len (f_meta o) = 0x20)) /\
  (forall link nodes doffs foffs, rep_dopt link nodes doffs foffs ->
     (forall o, In o doffs -> len (d_meta o) = 0x18) /\ (forall o, In o foffs -> len (f_meta o) = 0x20)).
Proof.
  apply rep_mutind.
  - intros off subdirs sdo sfo files fo rest rdo rfo (Hl & _) _ [C1 C2] Hf _ [N1 N2]. split.
    + intros o [<-|Hin]; [exact Hl|]. apply in_app_or in Hin as [Hin|Hin]; auto.
    + intros o Hin. apply in_app_or in Hin as [Hin|Hin]; [auto|]. apply in_app_or in Hin as [Hin|Hin]; [|auto].
      eapply rep_fopt_entries; eauto.
  - split; intros o [].
  - intros link nodes d f _ _ IH. exact IH.
Qed.

(* ---- the whole tree ---- *)
Definition rep_root (tree : node) (doffs foffs : list Z) : Prop :=
  len (d_meta 0) = 0x18 /\
  exists subdirs sfo files fo,
    rep_dopt (d_child 0) subdirs doffs sfo /\ rep_fopt (d_file 0) files fo /\
    tree = NDir [] (subdirs ++ files) /\ foffs = sfo ++ fo.

Theorem walk_rep tree doffs foffs fuel ffuel :
  rep_root tree doffs foffs -> NoDup (0 :: doffs) -> NoDup foffs ->
  (length doffs <= fuel)%nat -> (length foffs <= ffuel)%nat ->
  walk dm fm fuel ffuel = Ok tree.
Proof.
  intros (Hl & subdirs & sfo & files & fo & Hc & Hf & -> & ->) Nd Nf Ld Lf.
  unfold walk. fold (d_meta 0). rewrite Hl. cbn [Z.eqb Pos.eqb negb]. fold (d_child 0) (d_file 0).
  inversion Nd as [|? ? H0 Nd']; subst. apply NoDup_app_iff in Nf as (Nsf & Nfo & Xf). rewrite app_length in Lf.
  destruct dir_chain_rep as [_ D].
  rewrite (D _ _ _ _ Hc fuel ffuel [0] []).
  2:{ repeat split; auto; try lia. intros o Ho [<-|[]]. contradiction. }
  cbn [bind snd].
  rewrite (fopt_rep _ _ _ Hf ffuel (rev sfo ++ [])); [reflexivity | exact Nfo | | lia].
  intros o Ho Hin. rewrite app_nil_r in Hin. apply in_rev in Hin. exact (Xf o Hin Ho).
Qed.

(* with the fuel the reader model computes from the table sizes *)
Theorem walk_bounded_rep tree doffs foffs :
  rep_root tree doffs foffs -> NoDup (0 :: doffs) -> NoDup foffs ->
  (forall o, In o doffs -> 0 <= o) -> (forall o, In o foffs -> 0 <= o) ->
  walk_bounded dm fm = Ok tree.
Proof.
  intros Hr Nd Nf Pd Pf. unfold walk_bounded. apply (walk_rep tree doffs foffs); auto.
  - destruct Hr as (_ & subdirs & sfo & files & fo & Hc & Hf & _ & ->).
    destruct rep_dirs_entries as [_ E]. destruct (E _ _ _ _ Hc) as [Ed _].
    inversion Nd as [|? ? _ Nd']; subst.
    pose proof (nodup_bound doffs (len dm) Nd') as B. unfold dir_fuel.
    assert (forall x, In x doffs -> 0 <= x < len dm).
    { intros x Hx. specialize (Ed x Hx). specialize (Pd x Hx). unfold d_meta in Ed. rewrite len_slice in Ed by lia. lia. }
    specialize (B H). pose proof (len_nonneg dm). lia.
  - destruct Hr as (_ & subdirs & sfo & files & fo & Hc & Hf & _ & ->).
    destruct rep_dirs_entries as [_ E]. destruct (E _ _ _ _ Hc) as [_ Ef].
    pose proof (nodup_bound (sfo ++ fo) (len fm) Nf) as B. unfold file_fuel.
    assert (forall x, In x (sfo ++ fo) -> 0 <= x < len fm).
    { intros x Hx. specialize (Pf x Hx). assert (L : len (f_meta x) = 0x20).
      { apply in_app_or in Hx as [Hx|Hx]; [now apply Ef|]. eapply rep_fopt_entries; eauto. }
      unfold f_meta in L. rewrite len_slice in L by lia. lia. }
    specialize (B H). pose proof (len_nonneg fm). lia.
Qed.
End R.

(* ---- a concrete pair of tables: /a/f (5 bytes at 0x10) and /g (3 bytes at 0) ---- *)
Definition ex_dm : list Z :=
  (le_encode 4 0 ++ le_encode 4 NONE ++ le_encode 4 0x18 ++ le_encode 4 0 ++ le_encode 4 NONE ++ le_encode 4 0)
  ++ (le_encode 4 0 ++ le_encode 4 NONE ++ le_encode 4 NONE ++ le_encode 4 0x24 ++ le_encode 4 NONE ++ le_encode 4 2 ++ [97; 0; 0; 0]).
Definition ex_fm : list Z :=
  (le_encode 4 0 ++ le_encode 4 NONE ++ le_encode 8 0 ++ le_encode 8 3 ++ le_encode 4 NONE ++ le_encode 4 2 ++ [103; 0; 0; 0])
  ++ (le_encode 4 0x18 ++ le_encode 4 NONE ++ le_encode 8 0x10 ++ le_encode 8 5 ++ le_encode 4 NONE ++ le_encode 4 2 ++ [102; 0; 0; 0]).
Definition ex_tree : node := NDir [] [NDir [97; 0] [NFile [102; 0] 0x10 5]; NFile [103; 0] 0 3].

Example rep_nonvacuous :
  rep_root ex_dm ex_fm ex_tree [0x18] [0x24; 0] /\ walk_bounded ex_dm ex_fm = Ok ex_tree.
Proof.
  assert (R : rep_root ex_dm ex_fm ex_tree [0x18] [0x24; 0]).
  { split; [vm_compute; reflexivity|].
    exists [NDir [97; 0] [NFile [102; 0] 0x10 5]], [0x24], [NFile [103; 0] 0 3], [0].
    split; [|split; [|split; reflexivity]].
    - change (d_child ex_dm 0) with 0x18. apply RDO_some; [discriminate|].
      change [NDir [97; 0] [NFile [102; 0] 16 5]] with (NDir (d_name ex_dm 0x18) ([] ++ [f_node ex_fm 0x24]) :: []).
      change [0x18] with (0x18 :: [] ++ []). change [0x24] with ([] ++ [0x24] ++ []).
      apply RD.
      + repeat split; vm_compute; reflexivity.
      + change (d_child ex_dm 0x18) with NONE. constructor.
      + change (d_file ex_dm 0x18) with 0x24. apply RFO_some; [discriminate|]. apply RF_last; [split; vm_compute; reflexivity|vm_compute; reflexivity].
      + change (d_next ex_dm 0x18) with NONE. constructor.
    - change (d_file ex_dm 0) with 0. apply RFO_some; [discriminate|].
      change [NFile [103; 0] 0 3] with [f_node ex_fm 0]. apply RF_last; [split; vm_compute; reflexivity|vm_compute; reflexivity]. }
  split; [exact R|].
  apply (walk_bounded_rep ex_dm ex_fm ex_tree [0x18] [0x24; 0] R).
  - repeat constructor; cbn; intuition lia.
  - repeat constructor; cbn; intuition lia.
  - intros o [<-|[]]; lia.
  - intros o [<-|[<-|[]]]; lia.
Qed.
