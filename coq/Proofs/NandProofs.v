From Coq Require Import Lia.
From Pyctr Require Import Base.Prelude Base.ListExt Base.PyInt Base.PySlice Base.Fields Env.PyFile Env.FileIface Spec.StreamCipher Env.Cipher Model.CtrIO Model.Ncsd Model.Nand Proofs.NcsdProofs
  Proofs.CtrProofs Proofs.TwlProofs.

(* ---- typing: the decision table, stated outright ---- *)
Theorem typing_table :
  base_of 1 1 = 1 /\ base_of 1 2 = 2 /\ base_of 1 3 = 3 /\ (forall c, base_of 3 c = 4) /\ (forall c, base_of 4 c = 5) /\
  (forall fs c, fs <> 1 -> fs <> 3 -> fs <> 4 -> base_of fs c = 0) /\
  (forall c, c <> 1 -> c <> 2 -> c <> 3 -> base_of 1 c = 0) /\
  slot_of 1 = Some (0x03, true) /\ slot_of 2 = Some (0x04, false) /\ slot_of 3 = Some (0x05, false) /\
  slot_of 4 = Some (0x06, false) /\ slot_of 5 = Some (0x07, false).
Proof.
  repeat split; try reflexivity.
  - intros fs c H1 H3 H4. unfold base_of.
    destruct (Z.eqb_spec fs 1); [contradiction|]. destruct (Z.eqb_spec fs 3); [contradiction|]. destruct (Z.eqb_spec fs 4); [contradiction|]. reflexivity.
  - intros c H1 H2 H3. unfold base_of. cbn.
    destruct (Z.eqb_spec c 1); [contradiction|]. destruct (Z.eqb_spec c 2); [contradiction|]. destruct (Z.eqb_spec c 3); [contradiction|]. reflexivity.
Qed.

(* ---- counter inference ---- *)
Lemma xor_bytes_self l : xor_bytes l l = repeat 0 (length l).
Proof. unfold xor_bytes. induction l as [|x l IH]; [reflexivity|]. cbn. rewrite Z.lxor_nilpotent. f_equal. exact IH. Qed.

Lemma list_eqb_refl l : list_eqb l l = true.
Proof. apply list_eqb_spec. reflexivity. Qed.

Section Infer.
Variable E D : list Z -> list Z -> list Z.
Hypothesis DE : forall k b, D k (E k b) = b.
Hypothesis Elen : forall k b, length (E k b) = 16%nat.

(* Old/New 3DS CTRNAND: two zero plaintext blocks at block offsets boff, boff+1 of the image *)
Theorem infer_ctr_ok key c boff :
  0 <= c + boff -> c + boff + 1 < 2 ^ 128 ->
  infer_ctr E D key (E key (be_encode 16 (c + boff))) (E key (be_encode 16 (c + boff + 1))) boff = Some c.
Proof.
  intros H0 H1. unfold infer_ctr. rewrite DE. rewrite be_decode_encode_id by (change (Z.of_nat 16) with 16; lia).
  replace (c + boff - boff) with c by lia. rewrite xor_bytes_self, Elen, list_eqb_refl. reflexivity.
Qed.

End Infer.

Section InferTwl.
Variable E D : list Z -> list Z -> list Z.
Hypothesis DE : forall k b, D k (E k b) = b.
Hypothesis Elen : forall k b, length (E k b) = 16%nat.
Hypothesis Ebytes : forall k b, bytes_ok (E k b).

Lemma xor_cancel_l a b : Z.lxor (Z.lxor a b) a = b.
Proof. rewrite (Z.lxor_comm a b), Z.lxor_assoc, Z.lxor_nilpotent, Z.lxor_0_r. reflexivity. Qed.

Lemma xor_bytes_cancel' a b : length a = length b -> xor_bytes (xor_bytes a b) b = a.
Proof.
  unfold xor_bytes. revert b; induction a as [|x a IH]; intros [|y b] L; try discriminate; [reflexivity|].
  cbn in L. cbn. rewrite lxor_cancel. f_equal. apply IH. lia.
Qed.

(* DSi-mode TWL NAND: the two known MBR blocks; the stored blocks are plaintext xor byte-reversed AES output
   (first block given in integer form, as the code uses it) *)
Theorem infer_twl_ok key c boff blk0 :
  0 <= c + boff -> c + boff + 1 < 2 ^ 128 ->
  let ks0 := E key (be_encode 16 (c + boff)) in
  let ks1 := E key (be_encode 16 (c + boff + 1)) in
  be_decode blk0 = Z.lxor (be_decode twl_known0) (be_decode (rev ks0)) ->
  infer_twl E D key blk0 (xor_bytes twl_known1 (rev ks1)) boff = Some c.
Proof.
  intros H0 H1 ks0 ks1 Hb. unfold infer_twl. rewrite Hb.
  rewrite (Z.lxor_comm (be_decode twl_known0)), lxor_cancel.
  replace (be_decode (rev ks0)) with (le_decode ks0) by (unfold be_decode; now rewrite rev_involutive).
  replace (le_encode 16 (le_decode ks0)) with ks0.
  2:{ symmetry. rewrite <- (Elen key (be_encode 16 (c + boff))). apply le_encode_decode. apply Ebytes. }
  unfold ks0. rewrite DE. rewrite be_decode_encode_id by (change (Z.of_nat 16) with 16; lia).
  replace (c + boff - boff) with c by lia. fold ks1.
  rewrite xor_bytes_cancel' by (rewrite rev_length; unfold ks1; rewrite Elen; reflexivity).
  rewrite list_eqb_refl. reflexivity.
Qed.
End InferTwl.


(* ---- a window read (SubsectionIO.read) on any file-like object with a read/absolute-seek contract ---- *)
Section Sub.
Context {T : Type} (V : fileops T).
Variables (vinv : T -> Prop) (vcontent : T -> list Z) (vpos : T -> Z).
Hypothesis Hread : forall s n, vinv s ->
  exists r s', f_read V s n = Ok (r, s') /\ vinv s' /\ r = slice (vcontent s) (vpos s) (len r) /\
    len r = read_count (len (vcontent s)) (vpos s) n /\ vcontent s' = vcontent s.
Hypothesis Habs : forall s o, vinv s -> 0 <= o ->
  exists s', f_seek V s o 0 = Ok (o, s') /\ vinv s' /\ vcontent s' = vcontent s /\ vpos s' = o.

Theorem sub_read_ok off size sk s n :
  vinv s -> 0 <= off -> 0 <= size -> 0 <= sk -> off + size <= len (vcontent s) ->
  exists r s', sub_read V off size sk s n = Ok (r, s') /\ vinv s' /\ vcontent s' = vcontent s /\
    r = slice (slice (vcontent s) off size) sk (len r) /\ len r = read_count size sk n.
Proof.
  intros Hi Hoff Hsz Hsk Hin. unfold sub_read.
  destruct (sk >? size) eqn:Hpast.
  - exists [], s. rewrite len_nil, slice_0. repeat split; auto. unfold read_count. destruct (n <? 0) eqn:?; lia.
  - set (n2 := if sk + (if n <? 0 then size - sk else n) >? size then size - sk else if n <? 0 then size - sk else n).
    destruct (Habs s (sk + off) Hi ltac:(lia)) as (s1 & -> & I1 & C1 & P1). cbn [bind].
    destruct (Hread s1 n2 I1) as (r & s2 & -> & I2 & Hr & Hl & C2).
    rewrite C1, P1 in *.
    assert (Hlen : len r = read_count size sk n).
    { rewrite Hl. unfold read_count, n2. pose proof (len_nonneg (vcontent s)). destruct (n <? 0) eqn:?; [destruct (sk + (size - sk) >? size) eqn:?|destruct (sk + n >? size) eqn:?]. all: match goal with |- context [if ?c then _ else _] => destruct c eqn:? end; try lia. }
    exists r, s2. repeat split; auto; try congruence.
    rewrite Hr at 1. assert (0 <= len r <= size - sk).
    { rewrite Hlen. unfold read_count. destruct (n <? 0) eqn:?; lia. }
    rewrite slice_slice by lia. f_equal; lia.
Qed.
End Sub.

(* ---- partition views of a NAND: window on a CTR (3DS or DSi mode) wrapper over the whole image ---- *)
Section Views.
Variable E : list Z -> list Z -> list Z.
Context {S : Type} (U : fileops S).
Variables (inv : S -> Prop) (content : S -> list Z) (pos : S -> Z).
Hypothesis Hlaw : lawful U inv content pos.
Hypothesis HabsU : forall s o, inv s -> 0 <= o -> exists s', f_seek U s o 0 = Ok (o, s').
Variable extends : bool.
Hypothesis law_write : forall s d, inv s ->
  exists k s', f_write U s d = Ok (k, s') /\ inv s' /\
    k = (if extends then len d else Z.min (len d) (Z.max 0 (len (content s) - pos s))) /\
    content s' = overlay 0 (content s) (pos s) (take d k) /\ pos s' = pos s + k.
Variables (key : list Z) (counter : Z).

Definition ctr_ops : fileops (@ctrio S) :=
  mkOps (ctr_read E U key counter) (ctr_seek U) (fun io => f_tell U (cu io)) (ctr_write E U key counter).
Definition twl_ops : fileops (@ctrio S) :=
  mkOps (twl_read E U key counter) (ctr_seek U) (fun io => f_tell U (cu io)) (twl_write E U key counter).

Lemma len_dec tw c : len (stream_dec E tw key counter c) = len c.
Proof. unfold stream_dec. apply len_xor_ks. Qed.

Lemma ctr_abs_seek (P : @ctrio S -> Prop) io o :
  inv (cu io) -> 0 <= o ->
  exists io', ctr_seek U io o 0 = Ok (o, io') /\ inv (cu io') /\ content (cu io') = content (cu io) /\ pos (cu io') = o /\ ccache io' = None.
Proof.
  intros Hi Ho. unfold ctr_seek. destruct (HabsU (cu io) o Hi Ho) as (s' & Es).
  pose proof (law_seek _ _ _ _ Hlaw (cu io) o 0 Hi) as L. rewrite Es in *. destruct L as (I & C & P0). cbn [bind].
  eexists. split; [reflexivity|]. cbn [cu ccache]. auto.
Qed.

(* 3DS-mode base file (ctr_old, ctr_new, firm, agb) *)
Theorem ctr_partition_read off size sk io n :
  io_inv inv content pos extends key counter io -> 0 <= off -> 0 <= size -> 0 <= sk -> off + size <= len (content (cu io)) ->
  exists r io', sub_read ctr_ops off size sk io n = Ok (r, io') /\
    content (cu io') = content (cu io) /\
    r = slice (slice (stream_dec E false key counter (content (cu io))) off size) sk (len r) /\
    len r = read_count size sk n.
Proof.
  intros Hio Hoff Hsz Hsk Hin.
  destruct (sub_read_ok ctr_ops (io_inv inv content pos extends key counter)
             (fun io => stream_dec E false key counter (content (cu io))) (fun io => pos (cu io))) with (off := off) (size := size) (sk := sk) (s := io) (n := n)
    as (r & io' & H1 & H2 & H3 & H4 & H5); auto.
  - intros s m Hs. destruct (ctr_read_ok E U inv content pos Hlaw extends law_write key counter s m Hs) as (out & s' & A & B & C & D0 & F & G).
    exists out, s'. cbn [ctr_ops f_read]. rewrite len_dec. rewrite F. auto 10.
  - intros s o Hs Ho. destruct Hs as [Hi Hc]. destruct (ctr_abs_seek (fun _ => True) s o Hi Ho) as (s' & A & B & C & D0 & F).
    exists s'. cbn [ctr_ops f_seek]. split; [exact A|]. split; [|split; [now rewrite C|exact D0]].
    split; [exact B|]. rewrite F. exact I.
  - rewrite len_dec. exact Hin.
  - exists r, io'. split; [exact H1|]. split; [|split; [exact H4|exact H5]].
    (* the stored bytes did not change: equal decryptions of equal lengths are not needed, the wrapper never writes on a read *)
    unfold sub_read in H1. destruct (sk >? size); [inversion H1; reflexivity|].
    destruct (ctr_abs_seek (fun _ => True) io (sk + off) (proj1 Hio) ltac:(lia)) as (s1 & A & B & C & D0 & F).
    cbn [ctr_ops f_seek f_read] in H1. rewrite A in H1. cbn [bind] in H1.
    assert (Hs1 : io_inv inv content pos extends key counter s1) by (split; [exact B|rewrite F; exact I]).
    destruct (ctr_read_ok E U inv content pos Hlaw extends law_write key counter s1 (if sk + (if n <? 0 then size - sk else n) >? size then size - sk else if n <? 0 then size - sk else n) Hs1)
      as (out & s' & A' & _ & _ & _ & F' & _).
    rewrite A' in H1. inversion H1; subst. congruence.
Qed.

(* DSi-mode base file (twl) *)
Theorem twl_partition_read off size sk io n :
  inv (cu io) -> 0 <= off -> 0 <= size -> 0 <= sk -> off + size <= len (content (cu io)) ->
  exists r io', sub_read twl_ops off size sk io n = Ok (r, io') /\
    r = slice (slice (stream_dec E true key counter (content (cu io))) off size) sk (len r) /\
    len r = read_count size sk n.
Proof.
  intros Hio Hoff Hsz Hsk Hin.
  destruct (sub_read_ok twl_ops (fun io => inv (cu io))
             (fun io => stream_dec E true key counter (content (cu io))) (fun io => pos (cu io))) with (off := off) (size := size) (sk := sk) (s := io) (n := n)
    as (r & io' & H1 & H2 & H3 & H4 & H5); auto.
  - intros s m Hs. destruct (twl_read_ok E U inv content pos Hlaw key counter s m Hs) as (out & s' & A & B & C & D0 & F & G).
    exists out, s'. cbn [twl_ops f_read]. rewrite len_dec. rewrite F. auto 10.
  - intros s o Hs Ho. destruct (ctr_abs_seek (fun _ => True) s o Hs Ho) as (s' & A & B & C & D0 & F).
    exists s'. cbn [twl_ops f_seek]. split; [exact A|]. split; [exact B|]. split; [now rewrite C|exact D0].
  - rewrite len_dec. exact Hin.
  - exists r, io'. auto.
Qed.
End Views.

(* ---- header codec: parse then serialise gives back the 512 bytes ---- *)
Definition tuple4 := (Z * Z * Z * Z)%type.       (* fs type, crypt type, offset, size (media units) *)
Definition t_fs (t : tuple4) := fst (fst (fst t)).
Definition t_cr (t : tuple4) := snd (fst (fst t)).
Definition t_off (t : tuple4) := snd (fst t).
Definition t_size (t : tuple4) := snd t.

Definition tuple_ok (t : tuple4) : Prop :=
  0 <= t_fs t < 256 /\ 0 <= t_cr t < 256 /\ 0 <= t_off t < 2 ^ 32 /\ 0 <= t_size t < 2 ^ 32 /\
  (t_fs t = 0 -> t_cr t = 0 /\ t_off t = 0 /\ t_size t = 0).      (* unused slots are all-zero *)

Definition mk_header (sig : list Z) (mu : Z) (tbl : list tuple4) (unk mbr : list Z) : list Z :=
  concat [sig; [78; 67; 83; 68]; le_encode 4 mu; le_encode 8 0; map t_fs tbl; map t_cr tbl;
          encode_table (map (fun t => (t_off t, t_size t)) tbl); unk; mbr].

Definition slot_of_tuple (t : tuple4) : option entry :=
  if t_fs t =? 0 then None else Some (mkEntry (t_fs t) (t_cr t) (t_off t * 0x200) (t_size t * 0x200) (base_of (t_fs t) (t_cr t))).

Lemma slice_part (parts : list (list Z)) k a n :
  (k < length parts)%nat -> len (concat (firstn k parts)) = a -> len (nth k parts []) = n ->
  slice (concat parts) a n = nth k parts [].
Proof.
  intros Hk Ha Hn. rewrite (concat_split parts k Hk).
  set (pre := concat (firstn k parts)) in *. set (x := nth k parts []) in *.
  pose proof (len_nonneg pre). pose proof (len_nonneg x).
  rewrite slice_app_r by lia. replace (a - len pre) with 0 by lia.
  rewrite slice_app_l by lia. subst n. apply slice_all.
Qed.

Lemma zg_map {A} (f : A -> Z) (l : list A) (i : nat) d : (i < length l)%nat -> zg (map f l) (Z.of_nat i) = f (nth i l d).
Proof.
  intros H. unfold zg, zth. destruct (Z.of_nat i <? 0) eqn:?; [lia|]. rewrite Nat2Z.id.
  rewrite nth_error_map. rewrite (nth_error_nth' l d H). reflexivity.
Qed.

Lemma slot_entry_tuple (tbl : list tuple4) (i : nat) :
  (i < length tbl)%nat -> Forall tuple_ok tbl ->
  slot_entry (map t_fs tbl) (map t_cr tbl) (encode_table (map (fun t => (t_off t, t_size t)) tbl)) (Z.of_nat i)
  = slot_of_tuple (nth i tbl (0, 0, 0, 0)).
Proof.
  intros Hi Hok. unfold slot_entry, slot_of_tuple.
  rewrite (zg_map t_fs tbl i (0, 0, 0, 0) Hi), (zg_map t_cr tbl i (0, 0, 0, 0) Hi).
  set (t := nth i tbl (0, 0, 0, 0)).
  assert (Ht : tuple_ok t) by (rewrite Forall_forall in Hok; apply Hok; apply nth_In; exact Hi).
  destruct (t_fs t =? 0); [reflexivity|].
  rewrite (slice_encode_table _ i) by (rewrite map_length; exact Hi).
  replace (nth i (map (fun t => (t_off t, t_size t)) tbl) (0, 0)) with (t_off t, t_size t)
    by (symmetry; apply (map_nth (fun t => (t_off t, t_size t)) tbl (0, 0, 0, 0) i)).
  cbn [fst snd].
  destruct Ht as (_ & _ & Ho & Hs & _).
  rewrite slice_app_l by (rewrite ?len_le_encode; lia). rewrite (slice_full _ 4) by (now rewrite len_le_encode).
  rewrite slice_app_r by (rewrite ?len_le_encode; lia). rewrite len_le_encode. replace (4 - Z.of_nat 4) with 0 by lia.
  rewrite (slice_full _ 4) by (now rewrite len_le_encode).
  rewrite !le_decode_encode_id by (change (256 ^ Z.of_nat 4) with (2 ^ 32); lia). reflexivity.
Qed.

Lemma slots_back (tbl : list tuple4) : Forall tuple_ok tbl ->
  map (fun s => match s with Some e => e_fs e | None => 0 end) (map slot_of_tuple tbl) = map t_fs tbl /\
  map (fun s => match s with Some e => e_crypt e | None => 0 end) (map slot_of_tuple tbl) = map t_cr tbl /\
  map (fun s => match s with Some e => (e_off e / 0x200, e_size e / 0x200) | None => (0, 0) end) (map slot_of_tuple tbl)
    = map (fun t => (t_off t, t_size t)) tbl.
Proof.
  intros Hok. rewrite !map_map. repeat split; apply map_ext_in; intros t Ht; rewrite Forall_forall in Hok; specialize (Hok t Ht);
    destruct Hok as (_ & _ & _ & _ & Hz); unfold slot_of_tuple; destruct (Z.eqb_spec (t_fs t) 0) as [E0|E0];
    try (destruct (Hz E0) as (Z1 & Z2 & Z3); rewrite ?Z1, ?Z2, ?Z3); cbn [e_fs e_crypt e_off e_size]; try congruence; try reflexivity.
  rewrite !Z.div_mul by lia. reflexivity.
Qed.

Theorem nand_header_roundtrip sig mu tbl unk mbr h :
  len sig = 0x100 -> len unk = 94 -> len mbr = 66 -> length tbl = 8%nat -> 0 <= mu < 2 ^ 32 -> Forall tuple_ok tbl ->
  nand_parse (mk_header sig mu tbl unk mbr) = Ok h ->
  nand_bytes h = mk_header sig mu tbl unk mbr /\ h_slots h = map slot_of_tuple tbl /\ h_image_size h = mu * 0x200.
Proof.
  intros Ls Lu Lm Lt Hmu Hok.
  set (parts := [sig; [78; 67; 83; 68]; le_encode 4 mu; le_encode 8 0; map t_fs tbl; map t_cr tbl;
                 encode_table (map (fun t => (t_off t, t_size t)) tbl); unk; mbr]).
  assert (Lfs : len (map t_fs tbl) = 8) by (unfold len; rewrite map_length, Lt; reflexivity).
  assert (Lcr : len (map t_cr tbl) = 8) by (unfold len; rewrite map_length, Lt; reflexivity).
  assert (Ltb : len (encode_table (map (fun t => (t_off t, t_size t)) tbl)) = 64)
    by (rewrite len_encode_table; unfold len; rewrite map_length, Lt; reflexivity).
  assert (Ltot : len (mk_header sig mu tbl unk mbr) = 0x200).
  { unfold mk_header. cbn [concat]. rewrite !len_app, !len_le_encode, Ls, Lu, Lm, Lfs, Lcr, Ltb, len_nil. reflexivity. }
  assert (P0 : slice (mk_header sig mu tbl unk mbr) 0 0x100 = sig) by (apply (slice_part parts 0); [cbn; lia|reflexivity|exact Ls]).
  assert (P1 : slice (mk_header sig mu tbl unk mbr) 0x100 4 = [78; 67; 83; 68]) by (apply (slice_part parts 1); [cbn; lia|unfold parts; cbn [firstn concat]; rewrite ?app_nil_r, ?len_app, ?len_le_encode, ?Ls, ?Lfs, ?Lcr, ?Ltb, ?Lu, ?len_nil; reflexivity|reflexivity]).
  assert (P2 : slice (mk_header sig mu tbl unk mbr) 0x104 4 = le_encode 4 mu)
    by (apply (slice_part parts 2); [cbn; lia|unfold parts; cbn [firstn concat]; rewrite ?app_nil_r, ?len_app, ?len_le_encode, ?Ls, ?Lfs, ?Lcr, ?Ltb, ?Lu, ?len_nil; reflexivity|apply len_le_encode]).
  assert (P3 : slice (mk_header sig mu tbl unk mbr) 0x108 8 = le_encode 8 0)
    by (apply (slice_part parts 3); [cbn; lia|unfold parts; cbn [firstn concat]; rewrite ?app_nil_r, ?len_app, ?len_le_encode, ?Ls, ?Lfs, ?Lcr, ?Ltb, ?Lu, ?len_nil; reflexivity|apply len_le_encode]).
  assert (P4 : slice (mk_header sig mu tbl unk mbr) 0x110 8 = map t_fs tbl)
    by (apply (slice_part parts 4); [cbn; lia|unfold parts; cbn [firstn concat]; rewrite ?app_nil_r, ?len_app, ?len_le_encode, ?Ls, ?Lfs, ?Lcr, ?Ltb, ?Lu, ?len_nil; reflexivity|exact Lfs]).
  assert (P5 : slice (mk_header sig mu tbl unk mbr) 0x118 8 = map t_cr tbl)
    by (apply (slice_part parts 5); [cbn; lia|unfold parts; cbn [firstn concat]; rewrite ?app_nil_r, ?len_app, ?len_le_encode, ?Ls, ?Lfs, ?Lcr, ?Ltb, ?Lu, ?len_nil; reflexivity|exact Lcr]).
  assert (P6 : slice (mk_header sig mu tbl unk mbr) 0x120 64 = encode_table (map (fun t => (t_off t, t_size t)) tbl))
    by (apply (slice_part parts 6); [cbn; lia|unfold parts; cbn [firstn concat]; rewrite ?app_nil_r, ?len_app, ?len_le_encode, ?Ls, ?Lfs, ?Lcr, ?Ltb, ?Lu, ?len_nil; reflexivity|exact Ltb]).
  assert (P7 : slice (mk_header sig mu tbl unk mbr) 0x160 94 = unk)
    by (apply (slice_part parts 7); [cbn; lia|unfold parts; cbn [firstn concat]; rewrite ?app_nil_r, ?len_app, ?len_le_encode, ?Ls, ?Lfs, ?Lcr, ?Ltb, ?Lu, ?len_nil; reflexivity|exact Lu]).
  assert (P8 : slice (mk_header sig mu tbl unk mbr) 0x1BE 66 = mbr)
    by (apply (slice_part parts 8); [cbn; lia|unfold parts; cbn [firstn concat]; rewrite ?app_nil_r, ?len_app, ?len_le_encode, ?Ls, ?Lfs, ?Lcr, ?Ltb, ?Lu, ?len_nil; reflexivity|exact Lm]).
  unfold nand_parse. rewrite Ltot. cbn [Z.eqb negb]. rewrite P0, P1, P2, P3, P4, P5, P6, P7, P8.
  rewrite le_decode_encode_id by (change (256 ^ Z.of_nat 4) with (2 ^ 32); lia).
  destruct (nand_size mu) as [actual|]; [|discriminate].
  rewrite list_eqb_refl. cbn [negb]. rewrite le_decode_encode_id by (change (256 ^ Z.of_nat 8) with (2 ^ 64); lia). cbn [Z.eqb negb].
  assert (Hslots : map (slot_entry (map t_fs tbl) (map t_cr tbl) (encode_table (map (fun t => (t_off t, t_size t)) tbl))) [0; 1; 2; 3; 4; 5; 6; 7]
                   = map slot_of_tuple tbl).
  { change [0; 1; 2; 3; 4; 5; 6; 7] with (map Z.of_nat (seq 0 8)). rewrite map_map.
    rewrite (map_ext_in _ (fun i => slot_of_tuple (nth i tbl (0, 0, 0, 0)))).
    - destruct tbl as [|t0 [|t1 [|t2 [|t3 [|t4 [|t5 [|t6 [|t7 [|]]]]]]]]]; try discriminate. reflexivity.
    - intros i Hi. apply in_seq in Hi. apply slot_entry_tuple; [lia|exact Hok]. }
  rewrite Hslots.
  destruct (alias_loop (map slot_of_tuple tbl) 0 0 []) as [al|e]; cbn [bind]; [|discriminate].
  intros Hh. inversion Hh; subst h. cbn [h_slots h_image_size]. split; [|split; reflexivity].
  unfold nand_bytes. cbn [h_sig h_image_size h_slots h_unknown h_mbr].
  destruct (slots_back tbl Hok) as (B1 & B2 & B3). rewrite B1, B2, B3. rewrite Z.div_mul by lia.
  unfold mk_header. cbn [concat]. rewrite app_nil_r. reflexivity.
Qed.

(* the parser accepts exactly NAND headers: wrong magic and a non-zero media id (a CCI) are refused *)
Theorem nand_reject_media data : len data = 0x200 -> nand_size (le_decode (slice data 0x104 4)) <> None ->
  list_eqb (slice data 0x100 4) [78; 67; 83; 68] = true -> le_decode (slice data 0x108 8) <> 0 -> nand_parse data = Err (Pyctr 80).
Proof.
  intros L Hs Hm Hid. unfold nand_parse. rewrite L. cbn [Z.eqb negb]. destruct (nand_size _); [|contradiction]. rewrite Hm. cbn [negb].
  destruct (Z.eqb_spec (le_decode (slice data 264 8)) 0); [contradiction|reflexivity].
Qed.
