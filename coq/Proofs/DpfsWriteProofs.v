(* C18: a write through the DPFS level-3 view changes exactly the bytes of the active copies that the view shows at the written
   positions: the active view becomes the old view with the data laid over it, every other byte of both copies is untouched. *)
From Pyctr Require Import Base.Prelude Base.ListExt Base.PyInt Base.PySlice Base.Sweep Model.Blocks Proofs.BlocksProofs
  Model.Dpfs Proofs.DpfsProofs Model.DpfsWrite.

Lemma zth_overlay (l d : list Z) x q :
  0 <= x -> x + len d <= len l -> 0 <= q ->
  zth (overlay 0 l x d) q = if (x <=? q) && (q <? x + len d) then zth d (q - x) else zth l q.
Proof.
  intros Hx Hl Hq. destruct d as [|y d].
  - cbn [overlay]. change (len (@nil Z)) with 0. destruct ((x <=? q) && (q <? x + 0)) eqn:E; [lia|reflexivity].
  - unfold zth. destruct (q <? 0) eqn:?; [lia|]. rewrite nth_error_overlay by congruence. cbv zeta.
    unfold len in *.
    destruct (Nat.ltb_spec (Z.to_nat q) (Z.to_nat x)).
    + destruct ((x <=? q) && (q <? x + Z.of_nat (length (y :: d)))) eqn:E; [lia|].
      destruct (Nat.ltb_spec (Z.to_nat q) (length l)); [reflexivity|]. lia.
    + destruct (Nat.ltb_spec (Z.to_nat q) (Z.to_nat x + length (y :: d))).
      * destruct ((x <=? q) && (q <? x + Z.of_nat (length (y :: d)))) eqn:E; [|lia].
        destruct (q - x <? 0) eqn:?; [lia|]. f_equal. lia.
      * destruct ((x <=? q) && (q <? x + Z.of_nat (length (y :: d)))) eqn:E; [lia|reflexivity].
Qed.

Section W.
Variable size bs : Z.
Variable lv2 : list Z.
Hypothesis Hbs : 0 < bs.
Hypothesis Hsize : 0 < size.

Let bit := active_bit lv2.
Definition cofs (b : Z) : Z := if bit b then size else 0.
(* where the view keeps its byte p, and the only view position a byte q of the area can belong to *)
Definition phi (p : Z) : Z := cofs (p / bs) + p.
Definition pre (q : Z) : Z := if q <? size then q else q - size.

Lemma cofs_cases b : cofs b = 0 \/ cofs b = size.
Proof. unfold cofs. destruct (bit b); auto. Qed.

Lemma div_in_block p b : 0 <= b -> b * bs <= p < (b + 1) * bs -> p / bs = b.
Proof. intros Hb Hp. symmetry. apply (Z.div_unique p bs b (p - b * bs)); lia. Qed.

(* the bytes an overlay inside block b touches are exactly those whose view position lies in the written range *)
Lemma in_block b fbo n q :
  0 <= b -> 0 <= fbo -> 0 <= n -> fbo + n <= bs -> b * bs + fbo + n <= size -> 0 <= q ->
  ((cofs b + b * bs + fbo <=? q) && (q <? cofs b + b * bs + fbo + n)) =
  ((b * bs + fbo <=? pre q) && (pre q <? b * bs + fbo + n) && (phi (pre q) =? q)).
Proof.
  intros Hb Hf Hn Hfn Hsz Hq. apply Bool.eq_true_iff_eq.
  rewrite !andb_true_iff, !Z.leb_le, !Z.ltb_lt, Z.eqb_eq. unfold pre, phi.
  destruct (cofs_cases b) as [Ec|Ec]; rewrite Ec; destruct (q <? size) eqn:Q; split.
  - intros [A B]. rewrite (div_in_block q b) by nia. lia.
  - intros [[A B] C]. lia.
  - intros [A B]. lia.
  - intros [[A B] C]. rewrite (div_in_block (q - size) b) in C by nia. lia.
  - intros [A B]. lia.
  - intros [[A B] C]. rewrite (div_in_block q b) in C by nia. lia.
  - intros [A B]. rewrite (div_in_block (q - size) b) by nia. lia.
  - intros [[A B] C]. lia.
Qed.

Fixpoint shape (fbo : Z) (blocks : list (list Z)) : Prop :=
  match blocks with
  | [] => True
  | x :: r => 0 < len x <= bs - fbo /\ (r <> [] -> len x = bs - fbo) /\ shape 0 r
  end.

Definition written (p0 : Z) (d : list Z) (pair : list Z) (q : Z) : option Z :=
  if (p0 <=? pre q) && (pre q <? p0 + len d) && (phi (pre q) =? q) then zth d (pre q - p0) else zth pair q.

Lemma wloop_spec blocks : forall pair b fbo,
  len pair = 2 * size -> 0 <= b -> 0 <= fbo < bs -> shape fbo blocks -> b * bs + fbo + len (concat blocks) <= size ->
  len (wloop size bs lv2 pair b fbo blocks) = 2 * size /\
  forall q, 0 <= q -> zth (wloop size bs lv2 pair b fbo blocks) q = written (b * bs + fbo) (concat blocks) pair q.
Proof.
  induction blocks as [|x r IH]; intros pair b fbo Hl Hb Hf Hsh Hsz.
  - cbn [wloop concat]. split; [exact Hl|]. intros q Hq. unfold written. change (len (@nil Z)) with 0.
    destruct ((b * bs + fbo <=? pre q) && (pre q <? b * bs + fbo + 0) && (phi (pre q) =? q)) eqn:E; [lia|reflexivity].
  - cbn [wloop]. fold (cofs b). cbn [concat] in *. rewrite len_app in Hsz. pose proof (len_nonneg (concat r)).
    destruct Hsh as (Hx & Hfull & Hr).
    set (x0 := cofs b + b * bs + fbo). set (pair1 := overlay 0 pair x0 x).
    assert (Hc : 0 <= cofs b <= size) by (destruct (cofs_cases b); lia).
    assert (L1 : len pair1 = 2 * size).
    { subst pair1. destruct x as [|y x']; [exact Hl|]. rewrite len_overlay by (try congruence; lia).
      destruct (cofs_cases b); nia. }
    assert (Z1 : forall q, 0 <= q -> zth pair1 q = written (b * bs + fbo) x pair q).
    { intros q Hq. subst pair1. rewrite zth_overlay by (try lia; destruct (cofs_cases b); nia).
      unfold written, x0. rewrite <- (in_block b fbo (len x) q) by lia.
      destruct ((cofs b + b * bs + fbo <=? q) && (q <? cofs b + b * bs + fbo + len x)) eqn:E; [|reflexivity].
      rewrite (in_block b fbo (len x) q) in E by lia.
      apply andb_true_iff in E as [E1 E3]. apply andb_true_iff in E1 as [E1 E2]. apply Z.eqb_eq in E3.
      unfold phi in E3. rewrite (div_in_block (pre q) b) in E3 by nia. f_equal. lia. }
    destruct r as [|y r'].
    + cbn [wloop concat]. rewrite app_nil_r. split; [exact L1|exact Z1].
    + assert (Ex : len x = bs - fbo) by (apply Hfull; congruence).
      destruct (IH pair1 (b + 1) 0 L1 ltac:(lia) ltac:(lia) Hr ltac:(nia)) as [L2 Z2].
      split; [exact L2|]. intros q Hq. rewrite Z2 by exact Hq. unfold written at 1. rewrite Z1 by exact Hq.
      unfold written. rewrite len_app.
      replace ((b + 1) * bs + 0) with (b * bs + fbo + len x) by lia.
      set (p0 := b * bs + fbo). set (pq := pre q). set (lx := len x) in *. set (lr := len (concat (y :: r'))) in *.
      destruct (phi pq =? q); rewrite ?andb_true_r, ?andb_false_r; [|reflexivity].
      destruct (p0 + lx <=? pq) eqn:A; destruct (pq <? p0 + lx + lr) eqn:B; cbn [andb];
        destruct (p0 <=? pq) eqn:C; destruct (pq <? p0 + lx) eqn:D; destruct (pq <? p0 + (lx + lr)) eqn:E;
        cbn [andb]; try lia; try reflexivity.
      all: subst lx lr; rewrite zth_app by lia; destruct (pq - p0 <? len x) eqn:F; try lia; try reflexivity; f_equal; lia.
Qed.
End W.

(* ---------- cutting the data into blocks ---------- *)
Section Chunks.
Variable bs : Z.
Hypothesis Hbs : 0 < bs.

Lemma chunks_fuel_props f : forall l, (length l <= f)%nat ->
  concat (chunks_fuel f bs l) = l /\ shape bs 0 (chunks_fuel f bs l).
Proof.
  induction f as [|f IH]; intros l Hf.
  - destruct l; [split; [reflexivity|exact I]|cbn [length] in Hf; lia].
  - cbn [chunks_fuel]. destruct l as [|a l'] eqn:El; [split; [reflexivity|exact I]|]. rewrite <- El in *.
    assert (Ll : 0 < len l) by (subst l; rewrite len_cons; pose proof (len_nonneg l'); lia).
    destruct (IH (drop l bs)) as [C S].
    { rewrite drop_raw. unfold drop0. rewrite skipn_length. unfold len in *. lia. }
    split.
    + cbn [concat]. rewrite C. apply take_drop.
    + cbn [shape]. rewrite len_take by lia. repeat split; try lia; [|exact S].
      intros Hne. destruct (Z.le_gt_cases bs (len l)); [lia|]. exfalso. apply Hne.
      rewrite drop_ge by lia. destruct f; reflexivity.
Qed.

Lemma blocks_of_write fbo d :
  0 <= fbo < bs -> d <> [] ->
  let blocks := trim_first fbo (chunks bs (repeat 0 (Z.to_nat fbo) ++ d)) in
  concat blocks = d /\ shape bs fbo blocks.
Proof.
  intros Hf Hd. cbv zeta. set (l := repeat 0 (Z.to_nat fbo) ++ d).
  assert (Ld : 0 < len d) by (destruct d; [congruence|rewrite len_cons; pose proof (len_nonneg d); lia]).
  assert (Ll : len l = fbo + len d) by (subst l; rewrite len_app, len_repeat; lia).
  destruct (chunks_fuel_props (length l) l (le_n _)) as [C S]. fold (chunks bs l) in C, S.
  destruct (chunks bs l) as [|c0 r] eqn:E.
  { cbn [concat] in C. rewrite <- C in Ll. change (len (@nil Z)) with 0 in Ll. lia. }
  cbn [trim_first concat shape] in *. destruct S as (S1 & S2 & S3).
  assert (Lc : fbo < len c0).
  { destruct r as [|y r']; [|rewrite S2 by congruence; lia]. cbn [concat] in C. rewrite app_nil_r in C. rewrite C. lia. }
  split.
  - transitivity (drop (c0 ++ concat r) fbo).
    + rewrite !drop_raw. unfold drop0. rewrite skipn_app. f_equal.
      replace (Z.to_nat fbo - length c0)%nat with 0%nat by (unfold len in *; lia). reflexivity.
    + rewrite C. subst l. rewrite drop_raw. unfold drop0. rewrite skipn_app, repeat_length, Nat.sub_diag.
      rewrite skipn_all2 by (rewrite repeat_length; lia). reflexivity.
  - rewrite len_drop by lia. split; [lia|]. split; [|exact S3]. intros Hne. rewrite S2 by exact Hne. lia.
Qed.
End Chunks.

(* ---------- the view, byte by byte ---------- *)
Lemma zth_slice (l : list Z) a n i : 0 <= a -> 0 <= n -> 0 <= i ->
  zth (slice l a n) i = if i <? n then zth l (a + i) else None.
Proof.
  intros Ha Hn Hi. unfold zth. destruct (i <? 0) eqn:?; [lia|]. destruct (a + i <? 0) eqn:?; [lia|].
  rewrite nth_error_slice by lia. rewrite Z2Nat.id by lia. destruct (i <? n); [f_equal; lia|reflexivity].
Qed.

Section VW.
Variable size bs : Z.
Variable lv2 : list Z.
Hypothesis Hbs : 0 < bs.
Hypothesis Hsize : 0 < size.
Let bit := active_bit lv2.

Lemma view_nth pair p : len pair = 2 * size -> 0 <= p < size ->
  zth (active_view pair size bs bit) p = zth pair (phi size bs lv2 p).
Proof.
  intros Hl Hp. set (b := p / bs).
  assert (Hb : 0 <= b) by (apply Z.div_pos; lia).
  assert (Hpb : b * bs <= p < (b + 1) * bs) by (subst b; pose proof (Z.div_mod p bs); pose proof (Z.mod_pos_bound p bs); nia).
  assert (Hnb : b < nblocks size bs) by (unfold nblocks; nia).
  pose proof (active_view_block pair size bs bit Hbs Hsize ltac:(lia) b ltac:(lia)) as E.
  pose proof (len_active_view pair size bs bit Hbs Hsize ltac:(lia)) as Lv.
  assert (zth (active_view pair size bs bit) p = zth (slice (active_view pair size bs bit) (b * bs) bs) (p - b * bs)) as ->.
  { rewrite zth_slice by nia. destruct (p - b * bs <? bs) eqn:?; [f_equal; lia|lia]. }
  rewrite E. unfold piece. rewrite zth_slice by (try nia; destruct (bit b); nia).
  destruct (p - b * bs <? Z.min bs (size - b * bs)) eqn:?; [|lia].
  unfold phi, cofs. fold b. fold bit. f_equal. lia.
Qed.

Lemma pre_phi p : 0 <= p < size -> pre size (phi size bs lv2 p) = p.
Proof.
  intros Hp. unfold pre, phi. destruct (cofs_cases size lv2 (p / bs)) as [->| ->].
  - destruct (0 + p <? size) eqn:?; lia.
  - destruct (size + p <? size) eqn:?; lia.
Qed.

(* the written data cut to what fits *)
Definition clamp (off : Z) (data : list Z) : list Z :=
  if off + len data >? size then pyslice data None (Some (Z.max (size - off) 0)) else data.

Lemma clamp_fits off data : 0 <= off -> off + len (clamp off data) <= Z.max size off /\ len (clamp off data) <= len data.
Proof.
  intros Ho. unfold clamp. pose proof (len_nonneg data). destruct (off + len data >? size) eqn:E; [|lia].
  rewrite pyslice_to by lia. rewrite len_take by lia. lia.
Qed.

Theorem lv3_write_spec pair off data :
  len pair = 2 * size -> 0 <= off ->
  let '(pair', n) := lv3_write pair size bs lv2 off data in
  let d := clamp off data in
  n = len d /\ len pair' = 2 * size /\
  (* every byte of the two-copy area: new data where the view shows a written position, the old byte everywhere else *)
  (forall q, 0 <= q -> zth pair' q = written size bs lv2 off d pair q) /\
  (* hence the view is the old view with the data laid over it *)
  (forall p, 0 <= p < size ->
     zth (active_view pair' size bs bit) p =
     if (off <=? p) && (p <? off + len d) then zth d (p - off) else zth (active_view pair size bs bit) p).
Proof.
  intros Hl Ho. unfold lv3_write. fold (clamp off data). set (d := clamp off data).
  destruct (clamp_fits off data Ho) as [F1 F2]. fold d in F1, F2. pose proof (len_nonneg d) as Ld.
  destruct (len d =? 0) eqn:E0.
  - cbv zeta. split; [lia|]. split; [exact Hl|]. split.
    + intros q Hq. unfold written. destruct ((off <=? pre size q) && (pre size q <? off + len d) && _) eqn:E; [lia|reflexivity].
    + intros p Hp. destruct ((off <=? p) && (p <? off + len d)) eqn:E; [lia|reflexivity].
  - assert (Hd : d <> []) by (intros ->; change (len (@nil Z)) with 0 in E0; lia).
    assert (Hin : off + len d <= size) by lia.
    rewrite block_range_spec by lia. cbv zeta.
    set (sb := off / bs). set (fbo := off mod bs).
    assert (Hf : 0 <= fbo < bs) by (apply Z.mod_pos_bound; lia).
    assert (Hsb : 0 <= sb) by (apply Z.div_pos; lia).
    assert (Eoff : sb * bs + fbo = off) by (subst sb fbo; pose proof (Z.div_mod off bs); lia).
    destruct (blocks_of_write bs Hbs fbo d Hf Hd) as [C S].
    set (blocks := trim_first fbo (chunks bs (repeat 0 (Z.to_nat fbo) ++ d))) in *.
    destruct (wloop_spec size bs lv2 Hbs Hsize blocks pair sb fbo Hl Hsb Hf S ltac:(rewrite C; lia)) as [L Z].
    rewrite C, Eoff in Z.
    split; [reflexivity|]. split; [exact L|]. split; [exact Z|].
    intros p Hp. rewrite view_nth by (try exact L; lia). rewrite Z by (unfold phi; destruct (cofs_cases size lv2 (p / bs)); lia).
    unfold written. rewrite pre_phi by lia. rewrite Z.eqb_refl, andb_true_r.
    destruct ((off <=? p) && (p <? off + len d)); [reflexivity|]. symmetry. apply view_nth; [exact Hl|lia].
Qed.
End VW.

(* a write that starts inside block 0 (copy 1), covers block 1 (copy 0) and ends inside block 2 (copy 1) *)
Example dpfs_write_nonvacuous :
  let lv2 := lv2_words ex_lv2 4 (lv1_words ex_lv1 0) in
  lv3_write ex_lv3 10 4 lv2 1 [201; 202; 203; 204; 205; 206; 207; 208] =
  ([0; 1; 2; 3; 204; 205; 206; 207; 8; 9; 100; 201; 202; 203; 104; 105; 106; 107; 208; 109], 8).
Proof. vm_compute. reflexivity. Qed.
