(* C02: random-access CBC reads equal the slice of the whole-stream decryption. *)
From Pyctr Require Import Base.Prelude Base.ListExt Base.PyInt Base.PySlice Env.PyFile Env.FileIface
  Spec.StreamCipher Env.Cipher Model.CbcIO.

Section Algebra.
Variable D : list Z -> list Z -> list Z.
Hypothesis D_len : forall k b, len b = 16 -> len (D k b) = 16.
Variables (key iv : list Z).
Hypothesis Hiv : len iv = 16.

Lemma len_xor_bytes a b : len (xor_bytes a b) = Z.min (len a) (len b).
Proof. unfold xor_bytes, len. rewrite map_length, combine_length. lia. Qed.

Lemma len_cbc_block ct i : 0 <= i -> 16 * (i + 1) <= len ct -> len (cbc_block D key iv ct i) = 16.
Proof.
  intros Hi Hr. unfold cbc_block. rewrite len_xor_bytes.
  rewrite D_len by (rewrite len_slice by lia; lia).
  destruct (i =? 0) eqn:E; [lia|]. rewrite len_slice by lia. lia.
Qed.

Lemma len_cbc_blocks ct i n :
  0 <= i -> 16 * (i + Z.of_nat n) <= len ct -> len (cbc_blocks D key iv ct i n) = 16 * Z.of_nat n.
Proof.
  revert i; induction n as [|n IH]; intros i Hi Hr; [reflexivity|].
  cbn [cbc_blocks]. rewrite len_app, len_cbc_block by lia. rewrite IH by lia. lia.
Qed.

Lemma cbc_blocks_app ct i n m :
  cbc_blocks D key iv ct i (n + m) = cbc_blocks D key iv ct i n ++ cbc_blocks D key iv ct (i + Z.of_nat n) m.
Proof.
  revert i; induction n as [|n IH]; intros i.
  - cbn. now rewrite Z.add_0_r.
  - cbn [Nat.add cbc_blocks]. rewrite IH, <- app_assoc.
    replace (i + 1 + Z.of_nat n) with (i + Z.of_nat (Datatypes.S n)) by lia. reflexivity.
Qed.

(* blocks i .. i+m-1 of the whole-stream decryption *)
Lemma slice_cbc_dec ct i m :
  len ct mod 16 = 0 -> 0 <= i -> 0 <= m -> 16 * (i + m) <= len ct ->
  slice (cbc_dec D key iv ct) (16 * i) (16 * m) = cbc_blocks D key iv ct i (Z.to_nat m).
Proof.
  intros Hm Hi Hm0 Hr. unfold cbc_dec.
  set (N := len ct / 16). assert (HN : len ct = 16 * N) by (unfold N; lia).
  replace (Z.to_nat N) with (Z.to_nat i + (Z.to_nat m + Z.to_nat (N - i - m)))%nat by lia.
  rewrite !cbc_blocks_app. rewrite !Z.add_0_l.
  assert (L1 : len (cbc_blocks D key iv ct 0 (Z.to_nat i)) = 16 * i) by (rewrite len_cbc_blocks by lia; lia).
  rewrite slice_app_r by lia. rewrite L1. replace (16 * i - 16 * i) with 0 by lia.
  assert (L2 : len (cbc_blocks D key iv ct (Z.of_nat (Z.to_nat i)) (Z.to_nat m)) = 16 * m)
    by (rewrite len_cbc_blocks by lia; lia).
  rewrite slice_app_l by lia. rewrite <- L2 at 1. rewrite slice_all. f_equal. lia.
Qed.

(* decrypting a run of blocks on its own, chained from the block before it *)
Lemma cbc_dec_local ct i m :
  0 <= i -> 0 <= m -> 16 * (i + m) <= len ct ->
  cbc_dec D key (if i =? 0 then iv else slice ct (16 * (i - 1)) 16) (slice ct (16 * i) (16 * m))
  = cbc_blocks D key iv ct i (Z.to_nat m).
Proof.
  intros Hi Hm Hr. unfold cbc_dec.
  set (iv' := if i =? 0 then iv else slice ct (16 * (i - 1)) 16).
  set (dat := slice ct (16 * i) (16 * m)).
  assert (Hld : len dat = 16 * m) by (unfold dat; rewrite len_slice by lia; lia).
  rewrite Hld. replace (16 * m / 16) with m by lia.
  assert (G : forall k j, 0 <= j -> j + Z.of_nat k <= m ->
             cbc_blocks D key iv' dat j k = cbc_blocks D key iv ct (i + j) k).
  { induction k as [|k IH]; intros j Hj Hjk; [reflexivity|].
    cbn [cbc_blocks]. rewrite IH by lia. f_equal; [|f_equal; lia].
    unfold cbc_block. f_equal.
    - f_equal. unfold dat. rewrite slice_slice by lia. f_equal; lia.
    - destruct (j =? 0) eqn:Ej.
      + assert (j = 0) as -> by lia. rewrite Z.add_0_r. reflexivity.
      + destruct (i + j =? 0) eqn:Eij; [lia|].
        unfold dat. rewrite slice_slice by lia. f_equal; lia. }
  rewrite (G (Z.to_nat m) 0) by lia. f_equal. lia.
Qed.

End Algebra.

Section IO.
Variable D : list Z -> list Z -> list Z.
Hypothesis D_len : forall k b, len b = 16 -> len (D k b) = 16.
Context {S : Type} (U : fileops S).
Variables (inv : S -> Prop) (content : S -> list Z) (pos : S -> Z).
Hypothesis Hlaw : lawful U inv content pos.
Variables (key iv0 : list Z).
Hypothesis Hiv : len iv0 = 16.

Lemma do_seek_rel s d : inv s ->
  exists s', f_seek U s d 1 = Ok (Z.max 0 (pos s + d), s') /\ inv s' /\ content s' = content s /\ pos s' = Z.max 0 (pos s + d).
Proof.
  intros Hi. destruct (law_seek_rel _ _ _ _ Hlaw s d Hi) as (s' & Hs).
  pose proof (law_seek _ _ _ _ Hlaw s d 1 Hi) as L. rewrite Hs in L. destruct L as (? & ? & ?). eauto.
Qed.

Lemma do_seek0 s : inv s ->
  exists s', f_seek U s 0 0 = Ok (0, s') /\ inv s' /\ content s' = content s /\ pos s' = 0.
Proof.
  intros Hi. destruct (law_seek0 _ _ _ _ Hlaw s Hi) as (s' & Hs).
  pose proof (law_seek _ _ _ _ Hlaw s 0 0 Hi) as L. rewrite Hs in L. destruct L as (? & ? & ?). eauto.
Qed.

Theorem cbc_read_ok s n :
  inv s -> len (content s) mod 16 = 0 ->
  exists out s', cbc_read D U key iv0 s n = Ok (out, s') /\ inv s' /\
    out = slice (cbc_dec D key iv0 (content s)) (pos s) (len out) /\
    len out = read_count (len (content s)) (pos s) n /\
    content s' = content s /\ pos s' = pos s + len out.
Proof.
  intros Hi Hmod. pose proof (law_pos _ _ _ _ Hlaw _ Hi) as Hp.
  set (C := content s) in *. set (p := pos s) in *. set (L := len C) in *.
  pose proof (len_nonneg C) as HL. fold L in HL.
  unfold cbc_read. rewrite (law_tell _ _ _ _ Hlaw _ Hi). fold p.
  unfold cbc_before_of. set (b := p mod 16). set (a := p - b).
  assert (Hb : 0 <= b < 16) by (unfold b; lia).
  assert (Ha : a mod 16 = 0 /\ 0 <= a) by (unfold a, b; lia).
  (* step 1: the IV *)
  assert (Hstep1 : exists ivv s1,
     (if a =? 0 then (do (_, s') <- f_seek U s 0 0; Ok (iv0, s'))
      else (do (_, s') <- f_seek U s (- 16 - b) 1; f_read U s' 16)) = Ok (ivv, s1) /\
     inv s1 /\ content s1 = C /\
     ((a <= L -> len ivv = 16 /\ pos s1 = a /\ ivv = (if a / 16 =? 0 then iv0 else slice C (16 * (a / 16 - 1)) 16)) /\
      (L < a -> len ivv <> 16 /\ pos s1 <= p))).
  { destruct (a =? 0) eqn:Ea.
    - destruct (do_seek0 s Hi) as (s1 & -> & Hi1 & Hc1 & Hp1). cbn [bind].
      exists iv0, s1. split; [reflexivity|]. split; [exact Hi1|]. split; [exact Hc1|].
      split; [intros _|intros Hlt; lia].
      replace (a / 16 =? 0) with true by lia. repeat split; auto. lia.
    - destruct (do_seek_rel s (- 16 - b) Hi) as (s0 & -> & Hi0 & Hc0 & Hp0). cbn [bind].
      fold p in Hp0. replace (Z.max 0 (p + (- 16 - b))) with (a - 16) in Hp0 by (unfold a; lia).
      destruct (law_read _ _ _ _ Hlaw s0 16 Hi0) as (ivv & s1 & -> & Hi1 & Hd1 & Hl1 & Hc1 & Hp1).
      rewrite Hc0 in *. fold C in Hd1, Hl1, Hc1. fold L in Hl1. rewrite Hp0 in *.
      exists ivv, s1. split; [reflexivity|]. split; [exact Hi1|]. split; [exact Hc1|].
      unfold read_count in Hl1. cbn in Hl1.
      split.
      + intros Hle. replace (a / 16 =? 0) with false by lia.
        assert (len ivv = 16) by lia. repeat split; try lia.
        rewrite Hd1. rewrite H. f_equal. lia.
      + intros Hlt. split; lia. }
  replace (p - b =? 0) with (a =? 0) by reflexivity.
  destruct Hstep1 as (ivv & s1 & -> & Hi1 & Hc1 & Hin & Hout). cbn [bind].
  (* step 2: the leading partial block *)
  destruct (law_read _ _ _ _ Hlaw s1 b Hi1) as (db & s2 & -> & Hi2 & Hd2 & Hl2 & Hc2 & Hp2). cbn [bind].
  rewrite Hc1 in *. fold L in Hl2.
  pose proof (law_pos _ _ _ _ Hlaw _ Hi1) as Hp1nn.
  destruct (Z.lt_ge_cases L p) as [Hpast|Hinr].
  - (* beyond the end of the data *)
    assert (HaL : L <= a) by (unfold a in *; lia).
    assert (Hcond : negb (len ivv =? 16) || negb (len db =? b) = true).
    { destruct (Z.lt_ge_cases L a) as [Hlt|Hge].
      - destruct (Hout Hlt) as (Hne & Hle1).
        replace (len ivv =? 16) with false by lia. reflexivity.
      - assert (a = L) by lia. destruct (Hin ltac:(lia)) as (_ & Hp1 & _).
        assert (len db = 0) by (rewrite Hl2, Hp1; unfold read_count; destruct (b <? 0) eqn:?; lia).
        assert (0 < b) by (unfold a in *; lia).
        replace (len db =? b) with false by lia. apply orb_true_r. }
    rewrite Hcond.
    destruct (do_seek_rel s2 (p - f_tell U s2) Hi2) as (s3 & -> & Hi3 & Hc3 & Hp3). cbn [bind].
    rewrite (law_tell _ _ _ _ Hlaw _ Hi2) in Hp3.
    exists [], s3. split; [reflexivity|]. rewrite len_nil.
    repeat split; auto; try (now rewrite slice_0).
    + unfold read_count. destruct (n <? 0) eqn:?; lia.
    + congruence.
    + lia.
  - (* inside the data (or exactly at its end) *)
    assert (HaL : a <= L) by (unfold a; lia).
    destruct (Hin HaL) as (Hlv & Hp1 & Hivv).
    assert (Hldb : len db = b).
    { rewrite Hl2, Hp1. unfold read_count. destruct (b <? 0) eqn:?; [lia|].
      destruct (Z.eq_dec a L); [unfold a in *; lia|]. lia. }
    replace (negb (len ivv =? 16) || negb (len db =? b)) with false
      by (rewrite Hlv, Hldb, !Z.eqb_refl; reflexivity).
    rewrite Hp1, Hldb in Hp2, Hd2.
    destruct (law_read _ _ _ _ Hlaw s2 n Hi2) as (dr & s3 & -> & Hi3 & Hd3 & Hl3 & Hc3 & Hp3). cbn [bind].
    rewrite Hc2 in *. fold L in Hl3. rewrite Hp2 in *. replace (a + b) with p in * by (unfold a; lia).
    pose proof (len_nonneg dr) as Hldr.
    assert (Hn' : p + len dr <= L) by (rewrite Hl3; unfold read_count; destruct (n <? 0) eqn:?; lia).
    rewrite Hldb. set (total := b + len dr).
    (* step 4: trailing bytes up to the block boundary *)
    assert (Hstep4 : exists da s5,
      (if negb (total mod 16 =? 0)
       then (do (da, s4) <- f_read U s3 (16 - total mod 16); do (_, s5) <- f_seek U s4 (- len da) 1; Ok (da, s5))
       else Ok ([], s3)) = Ok (da, s5) /\ inv s5 /\ content s5 = C /\ pos s5 = p + len dr /\
      da = slice C (p + len dr) (len da) /\ (total + len da) mod 16 = 0 /\ 0 <= len da /\ a + total + len da <= L).
    { destruct (total mod 16 =? 0) eqn:Et; cbn [negb].
      - exists [], s3. rewrite len_nil. repeat split; auto; try lia; try (now rewrite slice_0); unfold total, a in *; lia.
      - destruct (law_read _ _ _ _ Hlaw s3 (16 - total mod 16) Hi3) as (da & s4 & -> & Hi4 & Hd4 & Hl4 & Hc4 & Hp4).
        cbn [bind]. rewrite Hc3 in *. fold L in Hl4. rewrite Hp3 in *.
        destruct (do_seek_rel s4 (- len da) Hi4) as (s5 & -> & Hi5 & Hc5 & Hp5). cbn [bind].
        assert (Hlda : len da = 16 - total mod 16).
        { rewrite Hl4. unfold read_count. destruct (16 - total mod 16 <? 0) eqn:?; [lia|].
          unfold total, a in *. lia. }
        exists da, s5. split; [reflexivity|].
        repeat split; auto; try congruence; try lia; unfold total, a in *; lia. }
    destruct Hstep4 as (da & s5 & -> & Hi5 & Hc5 & Hp5 & Hd5 & Htot & Hlda & Hfit). cbn [bind].
    (* the buffer handed to the cipher is a run of whole blocks starting at a *)
    set (m := (total + len da) / 16).
    assert (Hm : total + len da = 16 * m) by (unfold m; lia).
    assert (Hall : db ++ dr ++ da = slice C (16 * (a / 16)) (16 * m)).
    { replace (16 * (a / 16)) with a by lia. rewrite <- Hm. unfold total.
      replace (b + len dr + len da) with (b + (len dr + len da)) by lia.
      rewrite slice_app_split by lia. rewrite (slice_app_split C (a + b)) by lia.
      replace (a + b) with p by (unfold a; lia). rewrite <- Hd2, <- Hd3, <- Hd5. reflexivity. }
    unfold cbc_decrypt. rewrite Hlv, Z.eqb_refl. cbn [negb].
    replace (len (db ++ dr ++ da) mod 16 =? 0) with true
      by (rewrite !len_app, Hldb; fold total; lia).
    cbn [negb bind].
    rewrite Hall, Hivv.
    assert (Hm0 : 0 <= m) by lia.
    rewrite (cbc_dec_local D D_len key iv0 C (a / 16) m) by lia.
    rewrite <- (slice_cbc_dec D D_len key iv0 Hiv C (a / 16) m) by lia.
    replace (16 * (a / 16)) with a by lia.
    set (P := cbc_dec D key iv0 C).
    assert (HlP : 16 * m <= len P - a \/ True) by (right; exact I).
    assert (Hlen_run : len (slice P a (16 * m)) = 16 * m).
    { unfold P. replace a with (16 * (a / 16)) by lia.
      rewrite (slice_cbc_dec D D_len key iv0 Hiv C (a / 16) m) by lia.
      rewrite (len_cbc_blocks D D_len key iv0 Hiv) by lia. lia. }
    exists (pyslice (slice P a (16 * m)) (Some b) (Some (len dr + b))), s5.
    split; [reflexivity|].
    assert (Hout_eq : pyslice (slice P a (16 * m)) (Some b) (Some (len dr + b)) = slice P p (len dr)).
    { rewrite pyslice_nonneg by lia. rewrite Hlen_run.
      replace (Z.min b (16 * m)) with b by (unfold total in *; lia).
      replace (Z.min (len dr + b) (16 * m) - b) with (len dr) by (unfold total in *; lia).
      rewrite slice_slice by lia. replace (a + b) with p by (unfold a; lia).
      f_equal. unfold total in *. lia. }
    rewrite Hout_eq.
    assert (Hlen_out : len (slice P p (len dr)) = len dr).
    { rewrite <- Hout_eq. rewrite pyslice_nonneg by lia. rewrite Hlen_run. rewrite len_slice by lia.
      rewrite Hlen_run. unfold total in *. lia. }
    rewrite Hlen_out. repeat split; auto.
Qed.

(* every history of seek / read / tell: reads are slices of the whole-stream decryption, the contents never change *)
Definition bstep_contract (s : S) (o : bop) (r : bres) (s' : S) : Prop :=
  content s' = content s /\
  match o, r with
  | BRead n, BBytes out =>
      out = slice (cbc_dec D key iv0 (content s)) (pos s) (len out) /\
      len out = read_count (len (content s)) (pos s) n /\ pos s' = pos s + len out
  | BSeek _ _, BInt q => pos s' = q
  | BSeek o w, BErr e => f_seek U s o w = Err e /\ s' = s
  | BTell, BInt q => q = pos s /\ s' = s
  | _, _ => False
  end.

Lemma bstep_ok s o :
  inv s -> len (content s) mod 16 = 0 ->
  let '(r, s') := cbc_step D U key iv0 s o in
  bstep_contract s o r s' /\ inv s' /\ len (content s') mod 16 = 0.
Proof.
  intros Hi Hm. destruct o as [n|o w|]; cbn [cbc_step].
  - destruct (cbc_read_ok s n Hi Hm) as (out & s' & -> & Hi' & H1 & H2 & H3 & H4).
    unfold bstep_contract. rewrite H3. auto.
  - pose proof (law_seek _ _ _ _ Hlaw s o w Hi) as Ls.
    destruct (f_seek U s o w) as [[q s']|e] eqn:Es.
    + destruct Ls as (? & Hc & ?). unfold bstep_contract. rewrite Hc. auto.
    + unfold bstep_contract. auto.
  - unfold bstep_contract. rewrite (law_tell _ _ _ _ Hlaw _ Hi). auto.
Qed.

Fixpoint ball_steps_ok (s : S) (ops : list bop) : Prop :=
  match ops with
  | [] => True
  | o :: r => let '(x, s') := cbc_step D U key iv0 s o in bstep_contract s o x s' /\ ball_steps_ok s' r
  end.

Theorem cbc_history_ok s ops : inv s -> len (content s) mod 16 = 0 -> ball_steps_ok s ops.
Proof.
  revert s; induction ops as [|o r IH]; intros s Hi Hm; [exact I|].
  cbn [ball_steps_ok]. pose proof (bstep_ok s o Hi Hm) as H.
  destruct (cbc_step D U key iv0 s o) as [x s']. destruct H as (Hc & Hi' & Hm'). split; [exact Hc|now apply IH].
Qed.

End IO.
