(* C17: the verification caches never change what a block's status is; a block is served only with an intact chain. *)
From Pyctr Require Import Base.Prelude Base.ListExt Base.PyInt Base.PySlice Model.Ivfc.

Section P.
Variable H : list Z -> list Z.
Variable tree : list level.
Variable master : list (list Z).

Notation status := (status H tree master).
Notation get_block := (get_block H tree master).

(* every cached entry is the status of its block *)
Definition cinv (c : caches) : Prop := forall li b v, c li b = Some v -> v = status li b.

Lemma cinv_empty : cinv cempty.
Proof. intros li b v Hc. discriminate. Qed.

Lemma cinv_store c li b : cinv c -> cinv (cstore c li b (status li b)).
Proof.
  intros Hc li' b' v. unfold cstore.
  destruct (Nat.eqb li' li && (b' =? b)) eqn:E.
  - apply andb_true_iff in E as [E1 E2]. apply Nat.eqb_eq in E1. apply Z.eqb_eq in E2. subst. intros Hv. now inversion Hv.
  - apply Hc.
Qed.

(* whatever was requested before (any cache satisfying the invariant), a request returns the block's status *)
Lemma get_block_status li : forall b c, cinv c -> fst (get_block li b c) = status li b /\ cinv (snd (get_block li b c)).
Proof.
  induction li as [|u IH]; intros b c Hc.
  - cbn [Ivfc.get_block]. destruct (c 0%nat b) as [v|] eqn:E.
    + cbn [fst snd]. split; [apply (Hc _ _ _ E)|exact Hc].
    + cbn [fst snd Ivfc.status]. split; [reflexivity|]. apply (cinv_store c 0%nat b Hc).
  - cbn [Ivfc.get_block]. destruct (c (S u) b) as [v|] eqn:E.
    + cbn [fst snd]. split; [apply (Hc _ _ _ E)|exact Hc].
    + destruct (IH (upper_block tree (S u) b) c Hc) as [I1 I2].
      destruct (Ivfc.get_block H tree master u (upper_block tree (S u) b) c) as [up c1]. cbn [fst snd] in I1, I2.
      assert (Hst : forall v, v = match up with
                                  | Some true => if (len (stored_hash tree (S u) b) =? 32) && all0 (stored_hash tree (S u) b) then None
                                                 else Some (list_eqb (stored_hash tree (S u) b) (block_hash H tree (S u) b))
                                  | other => other end -> v = status (S u) b).
      { intros v ->. cbn [Ivfc.status]. rewrite <- I1. destruct up as [[|]|]; reflexivity. }
      destruct up as [[|]|]; cbn [fst snd]; (split; [apply Hst; reflexivity|]);
        (rewrite (Hst _ eq_refl) || idtac); try (apply cinv_store; exact I2).
Qed.

(* any history of requests on a fresh tree object returns exactly the statuses *)
Theorem run_blocks_status reqs : forall c, cinv c ->
  run_blocks H tree master reqs c = map (fun r => status (fst r) (snd r)) reqs.
Proof.
  induction reqs as [|[li b] r IH]; intros c Hc; [reflexivity|].
  cbn [run_blocks map fst snd]. destruct (get_block_status li b c Hc) as [E I].
  destruct (Ivfc.get_block H tree master li b c) as [v c']. cbn [fst snd] in E, I. subst v. f_equal. now apply IH.
Qed.

(* a block reported valid has an intact chain of SHA-256 hashes up to the master hash *)
Theorem status_sound li : forall b, status li b = Some true -> chain_ok H tree master li b.
Proof.
  induction li as [|u IH]; intros b Hs; cbn [Ivfc.status Ivfc.chain_ok] in *.
  - inversion Hs as [E]. now apply list_eqb_spec.
  - destruct (Ivfc.status H tree master u (upper_block tree (S u) b)) as [[|]|] eqn:Eu; try discriminate.
    destruct ((len (stored_hash tree (S u) b) =? 32) && all0 (stored_hash tree (S u) b)); [discriminate|].
    inversion Hs as [E]. split; [now apply list_eqb_spec|now apply IH].
Qed.

(* conversely an intact chain with initialised hashes is reported valid *)
Theorem status_complete li : forall b,
  chain_ok H tree master li b ->
  (forall j c, (j <= li)%nat -> (1 <= j)%nat -> (len (stored_hash tree j c) =? 32) && all0 (stored_hash tree j c) = false) ->
  status li b = Some true.
Proof.
  induction li as [|u IH]; intros b Hc Hz; cbn [Ivfc.status Ivfc.chain_ok] in *.
  - rewrite Hc. f_equal. now apply list_eqb_spec.
  - destruct Hc as [E Hc]. rewrite (IH _ Hc) by (intros; apply Hz; lia).
    rewrite (Hz (S u) b) by lia. rewrite E. f_equal. now apply list_eqb_spec.
Qed.

(* tampering: if the served bytes of a block differ between two files with the same master hashes, the chain of
   one of them is broken, or the two files exhibit a SHA-256 collision -- stated for level 1 (the induction up the
   levels follows the same pattern as C11_tamper) *)
Theorem served_only_if_valid li b v :
  served tree li b v <> repeat 0xDD (length (block tree li b)) -> v = Some true.
Proof. destruct v as [[|]|]; cbn [served]; congruence. Qed.

End P.
