(* C07: slot codec round trip and rejects of the ExeFS header model. *)
From Pyctr Require Import Base.Prelude Base.ListExt Base.PyInt Base.PySlice Model.Exefs.

Lemma rstrip0_nonzero l : Forall (fun x => 1 <= x < 128) l -> rstrip0 l = l.
Proof.
  induction 1 as [|x l Hx Hl IH]; [reflexivity|].
  cbn [rstrip0]. rewrite IH. replace (x =? 0) with false by lia. reflexivity.
Qed.

Lemma rstrip0_zeros n : rstrip0 (repeat 0 n) = [].
Proof. induction n as [|n IH]; [reflexivity|]. cbn [repeat rstrip0]. rewrite IH. reflexivity. Qed.

Lemma rstrip0_app_zeros l n : Forall (fun x => 1 <= x < 128) l -> rstrip0 (l ++ repeat 0 n) = l.
Proof.
  induction 1 as [|x l Hx Hl IH]; cbn [app].
  - apply rstrip0_zeros.
  - cbn [rstrip0]. rewrite IH. replace (x =? 0) with false by lia. reflexivity.
Qed.

Lemma is_ascii_ok l : Forall (fun x => 1 <= x < 128) l -> is_ascii l = true.
Proof.
  intros H. unfold is_ascii. apply forallb_forall. intros x Hx.
  rewrite Forall_forall in H. specialize (H x Hx). lia.
Qed.

Lemma firstn_app_exact {A} (a b : list A) n : length a = n -> firstn n (a ++ b) = a.
Proof. intros <-. rewrite firstn_app, Nat.sub_diag, firstn_all. simpl. apply app_nil_r. Qed.

Lemma skipn_app_exact {A} (a b : list A) n : length a = n -> skipn n (a ++ b) = b.
Proof. intros <-. rewrite skipn_app, Nat.sub_diag, skipn_all. reflexivity. Qed.

Theorem slot_roundtrip e h :
  wf_entry e -> decode_slot (encode_slot e) h = Ok (Some (mkEntry (en_name e) (en_offset e) (en_size e) h)).
Proof.
  intros (Hl & Hn & Ho & Hm & Hs). unfold decode_slot, encode_slot.
  set (nm := en_name e) in *. set (pad := repeat 0 (8 - length nm)).
  assert (Hnz : all_zero (nm ++ pad ++ le_encode 4 (en_offset e) ++ le_encode 4 (en_size e)) = false).
  { destruct nm as [|x r]; [simpl in Hl; lia|]. inversion Hn; subst. cbn [app all_zero forallb].
    replace (x =? 0) with false by lia. reflexivity. }
  rewrite Hnz.
  assert (Hpl : length (nm ++ pad) = 8%nat) by (unfold pad; rewrite app_length, repeat_length; lia).
  assert (S1 : slice (nm ++ pad ++ le_encode 4 (en_offset e) ++ le_encode 4 (en_size e)) 0 8 = nm ++ pad).
  { rewrite ?slice_raw; unfold slice0. simpl skipn. rewrite app_assoc. change (Z.to_nat 8) with 8%nat. now apply firstn_app_exact. }
  assert (S2 : slice (nm ++ pad ++ le_encode 4 (en_offset e) ++ le_encode 4 (en_size e)) 8 4 = le_encode 4 (en_offset e)).
  { rewrite ?slice_raw; unfold slice0. rewrite app_assoc. change (Z.to_nat 8) with 8%nat. rewrite skipn_app_exact by exact Hpl.
    change (Z.to_nat 4) with 4%nat. apply firstn_app_exact. apply length_le_encode. }
  assert (S3 : slice (nm ++ pad ++ le_encode 4 (en_offset e) ++ le_encode 4 (en_size e)) 12 4 = le_encode 4 (en_size e)).
  { rewrite ?slice_raw; unfold slice0. rewrite !app_assoc. change (Z.to_nat 12) with 12%nat.
    rewrite skipn_app_exact by (rewrite app_length, Hpl, length_le_encode; reflexivity).
    change (Z.to_nat 4) with 4%nat. rewrite <- (app_nil_r (le_encode 4 (en_size e))) at 1.
    apply firstn_app_exact. apply length_le_encode. }
  rewrite S1, S2, S3. unfold pad. rewrite rstrip0_app_zeros by exact Hn.
  rewrite is_ascii_ok by exact Hn. cbn [negb].
  rewrite !le_decode_encode_id by (change (256 ^ Z.of_nat 4) with (2 ^ 32); lia).
  replace (en_offset e mod 512 =? 0) with true by lia. reflexivity.
Qed.

Theorem slot_empty h : decode_slot (repeat 0 16) h = Ok None.
Proof. reflexivity. Qed.

(* rejects *)
Theorem slot_bad_offset raw h :
  all_zero raw = false -> is_ascii (rstrip0 (slice raw 0 8)) = true ->
  le_decode (slice raw 8 4) mod 512 <> 0 -> decode_slot raw h = Err (Pyctr 11).
Proof.
  intros H1 H2 H3. unfold decode_slot. rewrite H1, H2. cbn [negb].
  replace (le_decode (slice raw 8 4) mod 512 =? 0) with false by lia. reflexivity.
Qed.

Theorem slot_bad_name raw h :
  all_zero raw = false -> is_ascii (rstrip0 (slice raw 0 8)) = false -> decode_slot raw h = Err (Pyctr 12).
Proof. intros H1 H2. unfold decode_slot. now rewrite H1, H2. Qed.
