(* The fully-decrypted view after the repair for C19: unchanged on files that hold what their header declares, and walking over at
   most (length of the file) / 0x200 + 2 media units per read whatever the header declares. *)
From Pyctr Require Import Base.Prelude Base.ListExt Base.PySlice Model.NcchFull Proofs.NcchFullProofs.

Lemma avail_size_id content avail off size :
  0 <= off -> 0 <= size -> off + size <= content -> content <= avail -> avail_size content avail off size = size.
Proof.
  intros. unfold avail_size. destruct (off + size >? content) eqn:E; lia.
Qed.

(* a file that holds the whole container: every read is the slice of the one image, as before *)
Theorem fulldec_read_avail_ok N (W : wf N) avail off size :
  n_content N <= avail -> 0 <= off -> 0 <= size -> off + size <= n_content N ->
  fulldec_read_avail N avail off size = slice (image N) off size.
Proof.
  intros Ha Ho Hs Hf. unfold fulldec_read_avail. rewrite avail_size_id by lia. now apply fulldec_read_ok.
Qed.

(* whatever the header declares: the units walked over are bounded by the file *)
Theorem fulldec_units_bounded content avail off size :
  0 <= off -> 0 <= avail -> fulldec_units content avail off size <= avail / 0x200 + 2.
Proof.
  intros Ho Ha. unfold fulldec_units.
  assert (Hs : 0 <= avail_size content avail off size <= Z.max (avail - off) 0) by (unfold avail_size; lia).
  assert (Hm : 0 <= off mod 0x200 < 0x200) by (apply Z.mod_pos_bound; lia).
  destruct (Z_le_gt_dec off avail) as [Hle|Hgt].
  - set (a := avail_size content avail off size) in *. set (m := off mod 512) in *.
    assert (a <= avail - off) by lia.
    assert (a + m + 511 <= avail + 2 * 512 - 1) by lia.
    assert ((a + m + 511) / 512 <= (avail + 2 * 512 - 1) / 512) by (apply Z.div_le_mono; lia).
    assert ((avail + 2 * 512 - 1) / 512 <= avail / 512 + 2).
    { replace (avail + 2 * 512 - 1) with ((avail - 1) + 2 * 512) by ring. rewrite Z.div_add by lia.
      assert ((avail - 1) / 512 <= avail / 512) by (apply Z.div_le_mono; lia). lia. }
    lia.
  - assert (E : avail_size content avail off size = 0) by lia. rewrite E.
    assert ((0 + off mod 512 + 511) / 512 < 2).
    { apply Z.div_lt_upper_bound; lia. }
    assert (0 <= avail / 512) by (apply Z.div_pos; lia). lia.
Qed.

(* a header declaring 2^32 - 1 media units over a 0x600-byte file: three units are walked over, not four thousand million *)
Example avail_nonvacuous : fulldec_units (0xFFFFFFFF * 0x200) 0x600 0 (0xFFFFFFFF * 0x200) = 3.
Proof. vm_compute. reflexivity. Qed.
