(* C07: the whole header.  A header built from ten slots (used or empty, in any positions) parses to exactly the used
   entries, in slot order, each with the hash stored for its slot (the hash table runs backwards from the end). *)
From Pyctr Require Import Base.Prelude Base.ListExt Base.PyInt Base.PySlice Base.Fields Model.Exefs Proofs.ExefsProofs Proofs.TmdSerProofs.

Definition slot_bytes (s : option exefs_entry) : list Z :=
  match s with Some e => encode_slot e | None => repeat 0 16 end.
Definition slot_hash (fill : list Z) (s : option exefs_entry) : list Z :=
  match s with Some e => en_hash e | None => fill end.

(* 10 x 16 bytes of slots, 32 reserved bytes, 10 x 32 bytes of hashes with the hash of slot 0 last *)
Definition encode_header (reserved fill : list Z) (slots : list (option exefs_entry)) : list Z :=
  concat (map slot_bytes slots) ++ reserved ++ concat (map (slot_hash fill) (rev slots)).

Definition used (slots : list (option exefs_entry)) : list exefs_entry :=
  flat_map (fun s => match s with Some e => [e] | None => [] end) slots.

Definition wf_slot (s : option exefs_entry) : Prop :=
  match s with Some e => wf_entry e /\ len (en_hash e) = 32 | None => True end.

Lemma len_encode_slot e : wf_entry e -> len (encode_slot e) = 16.
Proof.
  intros (Hl & _). unfold encode_slot. rewrite !len_app, !len_le_encode, len_repeat. unfold len. lia.
Qed.

Lemma len_slot_bytes s : wf_slot s -> len (slot_bytes s) = 16.
Proof. destruct s as [e|]; [intros [W _]; now apply len_encode_slot|reflexivity]. Qed.

Lemma len_concat_uniform (parts : list (list Z)) w :
  Forall (fun p => len p = w) parts -> len (concat parts) = w * Z.of_nat (length parts).
Proof. induction 1 as [|p r Hp Hr IH]; [cbn; lia|]. cbn [concat length]. rewrite len_app, IH, Hp. lia. Qed.

Lemma Forall_firstn' {A} (P : A -> Prop) (l : list A) k : Forall P l -> Forall P (firstn k l).
Proof. revert k; induction l as [|x l IH]; intros k F; destruct k; cbn [firstn]; auto. inversion F; subst. constructor; auto. Qed.

Lemma slice_uniform (parts : list (list Z)) w k :
  0 <= w -> Forall (fun p => len p = w) parts -> (k < length parts)%nat ->
  slice (concat parts) (w * Z.of_nat k) w = nth k parts [].
Proof.
  intros Hw Hu Hk. apply slice_part; [exact Hk| |].
  - rewrite (len_concat_uniform _ w) by now apply Forall_firstn'.
    rewrite firstn_length. f_equal. lia.
  - rewrite Forall_forall in Hu. apply Hu. apply nth_In. exact Hk.
Qed.

Lemma nth_map_default {A B} (f : A -> B) (l : list A) k da db : (k < length l)%nat -> nth k (map f l) db = f (nth k l da).
Proof. revert k; induction l as [|x l IH]; intros k Hk; [cbn in Hk; lia|]. destruct k; [reflexivity|]. cbn [map nth]. apply IH. cbn in Hk. lia. Qed.

Lemma skipn_nth_cons {A} (d : A) : forall (l : list A) i, (i < length l)%nat -> skipn i l = nth i l d :: skipn (S i) l.
Proof. induction l as [|x l IH]; intros j Hj; [cbn in Hj; lia|]. destruct j; [reflexivity|]. cbn [skipn nth]. apply IH. cbn in Hj. lia. Qed.

Section H.
Variable reserved fill : list Z.
Hypothesis Hres : len reserved = 32.
Hypothesis Hfill : len fill = 32.
Variable slots : list (option exefs_entry).
Hypothesis Hn : length slots = 10%nat.
Hypothesis Hwf : Forall wf_slot slots.

Let hdr := encode_header reserved fill slots.

Lemma len_slot_hash s : wf_slot s -> len (slot_hash fill s) = 32.
Proof. destruct s as [e|]; [intros [_ Hh]; exact Hh|intros _; exact Hfill]. Qed.

Lemma hdr_slot i : (i < 10)%nat -> slice hdr (16 * Z.of_nat i) 16 = slot_bytes (nth i slots None).
Proof.
  intros Hi. subst hdr. unfold encode_header.
  assert (U : Forall (fun p => len p = 16) (map slot_bytes slots)).
  { apply Forall_forall. intros p Hp. apply in_map_iff in Hp as (s & <- & Hs). apply len_slot_bytes.
    rewrite Forall_forall in Hwf. now apply Hwf. }
  assert (L1 : len (concat (map slot_bytes slots)) = 160) by (rewrite (len_concat_uniform _ 16) by exact U; rewrite map_length, Hn; reflexivity).
  rewrite slice_app_l by lia.
  rewrite slice_uniform by (try exact U; try lia; rewrite map_length; lia).
  apply nth_map_default. lia.
Qed.

Lemma hdr_hash i : (i < 10)%nat -> slice hdr (480 - 32 * Z.of_nat i) 32 = slot_hash fill (nth i slots None).
Proof.
  intros Hi. subst hdr. unfold encode_header.
  assert (U : Forall (fun p => len p = 16) (map slot_bytes slots)).
  { apply Forall_forall. intros p Hp. apply in_map_iff in Hp as (s & <- & Hs). apply len_slot_bytes.
    rewrite Forall_forall in Hwf. now apply Hwf. }
  assert (V : Forall (fun p => len p = 32) (map (slot_hash fill) (rev slots))).
  { apply Forall_forall. intros p Hp. apply in_map_iff in Hp as (s & <- & Hs). apply len_slot_hash.
    rewrite Forall_forall in Hwf. apply Hwf. now apply in_rev. }
  assert (L1 : len (concat (map slot_bytes slots)) = 160) by (rewrite (len_concat_uniform _ 16) by exact U; rewrite map_length, Hn; reflexivity).
  rewrite slice_app_r by lia. rewrite L1. rewrite slice_app_r by lia. rewrite Hres.
  replace (480 - 32 * Z.of_nat i - 160 - 32) with (32 * Z.of_nat (9 - i)) by lia.
  rewrite slice_uniform by (try exact V; try lia; rewrite map_length, rev_length; lia).
  rewrite (nth_map_default _ _ _ None) by (rewrite rev_length; lia). f_equal.
  rewrite rev_nth by lia. f_equal. lia.
Qed.

Lemma parse_from i n : (i + n = 10)%nat ->
  parse_slots hdr i n = Ok (used (skipn i slots)).
Proof.
  revert i; induction n as [|n IH]; intros i Hin.
  - cbn [parse_slots]. rewrite skipn_all2 by lia. reflexivity.
  - cbn [parse_slots]. rewrite hdr_slot, hdr_hash by lia. rewrite IH by lia.
    assert (Es : skipn i slots = nth i slots None :: skipn (S i) slots) by (apply skipn_nth_cons; lia).
    rewrite Es. cbn [used flat_map].
    assert (Wi : wf_slot (nth i slots None)) by (rewrite Forall_forall in Hwf; apply Hwf; apply nth_In; lia).
    destruct (nth i slots None) as [e|] eqn:E.
    + destruct Wi as [We Wh]. cbn [slot_bytes slot_hash]. rewrite slot_roundtrip by exact We. cbn [bind app].
      destruct e as [nm o sz h]. reflexivity.
    + cbn [slot_bytes slot_hash]. rewrite slot_empty. reflexivity.
Qed.
End H.

Theorem header_roundtrip reserved fill slots :
  len reserved = 32 -> len fill = 32 -> length slots = 10%nat -> Forall wf_slot slots ->
  exefs_parse (encode_header reserved fill slots) = Ok (used slots).
Proof.
  intros Hr Hf Hn Hw. unfold exefs_parse. rewrite (parse_from reserved fill Hr Hf slots Hn Hw 0 10) by reflexivity. reflexivity.
Qed.

(* three entries in slots 1, 4 and 9, hashes told apart by their first byte *)
Example header_roundtrip_nonvacuous :
  let e k nm off sz := mkEntry nm off sz (k :: repeat 0 31) in
  let slots := [None; Some (e 1 [105; 99; 111; 110] 0 0x36C0); None; None; Some (e 2 [46; 99; 111; 100; 101] 0x3800 5); None; None; None; None;
                Some (e 3 [98] 0x3A00 0)] in
  Forall wf_slot slots /\
  exefs_parse (encode_header (repeat 7 32) (repeat 9 32) slots) = Ok (used slots) /\ length (used slots) = 3%nat.
Proof.
  cbv zeta. split; [|split; [vm_compute; reflexivity|reflexivity]].
  repeat constructor; cbn; try lia.
Qed.
