(* The block-wise read returns exactly the requested slice of the view the blocks are cut from. *)
From Pyctr Require Import Base.Prelude Base.ListExt Base.Sweep Model.Blocks.

Lemma roundup_div x a : 0 < a -> roundup x a / a = - ((- x) / a).
Proof. intros. unfold roundup. now rewrite Z.div_mul by lia. Qed.

Lemma block_range_spec off size bs :
  0 < bs -> 0 <= off -> 0 < size ->
  block_range off size bs = (off / bs, (off + size - 1) / bs).
Proof.
  intros Hbs Ho Hs. unfold block_range. rewrite !roundup_div by lia.
  assert (E1 : - ((- (off - bs + 1)) / bs) = off / bs) by nia.
  assert (E2 : - ((- (off + size)) / bs) - 1 = (off + size - 1) / bs) by nia.
  rewrite E1, E2. f_equal. assert (off / bs <= (off + size - 1) / bs) by (apply Z.div_le_mono; lia). lia.
Qed.

Lemma trim_last_snoc n l y : trim_last n (l ++ [y]) = l ++ [take y n].
Proof.
  induction l as [|x l IH]; [reflexivity|]. cbn [app].
  destruct (l ++ [y]) as [|z r] eqn:E; [destruct l; discriminate|].
  change (trim_last n (x :: z :: r)) with (x :: trim_last n (z :: r)). now rewrite IH.
Qed.

Lemma in_zseq_range s n w : In w (zseq s n) -> s <= w < s + Z.of_nat n.
Proof.
  revert s; induction n as [|n IH]; intros s Hin; [inversion Hin|]. cbn [zseq] in Hin.
  destruct Hin as [<-|Hin]; [lia|]. apply IH in Hin. lia.
Qed.

Lemma slice0_take_eq (l : list Z) n : slice l 0 n = take l n.
Proof. rewrite slice_raw, take_raw. reflexivity. Qed.

Lemma zseq_snoc s n : zseq s (S n) = zseq s n ++ [s + Z.of_nat n].
Proof.
  revert s; induction n as [|n IH]; intros s.
  - cbn [zseq app Z.of_nat]. now rewrite Z.add_0_r.
  - change (zseq s (S (S n))) with (s :: zseq (s + 1) (S n)). rewrite IH. cbn [zseq app]. f_equal. f_equal. f_equal. lia.
Qed.

Section V.
Variable view : list Z.
Variable bs : Z.
Hypothesis Hbs : 0 < bs.

(* whole blocks of the view, joined *)
Lemma concat_full_blocks s n :
  0 <= s -> concat (map (fun b => slice view (b * bs) bs) (zseq s n)) = slice view (s * bs) (Z.of_nat n * bs).
Proof.
  revert s; induction n as [|n IH]; intros s Hs.
  - cbn [zseq map concat Z.of_nat Z.mul]. now rewrite slice_0.
  - cbn [zseq map concat]. rewrite IH by lia.
    replace (Z.of_nat (S n) * bs) with (bs + Z.of_nat n * bs) by lia.
    rewrite slice_app_split by nia. f_equal. f_equal. lia.
Qed.

Variable blk : Z -> list Z.
(* what is known about the fetched blocks: block b is at most bs long and begins with the bytes the view has for it *)
Hypothesis Hblk : forall b, 0 <= b -> b * bs < len view ->
  len (blk b) <= bs /\ Z.min bs (len view - b * bs) <= len (blk b) /\
  take (blk b) (Z.min bs (len view - b * bs)) = slice view (b * bs) bs.

Lemma blk_full b : 0 <= b -> (b + 1) * bs <= len view -> blk b = slice view (b * bs) bs.
Proof.
  intros Hb Hf. destruct (Hblk b Hb ltac:(nia)) as (L1 & L2 & E).
  replace (Z.min bs (len view - b * bs)) with bs in * by nia.
  rewrite <- E. rewrite take_raw. unfold take0. symmetry. apply firstn_all2. unfold len in *. lia.
Qed.

(* the first n bytes of block b, n within what the view has *)
Lemma blk_prefix b a n :
  0 <= b -> 0 <= a -> 0 <= n -> b * bs + a + n <= len view -> a + n <= bs ->
  slice (blk b) a n = slice view (b * bs + a) n.
Proof.
  intros Hb Ha Hn Hv Hbn. destruct (Z.eq_dec n 0) as [->|Hn0]; [now rewrite !slice_0|].
  destruct (Hblk b Hb ltac:(nia)) as (L1 & L2 & E).
  set (v := Z.min bs (len view - b * bs)) in *.
  assert (slice (blk b) a n = slice (take (blk b) v) a n) as ->.
  { rewrite <- slice0_take_eq. rewrite slice_slice by lia. f_equal; lia. }
  rewrite E. rewrite slice_slice by lia. f_equal; lia.
Qed.

Theorem assemble_spec off size :
  0 <= off -> 0 < size -> off + size <= len view ->
  assemble blk off size bs = slice view off size.
Proof.
  intros Ho Hs Hv. unfold assemble. rewrite block_range_spec by lia.
  set (sb := off / bs). set (eb := (off + size - 1) / bs). set (fbo := off mod bs).
  assert (Hsb : 0 <= sb) by (apply Z.div_pos; lia).
  assert (Hle : sb <= eb) by (apply Z.div_le_mono; lia).
  assert (Eoff : off = sb * bs + fbo) by (subst sb fbo; rewrite Z.mul_comm; apply Z.div_mod; lia).
  assert (Hf : 0 <= fbo < bs) by (apply Z.mod_pos_bound; lia).
  assert (Eend : exists r, off + size = eb * bs + r /\ 0 < r <= bs).
  { exists (off + size - eb * bs). subst eb. split; [lia|]. nia. }
  destruct Eend as (r & Er & Hr).
  destruct (Z.eqb_spec sb eb) as [Eq|Ne].
  - (* one block *)
    replace (eb + 1 - sb) with 1 by lia. change (Z.to_nat 1) with 1%nat. cbn [zseq map trim_first trim_last concat].
    rewrite app_nil_r.
    assert (Hsz : fbo + size = r) by nia.
    assert (Elast : (if size mod bs =? 0 then bs else size mod bs) = size \/ (size = bs /\ fbo = 0)).
    { destruct (Z.eq_dec size bs) as [->|Hne]; [right; split; [reflexivity|lia]|left].
      rewrite Z.mod_small by lia. destruct (Z.eqb_spec size 0); lia. }
    assert (Etd : forall n, 0 <= n -> take (drop (blk sb) fbo) n = slice (blk sb) fbo n).
    { intros n Hn. rewrite slice_raw, take_raw, drop_raw. reflexivity. }
    destruct Elast as [-> | [-> ->]].
    + rewrite Etd by lia. rewrite blk_prefix by nia. f_equal. lia.
    + rewrite Z.mod_same by lia. cbn [Z.eqb]. rewrite Etd by lia. rewrite blk_prefix by nia. f_equal. lia.
  - (* several blocks *)
    assert (Hlt : sb < eb) by lia.
    assert (En : Z.to_nat (eb + 1 - sb) = S (S (Z.to_nat (eb - sb - 1)))) by lia.
    rewrite En. set (k := Z.to_nat (eb - sb - 1)).
    change (zseq sb (S (S k))) with (sb :: zseq (sb + 1) (S k)). rewrite zseq_snoc.
    replace (sb + 1 + Z.of_nat k) with eb by lia.
    cbn [map trim_first]. rewrite map_app. cbn [map].
    rewrite app_comm_cons, trim_last_snoc. rewrite concat_app. cbn [concat]. rewrite app_nil_r.
    (* the three parts *)
    assert (Elast : (if (fbo + size) mod bs =? 0 then bs else (fbo + size) mod bs) = r).
    { assert ((fbo + size) mod bs = r mod bs) as ->.
      { replace (fbo + size) with (r + (eb - sb) * bs) by nia. apply Z.mod_add. lia. }
      destruct (Z.eq_dec r bs) as [->|Hne]; [rewrite Z.mod_same by lia; reflexivity|].
      rewrite Z.mod_small by lia. destruct (Z.eqb_spec r 0); lia. }
    rewrite Elast.
    assert (P1 : drop (blk sb) fbo = slice view off (bs - fbo)).
    { rewrite (blk_full sb) by nia. rewrite <- (slice_ge _ fbo (bs - fbo)).
      - rewrite slice_slice by lia. f_equal; lia.
      - rewrite len_slice by nia. lia. }
    assert (P2 : concat (map blk (zseq (sb + 1) k)) = slice view ((sb + 1) * bs) (Z.of_nat k * bs)).
    { rewrite <- concat_full_blocks by lia. f_equal. apply map_ext_in. intros b Hb.
      apply in_zseq_range in Hb. apply blk_full; nia. }
    assert (P3 : take (blk eb) r = slice view (eb * bs) r).
    { rewrite <- slice0_take_eq. rewrite blk_prefix by nia. f_equal. lia. }
    cbn [concat]. rewrite P1, P2, P3.
    rewrite <- app_assoc.
    assert (Es : size = (bs - fbo) + (Z.of_nat k * bs + r)) by nia.
    rewrite Es at 1. rewrite slice_app_split by nia. f_equal.
    rewrite slice_app_split by nia. f_equal; f_equal; nia.
Qed.
End V.

(* ---------- a view made of bs-sized pieces (the last may be shorter) ---------- *)
Section Pieces.
Variable bs : Z.
Hypothesis Hbs : 0 < bs.
Variable f : Z -> list Z.

Lemma pieces_block s n b :
  (forall i, s <= i < s + Z.of_nat n - 1 -> len (f i) = bs) -> len (f (s + Z.of_nat n - 1)) <= bs ->
  s <= b < s + Z.of_nat n ->
  slice (concat (map f (zseq s n))) ((b - s) * bs) bs = f b.
Proof.
  revert s; induction n as [|n IH]; intros s Hfull Hlast Hb; [lia|].
  cbn [zseq map concat]. destruct (Z.eq_dec b s) as [->|Hne].
  - replace ((s - s) * bs) with 0 by lia. destruct n as [|n].
    + cbn [zseq map concat]. rewrite app_nil_r. replace (s + Z.of_nat 1 - 1) with s in Hlast by lia.
      rewrite slice_ge by lia. apply drop_0.
    + rewrite slice_app_l by (rewrite ?Hfull by lia; lia). rewrite <- (Hfull s) by lia. apply slice_all.
  - assert (Ls : len (f s) = bs) by (apply Hfull; lia).
    rewrite slice_app_r by nia. rewrite Ls. replace ((b - s) * bs - bs) with ((b - (s + 1)) * bs) by lia.
    apply IH; [intros i Hi; apply Hfull; lia | replace (s + 1 + Z.of_nat n - 1) with (s + Z.of_nat (S n) - 1) by lia; exact Hlast | lia].
Qed.

Lemma pieces_len s n :
  (0 < n)%nat -> (forall i, s <= i < s + Z.of_nat n - 1 -> len (f i) = bs) ->
  len (concat (map f (zseq s n))) = (Z.of_nat n - 1) * bs + len (f (s + Z.of_nat n - 1)).
Proof.
  revert s; induction n as [|n IH]; intros s Hn Hfull; [lia|].
  cbn [zseq map concat]. rewrite len_app. destruct n as [|n].
  - cbn [zseq map concat]. rewrite len_nil. replace (s + Z.of_nat 1 - 1) with s by lia. lia.
  - rewrite IH by (try lia; intros i Hi; apply Hfull; lia). rewrite Hfull by lia.
    replace (s + 1 + Z.of_nat (S n) - 1) with (s + Z.of_nat (S (S n)) - 1) by lia. lia.
Qed.
End Pieces.

