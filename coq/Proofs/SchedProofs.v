(* C15: under the discipline [ok_from], what every thread observes through the shared store equals what it observes through its
   private copy of the positions -- for EVERY schedule -- and no reachable state is a deadlock. *)
From Coq Require Import List ZArith Bool Arith Lia.
Import ListNotations.
From Pyctr Require Import Model.Sched.
Open Scope Z_scope.

Lemma memn_In x l : memn x l = true <-> In x l.
Proof.
  unfold memn. rewrite existsb_exists. split.
  - intros (y & Hy & E). apply Nat.eqb_eq in E. subst. exact Hy.
  - intros H. exists x. split; [exact H|apply Nat.eqb_refl].
Qed.

Lemma remn_In x y l : In x (remn y l) <-> In x l /\ x <> y.
Proof.
  unfold remn. rewrite filter_In. split; intros [H1 H2]; split; auto.
  - intros ->. rewrite Nat.eqb_refl in H2. discriminate.
  - apply negb_true_iff. apply Nat.eqb_neq. exact H2.
Qed.

Lemma updt_same ts t x : updt ts t x t = x.
Proof. unfold updt. rewrite Nat.eqb_refl. reflexivity. Qed.
Lemma updt_other ts t x u : u <> t -> updt ts t x u = ts u.
Proof. intros H. unfold updt. destruct (Nat.eqb_spec u t); [contradiction|reflexivity]. Qed.
Lemma upd_same s v x : upd s v x v = x.
Proof. unfold upd. rewrite Nat.eqb_refl. reflexivity. Qed.
Lemma upd_other s v x w : w <> v -> upd s v x w = s w.
Proof. intros H. unfold upd. destruct (Nat.eqb_spec w v); [contradiction|reflexivity]. Qed.

Section P.
Variable lockof : nat -> lock.

Definition th_agree (th : thread) : Prop :=
  outS th = outP th /\ lastS th = lastP th /\ (forall n, loc th n = locP th n).

Record Inv (c : config) : Prop := mkInv {
  i_cont : forall f, contS c f = contP c f;
  i_out : forall t, th_agree (ths c t);
  i_mutex : forall l t, In l (held (ths c t)) -> owner c l = Some t;
  i_owner : forall l t, owner c l = Some t -> In l (held (ths c t));
  i_stab : forall t n, In n (stable (ths c t)) -> sh c n = priv (ths c t) n /\ In (lockof n) (held (ths c t));
  i_ok : forall t, ok_from lockof (held (ths c t)) (stable (ths c t)) (rem (ths c t)) = true
}.

Lemma mutex_excl c t u l : Inv c -> In l (held (ths c t)) -> In l (held (ths c u)) -> t = u.
Proof. intros I Ht Hu. pose proof (i_mutex c I l t Ht) as A. pose proof (i_mutex c I l u Hu) as B. congruence. Qed.

(* a step of t that leaves the locks alone and changes the shared store only where t holds the lock *)
Lemma inv_update c t th' s' cS' cP' :
  Inv c ->
  (forall n, s' n <> sh c n -> In (lockof n) (held (ths c t))) ->
  (forall f, cS' f = cP' f) ->
  held th' = held (ths c t) ->
  (forall n, In n (stable th') -> s' n = priv th' n /\ In (lockof n) (held th')) ->
  th_agree th' ->
  ok_from lockof (held th') (stable th') (rem th') = true ->
  Inv (mkCfg s' cS' cP' (owner c) (updt (ths c) t th')).
Proof.
  intros I Hs Hc Hh Hst Hag Hok. constructor; cbn [sh contS contP owner ths].
  - exact Hc.
  - intros u. destruct (Nat.eq_dec u t) as [->|Hn]; [rewrite updt_same; exact Hag|rewrite updt_other by exact Hn; apply (i_out c I u)].
  - intros l u Hin. destruct (Nat.eq_dec u t) as [->|Hn].
    + rewrite updt_same in Hin. rewrite Hh in Hin. apply (i_mutex c I l t Hin).
    + rewrite updt_other in Hin by exact Hn. apply (i_mutex c I l u Hin).
  - intros l u Ho. destruct (Nat.eq_dec u t) as [->|Hn].
    + rewrite updt_same. rewrite Hh. apply (i_owner c I l t Ho).
    + rewrite updt_other by exact Hn. apply (i_owner c I l u Ho).
  - intros u n Hin. destruct (Nat.eq_dec u t) as [->|Hn].
    + rewrite updt_same in *. apply Hst. exact Hin.
    + rewrite updt_other in * by exact Hn. destruct (i_stab c I u n Hin) as [A B]. split; [|exact B].
      destruct (Z.eq_dec (s' n) (sh c n)) as [E|E]; [congruence|].
      exfalso. apply Hn. symmetry. eapply (mutex_excl c t u (lockof n)); eauto.
  - intros u. destruct (Nat.eq_dec u t) as [->|Hn]; [rewrite updt_same; exact Hok|rewrite updt_other by exact Hn; apply (i_ok c I u)].
Qed.

Lemma get_agree c t v : Inv c -> var_ok (stable (ths c t)) v = true ->
  get (sh c) (loc (ths c t)) v = get (priv (ths c t)) (locP (ths c t)) v.
Proof.
  intros I H. destruct v as [n|n]; cbn in *.
  - apply memn_In in H. apply (i_stab c I t n H).
  - apply (i_out c I t).
Qed.

Lemma eval_agree c t e : Inv c -> src_ok (stable (ths c t)) e = true ->
  eval (sh c) (loc (ths c t)) (lastS (ths c t)) e = eval (priv (ths c t)) (locP (ths c t)) (lastP (ths c t)) e.
Proof.
  intros I H. destruct e as [k|v k|v]; cbn [eval src_ok] in *; [reflexivity| |].
  - rewrite (get_agree c t v I H). reflexivity.
  - rewrite (get_agree c t v I H). destruct (i_out c I t) as (_ & -> & _). reflexivity.
Qed.

(* assigning the same value to variable v in both worlds; the new stable set may gain v itself (shared, lock held) *)
Lemma inv_assign c t v x r lastv outsS outsP st' :
  Inv c ->
  (match v with Sh n => In (lockof n) (held (ths c t)) | Lo _ => True end) ->
  outsS = outsP ->
  (forall m, In m st' -> In m (stable (ths c t)) \/ v = Sh m) ->
  ok_from lockof (held (ths c t)) st' r = true ->
  forall cS' cP', (forall f, cS' f = cP' f) ->
  Inv (mkCfg (fst (setS c (ths c t) v x)) cS' cP' (owner c)
         (updt (ths c) t (mkTh r (snd (setS c (ths c t) v x)) lastv outsS (fst (setP (ths c t) v x)) (snd (setP (ths c t) v x)) lastv outsP
                               (held (ths c t)) st'))).
Proof.
  intros I Hl Ho Hst Hok cS' cP' Hc. set (th := ths c t) in *. destruct v as [n|n]; cbn [setS setP fst snd].
  - apply inv_update; auto; cbn [held stable rem priv loc locP outS outP lastS lastP].
    + intros m Hm. destruct (Nat.eq_dec m n) as [->|Hn]; [exact Hl|]. rewrite upd_other in Hm by exact Hn. contradiction.
    + intros m Hin. destruct (Nat.eq_dec m n) as [->|Hn]; [rewrite !upd_same; auto|]. rewrite !upd_other by exact Hn.
      destruct (Hst m Hin) as [H|H]; [apply (i_stab c I t m H)|congruence].
    + split; [exact Ho|split; [reflexivity|apply (i_out c I t)]].
  - apply inv_update; auto; cbn [held stable rem priv loc locP outS outP lastS lastP].
    + intros m Hm. contradiction.
    + intros m Hin. destruct (Hst m Hin) as [H|H]; [apply (i_stab c I t m H)|discriminate].
    + split; [exact Ho|split; [reflexivity|]]. intros m. cbn [loc locP]. unfold upd. destruct (Nat.eqb m n); [reflexivity|apply (i_out c I t)].
Qed.

Lemma pair_eta {A B} (p : A * B) : p = (fst p, snd p).
Proof. destruct p; reflexivity. Qed.

Theorem step_inv c t c' : Inv c -> step lockof c t = Some c' -> Inv c'.
Proof.
  intros I Hs. unfold step in Hs. set (th := ths c t) in *.
  pose proof (i_ok c I t) as Hok. fold th in Hok.
  destruct (rem th) as [|a r] eqn:Er; [discriminate|].
  destruct a as [l|l|v e|v f n|v f d|v]; cbn [ok_from] in Hok.
  - (* Acq *)
    destruct (owner c l) eqn:Eo; [discriminate|]. inversion Hs; subst c'; clear Hs.
    apply andb_true_iff in Hok as [Hok Hok3].
    constructor; cbn [sh contS contP owner ths].
    + apply (i_cont c I).
    + intros u. destruct (Nat.eq_dec u t) as [->|Hn]; [rewrite updt_same; apply (i_out c I t)|rewrite updt_other by exact Hn; apply (i_out c I u)].
    + intros m u Hin. destruct (Nat.eq_dec u t) as [->|Hn].
      * rewrite updt_same in Hin. cbn [held] in Hin. unfold updo. destruct (Nat.eqb_spec m l); [reflexivity|].
        destruct Hin as [E|Hin]; [congruence|]. apply (i_mutex c I m t Hin).
      * rewrite updt_other in Hin by exact Hn. unfold updo. destruct (Nat.eqb_spec m l) as [->|]; [|apply (i_mutex c I m u Hin)].
        rewrite (i_mutex c I l u Hin) in Eo. discriminate.
    + intros m u Ho. unfold updo in Ho. destruct (Nat.eqb_spec m l) as [->|Hml].
      * inversion Ho; subst u. rewrite updt_same. cbn [held]. left; reflexivity.
      * destruct (Nat.eq_dec u t) as [->|Hn]; [rewrite updt_same; cbn [held]; right; apply (i_owner c I m t Ho)|rewrite updt_other by exact Hn; apply (i_owner c I m u Ho)].
    + intros u n Hin. destruct (Nat.eq_dec u t) as [->|Hn].
      * rewrite updt_same in *. cbn [stable priv held] in *. destruct (i_stab c I t n Hin) as [A B]. split; [exact A|right; exact B].
      * rewrite updt_other in * by exact Hn. apply (i_stab c I u n Hin).
    + intros u. destruct (Nat.eq_dec u t) as [->|Hn]; [rewrite updt_same; cbn; exact Hok3|rewrite updt_other by exact Hn; apply (i_ok c I u)].
  - (* Rel *)
    inversion Hs; subst c'; clear Hs. apply andb_true_iff in Hok as [Hok1 Hok2]. apply memn_In in Hok1.
    constructor; cbn [sh contS contP owner ths].
    + apply (i_cont c I).
    + intros u. destruct (Nat.eq_dec u t) as [->|Hn]; [rewrite updt_same; apply (i_out c I t)|rewrite updt_other by exact Hn; apply (i_out c I u)].
    + intros m u Hin. destruct (Nat.eq_dec u t) as [->|Hn].
      * rewrite updt_same in Hin. cbn [held] in Hin. apply remn_In in Hin as [Hin Hne]. unfold updo. destruct (Nat.eqb_spec m l); [contradiction|].
        apply (i_mutex c I m t Hin).
      * rewrite updt_other in Hin by exact Hn. unfold updo. destruct (Nat.eqb_spec m l) as [->|]; [|apply (i_mutex c I m u Hin)].
        exfalso. apply Hn. symmetry. eapply (mutex_excl c t u l); eauto.
    + intros m u Ho. unfold updo in Ho. destruct (Nat.eqb_spec m l) as [->|Hml]; [discriminate|].
      destruct (Nat.eq_dec u t) as [->|Hn]; [rewrite updt_same; cbn [held]; apply remn_In; split; [apply (i_owner c I m t Ho)|exact Hml]
                                           |rewrite updt_other by exact Hn; apply (i_owner c I m u Ho)].
    + intros u n Hin. destruct (Nat.eq_dec u t) as [->|Hn].
      * rewrite updt_same in *. cbn [stable priv held] in *. apply filter_In in Hin as [Hin Hne].
        destruct (i_stab c I t n Hin) as [A B]. split; [exact A|]. apply remn_In. split; [exact B|].
        apply negb_true_iff in Hne. apply Nat.eqb_neq in Hne. exact Hne.
      * rewrite updt_other in * by exact Hn. apply (i_stab c I u n Hin).
    + intros u. destruct (Nat.eq_dec u t) as [->|Hn]; [rewrite updt_same; cbn; exact Hok2|rewrite updt_other by exact Hn; apply (i_ok c I u)].
  - (* Set *)
    assert (Hsrc : src_ok (stable th) e = true) by (destruct v; repeat (apply andb_true_iff in Hok as [Hok ?]); assumption).
    pose proof (eval_agree c t e I Hsrc) as Ee. fold th in Ee. cbv zeta in Hs. rewrite Ee in Hs.
    rewrite (pair_eta (setS c th v _)), (pair_eta (setP th v _)) in Hs. inversion Hs; subst c'; clear Hs.
    destruct (i_out c I t) as (Eo & El & _). fold th in Eo, El. rewrite <- El.
    apply (inv_assign c t v _ r (lastS th) (outS th) (outP th) (stab_after lockof th v) I); auto.
    + destruct v as [m|m]; [|exact Logic.I]. apply andb_true_iff in Hok as [Hok _]. apply andb_true_iff in Hok as [Hok _]. apply memn_In. exact Hok.
    + intros m Hin. destruct v as [k|k]; cbn [stab_after] in Hin; [|left; exact Hin].
      destruct (memn (lockof k) (held th)); [|left; exact Hin]. destruct Hin as [<-|Hin]; [right; reflexivity|left; exact Hin].
    + destruct v as [m|m]; cbn [stab_after].
      * apply andb_true_iff in Hok as [Hok Hok2]. apply andb_true_iff in Hok as [Hok _]. fold th. rewrite Hok. exact Hok2.
      * apply andb_true_iff in Hok as [_ Hok2]. exact Hok2.
    + apply (i_cont c I).
  - (* Read *)
    apply andb_true_iff in Hok as [Hv Hok2].
    pose proof (get_agree c t v I Hv) as G. fold th in G. cbv zeta in Hs. rewrite G in Hs. rewrite (i_cont c I f) in Hs.
    rewrite (pair_eta (setS c th v _)), (pair_eta (setP th v _)) in Hs. inversion Hs; subst c'; clear Hs.
    destruct (i_out c I t) as (Eo & _). fold th in Eo. rewrite Eo.
    apply (inv_assign c t v _ r _ _ _ (stable th) I); auto.
    + destruct v as [m|m]; [|exact Logic.I]. cbn in Hv. apply memn_In in Hv. apply (i_stab c I t m Hv).
    + apply (i_cont c I).
  - (* Write *)
    apply andb_true_iff in Hok as [Hv Hok2].
    pose proof (get_agree c t v I Hv) as G. fold th in G. cbv zeta in Hs. rewrite G in Hs. rewrite (i_cont c I f) in Hs.
    rewrite (pair_eta (setS c th v _)), (pair_eta (setP th v _)) in Hs. inversion Hs; subst c'; clear Hs.
    destruct (i_out c I t) as (Eo & _). fold th in Eo. rewrite Eo.
    apply (inv_assign c t v _ r _ _ _ (stable th) I); auto.
    + destruct v as [m|m]; [|exact Logic.I]. cbn in Hv. apply memn_In in Hv. apply (i_stab c I t m Hv).
    + intros g. unfold updf. destruct (Nat.eqb g f); [reflexivity|apply (i_cont c I)].
  - (* Tell *)
    apply andb_true_iff in Hok as [Hv Hok2].
    pose proof (get_agree c t v I Hv) as G. fold th in G. rewrite G in Hs. inversion Hs; subst c'; clear Hs.
    apply inv_update; auto; cbn [held stable rem priv loc locP outS outP lastS lastP].
    + intros m Hm. contradiction.
    + apply (i_cont c I).
    + intros m Hin. apply (i_stab c I t m Hin).
    + destruct (i_out c I t) as (Eo & El & Ec). fold th in Eo, El, Ec. rewrite Eo. split; [reflexivity|split; [exact El|exact Ec]].
Qed.

Theorem run_inv sched : forall c, Inv c -> Inv (run lockof c sched).
Proof.
  induction sched as [|t r IH]; intros c I; cbn [run]; [exact I|].
  destruct (step lockof c t) as [c'|] eqn:Es; [apply IH; eapply step_inv; eauto|apply IH; exact I].
Qed.

Lemma init_inv progs s cont : guarded lockof progs = true -> Inv (init_cfg progs s cont).
Proof.
  intros G. unfold guarded in G. rewrite forallb_forall in G.
  constructor; cbn [init_cfg sh contS contP owner ths init_thread held stable rem priv loc locP outS outP lastS lastP].
  - reflexivity.
  - intros t. repeat split; reflexivity.
  - intros l t [].
  - intros l t Ho. discriminate.
  - intros t n [].
  - intros t. destruct (Nat.lt_ge_cases t (length progs)) as [H|H].
    + apply G. apply nth_In. exact H.
    + rewrite nth_overflow by exact H. reflexivity.
Qed.

(* ---- the theorem: for every schedule, every thread observes -- on the shared store, interleaved with the others -- exactly what
   it observes on its private copy of the positions, and the files end up the same ---- *)
Theorem guarded_observations progs s cont sched :
  guarded lockof progs = true ->
  let c := run lockof (init_cfg progs s cont) sched in
  (forall t, outS (ths c t) = outP (ths c t)) /\ (forall f, contS c f = contP c f).
Proof.
  intros G c. pose proof (run_inv sched _ (init_inv progs s cont G)) as I. fold c in I.
  split; [intros t; apply (i_out c I t)|apply (i_cont c I)].
Qed.

(* ---- no deadlock: in every reachable state of guarded programs some unfinished thread can move ---- *)
Lemma ok_from_acq_order hd st l r : ok_from lockof hd st (Acq l :: r) = true -> forall m, In m hd -> (m < l)%nat.
Proof.
  cbn [ok_from]. intros H m Hm. apply andb_true_iff in H as [H _]. apply andb_true_iff in H as [_ H].
  rewrite forallb_forall in H. specialize (H m Hm). apply Nat.ltb_lt in H. exact H.
Qed.

Lemma ok_from_nil_held hd st : ok_from lockof hd st [] = true -> hd = [].
Proof. cbn. destruct hd; [reflexivity|discriminate]. Qed.

Definition want (c : config) (t : tid) : option lock := match rem (ths c t) with Acq l :: _ => Some l | _ => None end.

Lemma step_none c t : step lockof c t = None -> rem (ths c t) = [] \/ exists l u, want c t = Some l /\ owner c l = Some u.
Proof.
  unfold step, want. destruct (rem (ths c t)) as [|a r]; [auto|]. destruct a as [l|l|v e|v f n|v f d|v]; try discriminate.
  - destruct (owner c l) as [u|] eqn:E; [|discriminate]. intros _. right. exists l, u. auto.
  - destruct (setS _ _ _ _), (setP _ _ _); discriminate.
  - cbv zeta. destruct (setS _ _ _ _), (setP _ _ _); discriminate.
  - cbv zeta. destruct (setS _ _ _ _), (setP _ _ _); discriminate.
Qed.

(* among a non-empty list of threads that all wait for a lock, one waits for the largest *)
Lemma max_want c (ts : list tid) : ts <> [] -> (forall t, In t ts -> exists l, want c t = Some l) ->
  exists t l, In t ts /\ want c t = Some l /\ forall t' l', In t' ts -> want c t' = Some l' -> (l' <= l)%nat.
Proof.
  induction ts as [|t r IH]; [congruence|]. intros _ H. destruct (H t (or_introl eq_refl)) as [l Hl].
  destruct r as [|t2 r2].
  - exists t, l. split; [left; reflexivity|split; [exact Hl|]]. intros t' l' [<-|[]] E. rewrite Hl in E. inversion E. lia.
  - destruct IH as (tm & lm & Hin & Hw & Hmax); [discriminate|intros x Hx; apply H; right; exact Hx|].
    destruct (Nat.le_gt_cases l lm) as [Hle|Hgt].
    + exists tm, lm. split; [right; exact Hin|split; [exact Hw|]]. intros t' l' [<-|Hin'] E; [rewrite Hl in E; inversion E; lia|eapply Hmax; eauto].
    + exists t, l. split; [left; reflexivity|split; [exact Hl|]]. intros t' l' [<-|Hin'] E; [rewrite Hl in E; inversion E; lia|].
      specialize (Hmax t' l' Hin' E). lia.
Qed.

Theorem no_deadlock c n :
  Inv c ->
  (forall t, (n <= t)%nat -> rem (ths c t) = []) ->
  (exists t, rem (ths c t) <> []) ->
  exists t, step lockof c t <> None.
Proof.
  intros I Hn [t0 Ht0].
  set (ts := filter (fun t => match rem (ths c t) with [] => false | _ => true end) (seq 0 n)).
  assert (Hts : forall t, In t ts <-> rem (ths c t) <> []).
  { intros t. unfold ts. rewrite filter_In, in_seq. split.
    - intros [_ H] E. rewrite E in H. discriminate.
    - intros H. split; [|destruct (rem (ths c t)); [congruence|reflexivity]].
      destruct (Nat.lt_ge_cases t n); [lia|]. exfalso. apply H. apply Hn. assumption. }
  (* either some unfinished thread can step, or all of them wait for an owned lock *)
  assert (Hdec : (exists t, In t ts /\ step lockof c t <> None) \/ (forall t, In t ts -> step lockof c t = None)).
  { clear Hts. induction ts as [|t r IH]; [right; intros t []|].
    destruct (step lockof c t) eqn:E.
    - left. exists t. split; [left; reflexivity|congruence].
    - destruct IH as [(u & Hu & Hs)|Hall]; [left; exists u; split; [right; exact Hu|exact Hs]|].
      right. intros u [<-|Hu]; [exact E|apply Hall; exact Hu]. }
  destruct Hdec as [(t & _ & Hs)|Hall]; [exists t; exact Hs|]. exfalso.
  assert (Hne : ts <> []) by (intros E; pose proof (proj2 (Hts t0) Ht0) as X; rewrite E in X; exact X).
  assert (Hw : forall t, In t ts -> exists l, want c t = Some l).
  { intros t Ht. destruct (step_none c t (Hall t Ht)) as [E|(l & u & Hl & _)]; [apply Hts in Ht; contradiction|exists l; exact Hl]. }
  destruct (max_want c ts Hne Hw) as (tm & lm & Hin & Hwm & Hmax).
  destruct (step_none c tm (Hall tm Hin)) as [E|(l & u & Hl & Ho)]; [apply Hts in Hin; contradiction|].
  rewrite Hwm in Hl. inversion Hl; subst l. clear Hl.
  (* the owner u holds lm, so it is unfinished, hence blocked, waiting for something larger *)
  pose proof (i_owner c I lm u Ho) as Hheld.
  assert (Hu : In u ts).
  { apply Hts. intros E. pose proof (i_ok c I u) as K. rewrite E in K. apply ok_from_nil_held in K. rewrite K in Hheld. exact Hheld. }
  destruct (Hw u Hu) as [lu Hlu].
  pose proof (Hmax u lu Hu Hlu) as Hle.
  pose proof (i_ok c I u) as K. unfold want in Hlu. destruct (rem (ths c u)) as [|a r]; [discriminate|]. destruct a; try discriminate.
  inversion Hlu; subst. pose proof (ok_from_acq_order _ _ _ _ K lm Hheld). lia.
Qed.

(* ---- read-only workloads: what a thread observes under ANY schedule is what it observes running alone ---- *)
Fixpoint psem (cont : files) (p : list action) (pv lo : store) (last : Z) : list obs :=
  match p with
  | [] => []
  | a :: r =>
      match a with
      | Acq _ | Rel _ => psem cont r pv lo last
      | Set_ (Sh n) e => psem cont r (upd pv n (eval pv lo last e)) lo last
      | Set_ (Lo n) e => psem cont r pv (upd lo n (eval pv lo last e)) last
      | Read v f n =>
          let pp := get pv lo v in let bp := slicez (cont f) pp n in
          OBytes pp bp :: match v with Sh k => psem cont r (upd pv k (pp + Z.of_nat (length bp))) lo (Z.of_nat (length bp))
                                     | Lo k => psem cont r pv (upd lo k (pp + Z.of_nat (length bp))) (Z.of_nat (length bp)) end
      | Write v f d =>
          let pp := get pv lo v in
          OWrote pp (Z.of_nat (length d)) :: match v with Sh k => psem cont r (upd pv k (pp + Z.of_nat (length d))) lo (Z.of_nat (length d))
                                                        | Lo k => psem cont r pv (upd lo k (pp + Z.of_nat (length d))) (Z.of_nat (length d)) end
      | Tell v => OPos (get pv lo v) :: psem cont r pv lo last
      end
  end.

Definition nowrite (p : list action) : bool := forallb (fun a => match a with Write _ _ _ => false | _ => true end) p.

Record RO (cont : files) (total : tid -> list obs) (c : config) : Prop := mkRO {
  r_cont : forall f, contP c f = cont f;
  r_nw : forall t, nowrite (rem (ths c t)) = true;
  r_obs : forall t, outP (ths c t) ++ psem cont (rem (ths c t)) (priv (ths c t)) (locP (ths c t)) (lastP (ths c t)) = total t
}.

Lemma ro_step cont total c t c' : RO cont total c -> step lockof c t = Some c' -> RO cont total c'.
Proof.
  intros R Hs. unfold step in Hs. set (th := ths c t) in *.
  pose proof (r_nw _ _ c R t) as Hnw. pose proof (r_obs _ _ c R t) as Hob. fold th in Hnw, Hob.
  destruct (rem th) as [|a r] eqn:Er; [discriminate|].
  cbn [nowrite forallb] in Hnw. apply andb_true_iff in Hnw as [Ha Hnw].
  assert (Hoth : forall (c2 : config) th2, ths c2 = updt (ths c) t th2 -> (forall f, contP c2 f = contP c f) ->
                 nowrite (rem th2) = true -> outP th2 ++ psem cont (rem th2) (priv th2) (locP th2) (lastP th2) = total t -> RO cont total c2).
  { intros c2 th2 E Ec N O. constructor.
    - intros f. rewrite Ec. apply (r_cont _ _ c R).
    - intros u. rewrite E. destruct (Nat.eq_dec u t) as [->|Hn]; [rewrite updt_same; exact N|rewrite updt_other by exact Hn; apply (r_nw _ _ c R u)].
    - intros u. rewrite E. destruct (Nat.eq_dec u t) as [->|Hn]; [rewrite updt_same; exact O|rewrite updt_other by exact Hn; apply (r_obs _ _ c R u)]. }
  destruct a as [l|l|v e|v f n|v f d|v]; cbn [psem] in Hob.
  - destruct (owner c l); [discriminate|]. inversion Hs; subst c'. eapply Hoth; [reflexivity|reflexivity|exact Hnw|exact Hob].
  - inversion Hs; subst c'. eapply Hoth; [reflexivity|reflexivity|exact Hnw|exact Hob].
  - cbv zeta in Hs. destruct v as [k|k]; cbn [setS setP] in Hs; inversion Hs; subst c'; (eapply Hoth; [reflexivity|reflexivity|exact Hnw|exact Hob]).
  - cbv zeta in Hs. rewrite (r_cont _ _ c R f) in Hs. cbv zeta in Hob.
    destruct v as [k|k]; cbn [setS setP] in Hs; inversion Hs; subst c'; (eapply Hoth; [reflexivity|reflexivity|exact Hnw|]);
      cbn [outP rem priv locP lastP]; rewrite <- app_assoc; exact Hob.
  - discriminate.
  - inversion Hs; subst c'. eapply Hoth; [reflexivity|reflexivity|exact Hnw|]. cbn [outP rem priv locP lastP]. rewrite <- app_assoc. exact Hob.
Qed.

Lemma ro_run cont total sched : forall c, RO cont total c -> RO cont total (run lockof c sched).
Proof.
  induction sched as [|t r IH]; intros c R; cbn [run]; [exact R|].
  destruct (step lockof c t) as [c'|] eqn:Es; [apply IH; eapply ro_step; eauto|apply IH; exact R].
Qed.

Theorem serial_equivalence progs s cont sched :
  guarded lockof progs = true -> forallb nowrite progs = true ->
  let c := run lockof (init_cfg progs s cont) sched in
  forall t, rem (ths c t) = [] -> outS (ths c t) = psem cont (nth t progs []) s (fun _ => 0) 0.
Proof.
  intros G N c t Hfin.
  pose proof (run_inv sched _ (init_inv progs s cont G)) as I. fold c in I.
  assert (R0 : RO cont (fun t => psem cont (nth t progs []) s (fun _ => 0) 0) (init_cfg progs s cont)).
  { constructor; cbn [init_cfg contP ths init_thread rem outP priv locP lastP].
    - reflexivity.
    - intros u. destruct (Nat.lt_ge_cases u (length progs)) as [H|H].
      + rewrite forallb_forall in N. apply N. apply nth_In. exact H.
      + rewrite nth_overflow by exact H. reflexivity.
    - intros u. reflexivity. }
  pose proof (ro_run _ _ sched _ R0) as R. fold c in R.
  destruct (i_out c I t) as (Eo & _). rewrite Eo. pose proof (r_obs _ _ c R t) as O. rewrite Hfin in O. cbn [psem] in O. rewrite app_nil_r in O. exact O.
Qed.

End P.
