(* C11: every record covered by an info record is hash-protected (no collision-resistance assumption:
   the colliding inputs are exhibited). *)
From Pyctr Require Import Base.Prelude Base.ListExt Base.PyInt Base.PySlice Base.Fields Model.Tmd.

Lemma list_eqb_true a b : list_eqb a b = true -> a = b.
Proof. apply list_eqb_spec. Qed.

(* a chunk parsed from 48 bytes is "full": its serialisation has 48 bytes and determines it *)
Definition full (c : chunk) : Prop :=
  len (c_id c) = 4 /\ len (c_hash c) = 32 /\ 0 <= c_index c < 2 ^ 16 /\ 0 <= c_type c < 2 ^ 16 /\ 0 <= c_size c < 2 ^ 64.

Lemma type_mask_range w : 0 <= w -> 0 <= type_mask w < 2 ^ 16.
Proof.
  intros Hw. unfold type_mask. split; [apply Z.land_nonneg; lia|].
  change 0xC007 with 49159.
  destruct (Z.eq_dec (Z.land w 49159) 0) as [->|Hne]; [lia|].
  assert (0 <= Z.land w 49159) by (apply Z.land_nonneg; lia).
  apply Z.log2_lt_pow2; [lia|].
  pose proof (Z.log2_land w 49159 Hw ltac:(lia)) as L.
  change (Z.log2 49159) with 15 in L. lia.
Qed.

Lemma parse_chunk_full raw : bytes_ok raw -> len raw = 48 -> full (parse_chunk raw).
Proof.
  intros Hb Hl. unfold full, parse_chunk. cbn [c_id c_hash c_index c_type c_size].
  rewrite !len_slice by lia. repeat split; try lia.
  - apply be_decode_range. now apply bytes_ok_slice.
  - pose proof (be_decode_range (slice raw 4 2) (bytes_ok_slice _ _ _ Hb)) as R. rewrite len_slice in R by lia.
    replace (Z.min 2 (Z.max 0 (len raw - 4))) with 2 in R by lia. change (256 ^ 2) with (2 ^ 16) in R. lia.
  - apply type_mask_range. apply be_decode_range. now apply bytes_ok_slice.
  - apply type_mask_range. apply be_decode_range. now apply bytes_ok_slice.
  - apply be_decode_range. now apply bytes_ok_slice.
  - pose proof (be_decode_range (slice raw 8 8) (bytes_ok_slice _ _ _ Hb)) as R. rewrite len_slice in R by lia.
    replace (Z.min 8 (Z.max 0 (len raw - 8))) with 8 in R by lia. change (256 ^ 8) with (2 ^ 64) in R. lia.
Qed.

Lemma len_ser_chunk c : full c -> len (ser_chunk c) = 48.
Proof.
  intros (H1 & H2 & _). unfold ser_chunk. rewrite !len_app, !len_be_encode, H1, H2. reflexivity.
Qed.

Lemma app_inj_len {A} (a b c d : list A) : length a = length c -> a ++ b = c ++ d -> a = c /\ b = d.
Proof.
  revert c; induction a as [|x a IH]; intros [|y c] Hl E; simpl in *; try discriminate; auto.
  inversion E; subst. destruct (IH c ltac:(lia) H1) as [-> ->]. auto.
Qed.

Lemma be_encode_inj n v w :
  0 <= v < 256 ^ Z.of_nat n -> 0 <= w < 256 ^ Z.of_nat n -> be_encode n v = be_encode n w -> v = w.
Proof.
  intros Hv Hw E. rewrite <- (be_decode_encode_id n v Hv), <- (be_decode_encode_id n w Hw). now rewrite E.
Qed.

Lemma ser_chunk_inj a b : full a -> full b -> ser_chunk a = ser_chunk b -> a = b.
Proof.
  intros (A1 & A2 & A3 & A4 & A5) (B1 & B2 & B3 & B4 & B5) E. unfold ser_chunk in E.
  destruct a as [ai ax at_ as_ ah], b as [bi bx bt bs bh]. cbn [c_id c_index c_type c_size c_hash] in *.
  apply app_inj_len in E as [-> E]; [|unfold len in *; lia].
  apply app_inj_len in E as [E1 E]; [|now rewrite !length_be_encode].
  apply app_inj_len in E as [E2 E]; [|now rewrite !length_be_encode].
  apply app_inj_len in E as [E3 ->]; [|now rewrite !length_be_encode].
  apply be_encode_inj in E1; [|change (256 ^ Z.of_nat 2) with (2 ^ 16); lia ..].
  apply be_encode_inj in E2; [|change (256 ^ Z.of_nat 2) with (2 ^ 16); lia ..].
  apply be_encode_inj in E3; [|change (256 ^ Z.of_nat 8) with (2 ^ 64); lia ..].
  congruence.
Qed.

Lemma concat_ser_inj cs cs' :
  Forall full cs -> Forall full cs' -> length cs = length cs' ->
  concat (map ser_chunk cs) = concat (map ser_chunk cs') -> cs = cs'.
Proof.
  revert cs'; induction cs as [|c cs IH]; intros [|c' cs'] F F' Hl E; simpl in *; try discriminate; auto.
  inversion F; inversion F'; subst.
  apply app_inj_len in E as [E1 E2].
  - apply ser_chunk_inj in E1; auto. subst. f_equal. apply IH; auto.
  - pose proof (len_ser_chunk c H1). pose proof (len_ser_chunk c' H5). unfold len in *. lia.
Qed.

(* chunks parsed from a complete area are full *)
Lemma parse_chunks_full raw n :
  bytes_ok raw -> 48 * Z.of_nat n <= len raw -> Forall full (parse_chunks raw n).
Proof.
  revert raw; induction n as [|n IH]; intros raw Hb Hl; cbn [parse_chunks]; constructor.
  - apply parse_chunk_full; [now apply bytes_ok_slice|]. rewrite len_slice by lia. lia.
  - apply IH; [now apply bytes_ok_skipn|]. rewrite len_drop by lia. lia.
Qed.

Lemma length_parse_chunks raw n : length (parse_chunks raw n) = n.
Proof. revert raw; induction n; intros; simpl; auto. Qed.

Lemma In_firstn_in {A} (l : list A) n x : In x (firstn n l) -> In x l.
Proof. intros H. rewrite <- (firstn_skipn n l). apply in_or_app; auto. Qed.
Lemma In_skipn_in {A} (l : list A) n x : In x (skipn n l) -> In x l.
Proof. intros H. rewrite <- (firstn_skipn n l). apply in_or_app; auto. Qed.

Lemma Forall_pyslice {A} (P : A -> Prop) (l : list A) a b : Forall P l -> Forall P (pyslice l a b).
Proof.
  intros F. unfold pyslice; rewrite ?slice_raw; unfold slice0. apply Forall_forall. intros x Hx.
  rewrite Forall_forall in F. apply F. apply In_firstn_in in Hx. now apply In_skipn_in in Hx.
Qed.

Lemma length_pyslice_same {A B} (l : list A) (l' : list B) a b :
  length l = length l' -> length (pyslice l a b) = length (pyslice l' a b).
Proof.
  intros Hl. unfold pyslice, len; rewrite ?slice_raw; unfold slice0. rewrite !firstn_length, !skipn_length, Hl. reflexivity.
Qed.

Section T.
Variable H : list Z -> list Z.

(* a successful verification run checked the hash of every info record *)
Lemma verify_infos_checked chunks irs seen :
  verify_infos H chunks irs seen = Ok tt ->
  forall ir, In ir irs -> H (concat (map ser_chunk (covered chunks ir))) = i_hash ir.
Proof.
  revert seen; induction irs as [|i irs IH]; intros seen Hv ir Hin; [inversion Hin|].
  cbn [verify_infos] in Hv.
  destruct (check_dups (covered chunks i) seen) as [seen'|]; [|discriminate].
  destruct (list_eqb (H (concat (map ser_chunk (covered chunks i)))) (i_hash i)) eqn:E; cbn [negb] in Hv; [|discriminate].
  destruct Hin as [->|Hin]; [now apply list_eqb_true|]. eapply IH; eauto.
Qed.

Lemma check_facts header info_raw chunks infos :
  tmd_check H true header info_raw chunks infos = Ok tt ->
  H info_raw = slice header 0xA4 32 /\
  forall ir, In ir infos -> H (concat (map ser_chunk (covered chunks ir))) = i_hash ir.
Proof.
  unfold tmd_check. intros C. unfold andb in C.
  destruct (list_eqb (H info_raw) (slice header 164 32)) eqn:Eh; unfold negb in C; [|discriminate].
  destruct (verify_infos H chunks infos []) as [[]|e] eqn:Ev; unfold bind in C; [|discriminate].
  split; [now apply list_eqb_true|]. intros ir Hin. eapply verify_infos_checked; eauto.
Qed.

(* what a successful verified load establishes *)
Lemma load_facts raw t :
  tmd_load H true raw = Ok t ->
  exists ss pad,
    sig_layout (be_decode (slice raw 0 4)) = Some (ss, pad) /\
    let hs := 4 + ss + pad in
    let header := slice raw hs 0xC4 in
    let count := be_decode (slice header 0x9E 2) in
    let info_raw := slice raw (hs + 0xC4) 0x900 in
    t_header t = header /\
    H info_raw = slice header 0xA4 32 /\
    t_infos t = parse_infos info_raw 64 /\
    t_chunks t = parse_chunks (slice raw (hs + 0xC4 + 0x900) (count * 48)) (Z.to_nat count) /\
    forall ir, In ir (t_infos t) -> H (concat (map ser_chunk (covered (t_chunks t) ir))) = i_hash ir.
Proof.
  unfold tmd_load. intros L.
  destruct (sig_layout (be_decode (slice raw 0 4))) as [[ss pad]|]; [|discriminate].
  exists ss, pad. split; [reflexivity|]. cbv zeta.
  remember (4 + ss + pad) as hs eqn:Ehs. remember (slice raw hs 196) as header eqn:Ehd.
  destruct (negb (len header =? 196)); [discriminate|].
  remember (be_decode (slice header 158 2)) as count eqn:Ecount.
  remember (slice raw (hs + 196) 2304) as info_raw eqn:Eir.
  destruct (negb (len info_raw =? 2304)); [discriminate|].
  remember (parse_chunks (slice raw (hs + 196 + 2304) (count * 48)) (Z.to_nat count)) as chunks eqn:Ech.
  remember (parse_infos info_raw 64) as infos eqn:Einf.
  destruct (tmd_check H true header info_raw chunks infos) as [[]|e] eqn:Ec; unfold bind in L; [|discriminate].
  assert (Et : mkTmd (be_decode (slice raw 0 4)) (slice raw 4 ss) header infos chunks = t)
    by (exact (f_equal (fun r => match r with Ok a => a | Err _ => t end) L)).
  rewrite <- Et. cbn [t_header t_infos t_chunks].
  destruct (check_facts _ _ _ _ Ec) as [F1 F2]. auto.
Qed.

(* Tampering: same signature type and header (hence the same info-block hash and record count); anything may
   differ in the info block and in the chunk records.  If both loads succeed with verification on, the info
   records are the same and every covered chunk record is the same -- or the two loads exhibit a collision. *)
Theorem tmd_tamper raw raw' t t' ss pad :
  bytes_ok raw -> bytes_ok raw' ->
  sig_layout (be_decode (slice raw 0 4)) = Some (ss, pad) ->
  slice raw' 0 4 = slice raw 0 4 ->
  slice raw' (4 + ss + pad) 0xC4 = slice raw (4 + ss + pad) 0xC4 ->
  (* both files contain all the chunk records their header announces *)
  (let count := be_decode (slice (slice raw (4 + ss + pad) 0xC4) 0x9E 2) in
   4 + ss + pad + 0xC4 + 0x900 + 48 * count <= len raw /\ 4 + ss + pad + 0xC4 + 0x900 + 48 * count <= len raw') ->
  tmd_load H true raw = Ok t -> tmd_load H true raw' = Ok t' ->
  (t_infos t' = t_infos t /\ forall ir, In ir (t_infos t) -> covered (t_chunks t') ir = covered (t_chunks t) ir)
  \/ exists x y, x <> y /\ H x = H y.
Proof.
  intros Hb Hb' Hsig Hty Hhdr Hcomplete L L'.
  destruct (load_facts raw t L) as (ss1 & pad1 & S1 & F). rewrite Hsig in S1. inversion S1; subst ss1 pad1. clear S1.
  destruct (load_facts raw' t' L') as (ss2 & pad2 & S2 & F'). rewrite Hty, Hsig in S2. inversion S2; subst ss2 pad2. clear S2.
  cbv zeta in F, F', Hcomplete.
  set (hs := 4 + ss + pad) in *. rewrite Hhdr in F'.
  set (header := slice raw hs 196) in *. set (count := be_decode (slice header 158 2)) in *.
  destruct F as (_ & Fh & Fi & Fc & Fv). destruct F' as (_ & Fh' & Fi' & Fc' & Fv').
  destruct Hcomplete as [Hc Hc'].
  assert (Hcnt : 0 <= count).
  { unfold count. apply be_decode_range. apply bytes_ok_slice. unfold header. now apply bytes_ok_slice. }
  assert (ss_pos : 0 <= ss /\ 0 <= pad).
  { unfold sig_layout in Hsig.
    repeat match type of Hsig with (if ?c then _ else _) = _ => destruct c end; inversion Hsig; lia. }
  (* 1. the info block *)
  set (ib := slice raw (hs + 196) 2304) in *. set (ib' := slice raw' (hs + 196) 2304) in *.
  destruct (list_eq_dec Z.eq_dec ib ib') as [Eib|Nib].
  2:{ right. exists ib, ib'. split; [exact Nib|]. congruence. }
  assert (Ffull : Forall full (t_chunks t)).
  { rewrite Fc. apply parse_chunks_full; [now apply bytes_ok_slice|]. rewrite len_slice by (unfold hs; lia).
    unfold hs in *. lia. }
  assert (Ffull' : Forall full (t_chunks t')).
  { rewrite Fc'. apply parse_chunks_full; [now apply bytes_ok_slice|]. rewrite len_slice by (unfold hs; lia).
    unfold hs in *. lia. }
  rewrite <- Eib in Fi'.
  assert (Einfos : t_infos t' = t_infos t) by congruence.
  (* 2. the covered records, one info record at a time *)
  assert (Per : forall ir, In ir (t_infos t) ->
            covered (t_chunks t') ir = covered (t_chunks t) ir \/ exists x y, x <> y /\ H x = H y).
  { intros ir Hin.
    assert (Hin' : In ir (t_infos t')) by congruence.
    specialize (Fv ir Hin). specialize (Fv' ir Hin').
    set (cs := covered (t_chunks t) ir) in *. set (cs' := covered (t_chunks t') ir) in *.
    assert (Hlen : length cs' = length cs).
    { unfold cs, cs', covered. apply length_pyslice_same. rewrite Fc, Fc', !length_parse_chunks. reflexivity. }
    destruct (list_eq_dec Z.eq_dec (concat (map ser_chunk cs')) (concat (map ser_chunk cs))) as [Ec|Nc].
    - left. apply concat_ser_inj; auto; apply Forall_pyslice; assumption.
    - right. exists (concat (map ser_chunk cs')), (concat (map ser_chunk cs)). split; [exact Nc|congruence]. }
  clear - Per Einfos.
  assert (G : forall irs, (forall ir, In ir irs -> In ir (t_infos t)) ->
            (forall ir, In ir irs -> covered (t_chunks t') ir = covered (t_chunks t) ir) \/ exists x y, x <> y /\ H x = H y).
  { induction irs as [|i irs IH]; intros Hsub; [left; intros ir []|].
    destruct (Per i (Hsub i (or_introl eq_refl))) as [Ei|C]; [|right; exact C].
    destruct (IH (fun ir Hi => Hsub ir (or_intror Hi))) as [Er|C]; [|right; exact C].
    left. intros ir [<-|Hi]; auto. }
  destruct (G (t_infos t) (fun ir Hi => Hi)) as [All|C]; [left; auto|right; exact C].
Qed.

End T.
