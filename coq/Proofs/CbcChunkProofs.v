(* C02, composition: reading a CBC stream sequentially in ANY chunking glues back to one slice of the whole-stream
   decryption; reading to the end from position 0 yields the whole decryption; a read is independent of the history
   that came before it (the wrapper carries no state besides the position). *)
From Pyctr Require Import Base.Prelude Base.ListExt Base.PyInt Base.PySlice Env.PyFile Env.FileIface
  Spec.StreamCipher Env.Cipher Model.CbcIO Proofs.CbcProofs.

Section Chunks.
Variable D : list Z -> list Z -> list Z.
Hypothesis D_len : forall k b, len b = 16 -> len (D k b) = 16.
Context {S : Type} (U : fileops S).
Variables (inv : S -> Prop) (content : S -> list Z) (pos : S -> Z).
Hypothesis Hlaw : lawful U inv content pos.
Variables (key iv0 : list Z).
Hypothesis Hiv : len iv0 = 16.

(* the bytes a list of results carries, in order; None when some step was not a successful read *)
Fixpoint glue (rs : list bres) : option (list Z) :=
  match rs with
  | [] => Some []
  | BBytes b :: r => match glue r with Some t => Some (b ++ t) | None => None end
  | _ :: _ => None
  end.

Lemma read_step s n : inv s -> len (content s) mod 16 = 0 ->
  exists out s', cbc_step D U key iv0 s (BRead n) = (BBytes out, s') /\ inv s' /\ content s' = content s /\
    out = slice (cbc_dec D key iv0 (content s)) (pos s) (len out) /\
    len out = read_count (len (content s)) (pos s) n /\ pos s' = pos s + len out.
Proof.
  intros Hi Hm. pose proof (bstep_ok D D_len U inv content pos Hlaw key iv0 Hiv s (BRead n) Hi Hm) as H.
  destruct (cbc_step D U key iv0 s (BRead n)) as [r s'] eqn:E. destruct H as (Hc & Hi' & _).
  unfold bstep_contract in Hc. destruct Hc as (Hcs & Hr). destruct r as [out|q|e]; try contradiction.
  exists out, s'. destruct Hr as (H1 & H2 & H3). rewrite <- Hcs at 1. repeat split; auto; congruence.
Qed.

(* any chunking: the outputs of consecutive reads concatenate to ONE slice starting at the initial position *)
Theorem cbc_chunks_glue ns : forall s, inv s -> 0 <= pos s -> len (content s) mod 16 = 0 ->
  let '(rs, s') := cbc_run D U key iv0 s (map BRead ns) in
  exists t, glue rs = Some t /\
    t = slice (cbc_dec D key iv0 (content s)) (pos s) (len t) /\
    pos s' = pos s + len t /\ content s' = content s /\ inv s'.
Proof.
  induction ns as [|n ns IH]; intros s Hi Hp Hm.
  - cbn. exists []. rewrite slice_0. cbn. repeat split; auto. change (len (@nil Z)) with 0. lia.
  - cbn [map cbc_run].
    destruct (read_step s n Hi Hm) as (out & s1 & E & Hi1 & Hc1 & Ho & Hl & Hp1).
    rewrite E.
    assert (Hlo : 0 <= len out) by (rewrite Hl; apply read_count_nonneg).
    specialize (IH s1 Hi1 ltac:(lia) ltac:(now rewrite Hc1)).
    destruct (cbc_run D U key iv0 s1 (map BRead ns)) as [rs s2].
    destruct IH as (t & Hg & Ht & Hp2 & Hc2 & Hi2).
    exists (out ++ t). cbn [glue]. rewrite Hg. split; [reflexivity|].
    assert (Hlt : 0 <= len t) by (unfold len; lia).
    rewrite len_app. split; [|split; [lia|split; [congruence|exact Hi2]]].
    rewrite slice_app_split by lia. rewrite <- Ho. f_equal.
    rewrite Ht at 1. rewrite Hc1, Hp1. reflexivity.
Qed.

Lemma cbc_run_app a b s :
  cbc_run D U key iv0 s (a ++ b) =
  let '(ra, s1) := cbc_run D U key iv0 s a in let '(rb, s2) := cbc_run D U key iv0 s1 b in (ra ++ rb, s2).
Proof.
  revert s; induction a as [|o a IH]; intros s.
  - cbn [app cbc_run]. destruct (cbc_run D U key iv0 s b). reflexivity.
  - cbn [app cbc_run]. destruct (cbc_step D U key iv0 s o) as [x s1]. rewrite IH.
    destruct (cbc_run D U key iv0 s1 a) as [ra s2]. destruct (cbc_run D U key iv0 s2 b) as [rb s3]. reflexivity.
Qed.

(* chunks followed by a read-to-the-end, from position 0: the whole decryption, whatever the chunk sizes *)
Theorem cbc_chunks_then_rest_is_whole ns s : inv s -> pos s = 0 -> len (content s) mod 16 = 0 ->
  exists t, glue (fst (cbc_run D U key iv0 s (map BRead (ns ++ [-1])))) = Some t /\
    t = cbc_dec D key iv0 (content s).
Proof.
  intros Hi Hp Hm.
  pose proof (cbc_chunks_glue (ns ++ [-1]) s Hi ltac:(lia) Hm) as H.
  destruct (cbc_run D U key iv0 s (map BRead (ns ++ [-1]))) as [rs s'] eqn:E. cbn [fst].
  destruct H as (t & Hg & Ht & Hp' & Hc' & Hi'). exists t. split; [exact Hg|].
  assert (Hend : len (content s) <= pos s').
  { rewrite map_app, cbc_run_app in E.
    pose proof (cbc_chunks_glue ns s Hi ltac:(lia) Hm) as G.
    destruct (cbc_run D U key iv0 s (map BRead ns)) as [ra s1].
    destruct G as (ta & _ & _ & Hpa & Hca & Hia).
    cbn [map cbc_run] in E.
    destruct (read_step s1 (-1) Hia ltac:(now rewrite Hca)) as (out & s2 & E1 & _ & _ & _ & Hl & Hp2).
    rewrite E1 in E. inversion E; subst s'. unfold read_count in Hl. rewrite Hca in Hl.
    destruct (-1 <? 0) eqn:X; lia. }
  assert (Hld : len (cbc_dec D key iv0 (content s)) = len (content s)).
  { unfold cbc_dec. assert (Hnn : 0 <= len (content s)) by (unfold len; lia).
    assert (HN : len (content s) = 16 * (len (content s) / 16)) by (apply Z_div_exact_full_2; lia).
    assert (0 <= len (content s) / 16) by (apply Z.div_pos; lia).
    rewrite (len_cbc_blocks D D_len key iv0) by lia. lia. }
  rewrite Ht, Hp. rewrite slice_ge by lia. apply drop_0.
Qed.

(* history independence: after ANY history, seek(p) ; read(n) returns what it returns on the fresh file *)
Theorem cbc_read_history_independent ops p n s : inv s -> len (content s) mod 16 = 0 -> 0 <= p ->
  let s1 := snd (cbc_run D U key iv0 s ops) in
  forall q s2, f_seek U s1 p 0 = Ok (q, s2) ->
  exists out s3, cbc_step D U key iv0 s2 (BRead n) = (BBytes out, s3) /\
    out = slice (cbc_dec D key iv0 (content s)) q (read_count (len (content s)) q n).
Proof.
  intros Hi Hm Hp.
  assert (R : forall ops s, inv s -> len (content s) mod 16 = 0 ->
            inv (snd (cbc_run D U key iv0 s ops)) /\ content (snd (cbc_run D U key iv0 s ops)) = content s).
  { clear ops s Hi Hm Hp. intros ops. induction ops as [|o r IH]; intros s Hi Hm; [cbn; auto|].
    cbn [cbc_run]. pose proof (bstep_ok D D_len U inv content pos Hlaw key iv0 Hiv s o Hi Hm) as H.
    destruct (cbc_step D U key iv0 s o) as [x s1]. destruct H as ((Hc & _) & Hi1 & Hm1).
    specialize (IH s1 Hi1 Hm1). destruct (cbc_run D U key iv0 s1 r) as [xs s2]. cbn [snd] in *.
    destruct IH. split; [auto|congruence]. }
  destruct (R ops s Hi Hm) as (Hi1 & Hc1). cbn zeta. intros q s2 Hs.
  pose proof (law_seek _ _ _ _ Hlaw _ p 0 Hi1) as L. rewrite Hs in L. destruct L as (Hi2 & Hc2 & Hq).
  destruct (read_step s2 n Hi2 ltac:(rewrite Hc2, Hc1; exact Hm)) as (out & s3 & E & _ & _ & Ho & Hl & _).
  exists out, s3. split; [exact E|]. rewrite Ho, Hl, Hc2, Hc1, Hq. reflexivity.
Qed.

End Chunks.
