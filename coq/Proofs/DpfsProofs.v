(* DPFS: what the level-3 file returns is the slice of the active view (the blocks of the copy the bitmaps select). *)
From Pyctr Require Import Base.Prelude Base.ListExt Base.PyInt Base.PySlice Base.Sweep Model.Blocks Proofs.BlocksProofs Model.Dpfs.

(* ---------- the active view ---------- *)
Section View.
Variable pair : list Z.
Variable size bs : Z.
Variable bit : Z -> bool.
Hypothesis Hbs : 0 < bs.
Hypothesis Hsize : 0 < size.
Hypothesis Hpair : 2 * size <= len pair.

Lemma nblocks_bounds : 0 < nblocks size bs /\ (nblocks size bs - 1) * bs < size <= nblocks size bs * bs.
Proof. unfold nblocks. split; nia. Qed.

Lemma len_piece b : 0 <= b < nblocks size bs -> len (piece pair size bs bit b) = Z.min bs (size - b * bs).
Proof.
  intros Hb. pose proof nblocks_bounds as [N0 N1]. unfold piece.
  destruct (bit b); rewrite len_slice by nia; nia.
Qed.

Lemma len_active_view : len (active_view pair size bs bit) = size.
Proof.
  pose proof nblocks_bounds as [N0 N1]. unfold active_view.
  rewrite (pieces_len bs) by (try lia; intros i Hi; rewrite len_piece by lia; nia).
  rewrite len_piece by lia. rewrite Z2Nat.id by lia. nia.
Qed.

Lemma active_view_block b :
  0 <= b < nblocks size bs -> slice (active_view pair size bs bit) (b * bs) bs = piece pair size bs bit b.
Proof.
  intros Hb. pose proof nblocks_bounds as [N0 N1]. unfold active_view.
  replace (b * bs) with ((b - 0) * bs) by lia.
  apply (pieces_block bs Hbs); rewrite ?Z2Nat.id by lia; try lia.
  - intros i Hi. rewrite len_piece by lia. nia.
  - rewrite len_piece by lia. lia.
Qed.
End View.

(* ---------- level 3 ---------- *)
Section L3.
Variable pair : list Z.
Variable size bs : Z.
Variable lv2 : list Z.
Hypothesis Hbs : 0 < bs.
Hypothesis Hsize : 0 < size.
Hypothesis Hpair : len pair = 2 * size.

Let view := active_view pair size bs (active_bit lv2).

Lemma lv3_block_ok b : 0 <= b -> b * bs < len view ->
  len (lv3_block pair size bs lv2 b) <= bs /\ Z.min bs (len view - b * bs) <= len (lv3_block pair size bs lv2 b) /\
  take (lv3_block pair size bs lv2 b) (Z.min bs (len view - b * bs)) = slice view (b * bs) bs.
Proof.
  intros Hb Hv. subst view. rewrite len_active_view in * by lia.
  assert (Hnb : b < nblocks size bs) by (unfold nblocks; nia).
  rewrite active_view_block by lia. unfold lv3_block, piece.
  set (c := if active_bit lv2 b then size else 0). assert (Hc : 0 <= c <= size) by (subst c; destruct (active_bit lv2 b); lia).
  rewrite len_slice by nia. repeat split; try nia.
  rewrite <- slice0_take_eq. rewrite slice_slice by nia. f_equal; nia.
Qed.

Theorem lv3_get_data_spec off n :
  0 <= off -> 0 < n -> off < size ->
  lv3_get_data pair size bs lv2 off n = slice view off n.
Proof.
  intros Ho Hn Hlt. unfold lv3_get_data.
  assert (Lv : len view = size) by (subst view; apply len_active_view; lia).
  destruct (off + n >? size) eqn:E.
  - rewrite (assemble_spec view bs Hbs _ lv3_block_ok) by lia.
    rewrite slice_ge by lia. symmetry. apply slice_ge. lia.
  - apply (assemble_spec view bs Hbs _ lv3_block_ok); lia.
Qed.

(* the file object: any position, any size argument *)
Theorem lv3_file_read_spec pos n :
  0 <= pos ->
  lv3_file_read pair size bs lv2 pos n = slice view pos (if n <? 0 then len view else n).
Proof.
  intros Hp. unfold lv3_file_read.
  assert (Lv : len view = size) by (subst view; apply len_active_view; lia).
  set (remaining := Z.max (size - pos) 0).
  destruct ((n <? 0) || (n >? remaining)) eqn:E.
  - destruct (remaining =? 0) eqn:R.
    + assert (size <= pos) by lia. symmetry. rewrite slice_ge by (destruct (n <? 0); lia). apply drop_ge. lia.
    + rewrite lv3_get_data_spec by lia. rewrite !slice_ge by (destruct (n <? 0); lia). reflexivity.
  - assert (0 <= n <= remaining) by lia. destruct (n <? 0) eqn:N; [lia|].
    destruct (n =? 0) eqn:Z0; [assert (n = 0) as -> by lia; now rewrite slice_0|].
    apply lv3_get_data_spec; lia.
Qed.
End L3.

(* ---------- 32-bit words of a byte string ---------- *)

Lemma zth_nil {A} i : zth (@nil A) i = None.
Proof. unfold zth. destruct (i <? 0); [reflexivity|]. now destruct (Z.to_nat i). Qed.

Lemma u32s_fuel_nth f : forall d i, (length d <= f)%nat -> 0 <= i ->
  zth (u32s_fuel f d) i = if 4 * i <? len d then Some (le_decode (slice d (4 * i) 4)) else None.
Proof.
  assert (N : forall i, 0 <= i -> (4 * i <? len (@nil Z)) = false) by (intros; change (len (@nil Z)) with 0; lia).
  induction f as [|f IH]; intros d i Hf Hi.
  - destruct d; [|cbn [length] in Hf; lia]. cbn [u32s_fuel]. now rewrite zth_nil, N.
  - cbn [u32s_fuel]. destruct d as [|x r] eqn:Ed; [now rewrite zth_nil, N|].
    rewrite <- Ed in *. assert (Ld : 0 < len d) by (subst d; rewrite len_cons; pose proof (len_nonneg r); lia).
    destruct (Z.eq_dec i 0) as [->|Hne].
    + change (4 * 0) with 0. destruct (0 <? len d) eqn:?; [|lia]. unfold zth. cbn [Z.ltb Z.to_nat nth_error].
      now rewrite slice0_take_eq.
    + unfold zth. destruct (i <? 0) eqn:?; [lia|].
      replace (Z.to_nat i) with (S (Z.to_nat (i - 1))) by lia. cbn [nth_error].
      pose proof (IH (drop d 4) (i - 1)) as IH'. unfold zth in IH'. destruct (i - 1 <? 0) eqn:?; [lia|].
      rewrite IH' by (try lia; rewrite drop_raw; unfold drop0; rewrite skipn_length; unfold len in *; lia).
      rewrite len_drop by lia.
      destruct (4 * (i - 1) <? Z.max 0 (len d - 4)) eqn:E1; destruct (4 * i <? len d) eqn:E2; try lia; [|reflexivity].
      f_equal. f_equal. rewrite drop_raw, !slice_raw. unfold drop0, slice0. rewrite <- skipn_add. f_equal. f_equal. lia.
Qed.

Lemma u32s_nth d i : 0 <= i ->
  zth (u32s d) i = if 4 * i <? len d then Some (le_decode (slice d (4 * i) 4)) else None.
Proof. intros. unfold u32s. now apply u32s_fuel_nth. Qed.

Lemma zth_ext {A} (a b : list A) : (forall i, 0 <= i -> zth a i = zth b i) -> a = b.
Proof.
  intros Hx. apply list_ext. intros i. specialize (Hx (Z.of_nat i) ltac:(lia)). unfold zth in Hx.
  destruct (Z.of_nat i <? 0) eqn:?; [lia|]. now rewrite Nat2Z.id in Hx.
Qed.

Lemma zth_app {A} (a b : list A) i : 0 <= i ->
  zth (a ++ b) i = if i <? len a then zth a i else zth b (i - len a).
Proof.
  intros Hi. unfold zth. destruct (i <? 0) eqn:?; [lia|]. unfold len.
  destruct (i <? Z.of_nat (length a)) eqn:E.
  - apply nth_error_app1. lia.
  - destruct (i - Z.of_nat (length a) <? 0) eqn:?; [lia|]. rewrite nth_error_app2 by lia. f_equal. lia.
Qed.

Lemma len_u32s d : len (u32s d) = (len d + 3) / 4.
Proof.
  unfold u32s. assert (G : forall f d, (length d <= f)%nat -> len (u32s_fuel f d) = (len d + 3) / 4).
  { clear d. induction f as [|f IH]; intros d Hf.
    - destruct d; [reflexivity|cbn [length] in Hf; lia].
    - cbn [u32s_fuel]. destruct d as [|x r] eqn:Ed; [reflexivity|]. rewrite <- Ed in *.
      assert (Ld : 0 < len d) by (subst d; rewrite len_cons; pose proof (len_nonneg r); lia).
      rewrite len_cons, IH by (rewrite drop_raw; unfold drop0; rewrite skipn_length; unfold len in *; lia).
      rewrite len_drop by lia. lia. }
  now apply G.
Qed.

Lemma u32s_app a b : len a mod 4 = 0 -> u32s (a ++ b) = u32s a ++ u32s b.
Proof.
  intros Ha. apply zth_ext. intros i Hi. rewrite zth_app by lia. rewrite !u32s_nth by lia.
  rewrite len_u32s, len_app. pose proof (len_nonneg a). pose proof (len_nonneg b).
  assert (Eq : (len a + 3) / 4 = len a / 4) by lia.
  destruct (i <? (len a + 3) / 4) eqn:E1.
  - destruct (4 * i <? len a + len b) eqn:?; destruct (4 * i <? len a) eqn:?; try lia.
    f_equal. f_equal. apply slice_app_l; lia.
  - rewrite u32s_nth by lia.
    destruct (4 * i <? len a + len b) eqn:?; destruct (4 * (i - (len a + 3) / 4) <? len b) eqn:?; try lia; [|reflexivity].
    f_equal. f_equal. rewrite slice_app_r by lia. f_equal. lia.
Qed.

Lemma u32s_concat ps : Forall (fun p => len p mod 4 = 0) ps -> u32s (concat ps) = flat_map u32s ps.
Proof.
  induction 1 as [|p r Hp Hr IH]; [reflexivity|]. cbn [concat flat_map]. now rewrite u32s_app, IH.
Qed.

(* ---------- bits ---------- *)

(* ---------- bits ---------- *)

Lemma land1_testbit w k : 0 <= k -> negb (Z.land (Z.shiftr w k) 1 =? 0) = Z.testbit w k.
Proof.
  intros Hk. replace (Z.testbit w k) with (Z.testbit (Z.shiftr w k) 0) by (rewrite Z.shiftr_spec by lia; f_equal; lia).
  set (x := Z.shiftr w k). rewrite Z.bit0_odd. change 1 with (Z.ones 1). rewrite Z.land_ones by lia. change (2 ^ 1) with 2.
  destruct (Z.odd x) eqn:E.
  - apply Z.odd_spec in E as [m ->]. destruct ((2 * m + 1) mod 2 =? 0) eqn:?; [lia|reflexivity].
  - assert (Ev : Z.even x = true) by (rewrite <- Z.negb_odd, E; reflexivity).
    apply Z.even_spec in Ev as [m ->]. destruct ((2 * m) mod 2 =? 0) eqn:?; [reflexivity|lia].
Qed.

Lemma pyidx_zth (l : list Z) i x : 0 <= i -> zth l i = Some x -> pyidx l i = x.
Proof. intros Hi E. unfold pyidx. destruct (i <? 0) eqn:?; [lia|]. now rewrite E. Qed.

(* a word list that begins with the words of a bitmap reads the bitmap's bits *)
Lemma active_bit_bitmap bytes extra b :
  0 <= b -> 4 * (b / 32) < len bytes ->
  active_bit (u32s bytes ++ extra) b = bitmap_bit bytes b.
Proof.
  intros Hb Hin. unfold active_bit, bitmap_bit.
  rewrite (Z.shiftr_div_pow2 b 5) by lia. change (2 ^ 5) with 32.
  assert (Hq : 0 <= b / 32) by (apply Z.div_pos; lia).
  rewrite (pyidx_zth _ _ (le_decode (slice bytes (4 * (b / 32)) 4))); [| exact Hq |].
  - rewrite land1_testbit by (pose proof (Z.mod_pos_bound b 32); lia). f_equal. f_equal. f_equal. lia.
  - rewrite zth_app by lia. rewrite len_u32s. destruct (b / 32 <? (len bytes + 3) / 4) eqn:?; [|lia].
    rewrite u32s_nth by lia. destruct (4 * (b / 32) <? len bytes) eqn:?; [reflexivity|lia].
Qed.

Lemma rev_zseq_32 r : (r < 32)%nat -> nth_error (rev (zseq 0 32)) r = Some (31 - Z.of_nat r).
Proof. intros Hr. do 32 (destruct r as [|r]; [reflexivity|]). lia. Qed.

Lemma length_word_bits w : length (word_bits w) = 32%nat.
Proof. unfold word_bits. now rewrite map_length, rev_length, length_zseq. Qed.

Lemma flat_map_nth_fixed {A B} (f : A -> list B) (k : nat) (l : list A) q r :
  (forall x, length (f x) = k) -> (r < k)%nat ->
  nth_error (flat_map f l) (q * k + r) = match nth_error l q with Some x => nth_error (f x) r | None => None end.
Proof.
  intros Hk Hr. revert q; induction l as [|x l IH]; intros q.
  - cbn [flat_map]. destruct q; now destruct (_ + r)%nat.
  - cbn [flat_map]. destruct q as [|q].
    + cbn [Nat.mul Nat.add nth_error]. apply nth_error_app1. now rewrite Hk.
    + rewrite nth_error_app2 by (rewrite Hk; lia). rewrite Hk. replace (S q * k + r - k)%nat with (q * k + r)%nat by lia.
      cbn [nth_error]. apply IH.
Qed.

Lemma all_bits_nth words i : 0 <= i < 32 * len words ->
  nth_error (all_bits words) (Z.to_nat i) = Some (active_bit words i).
Proof.
  intros Hi. unfold all_bits.
  assert (Er : (Z.to_nat (i mod 32) < 32)%nat) by (pose proof (Z.mod_pos_bound i 32); lia).
  replace (Z.to_nat i) with (Z.to_nat (i / 32) * 32 + Z.to_nat (i mod 32))%nat
    by (pose proof (Z.div_mod i 32); pose proof (Z.mod_pos_bound i 32); pose proof (Z.div_pos i 32); lia).
  rewrite (flat_map_nth_fixed word_bits 32) by (auto using length_word_bits).
  assert (Hq : 0 <= i / 32 < len words) by (split; [apply Z.div_pos; lia | apply Z.div_lt_upper_bound; lia]).
  destruct (nth_error words (Z.to_nat (i / 32))) as [w|] eqn:E; [|apply nth_error_None in E; unfold len in *; lia].
  unfold word_bits. rewrite nth_error_map, rev_zseq_32 by exact Er. cbn [option_map]. f_equal.
  unfold active_bit. rewrite (Z.shiftr_div_pow2 i 5) by lia. change (2 ^ 5) with 32.
  rewrite (pyidx_zth _ _ w); [| lia | unfold zth; destruct (i / 32 <? 0) eqn:?; [lia|exact E]].
  f_equal. f_equal. f_equal. f_equal. pose proof (Z.mod_pos_bound i 32). lia.
Qed.

Lemma length_all_bits words : length (all_bits words) = (32 * length words)%nat.
Proof. unfold all_bits. induction words as [|w r IH]; [reflexivity|]. cbn [flat_map]. rewrite app_length, length_word_bits, IH. cbn [length]. lia. Qed.

Lemma combine_zseq {A B} (d : A) (g : Z -> B) : forall (l : list A) s n, (n <= length l)%nat ->
  combine l (map g (zseq s n)) = map (fun j => (nth (Z.to_nat (j - s)) l d, g j)) (zseq s n).
Proof.
  intros l s n; revert l s; induction n as [|n IH]; intros l s Hn; [now destruct l|].
  destruct l as [|x l]; [cbn [length] in Hn; lia|]. cbn [zseq map combine]. f_equal.
  - replace (s - s) with 0 by lia. reflexivity.
  - rewrite IH by (cbn [length] in Hn; lia). apply map_ext_in. intros j Hj. apply in_zseq_range in Hj.
    f_equal. replace (Z.to_nat (j - s)) with (S (Z.to_nat (j - (s + 1)))) by lia. reflexivity.
Qed.

Lemma flat_map_map {A B C} (f : B -> list C) (g : A -> B) l : flat_map f (map g l) = flat_map (fun x => f (g x)) l.
Proof. induction l as [|x l IH]; [reflexivity|]. cbn [map flat_map]. now rewrite IH. Qed.

Lemma flat_map_ext_in' {A B} (f g : A -> list B) l : (forall x, In x l -> f x = g x) -> flat_map f l = flat_map g l.
Proof.
  induction l as [|x l IH]; intros Hx; [reflexivity|]. cbn [flat_map]. rewrite Hx by now left.
  rewrite IH; [reflexivity|]. intros y Hy. apply Hx. now right.
Qed.

(* ---------- level 2: its words begin with the words of the active view of the level-2 area ---------- *)
Section L2.
Variable data : list Z.
Variable bs : Z.
Variable lv1 : list Z.
Let half := len data / 2.
Hypothesis Hbs : 0 < bs.
Hypothesis Hbs4 : bs mod 4 = 0.
Hypothesis Hhalf : 0 < half.
Hypothesis Hh4 : half mod 4 = 0.
Hypothesis Hlen : len data = 2 * half.
Hypothesis Hbits : nblocks half bs <= 32 * len lv1.

Let bit := active_bit lv1.
Let c (j : Z) := if bit j then half else 0.
Let v (j : Z) := Z.min bs (half - j * bs).

Lemma pyslice_block a n : 0 <= a <= len data -> 0 <= n -> pyslice data (Some a) (Some (a + n)) = slice data a n.
Proof.
  intros Ha Hn. rewrite pyslice_nonneg by lia. rewrite (Z.min_l a) by lia.
  destruct (Z.le_gt_cases (len data) (a + n)).
  - rewrite Z.min_r by lia. rewrite !slice_ge by lia. reflexivity.
  - now rewrite Z.min_l by lia; replace (a + n - a) with n by lia.
Qed.

Lemma piece_len4 j : 0 <= j < nblocks half bs -> len (piece data half bs bit j) mod 4 = 0.
Proof.
  intros Hj. rewrite (len_piece data half bs bit Hbs Hhalf ltac:(lia)) by lia.
  apply Z.mod_divide; [lia|]. apply Z.mod_divide in Hbs4; [|lia]. apply Z.mod_divide in Hh4; [|lia].
  destruct (Z.le_gt_cases bs (half - j * bs)).
  - now rewrite Z.min_l by lia.
  - rewrite Z.min_r by lia. apply Z.divide_sub_r; [exact Hh4|]. now apply Z.divide_mul_r.
Qed.

Theorem lv2_words_spec :
  exists extra, lv2_words data bs lv1 = u32s (active_view data half bs bit) ++ extra.
Proof.
  pose proof (nblocks_bounds half bs bit Hbs Hhalf) as [N0 N1].
  unfold lv2_words. fold half. unfold offsets. change ((half + bs - 1) / bs) with (nblocks half bs).
  set (nb := Z.to_nat (nblocks half bs)).
  rewrite (combine_zseq false) by (rewrite length_all_bits; unfold len in Hbits; lia).
  rewrite flat_map_map.
  (* every block read = its piece followed by what the read takes beyond the piece *)
  set (spill := fun j => slice data (c j + j * bs + v j) (bs - v j)).
  assert (Eblk : forall j, In j (zseq 0 nb) ->
            u32s (pyslice data (Some (j * bs + (if nth (Z.to_nat (j - 0)) (all_bits lv1) false then half else 0)))
                               (Some (j * bs + (if nth (Z.to_nat (j - 0)) (all_bits lv1) false then half else 0) + bs)))
            = u32s (piece data half bs bit j) ++ u32s (spill j)).
  { intros j Hj. apply in_zseq_range in Hj.
    assert (Enth : nth (Z.to_nat (j - 0)) (all_bits lv1) false = bit j).
    { apply nth_error_nth. replace (j - 0) with j by lia. apply all_bits_nth. subst nb. lia. }
    rewrite Enth. fold (c j).
    assert (Hc : 0 <= c j <= half) by (subst c; cbv beta; destruct (bit j); lia).
    assert (Hv : 0 < v j <= bs) by (subst v nb; cbv beta; nia).
    rewrite pyslice_block by (subst nb; nia).
    replace bs with (v j + (bs - v j)) at 2 by lia.
    rewrite slice_app_split by (subst nb; nia).
    rewrite u32s_app.
    - unfold piece. fold (c j). fold (v j). f_equal. f_equal. f_equal. lia. unfold spill. f_equal. f_equal. lia.
    - replace (slice data (j * bs + c j) (v j)) with (piece data half bs bit j)
        by (unfold piece; fold (c j); fold (v j); f_equal; lia).
      apply piece_len4. subst nb. lia. }
  rewrite (flat_map_ext_in' _ _ _ Eblk).
  assert (Hnb : nb = S (Nat.pred nb)) by (subst nb; lia). rewrite Hnb. set (m := Nat.pred nb) in *.
  exists (u32s (spill (Z.of_nat m))).
  unfold active_view. fold nb. rewrite Hnb.
  rewrite u32s_concat.
  - rewrite flat_map_map. rewrite zseq_snoc. rewrite !flat_map_app. cbn [flat_map]. rewrite !app_nil_r, Z.add_0_l.
    rewrite app_assoc. f_equal.
    assert (Es : forall j, In j (zseq 0 m) -> u32s (piece data half bs bit j) ++ u32s (spill j) = u32s (piece data half bs bit j)).
    { intros j Hj. apply in_zseq_range in Hj. unfold spill. replace (bs - v j) with 0 by (subst v nb; cbv beta; nia).
      rewrite slice_0. cbn. apply app_nil_r. }
    now rewrite (flat_map_ext_in' _ _ _ Es).
  - apply Forall_forall. intros p Hp. apply in_map_iff in Hp as (j & <- & Hj). apply in_zseq_range in Hj.
    apply piece_len4. subst nb. lia.
Qed.
End L2.

(* ---------- the whole tree ---------- *)

Lemma active_view_ext pair size bs bit bit' :
  (forall b, 0 <= b < nblocks size bs -> bit b = bit' b) -> active_view pair size bs bit = active_view pair size bs bit'.
Proof.
  intros Hx. unfold active_view. f_equal. apply map_ext_in. intros b Hb. apply in_zseq_range in Hb.
  unfold piece. rewrite Hx; [reflexivity|]. destruct (Z.le_gt_cases (nblocks size bs) 0); lia.
Qed.

Lemma nblocks_nonneg size bs : 0 < bs -> 0 < size -> 0 < nblocks size bs.
Proof. intros. unfold nblocks. nia. Qed.

(* geometry of a well-formed DPFS tree *)
Record geometry (lv1data : list Z) (lv2data : list Z) (bs2 : Z) (lv3pair : list Z) (size3 bs3 : Z) : Prop := {
  g_lv2_bs : 0 < bs2 /\ bs2 mod 4 = 0;
  g_lv2_len : 0 < len lv2data / 2 /\ (len lv2data / 2) mod 4 = 0 /\ len lv2data = 2 * (len lv2data / 2);
  g_lv1_bits : nblocks (len lv2data / 2) bs2 <= 8 * (len lv1data / 2) /\ len lv1data = 2 * (len lv1data / 2);
  g_lv3 : 0 < bs3 /\ 0 < size3 /\ len lv3pair = 2 * size3;
  g_lv2_bits : nblocks size3 bs3 <= 8 * (len lv2data / 2) }.

Lemma lv1_words_spec lv1data selector : lv1_words lv1data selector = u32s (spec_lv1 lv1data selector).
Proof.
  unfold lv1_words, spec_lv1. pose proof (len_nonneg lv1data).
  assert (0 <= len lv1data / 2) by (apply Z.div_pos; lia).
  destruct (selector =? 0); [now rewrite pyslice_to by lia | now rewrite pyslice_from by lia].
Qed.

Lemma len_spec_lv1 lv1data selector : len lv1data = 2 * (len lv1data / 2) -> len (spec_lv1 lv1data selector) = len lv1data / 2.
Proof.
  intros E. unfold spec_lv1. pose proof (len_nonneg lv1data).
  assert (0 <= len lv1data / 2) by (apply Z.div_pos; lia).
  destruct (selector =? 0); [rewrite len_take by lia; lia | rewrite len_drop by lia; lia].
Qed.

Theorem dpfs_read_spec lv1data selector lv2data bs2 lv3pair size3 bs3 pos n :
  geometry lv1data lv2data bs2 lv3pair size3 bs3 -> 0 <= pos ->
  dpfs_read lv1data selector lv2data bs2 lv3pair size3 bs3 pos n =
  let view := spec_lv3 lv1data selector lv2data bs2 lv3pair size3 bs3 in
  slice view pos (if n <? 0 then len view else n).
Proof.
  intros [[B2 B24] (H2 & H24 & L2) [N1 L1] (B3 & S3 & L3) N2] Hp. cbv zeta. unfold dpfs_read.
  set (half2 := len lv2data / 2) in *. set (h1 := len lv1data / 2) in *.
  rewrite lv1_words_spec. set (S1 := spec_lv1 lv1data selector).
  assert (LS1 : len S1 = h1) by (subst S1 h1; now apply len_spec_lv1).
  (* level 2 *)
  destruct (lv2_words_spec lv2data bs2 (u32s S1) B2 B24 H2 H24 L2) as [extra E2].
  { fold half2. rewrite len_u32s. lia. }
  fold half2 in E2. rewrite E2.
  assert (EV2 : active_view lv2data half2 bs2 (active_bit (u32s S1)) = spec_lv2 lv1data selector lv2data bs2).
  { unfold spec_lv2. fold half2. fold S1. apply active_view_ext. intros b Hb.
    rewrite <- (app_nil_r (u32s S1)). apply active_bit_bitmap; [lia|].
    assert (b / 32 * 4 <= b / 8) by lia. assert (b / 8 < h1) by (apply Z.div_lt_upper_bound; lia). lia. }
  rewrite EV2. set (S2 := spec_lv2 lv1data selector lv2data bs2) in *.
  assert (LS2 : len S2 = half2).
  { subst S2. rewrite <- EV2. apply len_active_view; lia. }
  (* level 3 *)
  rewrite lv3_file_read_spec by lia.
  assert (EV3 : active_view lv3pair size3 bs3 (active_bit (u32s S2 ++ extra)) = spec_lv3 lv1data selector lv2data bs2 lv3pair size3 bs3).
  { unfold spec_lv3. fold S2. apply active_view_ext. intros b Hb. apply active_bit_bitmap; [lia|].
    assert (b / 32 * 4 <= b / 8) by lia. assert (b / 8 < half2) by (apply Z.div_lt_upper_bound; lia). lia. }
  now rewrite EV3.
Qed.

(* ---------- the hypotheses are satisfiable and the theorem speaks about a tree that selects non-trivially ---------- *)
Definition ex_lv1 : list Z := [0; 0; 0; 0x40] ++ [0xFF; 0xFF; 0xFF; 0xBF].          (* selector 0: lv2 block 1 from copy 1 *)
Definition ex_lv2 : list Z := ([0;0;0;0xA0] ++ [1;1;1;1]) ++ ([2;2;2;2] ++ [0;0;0;0x20]).   (* bs2 = 4, two blocks per copy *)
Definition ex_lv3 : list Z := map (fun i => i) (zseq 0 10) ++ map (fun i => 100 + i) (zseq 0 10).   (* size3 = 10, bs3 = 4 *)

Example dpfs_nonvacuous :
  geometry ex_lv1 ex_lv2 4 ex_lv3 10 4 /\
  dpfs_read ex_lv1 0 ex_lv2 4 ex_lv3 10 4 1 8 = [101; 102; 103; 4; 5; 6; 7; 108].
Proof.
  split; [|vm_compute; reflexivity].
  constructor; vm_compute; repeat split; try reflexivity; try discriminate.
Qed.
