(* C05: the content-index codec, content selection, title key. *)
From Pyctr Require Import Base.Prelude Base.ListExt Base.PyInt Base.PySlice Base.Sweep Spec.StreamCipher Model.Cia Proofs.CtrProofs.

(* ---- index bitmap ---- *)
Definition byte_members (b : Z) : list Z := filter (fun x => Z.testbit b (7 - x)) [7; 6; 5; 4; 3; 2; 1; 0].

Lemma index_byte_shift idx b : index_byte idx b = map (fun x => x + idx * 8) (index_byte 0 b).
Proof.
  unfold index_byte. generalize [7; 6; 5; 4; 3; 2; 1; 0]. intros xs. revert b.
  induction xs as [|x r IH]; intros b; [reflexivity|].
  cbn [index_byte_loop]. rewrite map_app, IH.
  destruct (negb (Z.land b 1 =? 0)); cbn [map app]; rewrite ?Z.mul_0_l, ?Z.add_0_r; reflexivity.
Qed.

Definition ib_check (b : Z) : bool := list_eqb (index_byte 0 b) (byte_members b).
Lemma ib_sweep : forallb ib_check (zseq 0 (Z.to_nat 256)) = true.
Proof. vm_compute. reflexivity. Qed.

Lemma index_byte0 b : 0 <= b < 256 -> index_byte 0 b = byte_members b.
Proof. intros H. apply list_eqb_spec. exact (sweep ib_check 256 ib_sweep b H). Qed.

Lemma in_byte_members b x : In x (byte_members b) <-> 0 <= x < 8 /\ Z.testbit b (7 - x) = true.
Proof.
  unfold byte_members. rewrite filter_In. cbn [In]. split.
  - intros [H T]. split; [|exact T]. lia.
  - intros [H T]. split; [lia|exact T].
Qed.

Lemma in_index_byte idx b i :
  0 <= b < 256 -> (In i (index_byte idx b) <-> i / 8 = idx /\ Z.testbit b (7 - i mod 8) = true).
Proof.
  intros Hb. rewrite index_byte_shift, index_byte0 by exact Hb. rewrite in_map_iff. split.
  - intros (x & <- & Hx). apply in_byte_members in Hx as [Hx T].
    replace ((x + idx * 8) / 8) with idx by lia. replace ((x + idx * 8) mod 8) with x by lia. auto.
  - intros [<- T]. exists (i mod 8). split; [lia|]. apply in_byte_members. split; [lia|exact T].
Qed.

(* a content index is listed exactly when its bit -- most significant bit first -- is set *)
Theorem index_decode_spec bytes i : bytes_ok bytes -> (In i (index_decode bytes) <-> index_bit bytes i = true).
Proof.
  intros Hb. unfold index_decode.
  assert (G : forall idx, 0 <= idx ->
            (In i (index_decode_from idx bytes) <->
             idx <= i / 8 /\ match zth bytes (i / 8 - idx) with Some b => Z.testbit b (7 - i mod 8) | None => false end = true)).
  { induction Hb as [|b r Hb0 Hr IH]; intros idx Hidx; cbn [index_decode_from].
    - split; [intros []|]. intros [_ H]. unfold zth in H. destruct (i / 8 - idx <? 0); [discriminate|].
      destruct (Z.to_nat (i / 8 - idx)); discriminate.
    - rewrite in_app_iff, in_index_byte by exact Hb0. rewrite IH by lia. unfold zth.
      destruct (Z.eq_dec (i / 8) idx) as [E|N].
      + rewrite E. replace (idx - idx) with 0 by lia. cbn [Z.ltb Z.compare Z.to_nat nth_error]. split.
        * intros [[_ T]|[H _]]; [split; [lia|exact T]|lia].
        * intros [_ T]. left. auto.
      + split.
        * intros [[H _]|[H T]]; [congruence|]. split; [lia|].
          destruct (i / 8 - (idx + 1) <? 0) eqn:E1; [discriminate|].
          destruct (i / 8 - idx <? 0) eqn:E2; [lia|].
          replace (Z.to_nat (i / 8 - idx)) with (S (Z.to_nat (i / 8 - (idx + 1)))) by lia. exact T.
        * intros [H T]. right. split; [lia|].
          destruct (i / 8 - idx <? 0) eqn:E2; [discriminate|].
          replace (i / 8 - (idx + 1) <? 0) with false by lia.
          replace (Z.to_nat (i / 8 - idx)) with (S (Z.to_nat (i / 8 - (idx + 1)))) in T by lia. exact T. }
  rewrite (G 0 ltac:(lia)). unfold index_bit. rewrite Z.sub_0_r.
  split; [intros [_ H]; exact H|intros H; split; [|exact H]].
  unfold zth in H. destruct (i / 8 <? 0) eqn:E; [discriminate|lia].
Qed.

(* ---- content selection ---- *)
Lemma mem_spec x l : mem x l = true <-> In x l.
Proof.
  unfold mem. rewrite existsb_exists. split.
  - intros (y & Hy & E). apply Z.eqb_eq in E. now subst.
  - intros H. exists x. split; [exact H|apply Z.eqb_refl].
Qed.

Theorem select_ok active tmd chosen :
  select_contents active tmd = Ok chosen ->
  chosen = filter (fun c => mem c active) tmd /\ (forall a, In a active -> In a tmd) /\
  (forall c, In c chosen <-> In c tmd /\ In c active).
Proof.
  unfold select_contents. destruct (forallb _ active) eqn:F; [|discriminate]. intros E. inversion E. subst chosen.
  split; [reflexivity|]. rewrite forallb_forall in F. split.
  - intros a Ha. specialize (F a Ha). apply mem_spec in F. apply filter_In in F. tauto.
  - intros c. rewrite filter_In, mem_spec. tauto.
Qed.

Theorem select_reject active tmd :
  (exists a, In a active /\ ~ In a tmd) -> select_contents active tmd = Err (Pyctr 20).
Proof.
  intros (a & Ha & Hn). unfold select_contents.
  destruct (forallb _ active) eqn:F; [|reflexivity]. exfalso.
  rewrite forallb_forall in F. specialize (F a Ha). apply mem_spec in F. apply filter_In in F. tauto.
Qed.

(* ---- title key ---- *)
Lemma xor_bytes_cancel a b : length a = length b -> xor_bytes (xor_bytes a b) b = a.
Proof.
  revert b; induction a as [|x a IH]; intros [|y b] H; simpl in H; try discriminate; [reflexivity|].
  unfold xor_bytes in *. cbn [combine map fst snd]. rewrite lxor_cancel. f_equal. apply IH. lia.
Qed.

Theorem titlekey_roundtrip (E D : list Z -> list Z -> list Z) common iv tk :
  (forall k b, D k (E k b) = b) -> length tk = length iv ->
  titlekey_decrypt D common iv (titlekey_encrypt E common iv tk) = tk.
Proof.
  intros HDE Hl. unfold titlekey_decrypt, titlekey_encrypt. rewrite HDE. now apply xor_bytes_cancel.
Qed.

(* content regions lie back to back *)
Lemma content_offsets_spec cur sizes i :
  (i < length sizes)%nat ->
  nth i (content_offsets cur sizes) 0 = cur + fold_left Z.add (firstn i sizes) 0.
Proof.
  revert cur i; induction sizes as [|s r IH]; intros cur i Hi; [simpl in Hi; lia|].
  destruct i as [|i]; cbn [content_offsets nth firstn fold_left]; [lia|].
  rewrite IH by (simpl in Hi; lia).
  assert (G : forall l a, fold_left Z.add l a = a + fold_left Z.add l 0).
  { induction l as [|x l IHl]; intros a; cbn [fold_left]; [lia|]. rewrite IHl, (IHl (0 + x)). lia. }
  rewrite (G (firstn i r) (0 + s)). lia.
Qed.
