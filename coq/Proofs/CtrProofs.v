(* C01 / C12 for the 3DS-mode CTR wrapper over any lawful file. *)
From Pyctr Require Import Base.Prelude Base.ListExt Base.PyInt Base.PySlice Env.PyFile Env.FileIface
  Spec.StreamCipher Env.Cipher Model.CtrIO.

Lemma lxor_cancel a b : Z.lxor (Z.lxor a b) b = a.
Proof. now rewrite Z.lxor_assoc, Z.lxor_nilpotent, Z.lxor_0_r. Qed.

Lemma len_zeros n : 0 <= n -> len (zeros n) = n.
Proof. intros. unfold zeros. rewrite len_repeat. lia. Qed.

Section P.
Variable E : list Z -> list Z -> list Z.
Context {S : Type} (U : fileops S).
Variables (inv : S -> Prop) (content : S -> list Z) (pos : S -> Z).
Hypothesis Hlaw : lawful U inv content pos.
(* how the underlying file stores data: everything (growing as needed), or only what fits *)
Variable extends : bool.
Hypothesis law_write : forall s d, inv s ->
  exists k s', f_write U s d = Ok (k, s') /\ inv s' /\
    k = (if extends then len d else Z.min (len d) (Z.max 0 (len (content s) - pos s))) /\
    content s' = overlay 0 (content s) (pos s) (take d k) /\ pos s' = pos s + k.
Variables (key : list Z) (counter : Z).

Notation dec := (stream_dec E false key counter).
Notation xk := (xor_ks E (fun j => j) key).

Definition aligned (c : ctr_cipher) (p : Z) : Prop := 16 * cc0 c + cused c = 16 * counter + p.

Definition io_inv (io : ctrio) : Prop :=
  inv (cu io) /\
  match ccache io with
  | None => True
  | Some c => ck c = key /\ cdir c = Some (cenc io) /\
              (aligned c (pos (cu io)) \/ (extends = false /\ len (content (cu io)) <= pos (cu io)))
  end.

Lemma fresh_cipher_ok cur enc :
  0 <= cur ->
  exists c, fresh_cipher E key counter cur enc = Ok c /\ ck c = key /\ cdir c = Some enc /\ aligned c cur.
Proof.
  intros Hc. unfold fresh_cipher, ctr_new, ctr_crypt. cbn [cdir bind ck cc0 cused].
  eexists. split; [reflexivity|]. cbn [ck cdir]. repeat split.
  unfold aligned, ctr_start_counter, pad_before. cbn [cc0 cused].
  rewrite len_zeros by lia. rewrite Z.shiftr_div_pow2 by lia. change (2 ^ 4) with 16. lia.
Qed.

Lemma crypt_aligned c enc data p :
  ck c = key -> cdir c = Some enc -> aligned c p ->
  exists c', ctr_crypt E c enc data = Ok (xk counter p data, c') /\
             ck c' = key /\ cdir c' = Some enc /\ aligned c' (p + len data).
Proof.
  intros Hk Hd Ha. unfold ctr_crypt. rewrite Hd, Bool.eqb_reflx.
  assert (Ex : xor_ks E (fun j => j) (ck c) (cc0 c) (cused c) data = xk counter p data).
  { rewrite Hk. replace (cc0 c) with (counter + (cc0 c - counter)) by lia.
    rewrite xor_ks_shift. f_equal. unfold aligned in Ha. lia. }
  rewrite Ex. eexists. split; [reflexivity|].
  cbn [ck cdir cc0 cused]. unfold aligned in *. cbn [cc0 cused]. repeat split; auto. lia.
Qed.

Lemma crypt_any c enc data :
  cdir c = Some enc ->
  exists out c', ctr_crypt E c enc data = Ok (out, c') /\ len out = len data /\
                 ck c' = ck c /\ cdir c' = Some enc /\ cc0 c' = cc0 c /\ cused c' = cused c + len data.
Proof.
  intros Hd. unfold ctr_crypt. rewrite Hd, Bool.eqb_reflx.
  do 2 eexists. split; [reflexivity|]. cbn [ck cdir cc0 cused]. rewrite len_xor_ks. auto.
Qed.

(* the cipher used for an operation in direction [enc] at position [cur] *)
Lemma cipher_at_ok io enc :
  io_inv io ->
  exists c, cipher_at E key counter io (pos (cu io)) enc = Ok c /\ ck c = key /\ cdir c = Some enc /\
            (aligned c (pos (cu io)) \/ (extends = false /\ len (content (cu io)) <= pos (cu io))).
Proof.
  intros [Hi Hc]. pose proof (law_pos _ _ _ _ Hlaw _ Hi) as Hp.
  unfold cipher_at. destruct (ccache io) as [c|].
  - destruct Hc as (Hk & Hd & Ha).
    destruct (Bool.eqb (cenc io) enc) eqn:Eq.
    + apply Bool.eqb_prop in Eq. subst enc. exists c. auto.
    + destruct (fresh_cipher_ok (pos (cu io)) enc Hp) as (c' & -> & ? & ? & ?). exists c'. auto.
  - destruct (fresh_cipher_ok (pos (cu io)) enc Hp) as (c' & -> & ? & ? & ?). exists c'. auto.
Qed.

Lemma slice_dec C p n : 0 <= p -> 0 <= n -> slice (dec C) p n = xk counter p (slice C p n).
Proof. intros. unfold stream_dec. rewrite slice_xor_ks by lia. reflexivity. Qed.

(* ---- C01: a read returns the slice of the whole-stream decryption ---- *)
Theorem ctr_read_ok io n :
  io_inv io ->
  exists out io', ctr_read E U key counter io n = Ok (out, io') /\ io_inv io' /\
    out = slice (dec (content (cu io))) (pos (cu io)) (len out) /\
    len out = read_count (len (content (cu io))) (pos (cu io)) n /\
    content (cu io') = content (cu io) /\ pos (cu io') = pos (cu io) + len out.
Proof.
  intros Hio. pose proof Hio as [Hi _].
  pose proof (law_pos _ _ _ _ Hlaw _ Hi) as Hp.
  unfold ctr_read. rewrite (law_tell _ _ _ _ Hlaw _ Hi).
  destruct (law_read _ _ _ _ Hlaw (cu io) n Hi) as (data & u' & -> & Hi' & Hdata & Hlen & Hc' & Hp').
  cbn [bind].
  destruct (cipher_at_ok io false Hio) as (c & -> & Hk & Hd & Hal). cbn [bind].
  pose proof (len_nonneg data) as Hld.
  destruct Hal as [Hal|[Hext Hfull]].
  - destruct (crypt_aligned c false data _ Hk Hd Hal) as (c' & -> & Hk' & Hd' & Hal'). cbn [bind].
    do 2 eexists. split; [reflexivity|].
    rewrite len_xor_ks. split; [|split; [|split; [|split]]]; auto.
    + split; [exact Hi'|]. cbn [ccache cu cenc]. rewrite Hp'. auto.
    + rewrite slice_dec by lia. now rewrite <- Hdata.
  - (* at or past the end of a non-growing file: nothing is read, alignment is irrelevant *)
    assert (Hz : len data = 0) by (rewrite Hlen; unfold read_count; destruct (n <? 0) eqn:?; lia).
    assert (data = []) as -> by (destruct data; [reflexivity|rewrite len_cons in Hz; pose proof (len_nonneg data); lia]).
    destruct (crypt_any c false [] Hd) as (out & c' & -> & Hlo & Hk' & Hd' & _ & _). cbn [bind].
    rewrite len_nil in Hlo.
    assert (out = []) as -> by (destruct out; [reflexivity|rewrite len_cons in Hlo; pose proof (len_nonneg out); lia]).
    do 2 eexists. split; [reflexivity|]. rewrite len_nil in *.
    split; [|split; [|split; [|split]]]; auto; try (now rewrite slice_0).
    + split; [exact Hi'|]. cbn [ccache cu cenc]. rewrite Hc', Hp', Z.add_0_r.
      split; [congruence|]. auto.
Qed.

(* decrypting an overlay of ciphertext = overlaying the plaintext, when no gap is created *)
Lemma dec_overlay C p d :
  0 <= p <= len C ->
  dec (overlay 0 C p (xk counter p d)) = overlay 0 (dec C) p d.
Proof.
  intros Hp. destruct d as [|x d]; [reflexivity|].
  assert (Hne1 : xk counter p (x :: d) <> []) by (cbn [xor_ks]; congruence).
  assert (Hne2 : x :: d <> []) by congruence.
  apply list_ext. intros i. unfold stream_dec.
  rewrite nth_error_xor_ks, !nth_error_overlay by assumption. cbv zeta.
  rewrite length_xor_ks, !nth_error_xor_ks, length_xor_ks.
  unfold len in Hp.
  destruct (Nat.ltb_spec i (Z.to_nat p)).
  - destruct (Nat.ltb_spec i (length C)); [reflexivity|lia].
  - destruct (Nat.ltb_spec i (Z.to_nat p + length (x :: d))); [|reflexivity].
    destruct (nth_error (x :: d) (i - Z.to_nat p)) as [b|]; cbn [option_map]; [|reflexivity].
    f_equal. replace (p + Z.of_nat (i - Z.to_nat p)) with (0 + Z.of_nat i) by lia.
    apply lxor_cancel.
Qed.

Lemma take_xor_ks c0 s d k : 0 <= k -> take (xk c0 s d) k = xk c0 s (take d k).
Proof.
  intros Hk. rewrite ?take_raw; unfold take0. remember (Z.to_nat k) as n. clear Heqn Hk. revert s d.
  induction n as [|n IH]; intros s [|x d]; cbn [firstn xor_ks]; auto. now rewrite IH.
Qed.

(* ---- C12: a write keeps file = encryption of the logical plaintext ---- *)
Theorem ctr_write_ok io d :
  io_inv io ->
  exists k io', ctr_write E U key counter io d = Ok (k, io') /\ io_inv io' /\
    k = (if extends then len d else Z.min (len d) (Z.max 0 (len (content (cu io)) - pos (cu io)))) /\
    pos (cu io') = pos (cu io) + k /\
    (* bytes outside [pos, pos+k) keep their ciphertext *)
    (exists ct, len ct = len d /\ content (cu io') = overlay 0 (content (cu io)) (pos (cu io)) (take ct k)) /\
    (* the logical plaintext is updated like an ordinary file (when the write does not start beyond the end) *)
    (pos (cu io) <= len (content (cu io)) ->
       dec (content (cu io')) = overlay 0 (dec (content (cu io))) (pos (cu io)) (take d k)).
Proof.
  intros Hio. pose proof Hio as [Hi _].
  pose proof (law_pos _ _ _ _ Hlaw _ Hi) as Hp.
  unfold ctr_write. rewrite (law_tell _ _ _ _ Hlaw _ Hi).
  destruct (cipher_at_ok io true Hio) as (c & -> & Hk & Hd & Hal). cbn [bind].
  pose proof (len_nonneg d) as Hld. pose proof (len_nonneg (content (cu io))) as HlC.
  destruct Hal as [Hal|[Hext Hfull]].
  - destruct (crypt_aligned c true d _ Hk Hd Hal) as (c' & -> & Hk' & Hd' & Hal'). cbn [bind].
    destruct (law_write (cu io) (xk counter (pos (cu io)) d) Hi) as (k & u' & -> & Hi' & Hkv & Hc' & Hp').
    cbn [bind]. rewrite len_xor_ks in Hkv.
    assert (Hk0 : 0 <= k <= len d) by (rewrite Hkv; destruct extends; lia).
    do 2 eexists. split; [reflexivity|]. cbn [cu].
    split; [|split; [|split; [|split]]]; auto.
    + split; [exact Hi'|]. cbn [ccache cu cenc]. split; [exact Hk'|]. split; [exact Hd'|].
      destruct (Z.eq_dec k (len d)) as [->|Hne]; [left; now rewrite Hp'|].
      right. destruct extends; [lia|]. split; [reflexivity|].
      rewrite Hc', Hp'. rewrite take_xor_ks by lia.
      destruct (take d k) as [|y t] eqn:Et.
      * cbn [xor_ks overlay]. assert (len (take d k) = 0) by (rewrite Et; apply len_nil).
        rewrite len_take in H by lia. lia.
      * rewrite len_overlay by (cbn [xor_ks]; try congruence; lia).
        rewrite len_xor_ks. rewrite <- Et. rewrite len_take by lia. lia.
    + exists (xk counter (pos (cu io)) d). rewrite len_xor_ks. auto.
    + intros Hle. rewrite Hc'. rewrite take_xor_ks by lia. apply dec_overlay. lia.
  - (* stuck at the end of a non-growing file: nothing is stored *)
    destruct (crypt_any c true d Hd) as (ct & c' & -> & Hlct & Hk' & Hd' & _ & _). cbn [bind].
    destruct (law_write (cu io) ct Hi) as (k & u' & -> & Hi' & Hkv & Hc' & Hp').
    cbn [bind]. rewrite Hext, Hlct in Hkv. rewrite Hext.
    assert (k = 0) as -> by lia.
    do 2 eexists. split; [reflexivity|]. cbn [cu].
    assert (Hsame : content u' = content (cu io)) by (rewrite Hc', take_0; reflexivity).
    split; [|split; [|split; [|split]]]; auto.
    + split; [exact Hi'|]. cbn [ccache cu cenc]. rewrite Hk', Hsame, Hp'. split; [exact Hk|].
      split; [exact Hd'|]. right. split; [exact Hext|lia].
    + exists ct. split; [exact Hlct|]. rewrite Hc'. reflexivity.
    + intros _. rewrite Hsame, take_0. reflexivity.
Qed.

Theorem ctr_seek_ok io o w :
  io_inv io ->
  match ctr_seek U io o w with
  | Ok (p, io') => io_inv io' /\ content (cu io') = content (cu io) /\ pos (cu io') = p
  | Err _ => True
  end.
Proof.
  intros [Hi _]. unfold ctr_seek. pose proof (law_seek _ _ _ _ Hlaw (cu io) o w Hi) as L.
  destruct (f_seek U (cu io) o w) as [[p u']|e]; cbn [bind]; [|exact I].
  destruct L as (Hi' & Hc & Hp). cbn [cu]. repeat split; auto.
Qed.

(* ---- every history of seek/read/write/tell ---- *)
Definition cstep_contract (io : ctrio) (o : cop) (r : cres) (io' : ctrio) : Prop :=
  let C := content (cu io) in
  let p := pos (cu io) in
  match o, r with
  | CRead n, CBytes out =>
      out = slice (dec C) p (len out) /\ len out = read_count (len C) p n /\
      content (cu io') = C /\ pos (cu io') = p + len out
  | CWrite d, CInt k =>
      k = (if extends then len d else Z.min (len d) (Z.max 0 (len C - p))) /\
      pos (cu io') = p + k /\
      (exists ct, len ct = len d /\ content (cu io') = overlay 0 C p (take ct k)) /\
      (p <= len C -> dec (content (cu io')) = overlay 0 (dec C) p (take d k))
  | CSeek _ _, CInt q => content (cu io') = C /\ pos (cu io') = q
  | CSeek o w, CErr e => f_seek U (cu io) o w = Err e /\ cu io' = cu io   (* only the underlying file's own refusal *)
  | CTell, CInt q => q = p /\ io' = io
  | _, _ => False      (* in particular: no read or write ever raises *)
  end.

Lemma cstep_ok io o :
  io_inv io ->
  let '(r, io') := ctr_step E U key counter false io o in
  cstep_contract io o r io' /\ io_inv io'.
Proof.
  intros Hio. destruct o as [n|o w|d|]; cbn [ctr_step].
  - destruct (ctr_read_ok io n Hio) as (out & io' & -> & Hi' & H1 & H2 & H3 & H4).
    cbn [cstep_contract]. auto.
  - pose proof (ctr_seek_ok io o w Hio) as L. unfold ctr_seek in *.
    destruct (f_seek U (cu io) o w) as [[p u']|e] eqn:Es; cbn [bind] in *.
    + destruct L as (? & ? & ?). cbn [cstep_contract]. auto.
    + cbn [cstep_contract cu]. split; [auto|]. destruct Hio as [Hi _]. split; [exact Hi|exact I].
  - destruct (ctr_write_ok io d Hio) as (k & io' & -> & Hi' & H1 & H2 & H3 & H4).
    cbn [cstep_contract]. auto.
  - cbn [cstep_contract]. destruct Hio as [Hi ?]. rewrite (law_tell _ _ _ _ Hlaw _ Hi). split; [auto|split; auto].
Qed.

Fixpoint call_steps_ok (io : ctrio) (ops : list cop) : Prop :=
  match ops with
  | [] => True
  | o :: r => let '(x, io') := ctr_step E U key counter false io o in
              cstep_contract io o x io' /\ call_steps_ok io' r
  end.

Theorem ctr_history_ok io ops : io_inv io -> call_steps_ok io ops.
Proof.
  revert io; induction ops as [|o r IH]; intros io Hio; [exact I|].
  cbn [call_steps_ok]. pose proof (cstep_ok io o Hio) as H.
  destruct (ctr_step E U key counter false io o) as [x io']. destruct H as [Hc Hi]. split; [exact Hc|now apply IH].
Qed.

End P.
