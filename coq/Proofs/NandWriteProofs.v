(* C13: data written through a partition view is re-encrypted in place: the decrypted image changes exactly in the written range,
   which lies inside the partition; the raw image changes nowhere else. *)
From Coq Require Import Lia.
From Pyctr Require Import Base.Prelude Base.ListExt Base.PyInt Base.PySlice Env.PyFile Env.FileIface Spec.StreamCipher Env.Cipher Model.CtrIO
  Model.NandWrite Proofs.CtrProofs Proofs.TwlProofs Proofs.WrapInstances Proofs.NandProofs.

Section W.
Variable E : list Z -> list Z -> list Z.
Context {S : Type} (U : fileops S).
Variables (inv : S -> Prop) (content : S -> list Z) (pos : S -> Z).
Hypothesis Hlaw : lawful U inv content pos.
Hypothesis HabsU : forall s o, inv s -> 0 <= o -> exists s', f_seek U s o 0 = Ok (o, s').
Variable extends : bool.
Hypothesis law_write : forall s d, inv s ->
  exists k s', f_write U s d = Ok (k, s') /\ inv s' /\
    k = (if extends then len d else Z.min (len d) (Z.max 0 (len (content s) - pos s))) /\
    content s' = overlay 0 (content s) (pos s) (take d k) /\ pos s' = pos s + k.
Variables (key : list Z) (counter : Z).

Lemma clip_len (d : list Z) size sk : 0 <= sk <= size ->
  let d' := if sk + len d >? size then take d (len d - (sk + len d - size)) else d in
  d' = take d (Z.min (len d) (size - sk)) /\ len d' = Z.min (len d) (size - sk).
Proof.
  intros H d'. pose proof (len_nonneg d). unfold d'. destruct (sk + len d >? size) eqn:Hc.
  - replace (len d - (sk + len d - size)) with (size - sk) by lia. rewrite Z.min_r by lia. split; [reflexivity|]. rewrite len_take by lia. lia.
  - rewrite Z.min_l by lia. rewrite take_all. auto.
Qed.

(* 3DS-mode base file: ctr_old, ctr_new, firm, agb *)
Theorem ctr_partition_write off size sk io d :
  io_inv inv content pos extends key counter io -> 0 <= off -> 0 <= sk <= size -> off + size <= len (content (cu io)) ->
  exists k io', sub_write (ctr_ops E U key counter) off size sk io d = Ok (k, io') /\
    io_inv inv content pos extends key counter io' /\
    k = Z.min (len d) (size - sk) /\
    stream_dec E false key counter (content (cu io')) = overlay 0 (stream_dec E false key counter (content (cu io))) (off + sk) (take d k) /\
    (exists ct, len ct = k /\ content (cu io') = overlay 0 (content (cu io)) (off + sk) ct).
Proof.
  intros Hio Hoff Hsk Hin. unfold sub_write.
  destruct (sk >? size) eqn:Hpast; [lia|].
  destruct (clip_len d size sk Hsk) as [Ed Ld]. cbv zeta in Ed, Ld.
  set (d' := if sk + len d >? size then take d (len d - (sk + len d - size)) else d) in *.
  destruct (ctr_abs_seek U inv content pos Hlaw HabsU (fun _ => True) io (sk + off) (proj1 Hio) ltac:(lia)) as (io1 & A & B & C & D0 & F).
  cbn [ctr_ops f_seek f_write]. rewrite A. cbn [bind].
  assert (H1 : io_inv inv content pos extends key counter io1) by (split; [exact B|rewrite F; exact I]).
  destruct (ctr_write_ok E U inv content pos Hlaw extends law_write key counter io1 d' H1) as (k & io' & -> & Hi' & Hk & Hp & (ct & Lct & Hct) & Hdec).
  rewrite C, D0 in *. pose proof (len_nonneg d).
  assert (Ek : k = len d').
  { rewrite Hk. destruct extends; [reflexivity|]. rewrite Ld. lia. }
  exists k, io'. split; [reflexivity|]. split; [exact Hi'|]. split; [lia|]. split.
  - rewrite Hdec by lia. rewrite Ek, take_all, Ld, Ed. f_equal; lia.
  - exists (take ct k). split; [rewrite len_take by lia; lia|]. rewrite Hct. f_equal. lia.
Qed.

(* DSi-mode base file: twl *)
Theorem twl_partition_write off size sk io d :
  inv (cu io) -> 0 <= off -> 0 <= sk <= size -> off + size <= len (content (cu io)) ->
  exists k io', sub_write (twl_ops E U key counter) off size sk io d = Ok (k, io') /\
    inv (cu io') /\
    k = Z.min (len d) (size - sk) /\
    stream_dec E true key counter (content (cu io')) = overlay 0 (stream_dec E true key counter (content (cu io))) (off + sk) (take d k) /\
    (exists ct, len ct = k /\ content (cu io') = overlay 0 (content (cu io)) (off + sk) ct).
Proof.
  intros Hio Hoff Hsk Hin. unfold sub_write.
  destruct (sk >? size) eqn:Hpast; [lia|].
  destruct (clip_len d size sk Hsk) as [Ed Ld]. cbv zeta in Ed, Ld.
  set (d' := if sk + len d >? size then take d (len d - (sk + len d - size)) else d) in *.
  destruct (ctr_abs_seek U inv content pos Hlaw HabsU (fun _ => True) io (sk + off) Hio ltac:(lia)) as (io1 & A & B & C & D0 & F).
  cbn [twl_ops f_seek f_write]. rewrite A. cbn [bind].
  destruct (twl_write_ok E U inv content pos Hlaw key counter extends law_write io1 d' B) as (k & io' & -> & Hi' & Hk & Hp & (ct & Lct & Hct) & Hdec).
  rewrite C, D0 in *. pose proof (len_nonneg d).
  assert (Ek : k = len d').
  { rewrite Hk. destruct extends; [reflexivity|]. rewrite Ld. lia. }
  exists k, io'. split; [reflexivity|]. split; [exact Hi'|]. split; [lia|]. split.
  - rewrite Hdec by lia. rewrite Ek, take_all, Ld, Ed. f_equal; lia.
  - exists (take ct k). split; [rewrite len_take by lia; lia|]. rewrite Hct. f_equal. lia.
Qed.

(* read back through the same view: the partition's plaintext is the old one with the data laid over it *)
Corollary ctr_partition_readback off size sk io d :
  io_inv inv content pos extends key counter io -> 0 <= off -> 0 <= sk <= size -> off + size <= len (content (cu io)) ->
  exists k io', sub_write (ctr_ops E U key counter) off size sk io d = Ok (k, io') /\
    slice (stream_dec E false key counter (content (cu io'))) off size
    = overlay 0 (slice (stream_dec E false key counter (content (cu io))) off size) sk (take d k).
Proof.
  intros Hio Hoff Hsk Hin. destruct (ctr_partition_write off size sk io d Hio Hoff Hsk Hin) as (k & io' & H1 & _ & Hk & Hdec & _).
  exists k, io'. split; [exact H1|]. rewrite Hdec.
  pose proof (len_nonneg d). assert (Lk : len (take d k) = k) by (rewrite len_take by lia; lia).
  destruct (take d k) as [|x t] eqn:Et; [cbn [overlay]; reflexivity|].
  assert (Hne : x :: t <> []) by congruence.
  apply list_ext. intros i. rewrite nth_error_slice by lia. rewrite !nth_error_overlay by exact Hne. cbv zeta.
  rewrite nth_error_slice by lia. rewrite length_slice. rewrite <- (len_dec E key counter false) in Hin.
  set (P := stream_dec E false key counter (content (cu io))) in *. unfold len in *.
  destruct (Z.ltb_spec (Z.of_nat i) size).
  - destruct (Nat.ltb_spec (Z.to_nat off + i) (Z.to_nat (off + sk))); destruct (Nat.ltb_spec i (Z.to_nat sk)); try lia.
    + destruct (Nat.ltb_spec (Z.to_nat off + i) (length P)); [|lia].
      destruct (Nat.ltb_spec i (Nat.min (Z.to_nat size) (length P - Z.to_nat off))); [reflexivity|lia].
    + destruct (Nat.ltb_spec (Z.to_nat off + i) (Z.to_nat (off + sk) + length (x :: t)));
        destruct (Nat.ltb_spec i (Z.to_nat sk + length (x :: t))); try lia.
      * f_equal. lia.
      * reflexivity.
  - destruct (Nat.ltb_spec i (Z.to_nat sk)); [lia|].
    destruct (Nat.ltb_spec i (Z.to_nat sk + length (x :: t))); [lia|]. reflexivity.
Qed.
End W.
