(* C20: round trips of the hand-modelled codecs. *)
From Coq Require Import Lia.
From Pyctr Require Import Base.Prelude Base.ListExt Base.PyInt Base.PySlice Base.Fields Model.Codecs.

(* ---------------------------------------------------------------------------------------------------------------- levels *)
Definition level_ok (l : level) : Prop := 0 <= l_off l < 2 ^ 64 /\ 0 <= l_size l < 2 ^ 64 /\ 0 <= l_log2 l < 64.

Lemma len_level_bytes l : len (level_bytes l) = 0x18.
Proof. unfold level_bytes. rewrite !len_app, !len_le_encode. reflexivity. Qed.

Lemma slice_full' {A} (l : list A) n : len l = n -> slice l 0 n = l.
Proof. intros <-. apply slice_all. Qed.

Lemma level_parse_bytes l : level_ok l -> level_parse (level_bytes l) = l.
Proof.
  intros (Ho & Hs & Hl). unfold level_parse, level_bytes. destruct l as [o s g]. cbn [l_off l_size l_log2] in *.
  assert (S1 : slice (le_encode 8 o ++ le_encode 8 s ++ le_encode 4 g ++ repeat 0 4) 0 8 = le_encode 8 o).
  { rewrite slice_app_l by (rewrite ?len_le_encode; lia). apply slice_full'. apply len_le_encode. }
  assert (S2 : slice (le_encode 8 o ++ le_encode 8 s ++ le_encode 4 g ++ repeat 0 4) 8 8 = le_encode 8 s).
  { rewrite slice_app_r by (rewrite ?len_le_encode; lia). rewrite len_le_encode. replace (8 - Z.of_nat 8) with 0 by lia.
    rewrite slice_app_l by (rewrite ?len_le_encode; lia). apply slice_full'. apply len_le_encode. }
  assert (S3 : slice (le_encode 8 o ++ le_encode 8 s ++ le_encode 4 g ++ repeat 0 4) 16 4 = le_encode 4 g).
  { rewrite slice_app_r by (rewrite ?len_le_encode; lia). rewrite len_le_encode. replace (16 - Z.of_nat 8) with 8 by lia.
    rewrite slice_app_r by (rewrite ?len_le_encode; lia). rewrite len_le_encode. replace (8 - Z.of_nat 8) with 0 by lia.
    rewrite slice_app_l by (rewrite ?len_le_encode; lia). apply slice_full'. apply len_le_encode. }
  rewrite S1, S2, S3. rewrite !le_decode_encode_id; try (change (256 ^ Z.of_nat 8) with (2 ^ 64); lia); try (change (256 ^ Z.of_nat 4) with (2 ^ 32); lia).
  reflexivity.
Qed.

Lemma split_at {A} (l : list A) k : 0 <= k <= len l -> l = slice l 0 k ++ slice l k (len l - k).
Proof.
  intros H. rewrite <- (slice_all l) at 1. replace (len l) with (k + (len l - k)) at 1 by lia. rewrite slice_app_split by lia. reflexivity.
Qed.

Lemma level_bytes_parse raw : len raw = 0x18 -> bytes_ok raw -> slice raw 20 4 = repeat 0 4 -> level_bytes (level_parse raw) = raw.
Proof.
  intros L B Z0. unfold level_bytes, level_parse. cbn [l_off l_size l_log2].
  assert (E8 : forall a, 0 <= a -> a + 8 <= 0x18 -> le_encode 8 (le_decode (slice raw a 8)) = slice raw a 8).
  { intros a Ha Hb. assert (Hl : length (slice raw a 8) = 8%nat) by (rewrite length_slice; unfold len in L; lia).
    rewrite <- Hl at 1. apply le_encode_decode. apply bytes_ok_slice. exact B. }
  assert (E4 : le_encode 4 (le_decode (slice raw 16 4)) = slice raw 16 4).
  { assert (Hl : length (slice raw 16 4) = 4%nat) by (rewrite length_slice; unfold len in L; lia).
    rewrite <- Hl at 1. apply le_encode_decode. apply bytes_ok_slice. exact B. }
  rewrite (E8 0), (E8 8), E4, <- Z0 by lia.
  assert (A1 : slice raw 0 24 = slice raw 0 8 ++ slice raw 8 16) by (change 24 with (8 + 16); apply slice_app_split; lia).
  assert (A2 : slice raw 8 16 = slice raw 8 8 ++ slice raw 16 8) by (change 16 with (8 + 8) at 2; change 16 with (8 + 8) at 1; apply slice_app_split; lia).
  assert (A3 : slice raw 16 8 = slice raw 16 4 ++ slice raw 20 4) by (change 8 with (4 + 4); change 20 with (16 + 4); apply slice_app_split; lia).
  rewrite <- A3, <- A2, <- A1. apply slice_full'. exact L.
Qed.

(* ------------------------------------------------------------------------------------------------------------------ IVFC *)
Definition ivfc_ok (v : ivfc) : Prop :=
  0 <= iv_mhs v < 2 ^ 64 /\ 0 <= iv_dsize v < 2 ^ 64 /\ length (iv_levels v) = 4%nat /\ Forall level_ok (iv_levels v).

Lemma list_eqb_refl l : list_eqb l l = true.
Proof. apply list_eqb_spec. reflexivity. Qed.

Lemma slice_levels (pre : list Z) (ls : list level) (post : list Z) (i : nat) l :
  nth_error ls i = Some l -> slice (pre ++ flat_map level_bytes ls ++ post) (len pre + Z.of_nat i * 0x18) 0x18 = level_bytes l.
Proof.
  intros H. pose proof (len_nonneg pre). rewrite slice_app_r by lia. replace (len pre + Z.of_nat i * 24 - len pre) with (Z.of_nat i * 24) by lia.
  revert i H. induction ls as [|x r IH]; intros [|i] H; cbn in H; try discriminate.
  - inversion H; subst. cbn [flat_map]. rewrite <- app_assoc. rewrite slice_app_l by (rewrite ?len_level_bytes; lia).
    apply slice_full'. apply len_level_bytes.
  - cbn [flat_map]. rewrite <- app_assoc. rewrite slice_app_r by (rewrite ?len_level_bytes; lia). rewrite len_level_bytes.
    replace (Z.of_nat (S i) * 24 - 24) with (Z.of_nat i * 24) by lia. apply IH. exact H.
Qed.

Lemma len_flat_levels ls : len (flat_map level_bytes ls) = 0x18 * len ls.
Proof. induction ls as [|x r IH]; [reflexivity|]. cbn [flat_map]. rewrite len_app, len_level_bytes, IH, len_cons. lia. Qed.

Theorem ivfc_parse_of_bytes v : ivfc_ok v -> ivfc_from_bytes (ivfc_to_bytes v) = Ok v.
Proof.
  intros (Hm & Hd & Hn & Hl). destruct v as [mhs ls ds]. cbn [iv_mhs iv_levels iv_dsize] in *.
  destruct ls as [|l0 [|l1 [|l2 [|l3 [|]]]]]; try discriminate.
  inversion Hl as [|? ? K0 Hl1]; inversion Hl1 as [|? ? K1 Hl2]; inversion Hl2 as [|? ? K2 Hl3]; inversion Hl3 as [|? ? K3 _]; subst.
  unfold ivfc_from_bytes, ivfc_to_bytes. cbn [iv_mhs iv_levels iv_dsize].
  set (ls := [l0; l1; l2; l3]).
  set (b := IVFC_MAGIC ++ le_encode 8 mhs ++ flat_map level_bytes ls ++ le_encode 8 ds).
  assert (Lb : len b = 0x78).
  { unfold b. rewrite !len_app, !len_le_encode, len_flat_levels. reflexivity. }
  assert (S0 : slice b 0 8 = IVFC_MAGIC) by (unfold b; rewrite slice_app_l by (cbn; lia); reflexivity).
  assert (S1 : slice b 8 8 = le_encode 8 mhs).
  { unfold b. rewrite slice_app_r by (cbn; lia). change (8 - len IVFC_MAGIC) with 0. rewrite slice_app_l by (rewrite ?len_le_encode; lia).
    apply slice_full'. apply len_le_encode. }
  assert (SL : forall i l, nth_error ls i = Some l -> slice b (0x10 + Z.of_nat i * 0x18) 0x18 = level_bytes l).
  { intros i l H. unfold b. rewrite app_assoc. pose proof (slice_levels (IVFC_MAGIC ++ le_encode 8 mhs) ls (le_encode 8 ds) i l H) as P.
    rewrite len_app, len_le_encode in P. exact P. }
  assert (S5 : slice b 0x70 8 = le_encode 8 ds).
  { unfold b. rewrite slice_app_r by (cbn; lia). change (112 - len IVFC_MAGIC) with 104.
    rewrite slice_app_r by (rewrite ?len_le_encode; lia). rewrite len_le_encode. replace (104 - Z.of_nat 8) with 96 by lia.
    rewrite slice_app_r by (rewrite ?len_flat_levels; cbn; lia). rewrite len_flat_levels. change (96 - 24 * len ls) with 0.
    apply slice_full'. apply len_le_encode. }
  rewrite S0, list_eqb_refl, Lb. cbn [negb Z.eqb Pos.eqb]. cbn [map].
  change (16 + 0 * 24) with (16 + Z.of_nat 0 * 24). change (16 + 1 * 24) with (16 + Z.of_nat 1 * 24).
  change (16 + 2 * 24) with (16 + Z.of_nat 2 * 24). change (16 + 3 * 24) with (16 + Z.of_nat 3 * 24).
  rewrite (SL 0%nat l0), (SL 1%nat l1), (SL 2%nat l2), (SL 3%nat l3) by reflexivity.
  rewrite !level_parse_bytes by assumption. rewrite S1, S5.
  rewrite !le_decode_encode_id by (change (256 ^ Z.of_nat 8) with (2 ^ 64); lia).
  destruct K0 as (_ & _ & G0), K1 as (_ & _ & G1), K2 as (_ & _ & G2), K3 as (_ & _ & G3).
  cbn [existsb]. destruct (64 <=? l_log2 l0) eqn:?; [lia|]. destruct (64 <=? l_log2 l1) eqn:?; [lia|].
  destruct (64 <=? l_log2 l2) eqn:?; [lia|]. destruct (64 <=? l_log2 l3) eqn:?; [lia|]. reflexivity.
Qed.

(* ------------------------------------------------------------------------------------------------------------------ DPFS *)
Definition dpfs_ok (v : dpfs) : Prop := length (dp_levels v) = 3%nat /\ Forall level_ok (dp_levels v).

Theorem dpfs_parse_of_bytes v : dpfs_ok v -> dpfs_from_bytes (dpfs_to_bytes v) = Ok v.
Proof.
  intros (Hn & Hl). destruct v as [ls]. cbn [dp_levels] in *.
  destruct ls as [|l0 [|l1 [|l2 [|]]]]; try discriminate.
  inversion Hl as [|? ? K0 Hl1]; inversion Hl1 as [|? ? K1 Hl2]; inversion Hl2 as [|? ? K2 _]; subst.
  unfold dpfs_from_bytes, dpfs_to_bytes. cbn [dp_levels].
  set (ls := [l0; l1; l2]). set (b := DPFS_MAGIC ++ flat_map level_bytes ls).
  assert (Lb : len b = 0x50) by (unfold b; rewrite len_app, len_flat_levels; reflexivity).
  assert (S0 : slice b 0 8 = DPFS_MAGIC) by (unfold b; rewrite slice_app_l by (cbn; lia); reflexivity).
  assert (SL : forall i l, nth_error ls i = Some l -> slice b (0x8 + Z.of_nat i * 0x18) 0x18 = level_bytes l).
  { intros i l H. unfold b. pose proof (slice_levels DPFS_MAGIC ls [] i l H) as P. rewrite app_nil_r in P. exact P. }
  rewrite S0, list_eqb_refl, Lb. cbn [negb Z.eqb Pos.eqb]. cbn [map].
  change (8 + 0 * 24) with (8 + Z.of_nat 0 * 24). change (8 + 1 * 24) with (8 + Z.of_nat 1 * 24). change (8 + 2 * 24) with (8 + Z.of_nat 2 * 24).
  rewrite (SL 0%nat l0), (SL 1%nat l1), (SL 2%nat l2) by reflexivity.
  rewrite !level_parse_bytes by assumption.
  destruct K0 as (_ & _ & G0), K1 as (_ & _ & G1), K2 as (_ & _ & G2).
  cbn [existsb]. destruct (64 <=? l_log2 l0) eqn:?; [lia|]. destruct (64 <=? l_log2 l1) eqn:?; [lia|]. destruct (64 <=? l_log2 l2) eqn:?; [lia|]. reflexivity.
Qed.

(* -------------------------------------------------------------------------------------------------------------- seed DB *)
Definition entry_ok (e : Z * list Z) : Prop := 0 <= fst e < 2 ^ 64 /\ len (snd e) = 16.

Lemma len_seed_entry e : entry_ok e -> len (seed_entry e) = 0x20.
Proof. intros [_ H]. unfold seed_entry. rewrite !len_app, len_le_encode, H. reflexivity. Qed.

Lemma seed_entry_fields e : entry_ok e ->
  le_decode (slice (seed_entry e) 0 8) = fst e /\ slice (seed_entry e) 8 16 = snd e.
Proof.
  intros [Hk Hs]. unfold seed_entry. split.
  - rewrite slice_app_l by (rewrite ?len_le_encode; lia). rewrite (slice_full' _ 8) by apply len_le_encode.
    apply le_decode_encode_id. change (256 ^ Z.of_nat 8) with (2 ^ 64). lia.
  - rewrite slice_app_r by (rewrite ?len_le_encode; lia). rewrite len_le_encode. replace (8 - Z.of_nat 8) with 0 by lia.
    rewrite slice_app_l by lia. apply slice_full'. exact Hs.
Qed.

Fixpoint keys_fresh (d : seeddb) (es : seeddb) : Prop :=
  match es with [] => True | e :: r => ~ In (fst e) (map fst d) /\ keys_fresh (d ++ [e]) r end.

Lemma dict_set_fresh d k v : ~ In k (map fst d) -> dict_set d k v = d ++ [(k, v)].
Proof.
  induction d as [|[k' v'] r IH]; intros H; [reflexivity|]. cbn [dict_set]. cbn [map fst In] in H.
  destruct (Z.eqb_spec k' k) as [->|Hn]; [exfalso; apply H; left; reflexivity|]. cbn [app]. f_equal. apply IH. intros Hin. apply H. right. exact Hin.
Qed.

Lemma load_entries_ok es : forall d n, Forall entry_ok es -> keys_fresh d es -> (n = length es)%nat ->
  load_entries (flat_map seed_entry es) n d = d ++ es.
Proof.
  induction es as [|e r IH]; intros d n Hok Hf Hn; subst n; cbn [length load_entries flat_map]; [now rewrite app_nil_r|].
  inversion Hok as [|? ? He Hr]; subst. destruct Hf as [Hfresh Hf'].
  pose proof (len_seed_entry e He) as Le.
  assert (S0 : slice (seed_entry e ++ flat_map seed_entry r) 0 32 = seed_entry e).
  { rewrite slice_app_l by lia. apply slice_full'. exact Le. }
  rewrite S0, Le. cbn [Z.ltb Z.compare Pos.compare Pos.compare_cont].
  destruct (seed_entry_fields e He) as [F1 F2]. rewrite F1, F2.
  assert (D0 : drop (seed_entry e ++ flat_map seed_entry r) 32 = flat_map seed_entry r).
  { rewrite drop_raw. unfold drop0. unfold len in Le. rewrite skipn_app. replace (Z.to_nat 32 - length (seed_entry e))%nat with 0%nat by lia.
    rewrite skipn_all2 by lia. reflexivity. }
  rewrite D0. rewrite dict_set_fresh by exact Hfresh. destruct e as [k v]. cbn [fst snd].
  rewrite (IH (d ++ [(k, v)]) (length r) Hr Hf' eq_refl). rewrite <- app_assoc. reflexivity.
Qed.

(* load(save(db)) = db, for a database (keys unique, ids 64-bit, 16-byte seeds, fewer than 2^32 entries) loaded into an empty one *)
Theorem seeddb_roundtrip db : Forall entry_ok db -> keys_fresh [] db -> len db < 2 ^ 32 -> seeddb_load (seeddb_save db) [] = db.
Proof.
  intros Hok Hf Hn. unfold seeddb_load, seeddb_save.
  assert (S0 : slice (le_encode 4 (len db) ++ repeat 0 12 ++ flat_map seed_entry db) 0 4 = le_encode 4 (len db)).
  { rewrite slice_app_l by (rewrite ?len_le_encode; lia). apply slice_full'. apply len_le_encode. }
  rewrite S0. rewrite le_decode_encode_id by (change (256 ^ Z.of_nat 4) with (2 ^ 32); pose proof (len_nonneg db); lia).
  assert (D0 : drop (le_encode 4 (len db) ++ repeat 0 12 ++ flat_map seed_entry db) 16 = flat_map seed_entry db).
  { rewrite drop_raw. unfold drop0. rewrite app_assoc. rewrite skipn_app.
    assert (L : length (le_encode 4 (len db) ++ repeat 0 12) = 16%nat) by (rewrite app_length, length_le_encode, repeat_length; reflexivity).
    rewrite L. rewrite skipn_all2 by lia. replace (Z.to_nat 16 - 16)%nat with 0%nat by lia. reflexivity. }
  rewrite D0. unfold len. rewrite Nat2Z.id. apply (load_entries_ok db [] (length db) Hok Hf eq_refl).
Qed.

(* ---- the other direction: serialising a parsed canonical image (reserved words zero) gives the image back ---- *)
Lemma le8_back raw a : bytes_ok raw -> 0 <= a -> a + 8 <= len raw -> le_encode 8 (le_decode (slice raw a 8)) = slice raw a 8.
Proof.
  intros B Ha Hb. assert (Hl : length (slice raw a 8) = 8%nat) by (rewrite length_slice; unfold len in Hb; lia).
  rewrite <- Hl at 1. apply le_encode_decode. apply bytes_ok_slice. exact B.
Qed.

Lemma level_slice_back b a : bytes_ok b -> 0 <= a -> a + 0x18 <= len b -> slice b (a + 20) 4 = repeat 0 4 ->
  level_bytes (level_parse (slice b a 0x18)) = slice b a 0x18.
Proof.
  intros B Ha Hb Z0. apply level_bytes_parse.
  - rewrite len_slice by lia. lia.
  - apply bytes_ok_slice. exact B.
  - rewrite slice_slice by lia. replace (Z.min 4 (24 - 20)) with 4 by lia. exact Z0.
Qed.

Theorem ivfc_bytes_of_parse b v : bytes_ok b -> ivfc_from_bytes b = Ok v ->
  (forall i, In i [0; 1; 2; 3] -> slice b (0x10 + i * 0x18 + 20) 4 = repeat 0 4) -> ivfc_to_bytes v = b.
Proof.
  intros B H Hz. unfold ivfc_from_bytes in H.
  destruct (list_eqb (slice b 0 8) IVFC_MAGIC) eqn:Em; [|discriminate]. cbn [negb] in H.
  destruct (len b =? 120) eqn:El; [|discriminate]. cbn [negb] in H.
  destruct (existsb _ _); [discriminate|]. inversion H; subst v; clear H.
  apply list_eqb_spec in Em. apply Z.eqb_eq in El.
  unfold ivfc_to_bytes. cbn [iv_mhs iv_levels iv_dsize map flat_map]. rewrite app_nil_r.
  rewrite <- Em. rewrite (le8_back b 8), (le8_back b 112) by (auto; lia).
  pose proof (Hz 0 ltac:(cbn; auto)) as Z0. pose proof (Hz 1 ltac:(cbn; auto)) as Z1. pose proof (Hz 2 ltac:(cbn; auto)) as Z2. pose proof (Hz 3 ltac:(cbn; auto)) as Z3.
  rewrite (level_slice_back b 16), (level_slice_back b 40), (level_slice_back b 64), (level_slice_back b 88) by (auto; lia).
  assert (A : forall a n m, 0 <= a -> 0 <= n -> 0 <= m -> slice b a n ++ slice b (a + n) m = slice b a (n + m)) by (intros; symmetry; apply slice_app_split; lia).
  rewrite <- ?app_assoc.
  change 112 with (88 + 24) at 1. rewrite (A 88 24 8) by lia. change 88 with (64 + 24) at 1. rewrite (A 64 24 _) by lia.
  change 64 with (40 + 24) at 1. rewrite (A 40 24 _) by lia. change 40 with (16 + 24) at 1. rewrite (A 16 24 _) by lia.
  change 16 with (8 + 8) at 1. rewrite (A 8 8 _) by lia. change 8 with (0 + 8) at 2. rewrite (A 0 8 _) by lia.
  apply slice_full'. rewrite El. reflexivity.
Qed.

Theorem dpfs_bytes_of_parse b v : bytes_ok b -> dpfs_from_bytes b = Ok v ->
  (forall i, In i [0; 1; 2] -> slice b (0x8 + i * 0x18 + 20) 4 = repeat 0 4) -> dpfs_to_bytes v = b.
Proof.
  intros B H Hz. unfold dpfs_from_bytes in H.
  destruct (list_eqb (slice b 0 8) DPFS_MAGIC) eqn:Em; [|discriminate]. cbn [negb] in H.
  destruct (len b =? 80) eqn:El; [|discriminate]. cbn [negb] in H.
  destruct (existsb _ _); [discriminate|]. inversion H; subst v; clear H.
  apply list_eqb_spec in Em. apply Z.eqb_eq in El.
  unfold dpfs_to_bytes. cbn [dp_levels map flat_map]. rewrite app_nil_r. rewrite <- Em.
  pose proof (Hz 0 ltac:(cbn; auto)) as Z0. pose proof (Hz 1 ltac:(cbn; auto)) as Z1. pose proof (Hz 2 ltac:(cbn; auto)) as Z2.
  rewrite (level_slice_back b 8), (level_slice_back b 32), (level_slice_back b 56) by (auto; lia).
  assert (A : forall a n m, 0 <= a -> 0 <= n -> 0 <= m -> slice b a n ++ slice b (a + n) m = slice b a (n + m)) by (intros; symmetry; apply slice_app_split; lia).
  rewrite <- ?app_assoc.
  change 56 with (32 + 24) at 1. rewrite (A 32 24 24) by lia. change 32 with (8 + 24) at 1. rewrite (A 8 24 _) by lia.
  change 8 with (0 + 8) at 2. rewrite (A 0 8 _) by lia.
  apply slice_full'. rewrite El. reflexivity.
Qed.
