(* C01 / C12 for the DSi-mode CTR wrapper: the per-block byte reversal is invisible. *)
From Pyctr Require Import Base.Prelude Base.ListExt Base.PyInt Base.PySlice Env.PyFile Env.FileIface
  Spec.StreamCipher Env.Cipher Model.CtrIO Proofs.CtrProofs.

Definition tidx (i : nat) : nat := (16 * (i / 16) + 15 - i mod 16)%nat.

Lemma tidx_Z i : Z.of_nat (tidx i) = twl_idx (Z.of_nat i).
Proof.
  unfold tidx, twl_idx.
  pose proof (Nat.div_mod i 16 ltac:(lia)). pose proof (Nat.mod_upper_bound i 16 ltac:(lia)).
  rewrite Nat2Z.inj_sub by lia. rewrite Nat2Z.inj_add, Nat2Z.inj_mul.
  rewrite Nat2Z.inj_div, Nat2Z.inj_mod. reflexivity.
Qed.

Lemma tidx_lt i n : (i < 16 * n)%nat -> (tidx i < 16 * n)%nat.
Proof.
  intros H. unfold tidx.
  pose proof (Nat.div_mod i 16 ltac:(lia)). pose proof (Nat.mod_upper_bound i 16 ltac:(lia)).
  assert (i / 16 < n)%nat by (apply Nat.div_lt_upper_bound; lia). lia.
Qed.

Lemma tidx_invol i : tidx (tidx i) = i.
Proof.
  unfold tidx.
  pose proof (Nat.div_mod i 16 ltac:(lia)) as Hd. pose proof (Nat.mod_upper_bound i 16 ltac:(lia)) as Hm.
  set (q := (i / 16)%nat) in *. set (r := (i mod 16)%nat) in *.
  assert (E1 : ((16 * q + 15 - r) / 16 = q)%nat).
  { symmetry. apply (Nat.div_unique _ 16 q (15 - r)); lia. }
  assert (E2 : ((16 * q + 15 - r) mod 16 = 15 - r)%nat).
  { symmetry. apply (Nat.mod_unique _ 16 q (15 - r)); lia. }
  rewrite E1, E2. lia.
Qed.

Lemma nth_error_rev_full (l : list Z) i :
  (i < length l)%nat -> nth_error (rev l) i = nth_error l (length l - 1 - i).
Proof.
  intros H. rewrite (nth_error_nth' (rev l) 0) by (rewrite rev_length; lia).
  rewrite (nth_error_nth' l 0) by lia. f_equal.
  rewrite rev_nth by lia. f_equal. lia.
Qed.

Lemma length_revblocks_n nb l : length l = (16 * nb)%nat -> length (revblocks_n nb l) = length l.
Proof.
  revert l; induction nb as [|nb IH]; intros l H; cbn [revblocks_n].
  - simpl. lia.
  - rewrite app_length, rev_length, firstn_length, IH by (rewrite skipn_length; lia).
    rewrite skipn_length. lia.
Qed.

Lemma nth_error_revblocks_n nb l i :
  length l = (16 * nb)%nat -> (i < length l)%nat ->
  nth_error (revblocks_n nb l) i = nth_error l (tidx i).
Proof.
  revert l i; induction nb as [|nb IH]; intros l i Hl Hi; [lia|].
  cbn [revblocks_n]. rewrite nth_error_app, rev_length, firstn_length.
  replace (Nat.min 16 (length l)) with 16%nat by lia.
  destruct (Nat.ltb_spec i 16).
  - rewrite nth_error_rev_full by (rewrite firstn_length; lia).
    rewrite firstn_length. replace (Nat.min 16 (length l)) with 16%nat by lia.
    rewrite nth_error_firstn.
    destruct (Nat.ltb_spec (16 - 1 - i) 16); [|lia].
    f_equal. unfold tidx. rewrite Nat.div_small, Nat.mod_small by lia. lia.
  - rewrite IH by (rewrite ?skipn_length; lia).
    rewrite nth_error_skipn. f_equal. unfold tidx. lia.
Qed.

Lemma revblocks_eq nb l : length l = (16 * nb)%nat -> revblocks l = revblocks_n nb l.
Proof.
  intros H. unfold revblocks. f_equal. rewrite H.
  symmetry. apply (Nat.div_unique _ 16 nb 15); lia.
Qed.

Section T.
Variable E : list Z -> list Z -> list Z.
Notation xt := (xor_ks E twl_idx).
Notation xi := (xor_ks E (fun j => j)).

Lemma revblocks_xor key c0 nb l :
  length l = (16 * nb)%nat ->
  revblocks (xi key c0 0 (revblocks l)) = xt key c0 0 l.
Proof.
  intros Hl.
  rewrite (revblocks_eq nb l Hl).
  rewrite (revblocks_eq nb) by (rewrite length_xor_ks, length_revblocks_n; auto).
  apply list_ext. intros i.
  destruct (Nat.lt_ge_cases i (length l)) as [Hi|Hi].
  - rewrite nth_error_revblocks_n by (rewrite ?length_xor_ks, ?length_revblocks_n; auto).
    rewrite !nth_error_xor_ks.
    rewrite nth_error_revblocks_n by (auto; rewrite Hl; apply tidx_lt; lia).
    rewrite tidx_invol, !Z.add_0_l, tidx_Z. reflexivity.
  - rewrite (proj2 (nth_error_None _ _)) by (rewrite length_revblocks_n; rewrite ?length_xor_ks, ?length_revblocks_n; auto).
    symmetry. apply nth_error_None. now rewrite length_xor_ks.
Qed.

Lemma twl_idx_shift j q : twl_idx (j + 16 * q) = twl_idx j + 16 * q.
Proof. unfold twl_idx. lia. Qed.

Lemma xt_shift key c0 q s d : xt key (c0 + q) s d = xt key c0 (s + 16 * q) d.
Proof.
  revert s; induction d as [|b r IH]; intros s; [reflexivity|].
  cbn [xor_ks]. rewrite ksb_shift, IH, twl_idx_shift.
  replace (s + 1 + 16 * q) with (s + 16 * q + 1) by lia. reflexivity.
Qed.

Lemma length_zeros n : length (zeros n) = Z.to_nat n.
Proof. unfold zeros. apply repeat_length. Qed.

(* the whole DSi crypt call on a padded buffer, then the cut: plain stream xor at the mirrored index *)
Lemma twl_crypt_cut key c0 enc pb data :
  0 <= pb < 16 ->
  let pa := pad_after pb (len data) in
  let padded := zeros pb ++ data ++ zeros pa in
  exists out, twl_crypt E (ctr_new key c0) enc padded = Ok out /\
    pyslice out (Some pb) (Some (len padded - pa)) = xt key c0 pb data.
Proof.
  intros Hpb pa padded.
  pose proof (len_nonneg data) as Hld.
  assert (Hpa : 0 <= pa < 16) by (unfold pa, pad_after; lia).
  assert (Hlp : len padded = pb + len data + pa).
  { unfold padded. rewrite !len_app, !len_zeros by lia. lia. }
  assert (Hmod : len padded mod 16 = 0) by (rewrite Hlp; unfold pa, pad_after; lia).
  set (nb := Z.to_nat (len padded / 16)).
  assert (Hnb : length padded = (16 * nb)%nat) by (unfold nb, len in *; lia).
  unfold twl_crypt, ctr_new, ctr_crypt. cbn [cdir ck cc0 cused bind].
  eexists. split; [reflexivity|].
  rewrite (revblocks_xor key c0 nb padded Hnb).
  rewrite firstn_all2 by (rewrite length_xor_ks; lia).
  rewrite pyslice_nonneg by lia.
  rewrite len_xor_ks, Hlp.
  replace (Z.min pb (pb + len data + pa)) with pb by lia.
  replace (Z.min (pb + len data + pa - pa) (pb + len data + pa) - pb) with (len data) by lia.
  rewrite slice_xor_ks by lia. rewrite Z.add_0_l. f_equal.
  unfold padded.
  assert (Hz : len (zeros pb) = pb) by (apply len_zeros; lia).
  rewrite slice_app_r by lia. rewrite Hz.
  replace (pb - pb) with 0 by lia.
  rewrite slice_app_l by lia. apply slice_all.
Qed.

Context {S : Type} (U : fileops S).
Variables (inv : S -> Prop) (content : S -> list Z) (pos : S -> Z).
Hypothesis Hlaw : lawful U inv content pos.
Variables (key : list Z) (counter : Z).

Notation dect := (stream_dec E true key counter).

Lemma xt_at cur data :
  0 <= cur -> xt key (ctr_start_counter counter cur) (pad_before cur) data = xt key counter cur data.
Proof.
  intros Hc. unfold ctr_start_counter, pad_before. rewrite Z.shiftr_div_pow2 by lia. change (2 ^ 4) with 16.
  rewrite xt_shift. f_equal. lia.
Qed.

Theorem twl_read_ok io n :
  inv (cu io) ->
  exists out io', twl_read E U key counter io n = Ok (out, io') /\ inv (cu io') /\
    out = slice (dect (content (cu io))) (pos (cu io)) (len out) /\
    len out = read_count (len (content (cu io))) (pos (cu io)) n /\
    content (cu io') = content (cu io) /\ pos (cu io') = pos (cu io) + len out.
Proof.
  intros Hi. pose proof (law_pos _ _ _ _ Hlaw _ Hi) as Hp.
  unfold twl_read. rewrite (law_tell _ _ _ _ Hlaw _ Hi).
  destruct (law_read _ _ _ _ Hlaw (cu io) n Hi) as (data & u' & -> & Hi' & Hdata & Hlen & Hc' & Hp').
  cbn [bind].
  destruct (twl_crypt_cut key (ctr_start_counter counter (pos (cu io))) false (pad_before (pos (cu io))) data)
    as (out & -> & Hcut); [unfold pad_before; lia|].
  cbn [bind]. do 2 eexists. split; [reflexivity|]. cbn [cu].
  rewrite Hcut, xt_at by lia. rewrite len_xor_ks.
  pose proof (len_nonneg data).
  repeat split; auto.
  unfold stream_dec. rewrite slice_xor_ks by lia. rewrite Z.add_0_l. now rewrite <- Hdata.
Qed.

Variable extends : bool.
Hypothesis law_write : forall s d, inv s ->
  exists k s', f_write U s d = Ok (k, s') /\ inv s' /\
    k = (if extends then len d else Z.min (len d) (Z.max 0 (len (content s) - pos s))) /\
    content s' = overlay 0 (content s) (pos s) (take d k) /\ pos s' = pos s + k.

Lemma dect_overlay C p d :
  0 <= p <= len C ->
  dect (overlay 0 C p (xt key counter p d)) = overlay 0 (dect C) p d.
Proof.
  intros Hp. destruct d as [|x d]; [reflexivity|].
  assert (Hne1 : xt key counter p (x :: d) <> []) by (cbn [xor_ks]; congruence).
  assert (Hne2 : x :: d <> []) by congruence.
  apply list_ext. intros i. unfold stream_dec.
  rewrite nth_error_xor_ks, !nth_error_overlay by assumption. cbv zeta.
  rewrite length_xor_ks, !nth_error_xor_ks, length_xor_ks.
  unfold len in Hp.
  destruct (Nat.ltb_spec i (Z.to_nat p)).
  - destruct (Nat.ltb_spec i (length C)); [reflexivity|lia].
  - destruct (Nat.ltb_spec i (Z.to_nat p + length (x :: d))); [|reflexivity].
    destruct (nth_error (x :: d) (i - Z.to_nat p)) as [b|]; cbn [option_map]; [|reflexivity].
    f_equal. replace (p + Z.of_nat (i - Z.to_nat p)) with (0 + Z.of_nat i) by lia.
    apply lxor_cancel.
Qed.

Lemma take_xt c0 s d k : 0 <= k -> take (xt key c0 s d) k = xt key c0 s (take d k).
Proof.
  intros Hk. rewrite ?take_raw; unfold take0. remember (Z.to_nat k) as n. clear Heqn Hk. revert s d.
  induction n as [|n IH]; intros s [|x d]; cbn [firstn xor_ks]; auto. now rewrite IH.
Qed.

Theorem twl_write_ok io d :
  inv (cu io) ->
  exists k io', twl_write E U key counter io d = Ok (k, io') /\ inv (cu io') /\
    k = (if extends then len d else Z.min (len d) (Z.max 0 (len (content (cu io)) - pos (cu io)))) /\
    pos (cu io') = pos (cu io) + k /\
    (exists ct, len ct = len d /\ content (cu io') = overlay 0 (content (cu io)) (pos (cu io)) (take ct k)) /\
    (pos (cu io) <= len (content (cu io)) ->
       dect (content (cu io')) = overlay 0 (dect (content (cu io))) (pos (cu io)) (take d k)).
Proof.
  intros Hi. pose proof (law_pos _ _ _ _ Hlaw _ Hi) as Hp.
  unfold twl_write. rewrite (law_tell _ _ _ _ Hlaw _ Hi).
  destruct (twl_crypt_cut key (ctr_start_counter counter (pos (cu io))) true (pad_before (pos (cu io))) d)
    as (out & -> & Hcut); [unfold pad_before; lia|].
  cbn [bind]. rewrite Hcut, xt_at by lia.
  destruct (law_write (cu io) (xt key counter (pos (cu io)) d) Hi) as (k & u' & -> & Hi' & Hkv & Hc' & Hp').
  cbn [bind]. rewrite len_xor_ks in Hkv.
  pose proof (len_nonneg d) as Hld. pose proof (len_nonneg (content (cu io))) as HlC.
  assert (Hk0 : 0 <= k <= len d) by (rewrite Hkv; destruct extends; lia).
  do 2 eexists. split; [reflexivity|]. cbn [cu].
  repeat split; auto.
  - exists (xt key counter (pos (cu io)) d). rewrite len_xor_ks. auto.
  - intros Hle. rewrite Hc'. rewrite take_xt by lia. apply dect_overlay. lia.
Qed.

End T.
