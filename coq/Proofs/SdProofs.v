(* C14: UTF-16LE encoding of scalar values is injective (different normalised paths hash different inputs). *)
From Pyctr Require Import Base.Prelude Base.ListExt Base.PyInt Base.PySlice Base.PyStr.

Definition enc_cp (cp : Z) : list Z := flat_map (fun u => [u mod 256; u / 256]) (utf16_units cp).

Lemma utf16le_cons cp s : utf16le_encode (cp :: s) = enc_cp cp ++ utf16le_encode s.
Proof. reflexivity. Qed.

Lemma unit_inj u v : 0 <= u < 65536 -> 0 <= v < 65536 -> u mod 256 = v mod 256 -> u / 256 = v / 256 -> u = v.
Proof. intros Hu Hv E1 E2. rewrite (Z.div_mod u 256), (Z.div_mod v 256) by lia. congruence. Qed.

Lemma supp_inj c d : 0 <= c < 0x100000 -> 0 <= d < 0x100000 -> c / 0x400 = d / 0x400 -> c mod 0x400 = d mod 0x400 -> c = d.
Proof. intros Hc Hd E1 E2. rewrite (Z.div_mod c 0x400), (Z.div_mod d 0x400) by lia. congruence. Qed.

Lemma cons_inj2 {A} (a b c d : A) r1 r2 : a :: b :: r1 = c :: d :: r2 -> a = c /\ b = d /\ r1 = r2.
Proof. intros H; inversion H; auto. Qed.

Definition hi_unit (cp : Z) : Z := 0xD800 + (cp - 0x10000) / 0x400.
Definition lo_unit (cp : Z) : Z := 0xDC00 + (cp - 0x10000) mod 0x400.

Lemma hi_range cp : 0x10000 <= cp < 0x110000 -> 0xD800 <= hi_unit cp < 0xDC00.
Proof. intros H. unfold hi_unit. lia. Qed.
Lemma lo_range cp : 0x10000 <= cp < 0x110000 -> 0xDC00 <= lo_unit cp < 0xE000.
Proof. intros H. unfold lo_unit. lia. Qed.
Lemma hi_lo_inj c d : 0x10000 <= c < 0x110000 -> 0x10000 <= d < 0x110000 -> hi_unit c = hi_unit d -> lo_unit c = lo_unit d -> c = d.
Proof. unfold hi_unit, lo_unit. intros. lia. Qed.

Lemma enc_cp_bmp cp : cp < 0x10000 -> enc_cp cp = [cp mod 256; cp / 256].
Proof. intros H. unfold enc_cp, utf16_units. destruct (Z.ltb_spec cp 0x10000); [reflexivity|lia]. Qed.
Lemma enc_cp_supp cp : 0x10000 <= cp -> enc_cp cp = [hi_unit cp mod 256; hi_unit cp / 256; lo_unit cp mod 256; lo_unit cp / 256].
Proof. intros H. unfold enc_cp, utf16_units. destruct (Z.ltb_spec cp 0x10000); [lia|reflexivity]. Qed.

Lemma enc_cp_prefix_free c1 c2 r1 r2 :
  scalar c1 -> scalar c2 -> enc_cp c1 ++ r1 = enc_cp c2 ++ r2 -> c1 = c2 /\ r1 = r2.
Proof.
  unfold scalar. intros [H1 N1] [H2 N2].
  destruct (Z.lt_ge_cases c1 0x10000) as [L1|L1]; destruct (Z.lt_ge_cases c2 0x10000) as [L2|L2].
  - rewrite !enc_cp_bmp by assumption. cbn [app]. intros E. apply cons_inj2 in E as (E1 & E2 & E3).
    split; [|exact E3]. apply unit_inj; auto; lia.
  - rewrite (enc_cp_bmp c1), (enc_cp_supp c2) by assumption. cbn [app]. intros E. apply cons_inj2 in E as (E1 & E2 & _).
    pose proof (hi_range c2 ltac:(lia)). exfalso.
    assert (c1 = hi_unit c2) by (apply unit_inj; auto; lia). lia.
  - rewrite (enc_cp_supp c1), (enc_cp_bmp c2) by assumption. cbn [app]. intros E. apply cons_inj2 in E as (E1 & E2 & _).
    pose proof (hi_range c1 ltac:(lia)). exfalso.
    assert (hi_unit c1 = c2) by (apply unit_inj; auto; lia). lia.
  - rewrite !enc_cp_supp by assumption. cbn [app]. intros E. apply cons_inj2 in E as (E1 & E2 & E).
    apply cons_inj2 in E as (E3 & E4 & E5).
    pose proof (hi_range c1 ltac:(lia)). pose proof (hi_range c2 ltac:(lia)).
    pose proof (lo_range c1 ltac:(lia)). pose proof (lo_range c2 ltac:(lia)).
    assert (hi_unit c1 = hi_unit c2) by (apply unit_inj; auto; lia).
    assert (lo_unit c1 = lo_unit c2) by (apply unit_inj; auto; lia).
    split; [apply hi_lo_inj; auto; lia|exact E5].
Qed.

Lemma enc_cp_nonempty cp : enc_cp cp <> [].
Proof. destruct (Z.lt_ge_cases cp 0x10000); [rewrite enc_cp_bmp by assumption|rewrite enc_cp_supp by assumption]; discriminate. Qed.

Theorem utf16le_injective a b : Forall scalar a -> Forall scalar b -> utf16le_encode a = utf16le_encode b -> a = b.
Proof.
  intros Ha. revert b. induction Ha as [|x a Hx Ha IH]; intros b Hb E.
  - destruct b as [|y b]; [reflexivity|]. rewrite utf16le_cons in E. cbn in E.
    destruct (enc_cp y) eqn:Ey; [now apply enc_cp_nonempty in Ey|discriminate].
  - destruct b as [|y b].
    + rewrite utf16le_cons in E. cbn in E. destruct (enc_cp x) eqn:Ex; [now apply enc_cp_nonempty in Ex|discriminate].
    + inversion Hb; subst. rewrite !utf16le_cons in E.
      destruct (enc_cp_prefix_free x y _ _ Hx H1 E) as [-> E']. f_equal. now apply IH.
Qed.
