(* C10: the NCSD partition table is read back exactly; rejects; CDN resolution. *)
From Pyctr Require Import Base.Prelude Base.ListExt Base.PyInt Base.PySlice Base.Fields Model.Ncsd.

Lemma slice_full {A} (l : list A) n : len l = n -> slice l 0 n = l.
Proof. intros <-. apply slice_all. Qed.

Definition entry_ok (p : Z * Z) : Prop := 0 <= fst p < 2 ^ 32 /\ 0 <= snd p < 2 ^ 32.

Lemma len_encode_table tbl : len (encode_table tbl) = 8 * len tbl.
Proof.
  induction tbl as [|p r IH]; [reflexivity|]. cbn [encode_table flat_map]. rewrite !len_app, !len_le_encode.
  fold (encode_table r). rewrite IH, len_cons. lia.
Qed.

Lemma slice_encode_table tbl i :
  (i < length tbl)%nat ->
  slice (encode_table tbl) (8 * Z.of_nat i) 8 = le_encode 4 (fst (nth i tbl (0, 0))) ++ le_encode 4 (snd (nth i tbl (0, 0))).
Proof.
  revert i; induction tbl as [|p r IH]; intros i Hi; [simpl in Hi; lia|].
  cbn [encode_table flat_map]. fold (encode_table r).
  set (e := le_encode 4 (fst p) ++ le_encode 4 (snd p)).
  assert (He : len e = 8) by (unfold e; rewrite len_app, !len_le_encode; reflexivity).
  destruct i as [|i].
  - cbn [nth]. rewrite Z.mul_0_r. rewrite slice_app_l by lia. now apply slice_full.
  - rewrite slice_app_r by lia. rewrite He. replace (8 * Z.of_nat (S i) - 8) with (8 * Z.of_nat i) by lia.
    cbn [nth]. apply IH. simpl in Hi. lia.
Qed.

(* the loop lists exactly the entries with a non-zero offset, with byte offsets and sizes in media units of 0x200 *)
Theorem ncsd_loop_spec tbl :
  Forall entry_ok tbl ->
  forall k n, (k + n = length tbl)%nat ->
  ncsd_loop (encode_table tbl) (Z.of_nat k) n =
  flat_map (fun j => let p := nth j tbl (0, 0) in if negb (fst p * 0x200 =? 0) then [(Z.of_nat j, fst p * 0x200, snd p * 0x200)] else [])
           (seq k n).
Proof.
  intros Hok k n. revert k. induction n as [|n IH]; intros k Hk; [reflexivity|].
  cbn [ncsd_loop seq flat_map].
  rewrite (slice_encode_table tbl k) by lia.
  assert (Hp : entry_ok (nth k tbl (0, 0))).
  { rewrite Forall_forall in Hok. apply Hok. apply nth_In. lia. }
  destruct Hp as [H1 H2]. set (p := nth k tbl (0, 0)) in *.
  assert (S1 : slice (le_encode 4 (fst p) ++ le_encode 4 (snd p)) 0 4 = le_encode 4 (fst p)).
  { rewrite slice_app_l by (rewrite ?len_le_encode; lia). apply slice_full. now rewrite len_le_encode. }
  assert (S2 : slice (le_encode 4 (fst p) ++ le_encode 4 (snd p)) 4 4 = le_encode 4 (snd p)).
  { rewrite slice_app_r by (rewrite ?len_le_encode; lia). rewrite len_le_encode. replace (4 - Z.of_nat 4) with 0 by lia.
    apply slice_full. now rewrite len_le_encode. }
  rewrite S1, S2. rewrite !le_decode_encode_id by (change (256 ^ Z.of_nat 4) with (2 ^ 32); lia).
  f_equal. replace (Z.of_nat k + 1) with (Z.of_nat (S k)) by lia. apply IH. lia.
Qed.

Theorem ncsd_reject_magic header : list_eqb (slice header 0 4) [78; 67; 83; 68] = false -> ncsd_partitions header = Err (Pyctr 50).
Proof. intros H. unfold ncsd_partitions. now rewrite H. Qed.

Theorem ncsd_reject_media header : all_zeroZ (slice header 8 8) = true -> ncsd_partitions header = Err (Pyctr 50).
Proof. intros H. unfold ncsd_partitions. rewrite H. destruct (negb _); reflexivity. Qed.

(* CDN: a missing content file only removes that content; the others are listed in TMD order *)
Theorem cdn_listed_spec (upper : list Z -> list Z) names ids id :
  In id (cdn_listed upper names ids) <-> In id ids /\ (has names id = true \/ has names (upper id) = true).
Proof. unfold cdn_listed. rewrite filter_In, orb_true_iff. tauto. Qed.
