(* The two underlying files pyctr stacks crypto wrappers on satisfy the write law of CtrProofs:
   a plain in-memory file (stores everything, grows) and a window inside its base (stores what fits). *)
From Pyctr Require Import Base.Prelude Base.ListExt Base.PySlice Env.PyFile Env.FileIface Model.Window Proofs.WindowProofs.

Lemma take_all {A} (d : list A) : take d (len d) = d.
Proof. unfold len; rewrite ?take_raw; unfold take0. rewrite Nat2Z.id. apply firstn_all. Qed.

Lemma pyfile_write_law s d :
  pf_ok s ->
  exists k s', f_write pyfile_ops s d = Ok (k, s') /\ pf_ok s' /\
    k = len d /\ fdata s' = overlay 0 (fdata s) (fpos s) (take d k) /\ fpos s' = fpos s + k.
Proof.
  intros H. cbn [pyfile_ops f_write]. unfold pf_write. do 2 eexists. split; [reflexivity|].
  unfold pf_ok in *. cbn [fdata fpos]. pose proof (len_nonneg d). rewrite take_all. repeat split; auto. lia.
Qed.

(* a window lying entirely inside its base file *)
Definition win_inside (off sz : Z) (w : window) : Prop := 0 <= wseek w /\ off + sz <= len (fdata (wbase w)).

Lemma win_inside_inv off sz w : 0 <= sz -> win_inside off sz w -> win_inv off w.
Proof. unfold win_inside, win_inv. lia. Qed.

Lemma window_lawful_inside off sz :
  0 <= off -> 0 <= sz -> lawful (window_ops off sz) (win_inside off sz) (win_content off sz) wseek.
Proof.
  intros Hoff Hsz. pose proof (window_lawful off sz Hoff Hsz) as L. constructor.
  - intros s [H _]. exact H.
  - reflexivity.
  - intros s n Hs. destruct (law_read _ _ _ _ L s n (win_inside_inv _ _ _ Hsz Hs)) as (r & s' & H1 & H2 & H3 & H4 & H5 & H6).
    exists r, s'. repeat split; auto.
    + destruct H2; lia.
    + (* reads do not change the base *)
      pose proof (step_ok off sz Hoff Hsz s (WRead n) (win_inside_inv _ _ _ Hsz Hs)) as P. cbn [win_step] in P.
      cbn [window_ops f_read] in H1. rewrite H1 in P. destruct P as [(P1 & _) _]. rewrite P1. apply Hs.
  - intros s o w Hs. pose proof (law_seek _ _ _ _ L s o w (win_inside_inv _ _ _ Hsz Hs)) as P.
    pose proof (step_ok off sz Hoff Hsz s (WSeek o w) (win_inside_inv _ _ _ Hsz Hs)) as Q. cbn [win_step] in Q.
    cbn [window_ops f_seek] in *. destruct (win_seek sz s o w) as [[p s']|e]; [|exact I].
    destruct P as ([P0 _] & P2 & P3). destruct Q as [(Q1 & _) _]. repeat split; auto. rewrite Q1. apply Hs.
  - intros s Hs. apply (law_seek0 _ _ _ _ L s (win_inside_inv _ _ _ Hsz Hs)).
  - intros s d Hs. apply (law_seek_rel _ _ _ _ L s d (win_inside_inv _ _ _ Hsz Hs)).
Qed.

Lemma window_write_law off sz s d :
  0 <= off -> 0 <= sz -> win_inside off sz s ->
  exists k s', f_write (window_ops off sz) s d = Ok (k, s') /\ win_inside off sz s' /\
    k = Z.min (len d) (Z.max 0 (len (win_content off sz s) - wseek s)) /\
    win_content off sz s' = overlay 0 (win_content off sz s) (wseek s) (take d k) /\
    wseek s' = wseek s + k.
Proof.
  intros Hoff Hsz [Hsk Hin]. destruct s as [[B p0] sk]. cbn [wseek wbase fdata] in *.
  unfold win_content. cbn [wbase fdata window_ops f_write].
  assert (HlC : len (slice B off sz) = sz) by (rewrite len_slice by lia; lia).
  rewrite HlC. pose proof (len_nonneg d) as Hld.
  unfold win_write. cbn [wseek wbase].
  destruct (sk >? sz) eqn:Hpast.
  - do 2 eexists. split; [reflexivity|]. unfold win_inside. cbn [wseek wbase fdata].
    replace (Z.min (len d) (Z.max 0 (sz - sk))) with 0 by lia.
    rewrite take_0. cbn [overlay]. repeat split; auto; lia.
  - rewrite pf_seek_abs by lia. cbn [bind]. unfold pf_write. cbn [fdata fpos].
    set (d' := win_write_data sz sk d).
    assert (Hd' : d' = take d (Z.min (len d) (sz - sk))).
    { unfold d', win_write_data.
      destruct (len d + sk >? sz) eqn:?.
      - unfold pyslice, clampidx.
        destruct (- (len d + sk - sz) <? 0) eqn:?; [|lia].
        rewrite ?slice_raw, ?take_raw; unfold slice0, take0. simpl skipn. f_equal. lia.
      - rewrite ?take_raw; unfold take0. rewrite Z.min_l by lia. unfold len. rewrite Nat2Z.id. symmetry. apply firstn_all. }
    assert (Hlen' : len d' = Z.min (len d) (sz - sk)) by (rewrite Hd'; rewrite len_take by lia; lia).
    do 2 eexists. split; [reflexivity|]. unfold win_inside. cbn [wseek wbase fdata].
    rewrite Hlen'. replace (Z.max 0 (sz - sk)) with (sz - sk) by lia. rewrite <- Hd'.
    destruct d' as [|x t] eqn:Ed.
    + cbn [overlay]. repeat split; auto; lia.
    + assert (Hne : x :: t <> []) by congruence.
      rewrite len_overlay by (try exact Hne; lia).
      repeat split; try lia.
      apply list_ext. intros i.
      rewrite nth_error_slice by lia. rewrite !nth_error_overlay by exact Hne. cbv zeta.
      rewrite nth_error_slice by lia. rewrite length_slice.
      assert (Hlx : Z.of_nat (length (x :: t)) = Z.min (len d) (sz - sk)) by exact Hlen'.
      unfold len in Hin.
      destruct (Z.ltb_spec (Z.of_nat i) sz).
      * destruct (Nat.ltb_spec (Z.to_nat off + i) (Z.to_nat (sk + off))); destruct (Nat.ltb_spec i (Z.to_nat sk)); try lia.
        -- destruct (Nat.ltb_spec (Z.to_nat off + i) (length B)); [|lia].
           destruct (Nat.ltb_spec i (Nat.min (Z.to_nat sz) (length B - Z.to_nat off))); [reflexivity|lia].
        -- destruct (Nat.ltb_spec (Z.to_nat off + i) (Z.to_nat (sk + off) + length (x :: t)));
             destruct (Nat.ltb_spec i (Z.to_nat sk + length (x :: t))); try lia.
           ++ f_equal. lia.
           ++ reflexivity.
      * destruct (Nat.ltb_spec i (Z.to_nat sk)); [lia|].
        destruct (Nat.ltb_spec i (Z.to_nat sk + length (x :: t))); [lia|].
        reflexivity.
Qed.
