(* C09: the handles with a position of their own obey the file contract ("lawful": what the crypto wrappers and every
   caller rely on) over the view they show, whatever the history of reads and seeks. *)
From Pyctr Require Import Base.Prelude Base.ListExt Base.PyInt Base.PySlice Env.PyFile Env.FileIface Model.PosReader
  Model.Blocks Model.Dpfs Proofs.DpfsProofs Model.Ivfc Model.IvfcRead Proofs.IvfcReadProofs.

Section P.
Variable view : list Z.
Variable fetch : Z -> Z -> list Z.
Hypothesis fetch_spec : forall pos n, 0 <= pos -> fetch pos n = slice view pos (if n <? 0 then len view else n).

Theorem pr_lawful : lawful (pr_ops (len view) fetch) (fun s => 0 <= pr_pos s) (fun _ => view) pr_pos.
Proof.
  pose proof (len_nonneg view) as Lv.
  constructor.
  - intros s Hs. exact Hs.
  - reflexivity.
  - intros s n Hs. cbn [pr_ops f_read]. unfold pr_read. rewrite fetch_spec by exact Hs.
    set (k := if n <? 0 then len view else n).
    set (r := slice view (pr_pos s) k).
    assert (Lr : len r = read_count (len view) (pr_pos s) n).
    { subst r k. unfold read_count. destruct (n <? 0) eqn:E.
      - rewrite len_slice by lia. lia.
      - rewrite len_slice by lia. lia. }
    exists r, (mkPrd (pr_pos s + len r)). cbn [pr_pos]. repeat split; try lia; try exact Lr; try reflexivity.
    + pose proof (len_nonneg r). lia.
    + subst r. rewrite Lr. subst k. unfold read_count. destruct (n <? 0) eqn:E.
      * rewrite !slice_ge by lia. reflexivity.
      * destruct (Z.le_gt_cases n (Z.max 0 (len view - pr_pos s))).
        -- now rewrite Z.min_l by lia.
        -- rewrite Z.min_r by lia. rewrite !slice_ge by lia. reflexivity.
  - intros s o w Hs. cbn [pr_ops f_seek]. unfold pr_seek, pr_seek_pos.
    destruct (w =? 0); [destruct (o <? 0) eqn:?; [exact I|]|destruct (w =? 1); [|destruct (w =? 2)]];
      cbn [pr_pos]; repeat split; lia.
  - intros s Hs. cbn [pr_ops f_seek]. unfold pr_seek, pr_seek_pos. change (0 =? 0) with true. change (0 <? 0) with false.
    cbv iota. rewrite Z.min_l by lia. eauto.
  - intros s d Hs. cbn [pr_ops f_seek]. unfold pr_seek, pr_seek_pos. change (1 =? 0) with false. change (1 =? 1) with true.
    cbv iota. rewrite Z.max_comm. eauto.
Qed.
End P.

(* the three instances *)
Lemma rof_fetch_spec data pos n : 0 <= pos -> rof_fetch data pos n = slice data pos (if n <? 0 then len data else n).
Proof.
  intros Hp. unfold rof_fetch. pose proof (len_nonneg data) as Ld. destruct (n <? 0) eqn:E.
  - replace (pos + (len data - pos)) with (len data) by lia. rewrite pyslice_nonneg by lia.
    rewrite (Z.min_id (len data)). destruct (Z.le_gt_cases (len data) pos).
    + rewrite Z.min_r by lia. rewrite slice_nil by lia. symmetry. rewrite slice_ge by lia. apply drop_ge. lia.
    + rewrite Z.min_l by lia. rewrite !slice_ge by lia. reflexivity.
  - rewrite pyslice_nonneg by lia. destruct (Z.le_gt_cases (len data) pos).
    + rewrite !Z.min_r by lia. rewrite slice_nil by lia. symmetry. rewrite slice_ge by lia. apply drop_ge. lia.
    + rewrite (Z.min_l pos) by lia. destruct (Z.le_gt_cases (len data) (pos + n)).
      * rewrite Z.min_r by lia. rewrite !slice_ge by lia. reflexivity.
      * rewrite Z.min_l by lia. f_equal. lia.
Qed.

(* a reader-owned file (e.g. the decompressed .code) *)
Theorem reader_file_lawful data :
  lawful (pr_ops (len data) (rof_fetch data)) (fun s => 0 <= pr_pos s) (fun _ => data) pr_pos.
Proof. apply pr_lawful. intros. now apply rof_fetch_spec. Qed.

(* the DPFS level-3 file over the active view *)
Theorem dpfs_file_lawful pair size bs lv2 :
  0 < bs -> 0 < size -> len pair = 2 * size ->
  let view := active_view pair size bs (active_bit lv2) in
  lawful (pr_ops (len view) (lv3_file_read pair size bs lv2)) (fun s => 0 <= pr_pos s) (fun _ => view) pr_pos.
Proof. intros Hbs Hs Hl view. apply pr_lawful. intros pos n Hp. now apply lv3_file_read_spec. Qed.

(* the verified level-4 view *)
Theorem ivfc_file_lawful H tree master verify :
  0 < lv4_bs tree -> 0 < lv4_size tree ->
  let view := lv4_view H tree master verify in
  lawful (pr_ops (len view) (lv4_read H tree master verify)) (fun s => 0 <= pr_pos s) (fun _ => view) pr_pos.
Proof. intros Hbs Hs view. apply pr_lawful. intros pos n Hp. now apply (lv4_read_spec H tree master verify Hbs Hs). Qed.
