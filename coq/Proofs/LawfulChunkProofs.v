(* C09, composition over ANY lawful file (the in-memory file, the window, ...): consecutive reads in any chunking return, glued,
   ONE slice of the logical contents; any chunks and then read(-1) from position 0 return exactly the logical contents --
   for a window: exactly the bytes [off, off+sz) of the base file, never one byte more. *)
From Pyctr Require Import Base.Prelude Base.ListExt Base.PySlice Env.PyFile Env.FileIface.

Section Chunks.
Context {S : Type} (U : fileops S).
Variables (inv : S -> Prop) (content : S -> list Z) (pos : S -> Z).
Hypothesis Hlaw : lawful U inv content pos.

(* run a list of read sizes; None if some read raised *)
Fixpoint reads (s : S) (ns : list Z) : option (list Z * S) :=
  match ns with
  | [] => Some ([], s)
  | n :: r => match f_read U s n with
              | Ok (b, s1) => match reads s1 r with Some (t, s2) => Some (b ++ t, s2) | None => None end
              | Err _ => None
              end
  end.

Theorem lawful_chunks_glue ns : forall s, inv s ->
  exists t s', reads s ns = Some (t, s') /\
    t = slice (content s) (pos s) (len t) /\ pos s' = pos s + len t /\ content s' = content s /\ inv s'.
Proof.
  induction ns as [|n ns IH]; intros s Hi.
  - exists [], s. cbn [reads]. rewrite slice_0. change (len (@nil Z)) with 0.
    split; [reflexivity|]. split; [reflexivity|]. split; [lia|]. split; [reflexivity|exact Hi].
  - cbn [reads]. destruct (law_read _ _ _ _ Hlaw s n Hi) as (b & s1 & E & Hi1 & Hb & Hl & Hc1 & Hp1).
    rewrite E. destruct (IH s1 Hi1) as (t & s2 & E2 & Ht & Hp2 & Hc2 & Hi2). rewrite E2.
    exists (b ++ t), s2. split; [reflexivity|].
    pose proof (law_pos _ _ _ _ Hlaw s Hi) as Hp0.
    assert (Hlb : 0 <= len b) by (rewrite Hl; apply read_count_nonneg).
    assert (Hlt : 0 <= len t) by (unfold len; lia).
    rewrite len_app. split; [|split; [lia|split; [congruence|exact Hi2]]].
    rewrite slice_app_split by lia. rewrite <- Hb. f_equal.
    rewrite Ht at 1. rewrite Hc1, Hp1. reflexivity.
Qed.

Lemma reads_app a b s :
  reads s (a ++ b) = match reads s a with
                     | Some (ta, s1) => match reads s1 b with Some (tb, s2) => Some (ta ++ tb, s2) | None => None end
                     | None => None
                     end.
Proof.
  revert s; induction a as [|n a IH]; intros s.
  - cbn [app reads]. destruct (reads s b) as [[tb s2]|]; reflexivity.
  - cbn [app reads]. destruct (f_read U s n) as [[x s1]|e]; [|reflexivity]. rewrite IH.
    destruct (reads s1 a) as [[ta s2]|]; [|reflexivity].
    destruct (reads s2 b) as [[tb s3]|]; [|reflexivity]. now rewrite app_assoc.
Qed.

Theorem lawful_chunks_then_rest_is_whole ns s : inv s -> pos s = 0 ->
  exists s', reads s (ns ++ [-1]) = Some (content s, s').
Proof.
  intros Hi Hp.
  destruct (lawful_chunks_glue (ns ++ [-1]) s Hi) as (t & s' & E & Ht & Hp' & Hc' & Hi').
  exists s'. rewrite E. f_equal. f_equal.
  assert (Hend : len (content s) <= pos s').
  { rewrite reads_app in E.
    destruct (lawful_chunks_glue ns s Hi) as (ta & s1 & Ea & _ & Hpa & Hca & Hia). rewrite Ea in E.
    cbn [reads] in E. destruct (law_read _ _ _ _ Hlaw s1 (-1) Hia) as (b & s2 & Eb & _ & _ & Hl & _ & Hp2).
    rewrite Eb in E. inversion E; subst s'. unfold read_count in Hl. rewrite Hca in Hl.
    pose proof (law_pos _ _ _ _ Hlaw s1 Hia).
    destruct (-1 <? 0) eqn:X; lia. }
  rewrite Ht, Hp. assert (0 <= len (content s)) by (unfold len; lia).
  rewrite slice_ge by lia. apply drop_0.
Qed.

End Chunks.
