(* C11: TitleMetadataReader.load and __bytes__ are inverse (both directions), for the executable models Tmd.v / TmdSer.v. *)
From Pyctr Require Import Base.Prelude Base.ListExt Base.PyInt Base.PySlice Base.Fields Model.Tmd Model.TmdSer Proofs.TmdProofs.

(* ---------- generic: fixed-width fields ---------- *)

Lemma slice_part (parts : list (list Z)) k a n :
  (k < length parts)%nat -> len (concat (firstn k parts)) = a -> len (nth k parts []) = n ->
  slice (concat parts) a n = nth k parts [].
Proof.
  intros Hk Ha Hn. rewrite (concat_split parts k Hk).
  set (pre := concat (firstn k parts)) in *. set (x := nth k parts []) in *. set (post := concat (skipn (S k) parts)).
  pose proof (len_nonneg pre). pose proof (len_nonneg x).
  rewrite slice_app_r by lia. replace (a - len pre) with 0 by lia.
  rewrite slice_app_l by lia. subst n. apply slice_all.
Qed.

Lemma pyidx_part' (parts : list (list Z)) k a x :
  (k < length parts)%nat -> len (concat (firstn k parts)) = a -> nth k parts [] = [x] -> pyidx (concat parts) a = x.
Proof. apply pyidx_part. Qed.

Fixpoint slices (l : list Z) (off : Z) (ws : list Z) : list (list Z) :=
  match ws with [] => [] | w :: r => slice l off w :: slices l (off + w) r end.

Fixpoint zsum (ws : list Z) : Z := match ws with [] => 0 | w :: r => w + zsum r end.

Lemma zsum_nonneg ws : Forall (fun w => 0 <= w) ws -> 0 <= zsum ws.
Proof. induction 1; cbn [zsum]; lia. Qed.

Lemma concat_slices l ws off :
  Forall (fun w => 0 <= w) ws -> 0 <= off -> concat (slices l off ws) = slice l off (zsum ws).
Proof.
  intros Hws; revert off; induction Hws as [|w r Hw Hr IH]; intros off Ho; cbn [slices concat zsum].
  - now rewrite slice_0.
  - pose proof (zsum_nonneg r Hr). rewrite slice_app_split by lia. f_equal. apply IH. lia.
Qed.

(* ---------- fit / ljust / rstrip ---------- *)

Lemma len_fit n l : 0 <= n -> len (fit n l) = n.
Proof. intros. unfold fit. rewrite len_app, len_repeat, len_take by lia. pose proof (len_nonneg l). lia. Qed.

Lemma fit_exact n l : len l = n -> fit n l = l.
Proof.
  intros Hl. unfold fit. replace (n - len l) with 0 by lia. cbn [Z.to_nat repeat]. rewrite app_nil_r.
  rewrite take_raw. unfold take0. apply firstn_all2. unfold len in Hl. lia.
Qed.

Lemma bytes_ok_fit n l : bytes_ok l -> bytes_ok (fit n l).
Proof.
  intros Hb. unfold fit. apply bytes_ok_app.
  - rewrite take_raw. unfold take0. now apply bytes_ok_firstn.
  - apply bytes_ok_repeat. unfold byte_ok. lia.
Qed.

Lemma lstrip0_split l : exists k, l = repeat 0 k ++ lstrip0 l.
Proof.
  induction l as [|x r [k IH]]; [exists 0%nat; reflexivity|]. cbn [lstrip0].
  destruct (Z.eqb_spec x 0) as [->|Hx].
  - exists (S k). cbn [repeat app]. now rewrite <- IH.
  - exists 0%nat. reflexivity.
Qed.

Lemma rev_repeat {A} (x : A) k : rev (repeat x k) = repeat x k.
Proof.
  induction k as [|k IH]; [reflexivity|]. cbn [repeat rev]. rewrite IH.
  clear IH. induction k as [|k IH]; [reflexivity|]. cbn [repeat app]. now rewrite IH.
Qed.

Lemma rstrip0_split l : exists k, l = rstrip0 l ++ repeat 0 k.
Proof.
  destruct (lstrip0_split (rev l)) as [k Hk]. exists k. unfold rstrip0.
  rewrite <- (rev_involutive l) at 1. rewrite Hk at 1. now rewrite rev_app_distr, rev_repeat.
Qed.

Lemma fit_rstrip n l : len l = n -> fit n (rstrip0 l) = l.
Proof.
  intros Hl. destruct (rstrip0_split l) as [k Hk]. set (s := rstrip0 l) in *.
  assert (len s + Z.of_nat k = n) by (rewrite <- Hl, Hk at 1; now rewrite len_app, len_repeat).
  pose proof (len_nonneg s). unfold fit.
  replace (take s n) with s.
  - replace (Z.to_nat (n - len s)) with k by lia. now symmetry.
  - rewrite take_raw. unfold take0. symmetry. apply firstn_all2. unfold len in *. lia.
Qed.

Lemma len_ljust n l : len l <= n -> len (ljust n l) = n.
Proof. intros. unfold ljust. rewrite len_app, len_repeat. pose proof (len_nonneg l). lia. Qed.

Lemma slice_one l i : 0 <= i < len l -> slice l i 1 = [pyidx l i].
Proof.
  intros Hi. unfold pyidx. destruct (i <? 0) eqn:E; [lia|]. unfold zth. rewrite E.
  rewrite slice_raw. unfold slice0. change (Z.to_nat 1) with 1%nat.
  destruct (nth_error l (Z.to_nat i)) as [x|] eqn:N.
  - apply nth_error_split in N as (a & b & -> & Ha). rewrite <- Ha.
    rewrite skipn_app, skipn_all, Nat.sub_diag. reflexivity.
  - apply nth_error_None in N. unfold len in Hi. lia.
Qed.

Lemma length_slice_exact (l : list Z) off n : 0 <= off -> 0 <= n -> off + n <= len l -> length (slice l off n) = Z.to_nat n.
Proof. intros. rewrite length_slice. unfold len in *. lia. Qed.

Lemma len_slice_exact (l : list Z) off n : 0 <= off -> 0 <= n -> off + n <= len l -> len (slice l off n) = n.
Proof. intros. rewrite len_slice by lia. lia. Qed.

(* ---------- header: serialise (fields of h) = h ---------- *)
Section S.
Variable H : list Z -> list Z.

Definition header_widths : list Z := [0x40;1;1;1;1;8;8;4;2;4;4;4;1;0x31;4;2;2;2;2;32].

Lemma header_of_fields t :
  bytes_ok (t_header t) -> len (t_header t) = 0xC4 ->
  slice (t_header t) 0xA4 32 = H (info_block (obj_of t)) ->
  ser_header H (obj_of t) = t_header t.
Proof.
  intros Hb Hl Hh. unfold ser_header.
  set (h := t_header t) in *.
  assert (E : header_parts H (obj_of t) = slices h 0 header_widths).
  { unfold header_parts, header_widths. cbn [slices Z.add]. rewrite <- Hh.
    unfold obj_of. fold h.
    cbn [o_issuer o_version o_ca_crl o_signer_crl o_reserved1 o_sysver o_tid o_ttype o_group o_save o_srl_save o_reserved2
         o_srl_flag o_reserved3 o_access o_tver o_count o_boot o_padding].
    repeat match goal with
    | |- _ :: _ = _ :: _ => f_equal
    | |- fit _ (rstrip0 _) = _ => apply fit_rstrip; apply len_slice_exact; lia
    | |- fit _ _ = _ => apply fit_exact; apply len_slice_exact; lia
    | |- [pyidx _ _] = _ => symmetry; apply slice_one; lia
    end.
    - change 4%nat with (Z.to_nat 4). rewrite <- (length_slice_exact h 0x5A 4) by lia.
      apply le_encode_decode. now apply bytes_ok_slice.
    - change 4%nat with (Z.to_nat 4). rewrite <- (length_slice_exact h 0x5E 4) by lia.
      apply le_encode_decode. now apply bytes_ok_slice.
    - change 2%nat with (Z.to_nat 2). rewrite <- (length_slice_exact h 0x9C 2) by lia.
      apply be_encode_decode. now apply bytes_ok_slice.
    - change 2%nat with (Z.to_nat 2). rewrite <- (length_slice_exact h 0x9E 2) by lia.
      apply be_encode_decode. now apply bytes_ok_slice. }
  rewrite E, concat_slices.
  - change (zsum header_widths) with 0xC4. rewrite <- Hl. apply slice_all.
  - unfold header_widths. repeat constructor; lia.
  - lia.
Qed.
End S.

(* ---------- chunk records ---------- *)

Lemma slice0_take (l : list Z) n : slice l 0 n = take l n.
Proof. rewrite slice_raw, take_raw. reflexivity. Qed.

Fixpoint types_ok (raw : list Z) (n : nat) : bool :=
  match n with
  | O => true
  | S n => let w := be_decode (slice (slice raw 0 48) 6 2) in (w =? type_mask w) && types_ok (drop raw 48) n
  end.

Lemma type_mask_idem w : type_mask (type_mask w) = type_mask w.
Proof. unfold type_mask. rewrite <- Z.land_assoc. reflexivity. Qed.

Lemma ser_parse_chunk r :
  bytes_ok r -> len r = 48 -> be_decode (slice r 6 2) = type_mask (be_decode (slice r 6 2)) ->
  ser_chunk (parse_chunk r) = r.
Proof.
  intros Hb Hl Ht. unfold ser_chunk, parse_chunk. cbn [c_id c_index c_type c_size c_hash]. rewrite <- Ht.
  change 2%nat with (Z.to_nat 2). change 8%nat with (Z.to_nat 8).
  rewrite <- (length_slice_exact r 4 2) at 1 by lia. rewrite be_encode_decode by now apply bytes_ok_slice.
  rewrite <- (length_slice_exact r 6 2) at 1 by lia. rewrite be_encode_decode by now apply bytes_ok_slice.
  rewrite <- (length_slice_exact r 8 8) at 1 by lia. rewrite be_encode_decode by now apply bytes_ok_slice.
  change (slice r 0 4 ++ slice r 4 2 ++ slice r 6 2 ++ slice r 8 8 ++ slice r 16 32)
    with (concat (slices r 0 [4;2;2;8;32]) ++ []) at 1 || idtac.
  transitivity (concat (slices r 0 [4;2;2;8;32])).
  - cbn [slices concat Z.add]. now rewrite app_nil_r.
  - rewrite concat_slices by (repeat constructor; lia). change (zsum [4;2;2;8;32]) with 48. rewrite <- Hl. apply slice_all.
Qed.

Lemma bytes_ok_drop (l : list Z) n : bytes_ok l -> bytes_ok (drop l n).
Proof. intros. rewrite drop_raw. unfold drop0. now apply bytes_ok_skipn. Qed.

Lemma chunks_of_parse raw n :
  bytes_ok raw -> len raw = 48 * Z.of_nat n -> types_ok raw n = true ->
  concat (map ser_chunk (parse_chunks raw n)) = raw.
Proof.
  revert raw; induction n as [|n IH]; intros raw Hb Hl Ht.
  - destruct raw; [reflexivity|]. rewrite len_cons in Hl. pose proof (len_nonneg raw). lia.
  - cbn [parse_chunks map concat]. cbn [types_ok] in Ht. apply andb_true_iff in Ht as [T1 T2]. apply Z.eqb_eq in T1.
    rewrite ser_parse_chunk; [| now apply bytes_ok_slice | apply len_slice_exact; lia | exact T1].
    rewrite IH; [| now apply bytes_ok_drop | rewrite len_drop by lia; lia | exact T2].
    rewrite slice0_take. apply take_drop.
Qed.

(* ---------- info records ---------- *)

Fixpoint compact (raw : list Z) (n : nat) : bool :=
  match n with
  | O => true
  | S n => if all_zero (slice raw 0 36) then all_zero raw else compact (drop raw 36) n
  end.

Lemma all_zero_repeat l : all_zero l = true -> l = repeat 0 (length l).
Proof.
  induction l as [|x r IH]; [reflexivity|]. unfold all_zero. cbn [forallb]. intros E. apply andb_true_iff in E as [E1 E2].
  apply Z.eqb_eq in E1. subst x. cbn [length repeat]. f_equal. now apply IH.
Qed.

Lemma all_zero_skipn k l : all_zero l = true -> all_zero (skipn k l) = true.
Proof.
  revert l; induction k as [|k IH]; intros l Hz; [exact Hz|]. destruct l as [|x r]; [reflexivity|].
  cbn [skipn]. apply IH. unfold all_zero in *. cbn [forallb] in Hz. now apply andb_true_iff in Hz as [_ ?].
Qed.

Lemma all_zero_firstn k l : all_zero l = true -> all_zero (firstn k l) = true.
Proof.
  revert l; induction k as [|k IH]; intros l Hz; [reflexivity|]. destruct l as [|x r]; [reflexivity|].
  unfold all_zero in *. cbn [firstn forallb] in *. apply andb_true_iff in Hz as [? ?]. apply andb_true_iff. split; auto.
Qed.

Lemma all_zero_slice l a n : all_zero l = true -> all_zero (slice l a n) = true.
Proof. intros. rewrite slice_raw. unfold slice0. now apply all_zero_firstn, all_zero_skipn. Qed.

Lemma parse_infos_zero raw n : all_zero raw = true -> parse_infos raw n = [].
Proof.
  revert raw; induction n as [|n IH]; intros raw Hz; [reflexivity|]. cbn [parse_infos].
  rewrite all_zero_slice by exact Hz. apply IH. rewrite drop_raw. unfold drop0. now apply all_zero_skipn.
Qed.

Lemma ser_parse_info r :
  bytes_ok r -> len r = 36 ->
  ser_info (mkInfo (be_decode (slice r 0 2)) (be_decode (slice r 2 2)) (slice r 4 32)) = r.
Proof.
  intros Hb Hl. unfold ser_info. cbn [i_off i_cnt i_hash]. change 2%nat with (Z.to_nat 2).
  rewrite <- (length_slice_exact r 0 2) at 1 by lia. rewrite be_encode_decode by now apply bytes_ok_slice.
  rewrite <- (length_slice_exact r 2 2) at 1 by lia. rewrite be_encode_decode by now apply bytes_ok_slice.
  transitivity (concat (slices r 0 [2;2;32])).
  - cbn [slices concat Z.add]. now rewrite app_nil_r.
  - rewrite concat_slices by (repeat constructor; lia). change (zsum [2;2;32]) with 36. rewrite <- Hl. apply slice_all.
Qed.

Lemma infos_of_parse raw n :
  bytes_ok raw -> len raw = 36 * Z.of_nat n -> compact raw n = true ->
  exists k, raw = concat (map ser_info (parse_infos raw n)) ++ repeat 0 k.
Proof.
  revert raw; induction n as [|n IH]; intros raw Hb Hl Hc.
  - exists 0%nat. destruct raw; [reflexivity|]. rewrite len_cons in Hl. pose proof (len_nonneg raw). lia.
  - cbn [parse_infos]. cbn [compact] in Hc. destruct (all_zero (slice raw 0 36)) eqn:Z0.
    + exists (length raw). rewrite parse_infos_zero by (rewrite drop_raw; unfold drop0; now apply all_zero_skipn).
      cbn [map concat app]. now apply all_zero_repeat.
    + destruct (IH (drop raw 36)) as [k Hk]; [now apply bytes_ok_drop | rewrite len_drop by lia; lia | exact Hc |].
      exists k. cbn [map concat]. rewrite ser_parse_info; [| now apply bytes_ok_slice | apply len_slice_exact; lia].
      rewrite <- app_assoc, <- Hk. rewrite slice0_take. symmetry. apply take_drop.
Qed.

Lemma ljust_of_split n x k : len x + Z.of_nat k = n -> ljust n x = x ++ repeat 0 k.
Proof. intros. unfold ljust. f_equal. f_equal. lia. Qed.

Lemma info_block_of_parse raw :
  bytes_ok raw -> len raw = 0x900 -> compact raw 64 = true ->
  ljust 0x900 (concat (map ser_info (parse_infos raw 64))) = raw.
Proof.
  intros Hb Hl Hc. destruct (infos_of_parse raw 64 Hb ltac:(rewrite Hl; reflexivity) Hc) as [k Hk].
  rewrite (ljust_of_split _ _ k); [now symmetry|].
  rewrite <- Hl. rewrite Hk at 2. now rewrite len_app, len_repeat.
Qed.

(* ---------- the whole file: bytes (load raw) = raw ---------- *)
Section W.
Variable H : list Z -> list Z.

Lemma sig_layout_pos ty ss pad : sig_layout ty = Some (ss, pad) -> 0 < ss <= 0x200 /\ 0 < pad <= 0x40.
Proof.
  unfold sig_layout. repeat match goal with |- context [if ?c then _ else _] => destruct c end;
    intros E; inversion E; subst; lia.
Qed.

(* well-formed input: exactly the announced length, zero signature padding, non-zero info records first, chunk type words
   within the bits the object keeps, and the header carries the hash of the info block *)
Definition wf_bytes (raw : list Z) : Prop :=
  match sig_layout (be_decode (slice raw 0 4)) with
  | None => False
  | Some (ss, pad) =>
      let hs := 4 + ss + pad in
      let count := be_decode (slice (slice raw hs 0xC4) 0x9E 2) in
      len raw = hs + 0xC4 + 0x900 + count * 48 /\
      slice raw (4 + ss) pad = repeat 0 (Z.to_nat pad) /\
      compact (slice raw (hs + 0xC4) 0x900) 64 = true /\
      types_ok (slice raw (hs + 0xC4 + 0x900) (count * 48)) (Z.to_nat count) = true /\
      slice (slice raw hs 0xC4) 0xA4 32 = H (slice raw (hs + 0xC4) 0x900)
  end.

Theorem tmd_bytes_of_load v raw t :
  bytes_ok raw -> wf_bytes raw -> tmd_load H v raw = Ok t -> ser_obj H (obj_of t) = Ok raw.
Proof.
  intros Hb Hw Hl. unfold wf_bytes in Hw. unfold tmd_load in Hl.
  destruct (sig_layout (be_decode (slice raw 0 4))) as [[ss pad]|] eqn:SL; [|contradiction].
  destruct (sig_layout_pos _ _ _ SL) as [Hss Hpad].
  set (hs := 4 + ss + pad) in *. set (hd := slice raw hs 0xC4) in *.
  set (count := be_decode (slice hd 0x9E 2)) in *. set (ir := slice raw (hs + 0xC4) 0x900) in *.
  destruct Hw as (Wl & Wp & Wc & Wt & Wh).
  assert (Hc0 : 0 <= count) by (apply be_decode_range; subst hd; now repeat apply bytes_ok_slice).
  destruct (negb (len hd =? 0xC4)) eqn:L1; [discriminate|].
  destruct (negb (len ir =? 0x900)) eqn:L2; [discriminate|].
  apply negb_false_iff, Z.eqb_eq in L1. apply negb_false_iff, Z.eqb_eq in L2.
  destruct (tmd_check H v hd ir _ _) as [[]|e] eqn:CK; cbn [bind] in Hl; [|discriminate].
  assert (Ht : t = mkTmd (be_decode (slice raw 0 4)) (slice raw 4 ss) hd (parse_infos ir 64)
                 (parse_chunks (slice raw (hs + 0xC4 + 0x900) (count * 48)) (Z.to_nat count))) by congruence.
  subst t. clear Hl.
  unfold ser_obj. cbn [obj_of o_sigtype t_sigtype]. rewrite SL. f_equal.
  (* the four variable-size parts *)
  assert (E1 : be_encode 4 (be_decode (slice raw 0 4)) = slice raw 0 4).
  { change 4%nat with (Z.to_nat 4). rewrite <- (length_slice_exact raw 0 4) at 1 by lia.
    apply be_encode_decode. now apply bytes_ok_slice. }
  assert (E2 : fit ss (slice raw 4 ss) = slice raw 4 ss) by (apply fit_exact, len_slice_exact; lia).
  assert (E4 : info_block (obj_of (mkTmd (be_decode (slice raw 0 4)) (slice raw 4 ss) hd (parse_infos ir 64)
                 (parse_chunks (slice raw (hs + 0xC4 + 0x900) (count * 48)) (Z.to_nat count)))) = ir).
  { unfold info_block. cbn [obj_of o_infos t_infos]. apply info_block_of_parse; auto. subst ir. now apply bytes_ok_slice. }
  assert (E3 : ser_header H (obj_of (mkTmd (be_decode (slice raw 0 4)) (slice raw 4 ss) hd (parse_infos ir 64)
                 (parse_chunks (slice raw (hs + 0xC4 + 0x900) (count * 48)) (Z.to_nat count)))) = hd).
  { apply header_of_fields; cbn [t_header]; [subst hd; now apply bytes_ok_slice | exact L1 |]. rewrite E4. exact Wh. }
  assert (E5 : concat (map ser_chunk (parse_chunks (slice raw (hs + 0xC4 + 0x900) (count * 48)) (Z.to_nat count)))
               = slice raw (hs + 0xC4 + 0x900) (count * 48)).
  { apply chunks_of_parse; [now apply bytes_ok_slice | rewrite len_slice_exact by lia; lia | exact Wt]. }
  rewrite E3, E4. cbn [obj_of o_sig o_chunks t_sig t_chunks]. rewrite E1, E2, <- Wp, E5.
  transitivity (concat (slices raw 0 [4; ss; pad; 0xC4; 0x900; count * 48])).
  - cbn [slices concat Z.add]. rewrite app_nil_r. subst hd ir hs.
    repeat (f_equal; try lia).
  - rewrite concat_slices by (repeat constructor; lia).
    cbn [zsum]. replace (4 + (ss + (pad + (196 + (2304 + (count * 48 + 0)))))) with (len raw) by lia. apply slice_all.
Qed.
End W.

(* ---------- the other direction: load (bytes t) = t ---------- *)

Lemma ser_chunk_concat c :
  ser_chunk c = concat [c_id c; be_encode 2 (c_index c); be_encode 2 (c_type c); be_encode 8 (c_size c); c_hash c].
Proof. unfold ser_chunk. cbn [concat]. now rewrite app_nil_r. Qed.

Lemma parse_ser_chunk c : full c -> type_mask (c_type c) = c_type c -> parse_chunk (ser_chunk c) = c.
Proof.
  intros (F1 & F2 & F3 & F4 & F5) Hm. destruct c as [ci cx ct cs ch]. cbn [c_id c_index c_type c_size c_hash] in *.
  unfold parse_chunk. rewrite ser_chunk_concat. cbn [c_id c_index c_type c_size c_hash].
  rewrite (slice_part _ 0 0 4), (slice_part _ 1 4 2), (slice_part _ 2 6 2), (slice_part _ 3 8 8), (slice_part _ 4 16 32);
    try (cbn [length]; lia); try (len_parts; fail); cbn [nth].
  rewrite !be_decode_encode_id by (cbn [Z.of_nat Pos.of_succ_nat Pos.succ]; lia). now rewrite Hm.
Qed.

Definition masked (c : chunk) : Prop := type_mask (c_type c) = c_type c.

Lemma slice_app_exact (a b : list Z) n : len a = n -> slice (a ++ b) 0 n = a.
Proof. intros Hl. pose proof (len_nonneg a). rewrite slice_app_l by lia. subst n. apply slice_all. Qed.

Lemma drop_app_exact (a b : list Z) n : len a = n -> drop (a ++ b) n = b.
Proof.
  intros Hl. rewrite drop_raw. unfold drop0. unfold len in Hl. subst n. rewrite Nat2Z.id.
  rewrite skipn_app, skipn_all, Nat.sub_diag. reflexivity.
Qed.

Lemma parse_chunks_of_ser cs :
  Forall full cs -> Forall masked cs -> parse_chunks (concat (map ser_chunk cs)) (length cs) = cs.
Proof.
  induction cs as [|c cs IH]; intros F M; [reflexivity|]. inversion F; inversion M; subst.
  cbn [length parse_chunks map concat].
  rewrite slice_app_exact by now apply len_ser_chunk. rewrite drop_app_exact by now apply len_ser_chunk.
  rewrite parse_ser_chunk by assumption. f_equal. now apply IH.
Qed.

Lemma parse_chunks_masked raw n : Forall masked (parse_chunks raw n).
Proof.
  revert raw; induction n as [|n IH]; intros raw; cbn [parse_chunks]; constructor; [|apply IH].
  unfold masked, parse_chunk. cbn [c_type]. apply type_mask_idem.
Qed.

(* info records *)
Definition info_ok (i : inforec) : Prop :=
  len (i_hash i) = 32 /\ 0 <= i_off i < 2 ^ 16 /\ 0 <= i_cnt i < 2 ^ 16 /\ all_zero (ser_info i) = false.

Lemma len_ser_info i : info_ok i -> len (ser_info i) = 36.
Proof. intros (H1 & _). unfold ser_info. rewrite !len_app, !len_be_encode, H1. reflexivity. Qed.

Lemma ser_info_concat i : ser_info i = concat [be_encode 2 (i_off i); be_encode 2 (i_cnt i); i_hash i].
Proof. unfold ser_info. cbn [concat]. now rewrite app_nil_r. Qed.

Lemma all_zero_app a b : all_zero (a ++ b) = all_zero a && all_zero b.
Proof. unfold all_zero. apply forallb_app. Qed.

Lemma all_zero_rep k : all_zero (repeat 0 k) = true.
Proof. induction k; [reflexivity|]. unfold all_zero in *. cbn [repeat forallb]. now rewrite IHk. Qed.

Lemma parse_infos_of_ser is_ z n :
  Forall info_ok is_ -> all_zero z = true -> (length is_ <= n)%nat ->
  parse_infos (concat (map ser_info is_) ++ z) n = is_.
Proof.
  revert n; induction is_ as [|i r IH]; intros n F Hz Hn.
  - cbn [map concat app]. now apply parse_infos_zero.
  - destruct n as [|n]; [cbn [length] in Hn; lia|]. inversion F as [|? ? Fi Fr]; subst.
    cbn [map concat parse_infos]. rewrite <- app_assoc.
    rewrite slice_app_exact by now apply len_ser_info. rewrite drop_app_exact by now apply len_ser_info.
    destruct Fi as (H1 & H2 & H3 & H4). rewrite H4.
    rewrite IH by (auto; cbn [length] in Hn; lia). f_equal.
    destruct i as [io ic ih]. cbn [i_off i_cnt i_hash] in *. rewrite ser_info_concat. cbn [i_off i_cnt i_hash].
    rewrite (slice_part _ 0 0 2), (slice_part _ 1 2 2), (slice_part _ 2 4 32);
      try (cbn [length]; lia); try (len_parts; fail); cbn [nth].
    now rewrite !be_decode_encode_id by (cbn [Z.of_nat Pos.of_succ_nat Pos.succ]; lia).
Qed.

Lemma parse_infos_ok raw n :
  bytes_ok raw -> 36 * Z.of_nat n <= len raw -> Forall info_ok (parse_infos raw n) /\ (length (parse_infos raw n) <= n)%nat.
Proof.
  revert raw; induction n as [|n IH]; intros raw Hb Hl; cbn [parse_infos]; [split; [constructor|cbn [length]; lia]|].
  destruct (IH (drop raw 36)) as [I1 I2]; [now apply bytes_ok_drop | rewrite len_drop by lia; lia |].
  destruct (all_zero (slice raw 0 36)) eqn:Z0; [split; [exact I1|lia]|].
  split; [|cbn [length]; lia]. constructor; [|exact I1].
  set (r := slice raw 0 36) in *.
  assert (Hbr : bytes_ok r) by now apply bytes_ok_slice.
  assert (Hlr : len r = 36) by (apply len_slice_exact; lia).
  unfold info_ok. cbn [i_off i_cnt i_hash].
  rewrite ser_parse_info by assumption. rewrite len_slice_exact by lia.
  pose proof (be_decode_range (slice r 0 2) (bytes_ok_slice _ _ _ Hbr)) as R1. rewrite len_slice_exact in R1 by lia.
  pose proof (be_decode_range (slice r 2 2) (bytes_ok_slice _ _ _ Hbr)) as R2. rewrite len_slice_exact in R2 by lia.
  change (256 ^ 2) with (2 ^ 16) in *. repeat split; auto; lia.
Qed.

Lemma len_concat_ser_info is_ : Forall info_ok is_ -> len (concat (map ser_info is_)) = 36 * Z.of_nat (length is_).
Proof.
  induction 1 as [|i r Hi Hr IH]; [reflexivity|]. cbn [map concat length]. rewrite len_app, IH, (len_ser_info i Hi). lia.
Qed.

Lemma len_concat_ser_chunk cs : Forall full cs -> len (concat (map ser_chunk cs)) = 48 * Z.of_nat (length cs).
Proof.
  induction 1 as [|c r Hc Hr IH]; [reflexivity|]. cbn [map concat length]. rewrite len_app, IH, (len_ser_chunk c Hc). lia.
Qed.

Section B.
Variable H : list Z -> list Z.

Lemma concat_snoc {A} (ls : list (list A)) x : concat (ls ++ [x]) = concat ls ++ x.
Proof. rewrite concat_app. cbn [concat]. now rewrite app_nil_r. Qed.

(* the serialised header is the old one up to 0xA4, followed by the recomputed hash *)
Lemma header_prefix t :
  bytes_ok (t_header t) -> len (t_header t) = 0xC4 ->
  ser_header H (obj_of t) = slice (t_header t) 0 0xA4 ++ fit 32 (H (info_block (obj_of t))).
Proof.
  intros Hb Hl. unfold ser_header. set (h := t_header t) in *.
  assert (E : header_parts H (obj_of t) =
              slices h 0 [0x40;1;1;1;1;8;8;4;2;4;4;4;1;0x31;4;2;2;2;2] ++ [fit 32 (H (info_block (obj_of t)))]).
  { unfold header_parts. cbn [slices Z.add app].
    unfold obj_of at 1 2 3 4 5 6 7 8 9 10 11 12 13 14 15 16 17 18 19. fold h.
    cbn [o_issuer o_version o_ca_crl o_signer_crl o_reserved1 o_sysver o_tid o_ttype o_group o_save o_srl_save o_reserved2
         o_srl_flag o_reserved3 o_access o_tver o_count o_boot o_padding].
    repeat match goal with
    | |- [_] = [_] => reflexivity
    | |- _ :: _ = _ :: _ => f_equal
    | |- fit _ (rstrip0 _) = _ => apply fit_rstrip; apply len_slice_exact; lia
    | |- fit _ (slice _ _ _) = _ => apply fit_exact; apply len_slice_exact; lia
    | |- [pyidx _ _] = _ => symmetry; apply slice_one; lia
    end.
    - change 4%nat with (Z.to_nat 4). rewrite <- (length_slice_exact h 0x5A 4) by lia.
      apply le_encode_decode. now apply bytes_ok_slice.
    - change 4%nat with (Z.to_nat 4). rewrite <- (length_slice_exact h 0x5E 4) by lia.
      apply le_encode_decode. now apply bytes_ok_slice.
    - change 2%nat with (Z.to_nat 2). rewrite <- (length_slice_exact h 0x9C 2) by lia.
      apply be_encode_decode. now apply bytes_ok_slice.
    - change 2%nat with (Z.to_nat 2). rewrite <- (length_slice_exact h 0x9E 2) by lia.
      apply be_encode_decode. now apply bytes_ok_slice. }
  rewrite E, concat_snoc, concat_slices by (try (repeat constructor; lia); lia). reflexivity.
Qed.

End B.

Lemma prefix_slice (h x : list Z) a n :
  len h = 0xC4 -> 0 <= a -> 0 <= n -> a + n <= 0xA4 -> slice (slice h 0 0xA4 ++ x) a n = slice h a n.
Proof.
  intros Hl Ha Hn Han. rewrite slice_app_l by (rewrite ?len_slice_exact by lia; lia).
  rewrite slice_slice by lia. f_equal; lia.
Qed.

Lemma prefix_idx (h x : list Z) a :
  len h = 0xC4 -> 0 <= a < 0xA4 -> pyidx (slice h 0 0xA4 ++ x) a = pyidx h a.
Proof.
  intros Hl Ha.
  assert (E : [pyidx (slice h 0 0xA4 ++ x) a] = [pyidx h a]).
  { rewrite <- !slice_one; [apply prefix_slice; lia | lia |].
    rewrite len_app, len_slice_exact by lia. pose proof (len_nonneg x). lia. }
  now inversion E.
Qed.

Section B2.
Variable H : list Z -> list Z.
(* SHA-256 returns 32 bytes: the only thing assumed about the hash, and only in this direction *)
Hypothesis Hlen : forall x, len (H x) = 32.

Lemma tmd_load_eq v b ty ss pad hd ir ca :
  sig_layout ty = Some (ss, pad) -> be_decode (slice b 0 4) = ty ->
  slice b (4 + ss + pad) 0xC4 = hd -> len hd = 0xC4 ->
  slice b (4 + ss + pad + 0xC4) 0x900 = ir -> len ir = 0x900 ->
  slice b (4 + ss + pad + 0xC4 + 0x900) (be_decode (slice hd 0x9E 2) * 48) = ca ->
  tmd_load H v b =
    (do _ <- tmd_check H v hd ir (parse_chunks ca (Z.to_nat (be_decode (slice hd 0x9E 2)))) (parse_infos ir 64);
     Ok (mkTmd ty (slice b 4 ss) hd (parse_infos ir 64) (parse_chunks ca (Z.to_nat (be_decode (slice hd 0x9E 2)))))).
Proof.
  intros SL E1 E2 L2 E3 L3 E4. unfold tmd_load. rewrite E1, SL. cbv zeta. rewrite E2, E3, E4, L2, L3.
  change (negb (0xC4 =? 0xC4)) with false. change (negb (0x900 =? 0x900)) with false. cbv iota. reflexivity.
Qed.

Lemma check_transfer v hd hd' ir ib chunks infos :
  tmd_check H v hd ir chunks infos = Ok tt ->
  slice hd' 0xA4 32 = H ib -> slice hd' 0 0x40 = slice hd 0 0x40 ->
  tmd_check H v hd' ib chunks infos = Ok tt.
Proof.
  unfold tmd_check. intros C E1 E2. rewrite E1, E2.
  replace (list_eqb (H ib) (H ib)) with true by (symmetry; now apply list_eqb_spec).
  cbn [negb]. rewrite andb_false_r.
  destruct (v && negb (list_eqb (H ir) (slice hd 0xA4 32))); [discriminate|]. exact C.
Qed.

Definition complete (raw : list Z) : Prop :=
  match sig_layout (be_decode (slice raw 0 4)) with
  | None => False
  | Some (ss, pad) =>
      let hs := 4 + ss + pad in
      hs + 0xC4 + 0x900 + be_decode (slice (slice raw hs 0xC4) 0x9E 2) * 48 <= len raw
  end.

Theorem tmd_load_of_bytes v raw t :
  bytes_ok raw -> complete raw -> tmd_load H v raw = Ok t ->
  exists b t', ser_obj H (obj_of t) = Ok b /\ tmd_load H v b = Ok t' /\ obj_of t' = obj_of t.
Proof.
  intros Hb Hw Hl. unfold complete in Hw. unfold tmd_load in Hl.
  destruct (sig_layout (be_decode (slice raw 0 4))) as [[ss pad]|] eqn:SL; [|contradiction].
  destruct (sig_layout_pos _ _ _ SL) as [Hss Hpad].
  set (ty := be_decode (slice raw 0 4)) in *.
  set (hs := 4 + ss + pad) in *. set (hd := slice raw hs 0xC4) in *.
  set (count := be_decode (slice hd 0x9E 2)) in *. set (ir := slice raw (hs + 0xC4) 0x900) in *.
  set (ca := slice raw (hs + 0xC4 + 0x900) (count * 48)) in *.
  assert (Hbh : bytes_ok hd) by (subst hd; now apply bytes_ok_slice).
  assert (Hc0 : 0 <= count < 2 ^ 16).
  { pose proof (be_decode_range (slice hd 0x9E 2) (bytes_ok_slice _ _ _ Hbh)) as R.
    destruct (negb (len hd =? 0xC4)) eqn:L1; [discriminate|]. apply negb_false_iff, Z.eqb_eq in L1.
    rewrite len_slice_exact in R by lia. exact R. }
  destruct (negb (len hd =? 0xC4)) eqn:L1; [discriminate|].
  destruct (negb (len ir =? 0x900)) eqn:L2; [discriminate|].
  apply negb_false_iff, Z.eqb_eq in L1. apply negb_false_iff, Z.eqb_eq in L2.
  set (infos := parse_infos ir 64) in *. set (chunks := parse_chunks ca (Z.to_nat count)) in *.
  destruct (tmd_check H v hd ir chunks infos) as [[]|e] eqn:CK; cbn [bind] in Hl; [|discriminate].
  assert (Ht : t = mkTmd ty (slice raw 4 ss) hd infos chunks) by congruence. clear Hl.
  (* facts about the parsed records *)
  assert (Hbi : bytes_ok ir) by (subst ir; now apply bytes_ok_slice).
  destruct (parse_infos_ok ir 64 Hbi ltac:(rewrite L2; reflexivity)) as [Fi Li]. fold infos in Fi, Li.
  assert (Lca : len ca = count * 48) by (subst ca; apply len_slice_exact; lia).
  assert (Fc : Forall full chunks).
  { apply parse_chunks_full; [subst ca; now apply bytes_ok_slice | rewrite Lca; lia]. }
  assert (Mc : Forall masked chunks) by apply parse_chunks_masked.
  assert (Lc : length chunks = Z.to_nat count) by apply length_parse_chunks.
  assert (Hty : 0 <= ty < 256 ^ 4).
  { pose proof (be_decode_range (slice raw 0 4) (bytes_ok_slice _ _ _ Hb)) as R. rewrite len_slice_exact in R by lia. exact R. }
  (* the serialisation and its parts *)
  set (o := obj_of t).
  assert (Eib : info_block o = concat (map ser_info infos) ++ repeat 0 (Z.to_nat (0x900 - len (concat (map ser_info infos))))).
  { unfold info_block, ljust. subst o t. reflexivity. }
  assert (Lib : len (info_block o) = 0x900).
  { unfold info_block. subst o t. cbn [obj_of o_infos t_infos]. apply len_ljust. rewrite len_concat_ser_info by exact Fi. lia. }
  assert (Ehd : ser_header H o = slice hd 0 0xA4 ++ fit 32 (H (info_block o))).
  { subst o t. apply (header_prefix H); cbn [t_header]; assumption. }
  assert (Lhd : len (ser_header H o) = 0xC4).
  { rewrite Ehd, len_app, len_fit, len_slice_exact by lia. reflexivity. }
  assert (Ecs : o_chunks o = chunks) by (subst o t; reflexivity).
  assert (Lcs : len (concat (map ser_chunk chunks)) = count * 48).
  { rewrite len_concat_ser_chunk by exact Fc. rewrite Lc. lia. }
  assert (Esg : fit ss (o_sig o) = slice raw 4 ss).
  { subst o t. cbn [obj_of o_sig t_sig]. apply fit_exact, len_slice_exact; lia. }
  assert (Ety : o_sigtype o = ty) by (subst o t; reflexivity).
  unfold ser_obj. rewrite Ety, SL, Esg, Ecs.
  set (p1 := be_encode 4 ty). set (p2 := slice raw 4 ss). set (p3 := repeat 0 (Z.to_nat pad)).
  set (hd' := ser_header H o) in *. set (ib := info_block o) in *. set (cs := concat (map ser_chunk chunks)) in *.
  assert (Lp2 : len p2 = ss) by (subst p2; apply len_slice_exact; lia).
  assert (Lp3 : len p3 = pad) by (subst p3; rewrite len_repeat; lia).
  assert (Eb : p1 ++ p2 ++ p3 ++ hd' ++ ib ++ cs = concat [p1; p2; p3; hd'; ib; cs]).
  { cbn [concat]. now rewrite app_nil_r. }
  exists (p1 ++ p2 ++ p3 ++ hd' ++ ib ++ cs). eexists. split; [reflexivity|].
  (* fields of the new header *)
  assert (Ecount : be_decode (slice hd' 0x9E 2) = count).
  { rewrite Ehd, prefix_slice by lia. reflexivity. }
  assert (Ehash : slice hd' 0xA4 32 = H ib).
  { rewrite Ehd. rewrite slice_app_r by (rewrite ?len_slice_exact by lia; lia). rewrite len_slice_exact by lia.
    change (0xA4 - 0xA4) with 0. rewrite <- (len_fit 32 (H ib)) at 2 by lia. rewrite slice_all. apply fit_exact, Hlen. }
  assert (Eiss : slice hd' 0 0x40 = slice hd 0 0x40) by (rewrite Ehd; apply prefix_slice; lia).
  rewrite (tmd_load_eq v _ ty ss pad hd' ib cs SL); rewrite ?Eb.
  - (* the load succeeds with the same records *)
    rewrite Ecount. fold chunks.
    assert (Ech : parse_chunks cs (Z.to_nat count) = chunks).
    { subst cs. rewrite <- Lc. now apply parse_chunks_of_ser. }
    assert (Einf : parse_infos ib 64 = infos).
    { rewrite Eib. apply parse_infos_of_ser; [exact Fi | apply all_zero_rep | exact Li]. }
    rewrite Ech, Einf. rewrite (check_transfer v hd hd' ir ib chunks infos CK Ehash Eiss). cbn [bind].
    split; [reflexivity|].
    rewrite (slice_part _ 1 4 ss) by (try (cbn [length]; lia); subst p1; len_parts).
    cbn [nth]. subst o. rewrite Ht. unfold obj_of. cbn [t_sigtype t_sig t_header t_infos t_chunks].
    fold hd'. rewrite Ehd.
    rewrite !prefix_slice, !prefix_idx by lia. reflexivity.
  - rewrite (slice_part _ 0 0 4) by (try (cbn [length]; lia); subst p1; len_parts).
    cbn [nth]. subst p1. now apply be_decode_encode_id.
  - apply (slice_part [p1; p2; p3; hd'; ib; cs] 3); [cbn [length]; lia | subst p1; len_parts | cbn [nth]; exact Lhd].
  - exact Lhd.
  - apply (slice_part [p1; p2; p3; hd'; ib; cs] 4); [cbn [length]; lia | subst p1; len_parts | cbn [nth]; exact Lib].
  - exact Lib.
  - rewrite Ecount. apply (slice_part [p1; p2; p3; hd'; ib; cs] 5); [cbn [length]; lia | subst p1; len_parts | cbn [nth]; exact Lcs].
Qed.
End B2.

(* ---------- the hypotheses are satisfiable: a TMD with one content, one info record ---------- *)
Definition H0 (_ : list Z) : list Z := repeat 0 32.
Definition raw0 : list Z :=
  be_encode 4 0x10005 ++ repeat 7 0x3C ++ repeat 0 0x40
  ++ (repeat 65 0x20 ++ repeat 0 0x20 ++ repeat 0x80 (0x9E - 0x40) ++ [0; 1] ++ repeat 0xFF 4 ++ repeat 0 32)
  ++ (be_encode 2 0 ++ be_encode 2 1 ++ repeat 0 32 ++ repeat 0 (0x900 - 36))
  ++ ([0; 0; 0; 1] ++ be_encode 2 0 ++ be_encode 2 0x4001 ++ be_encode 8 5 ++ repeat 9 32).

Lemma bytes_ok_forallb l : forallb (fun x => (0 <=? x) && (x <? 256)) l = true -> bytes_ok l.
Proof.
  intros E. unfold bytes_ok. apply Forall_forall. intros x Hx. rewrite forallb_forall in E. specialize (E x Hx).
  unfold byte_ok. lia.
Qed.

Example tmd_roundtrip_nonvacuous :
  bytes_ok raw0 /\ wf_bytes H0 raw0 /\ complete raw0 /\ (forall x, len (H0 x) = 32) /\
  is_ok (tmd_load H0 true raw0) = true /\
  (do t <- tmd_load H0 true raw0; Ok (length (t_infos t), length (t_chunks t))) = Ok (1%nat, 1%nat).
Proof.
  split; [apply bytes_ok_forallb; vm_compute; reflexivity|].
  split; [unfold wf_bytes; vm_compute; repeat split; reflexivity|].
  split; [unfold complete; vm_compute; discriminate|].
  split; [intros; reflexivity|].
  split; vm_compute; reflexivity.
Qed.
