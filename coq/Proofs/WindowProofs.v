(* C09 for SubsectionIO: every step of every history obeys the sub-file contract. *)
From Pyctr Require Import Base.Prelude Base.ListExt Base.PySlice Env.PyFile Model.Window.

Section P.
Variables (off sz : Z).
Hypotheses (Hoff : 0 <= off) (Hsz : 0 <= sz).

Definition win_inv (w : window) : Prop := 0 <= wseek w /\ off <= len (fdata (wbase w)).

(* the contract of the property, for one step from w (base contents B) to w' (B') *)
Definition step_contract (w : window) (o : wop) (r : wres) (w' : window) : Prop :=
  let B := fdata (wbase w) in
  let B' := fdata (wbase w') in
  let sk := wseek w in
  match o, r with
  | WRead n, RBytes b =>
      B' = B /\ wseek w' = sk + len b /\
      b = slice B (off + sk) (len b) /\
      (b <> [] -> off + sk + len b <= off + sz) /\
      (0 <= n -> len b <= n) /\
      len b = read_count (Z.min (len B) (off + sz)) (off + sk) n
  | WWrite d, RInt k =>
      (forall i : nat, (Z.of_nat i < off \/ off + sz <= Z.of_nat i) -> nth_error B' i = nth_error B i) /\
      0 <= k <= len d /\ k = Z.min (len d) (Z.max 0 (sz - sk)) /\
      slice B' (off + sk) k = take d k /\
      wseek w' = sk + k
  | WSeek s wh, RInt p =>
      B' = B /\ wseek w' = p /\
      (wh = 0 -> 0 <= s <= sz -> p = s) /\
      (wh = 1 -> p = Z.max 0 (sk + s)) /\
      (wh = 2 -> p = Z.max 0 (sz + s))
  | WSeek s wh, RErr e => w' = w /\ ((wh = 0 /\ s < 0) \/ (wh <> 0 /\ wh <> 1 /\ wh <> 2))
  | WTell, RInt p => w' = w /\ p = sk
  | _, _ => False
  end.

Lemma pf_seek_abs f p : 0 <= p -> pf_seek f p 0 = Ok (p, mkFile (fdata f) p).
Proof. intros. unfold pf_seek. cbn. destruct (p <? 0) eqn:?; [lia|reflexivity]. Qed.

Lemma win_read_size_nonneg sk n : 0 <= sk <= sz -> 0 <= win_read_size sz sk n.
Proof.
  intros. unfold win_read_size. destruct (n <? 0) eqn:?.
  - destruct (sk + (sz - sk) >? sz) eqn:?; lia.
  - destruct (sk + n >? sz) eqn:?; lia.
Qed.

Lemma win_read_size_val sk n :
  0 <= sk <= sz -> win_read_size sz sk n = if n <? 0 then sz - sk else Z.min n (sz - sk).
Proof.
  intros. unfold win_read_size. destruct (n <? 0) eqn:?.
  - destruct (sk + (sz - sk) >? sz) eqn:?; lia.
  - destruct (sk + n >? sz) eqn:?; lia.
Qed.

Lemma step_ok w o :
  win_inv w ->
  let '(r, w') := win_step off sz w o in
  step_contract w o r w' /\ win_inv w'.
Proof.
  intros [Hsk Hb]. destruct w as [[B p0] sk]. cbn [wseek wbase fdata] in *.
  destruct o as [n|s wh|d|]; cbn [win_step].
  - (* read *)
    unfold win_read. cbn [wseek wbase].
    destruct (off + sk >? off + sz) eqn:Hpast.
    + cbn [step_contract wseek wbase fdata]. unfold win_inv; cbn [wseek wbase fdata].
      unfold read_count. rewrite len_nil.
      repeat split; try lia; try reflexivity; try congruence; try (now rewrite slice_0).
      destruct (n <? 0) eqn:?; lia.
    + rewrite pf_seek_abs by lia. cbn [bind].
      assert (Hsk2 : 0 <= sk <= sz) by lia.
      pose proof (win_read_size_nonneg sk n Hsk2) as Hn2.
      pose proof (win_read_size_val sk n Hsk2) as Hv.
      set (n2 := win_read_size sz sk n) in *.
      unfold pf_read. cbn [fdata fpos].
      set (k := read_count (len B) (sk + off) n2).
      assert (Hk : 0 <= k) by apply read_count_nonneg.
      assert (Hl : len (slice B (sk + off) k) = k).
      { rewrite len_slice by lia. unfold k, read_count. destruct (n2 <? 0) eqn:?; lia. }
      cbn [step_contract wseek wbase fdata]. unfold win_inv; cbn [wseek wbase fdata].
      rewrite Hl. replace (off + sk) with (sk + off) by lia.
      assert (Hkv : k = read_count (Z.min (len B) (off + sz)) (sk + off) n).
      { unfold k, read_count. rewrite Hv.
        destruct (n <? 0) eqn:?.
        - destruct (sz - sk <? 0) eqn:?; lia.
        - destruct (Z.min n (sz - sk) <? 0) eqn:?; lia. }
      repeat split; try lia; try reflexivity.
      * intros _. unfold k, read_count. destruct (n2 <? 0) eqn:?; [lia|].
        rewrite Hv in *. destruct (n <? 0) eqn:?; lia.
      * intros Hn. unfold k, read_count. destruct (n2 <? 0) eqn:?; [lia|].
        rewrite Hv in *. destruct (n <? 0) eqn:?; lia.
  - (* seek *)
    unfold win_seek, win_seek_pos. cbn [wseek wbase].
    destruct (wh =? 0) eqn:E0.
    + destruct (s <? 0) eqn:Es; cbn [bind step_contract wseek wbase fdata]; unfold win_inv; cbn [wseek wbase fdata].
      * repeat split; auto. left. lia.
      * repeat split; try lia; auto.
    + destruct (wh =? 1) eqn:E1; [|destruct (wh =? 2) eqn:E2];
        cbn [bind step_contract wseek wbase fdata]; unfold win_inv; cbn [wseek wbase fdata];
        repeat split; try lia; auto.
  - (* write *)
    unfold win_write. cbn [wseek wbase].
    destruct (sk >? sz) eqn:Hpast.
    + cbn [step_contract wseek wbase fdata]. unfold win_inv; cbn [wseek wbase fdata].
      pose proof (len_nonneg d). repeat split; try lia; auto. now rewrite slice_0, take_0.
    + rewrite pf_seek_abs by lia. cbn [bind]. unfold pf_write. cbn [fdata fpos].
      set (d' := win_write_data sz sk d).
      assert (Hd' : d' = take d (Z.min (len d) (sz - sk))).
      { unfold d', win_write_data. pose proof (len_nonneg d).
        destruct (len d + sk >? sz) eqn:?.
        - unfold pyslice, clampidx.
          destruct (- (len d + sk - sz) <? 0) eqn:?; [|lia].
          rewrite ?slice_raw, ?take_raw; unfold slice0, take0. simpl skipn. f_equal. lia.
        - rewrite ?take_raw; unfold take0. rewrite Z.min_l by lia. unfold len. rewrite Nat2Z.id. symmetry. apply firstn_all. }
      pose proof (len_nonneg d) as Hld.
      assert (Hlen' : len d' = Z.min (len d) (sz - sk)).
      { rewrite Hd'. rewrite len_take by lia. lia. }
      cbn [step_contract wseek wbase fdata]. unfold win_inv; cbn [wseek wbase fdata].
      rewrite Hlen'.
      destruct d' as [|x d''] eqn:Ed'.
      * (* nothing stored *)
        cbn [overlay]. rewrite len_nil in Hlen'.
        repeat split; try lia; auto.
        rewrite <- Hlen'. rewrite ?take_raw, ?slice_raw; unfold take0, slice0. reflexivity.
      * assert (Hne : x :: d'' <> []) by congruence.
        repeat split; try lia.
        -- intros i Hi. rewrite nth_error_overlay by exact Hne. cbv zeta.
           rewrite len_cons in Hlen'. pose proof (len_nonneg d'').
           assert (length (x :: d'') = Z.to_nat (Z.min (len d) (sz - sk))) as Hlx
             by (unfold len in *; simpl length in *; lia).
           unfold len in Hb.
           destruct (Nat.ltb_spec i (Z.to_nat (sk + off))).
           ++ destruct (Nat.ltb_spec i (length B)); [reflexivity|]. lia.
           ++ destruct (Nat.ltb_spec i (Z.to_nat (sk + off) + length (x :: d''))); [lia|reflexivity].
        -- apply list_ext. intros i.
           rewrite nth_error_slice by lia.
           rewrite nth_error_overlay by exact Hne. cbv zeta.
           assert (length (x :: d'') = Z.to_nat (Z.min (len d) (sz - sk))) as Hlx
             by (unfold len in *; lia).
           destruct (Z.ltb_spec (Z.of_nat i) (Z.min (len d) (sz - sk))).
           ++ destruct (Nat.ltb_spec (Z.to_nat (off + sk) + i) (Z.to_nat (sk + off))); [lia|].
              destruct (Nat.ltb_spec (Z.to_nat (off + sk) + i) (Z.to_nat (sk + off) + length (x :: d''))); [|lia].
              rewrite <- Hd'. f_equal. lia.
           ++ rewrite <- Hd'. symmetry. apply nth_error_None. lia.
        -- rewrite len_overlay by (try exact Hne; lia). lia.
  - cbn [step_contract win_tell]. unfold win_inv. cbn [wseek wbase fdata]. auto.
Qed.

(* every step of every history *)
Fixpoint all_steps_ok (w : window) (ops : list wop) : Prop :=
  match ops with
  | [] => True
  | o :: r => let '(x, w') := win_step off sz w o in step_contract w o x w' /\ all_steps_ok w' r
  end.

Theorem window_history_ok w ops : win_inv w -> all_steps_ok w ops.
Proof.
  revert w; induction ops as [|o r IH]; intros w Hw; [exact I|].
  cbn [all_steps_ok]. pose proof (step_ok w o Hw) as H.
  destruct (win_step off sz w o) as [x w']. destruct H as [Hc Hi]. split; [exact Hc|now apply IH].
Qed.

End P.

Example window_example :
  let w0 := mkWin (mkFile [9;9;1;2;3;4;9;9] 0) 0 in
  fst (win_run 2 4 w0 [WRead 1; WRead (-5); WSeek (-1) 2; WWrite [7;7;7]; WSeek 0 0; WRead (-1)])
  = [RBytes [1]; RBytes [2;3;4]; RInt 3; RInt 1; RInt 0; RBytes [1;2;3;7]].
Proof. vm_compute. reflexivity. Qed.

(* SubsectionIO is itself a lawful file whose contents are the window slice: crypto
   wrappers stacked on a window therefore inherit everything proved over lawful files *)
From Pyctr Require Import Env.FileIface.

Definition window_ops (off sz : Z) : fileops window :=
  mkOps (win_read off sz) (win_seek sz) win_tell (win_write off sz).

Definition win_content (off sz : Z) (w : window) : list Z := slice (fdata (wbase w)) off sz.

Lemma window_lawful off sz :
  0 <= off -> 0 <= sz ->
  lawful (window_ops off sz) (win_inv off) (win_content off sz) wseek.
Proof.
  intros Hoff Hsz. constructor.
  - intros s [H _]. exact H.
  - reflexivity.
  - intros s n Hinv. cbn [window_ops f_read].
    pose proof (step_ok off sz Hoff Hsz s (WRead n) Hinv) as P. cbn [win_step] in P.
    destruct (win_read off sz s n) as [[b s']|e] eqn:E.
    + destruct P as [(P1 & P2 & P3 & P4 & P5 & P6) Pinv].
      exists b, s'. split; [reflexivity|]. split; [exact Pinv|].
      destruct Hinv as [Hsk Hb]. unfold win_content.
      set (B := fdata (wbase s)) in *. set (sk := wseek s) in *.
      pose proof (len_nonneg b) as Hlb.
      assert (Hcl : len (slice B off sz) = Z.min (len B) (off + sz) - off) by (rewrite len_slice by lia; lia).
      repeat split.
      * rewrite slice_slice by lia.
        destruct (Z.eq_dec (len b) 0) as [E0|Hne].
        -- rewrite E0. rewrite Z.min_l by lia. rewrite slice_0.
           destruct b; [reflexivity|]. rewrite len_cons in E0. pose proof (len_nonneg b). lia.
        -- assert (b <> []) as Hbne by (intros ->; rewrite len_nil in Hne; lia).
           specialize (P4 Hbne). rewrite Z.min_l by lia. exact P3.
      * rewrite P6, Hcl. unfold read_count. destruct (n <? 0) eqn:?; lia.
      * now rewrite P1.
      * exact P2.
    + destruct P as [P _]. cbn [step_contract] in P. contradiction.
  - intros s o w Hinv. cbn [window_ops f_seek].
    pose proof (step_ok off sz Hoff Hsz s (WSeek o w) Hinv) as P. cbn [win_step] in P.
    destruct (win_seek sz s o w) as [[p s']|e]; [|exact I].
    destruct P as [(P1 & P2 & _) Pinv]. unfold win_content. rewrite P1. auto.
  - intros s Hinv. cbn [window_ops f_seek]. unfold win_seek, win_seek_pos. cbn.
    rewrite Z.min_l by lia. eauto.
  - intros s d Hinv. cbn [window_ops f_seek]. unfold win_seek, win_seek_pos. cbn.
    rewrite Z.max_comm. eauto.
Qed.
