(* Invariants of the keyslot state machine (C08). *)
From Pyctr Require Import Base.Prelude Base.ListExt Base.PyInt Spec.Scrambler Model.Engine.

Lemma fupd_same {A} (m : fmap A) k v : fupd m k v k = Some v.
Proof. unfold fupd. now rewrite Z.eqb_refl. Qed.

Lemma fupd_other {A} (m : fmap A) k v k' : k' <> k -> fupd m k v k' = m k'.
Proof. unfold fupd. intros H. destruct (Z.eqb_spec k' k); congruence. Qed.

(* 1. a set-X / set-Y with updating enabled leaves the scrambled key in the slot as soon
      as both halves are present *)
Lemma set_keyslot_updates e isx slot key x y :
  let e' := set_keyslot e isx slot key true in
  kx e' slot = Some x -> ky e' slot = Some y -> kn e' slot = Some (keygen_slot slot x y).
Proof.
  unfold set_keyslot, keygen. destruct isx; cbn [kx ky kn]; rewrite ?fupd_same.
  - destruct (ky e slot) as [y0|] eqn:Ey; cbn [kx ky kn]; rewrite ?fupd_same; intros; congruence.
  - destruct (kx e slot) as [x0|] eqn:Ex; cbn [kx ky kn]; rewrite ?fupd_same; intros; congruence.
Qed.

(* 2. refresh recomputes every slot that has both halves *)
Lemma refresh_updates e slot x y :
  kx e slot = Some x -> ky e slot = Some y ->
  kn (refresh e) slot = Some (keygen_slot slot x y) /\ kx (refresh e) = kx e /\ ky (refresh e) = ky e.
Proof. intros Hx Hy. unfold refresh; cbn [kx ky kn]. now rewrite Hx, Hy. Qed.

(* 3. frame: an operation that does not write X/Y/normal of [slot] and is not a refresh
      leaves that slot alone *)
Lemma step_frame e o slot :
  sets_xy o slot = false -> sets_normal o slot = false -> is_refresh o = false ->
  kx (step e o) slot = kx e slot /\ ky (step e o) slot = ky e slot /\ kn (step e o) slot = kn e slot.
Proof.
  destruct o as [isx s key upd|isx s b upd|s k|]; cbn [sets_xy sets_normal is_refresh step]; intros H1 H2 H3;
    try discriminate.
  - apply Z.eqb_neq in H1. unfold set_keyslot, keygen.
    destruct isx, upd; cbn [kx ky kn];
      repeat match goal with |- context [match ?a with _ => _ end] => destruct a; cbn [kx ky kn] end;
      rewrite ?fupd_other by congruence; auto.
  - apply Z.eqb_neq in H1. unfold set_keyslot, keygen.
    destruct isx, upd; cbn [kx ky kn];
      repeat match goal with |- context [match ?a with _ => _ end] => destruct a; cbn [kx ky kn] end;
      rewrite ?fupd_other by congruence; auto.
  - apply Z.eqb_neq in H2. cbn [kx ky kn]. rewrite fupd_other by congruence. auto.
Qed.

(* 4. a directly set normal key persists over any suffix of operations that neither
      sets X/Y of that slot, nor sets its normal key, nor refreshes *)
Lemma normal_persists e slot k ops :
  forallb (fun o => negb (sets_xy o slot) && negb (sets_normal o slot) && negb (is_refresh o)) ops = true ->
  kn (run (step e (SetNormal slot k)) ops) slot = Some k.
Proof.
  intros Hall.
  assert (G : forall e0, kn e0 slot = Some k -> kn (run e0 ops) slot = Some k).
  { induction ops as [|o ops IH]; intros e0 H0; [exact H0|].
    cbn [forallb] in Hall. apply andb_true_iff in Hall as [Ho Hall].
    apply andb_true_iff in Ho as [Ho H3]. apply andb_true_iff in Ho as [H1 H2].
    apply negb_true_iff in H1, H2, H3.
    cbn [run fold_left]. apply IH; [exact Hall|].
    destruct (step_frame e0 o slot H1 H2 H3) as (_ & _ & ->). exact H0. }
  apply G. cbn [step kn]. apply fupd_same.
Qed.

(* 5. the refresh may also be delayed: after deferred writes (upd = false) of both halves
      and then a refresh, the slot holds the scrambled key of the *latest* halves *)
Lemma deferred_then_refresh e ops slot x y :
  let e' := run e ops in
  kx e' slot = Some x -> ky e' slot = Some y ->
  kn (step e' Refresh) slot = Some (keygen_slot slot x y).
Proof. intros e' Hx Hy. cbn [step]. now apply refresh_updates. Qed.

(* 6. whatever the history, a slot written with updating enabled as the last operation is coherent *)
Theorem coherent_after_update e ops isx slot key x y :
  let e' := run e (ops ++ [SetKey isx slot key true]) in
  kx e' slot = Some x -> ky e' slot = Some y -> kn e' slot = Some (keygen_slot slot x y).
Proof.
  unfold run. rewrite fold_left_app. cbn [fold_left step]. apply set_keyslot_updates.
Qed.

(* 7. factories *)
Lemma normal_for_spec e slot :
  (forall k, kn e slot = Some k -> normal_for e slot = Ok k) /\
  (kn e slot = None -> normal_for e slot = Err (Pyctr 1)).
Proof. unfold normal_for. split; [intros k ->|intros ->]; reflexivity. Qed.

(* 8. endianness of byte-string keys *)
Lemma bytes_endianness e isx slot b upd :
  step e (SetKeyBytes isx slot b upd) =
  step e (SetKey isx slot (if slot >? 3 then be_decode b else le_decode b) upd).
Proof. reflexivity. Qed.

(* non-vacuity: a concrete history *)
Example engine_example :
  let e := run engine0 [SetKey true 0x2C 5 false; SetNormal 0x2C [1;2;3]; SetKey false 0x2C 7 true; SetKey true 3 9 true; SetKey false 3 1 true] in
  kn e 0x2C = Some (keygen3ds 5 7) /\ kn e 3 = Some (keygentwl 9 1) /\ kn e 4 = None.
Proof. vm_compute. auto. Qed.
