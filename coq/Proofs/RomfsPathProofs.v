(* Every spelling of a path -- any number of leading, repeated and trailing separators -- names what its non-empty components name. *)
From Pyctr Require Import Base.Prelude Base.ListExt Base.PyInt Base.PySlice Model.Romfs Model.RomfsPath Proofs.RomfsProofs.

Definition G (cur l : list Z) : list (list Z) := filter nonempty (split_on l cur).

Lemma G_nil cur : G cur [] = if nonempty (rev cur) then [rev cur] else [].
Proof. unfold G. cbn [split_on filter]. destruct (nonempty (rev cur)); reflexivity. Qed.

Lemma G_slash cur l : G cur (47 :: l) = (if nonempty (rev cur) then [rev cur] else []) ++ G [] l.
Proof. unfold G. cbn [split_on]. change (47 =? 47) with true. cbv iota. cbn [filter]. destruct (nonempty (rev cur)); reflexivity. Qed.

Lemma G_other cur c l : c <> 47 -> G cur (c :: l) = G (c :: cur) l.
Proof. intros H. unfold G. cbn [split_on]. destruct (c =? 47) eqn:E; [apply Z.eqb_eq in E; contradiction|reflexivity]. Qed.

Lemma G_word c : forall cur l, ~ In 47 c -> G cur (c ++ l) = G (rev c ++ cur) l.
Proof.
  induction c as [|x c IH]; intros cur l H; [reflexivity|].
  cbn [app]. rewrite G_other by (intros E; apply H; left; congruence).
  rewrite IH by (intros E; apply H; right; exact E).
  cbn [rev]. now rewrite <- app_assoc.
Qed.

Definition slashes (k : nat) : list Z := repeat 47 k.

Lemma G_slashes k l : G [] (slashes k ++ l) = G [] l.
Proof. induction k as [|k IH]; [reflexivity|]. cbn [slashes repeat app]. rewrite G_slash. cbn [rev nonempty app]. exact IH. Qed.

Lemma G_slashes_S cur k l : G cur (slashes (S k) ++ l) = (if nonempty (rev cur) then [rev cur] else []) ++ G [] l.
Proof. cbn [slashes repeat app]. rewrite G_slash. f_equal. apply G_slashes. Qed.

(* a spelling: components, each followed by a run of separators *)
Fixpoint spell (cs : list (list Z * nat)) : list Z :=
  match cs with
  | [] => []
  | (c, k) :: r => c ++ slashes k ++ spell r
  end.

(* between two components there is at least one separator; after the last one any number, none included *)
Fixpoint seps_ok (cs : list (list Z * nat)) : Prop :=
  match cs with
  | [] => True
  | [_] => True
  | (_, k) :: r => (1 <= k)%nat /\ seps_ok r
  end.

Definition word (c : list Z) : Prop := c <> [] /\ ~ In 47 c.

Lemma nonempty_rev_rev c : c <> [] -> nonempty (rev (rev c)) = true.
Proof. intros H. rewrite rev_involutive. destruct c; [contradiction|reflexivity]. Qed.

Lemma components_spell_G cs : Forall (fun ck => word (fst ck)) cs -> seps_ok cs -> G [] (spell cs) = map fst cs.
Proof.
  induction cs as [|[c k] r IH]; intros Hw Hs; [reflexivity|].
  inversion Hw as [|? ? [Hne Hns] Hw']; subst. cbn [fst] in Hne, Hns.
  cbn [spell map fst]. rewrite G_word by exact Hns. rewrite (app_nil_r (rev c)).
  destruct r as [|ck2 r'].
  - cbn [spell]. rewrite (app_nil_r (slashes k)). destruct k as [|k].
    + cbn [slashes repeat]. rewrite G_nil, nonempty_rev_rev by exact Hne. now rewrite rev_involutive.
    + replace (slashes (S k)) with (slashes (S k) ++ []) by apply app_nil_r.
      rewrite G_slashes_S, nonempty_rev_rev by exact Hne. rewrite rev_involutive. rewrite G_nil. reflexivity.
  - destruct Hs as [Hk Hs]. destruct k as [|k]; [lia|].
    rewrite G_slashes_S, nonempty_rev_rev by exact Hne. rewrite rev_involutive.
    cbn [app]. f_equal. apply IH; assumption.
Qed.

Theorem components_spell pre cs :
  Forall (fun ck => word (fst ck)) cs -> seps_ok cs -> components (slashes pre ++ spell cs) = map fst cs.
Proof. intros Hw Hs. change (G [] (slashes pre ++ spell cs) = map fst cs). rewrite G_slashes. now apply components_spell_G. Qed.

(* the first component is not "." (a leading "./" is the one prefix the lookup drops as a whole) *)
Definition not_dot_first (cs : list (list Z * nat)) : Prop := match cs with (c, _) :: _ => c <> [46] | [] => True end.

Lemma strip_spell cs : Forall (fun ck => word (fst ck)) cs -> not_dot_first cs -> strip_prefix (spell cs) = spell cs.
Proof.
  destruct cs as [|[c k] r]; intros Hw Hd; [reflexivity|].
  inversion Hw as [|? ? [Hne Hns] _]; subst. cbn [fst] in Hne, Hns. cbn [not_dot_first] in Hd.
  cbn [spell]. destruct c as [|x c]; [contradiction|]. cbn [app].
  assert (Hx : x <> 47) by (intros E; apply Hns; left; congruence).
  unfold strip_prefix.
  destruct (Z.eq_dec x 46) as [->|Hx46].
  - destruct c as [|y c].
    + contradiction.
    + cbn [app]. assert (Hy : y <> 47) by (intros E; apply Hns; right; left; congruence).
      destruct y as [|p|p]; try reflexivity.
      repeat (destruct p as [p|p|]; try reflexivity). contradiction.
  - destruct x as [|p|p]; try reflexivity.
    repeat (destruct p as [p|p|]; try reflexivity); contradiction.
Qed.

Lemma spell_not_dot cs : Forall (fun ck => word (fst ck)) cs -> not_dot_first cs -> list_eqb (spell cs) [46] = false.
Proof.
  destruct cs as [|[c k] r]; intros Hw Hd; [reflexivity|].
  inversion Hw as [|? ? [Hne Hns] Hw']; subst. cbn [fst] in Hne, Hns. cbn [not_dot_first] in Hd. cbn [spell].
  destruct (list_eqb (c ++ slashes k ++ spell r) [46]) eqn:E; [|reflexivity].
  apply list_eqb_spec in E.
  destruct c as [|x c]; [contradiction|]. cbn [app] in E. injection E as Ex Er.
  destruct c; [subst; contradiction|discriminate].
Qed.

(* what a path made of the components cs names, however it is spelled *)
Theorem path_parts_spell pre cs :
  Forall (fun ck => word (fst ck)) cs -> seps_ok cs -> not_dot_first cs ->
  path_parts (slashes pre ++ spell cs) = map bytes_of_units (map fst cs).
Proof.
  intros Hw Hs Hd. unfold path_parts.
  destruct pre as [|pre].
  - cbn [slashes repeat app]. rewrite spell_not_dot by assumption. rewrite strip_spell by assumption.
    f_equal. apply (components_spell 0); assumption.
  - cbn [slashes repeat app].
    assert (E : list_eqb (47 :: repeat 47 pre ++ spell cs) [46] = false) by reflexivity.
    rewrite E. unfold strip_prefix. f_equal. apply (components_spell pre); assumption.
Qed.

Theorem lookup_path_spelling pre pre' cs cs' root :
  Forall (fun ck => word (fst ck)) cs -> seps_ok cs -> not_dot_first cs ->
  Forall (fun ck => word (fst ck)) cs' -> seps_ok cs' -> not_dot_first cs' ->
  map fst cs' = map fst cs ->
  lookup_path (slashes pre' ++ spell cs') root = lookup_path (slashes pre ++ spell cs) root.
Proof. intros. unfold lookup_path. rewrite !path_parts_spell by assumption. congruence. Qed.

(* the root: the empty path, ".", and separators only *)
Theorem lookup_path_root k root : lookup_path (slashes k) root = Ok root /\ lookup_path [46] root = Ok root.
Proof.
  split; [|reflexivity]. unfold lookup_path.
  replace (slashes k) with (slashes k ++ spell []) by apply app_nil_r.
  rewrite path_parts_spell; [reflexivity|constructor|exact I|exact I].
Qed.

(* a path with a component that names nothing is not found, wherever the separators are doubled *)
Theorem lookup_path_missing pre c k nm ch :
  word c -> c <> [46] -> find_last (fun x => x) false (bytes_of_units c) ch = None ->
  lookup_path (slashes pre ++ spell [(c, k)]) (NDir nm ch) = Err (Pyctr 40).
Proof.
  intros Hw Hd Hf. unfold lookup_path. rewrite path_parts_spell; [|constructor; [exact Hw|constructor]|exact I|exact Hd].
  cbn [map fst lookup key_of]. now rewrite Hf.
Qed.

Example spelling_nonvacuous :
  let root := NDir [] [NDir [65; 0] [NFile [98; 0] 5 7]] in
  lookup_path [47; 47; 65; 47; 47; 98; 47] root = Ok (NFile [98; 0] 5 7)
  /\ lookup_path [65; 47; 98] root = Ok (NFile [98; 0] 5 7)
  /\ lookup_path [47; 65; 47; 47; 120] root = Err (Pyctr 40)
  /\ lookup_path [] root = Ok root.
Proof. vm_compute. repeat split. Qed.
