(* C20: the SMDH application title -- parsing what was serialised gives back the three strings. *)
From Pyctr Require Import Base.Prelude Base.ListExt Base.PyInt Base.PySlice Base.PyStr Model.AppTitle Proofs.TmdSerProofs.

Definition enc_units (us : list Z) : list Z := flat_map (fun u => [u mod 256; u / 256]) us.

Lemma encode_units s : utf16le_encode s = enc_units (flat_map utf16_units s).
Proof.
  unfold utf16le_encode, enc_units. induction s as [|c s IH]; [reflexivity|]. cbn [flat_map]. rewrite IH.
  now rewrite flat_map_app.
Qed.

Lemma units_of_enc us : Forall (fun u => 0 <= u < 65536) us -> units_of (enc_units us) = Some us.
Proof.
  induction 1 as [|u r Hu Hr IH]; [reflexivity|]. unfold enc_units in *. cbn [flat_map app units_of]. rewrite IH.
  f_equal. f_equal. lia.
Qed.

Lemma units_range s : Forall scalar s -> Forall (fun u => 0 <= u < 65536) (flat_map utf16_units s).
Proof.
  induction 1 as [|c r [Hc Hn] Hr IH]; [constructor|]. cbn [flat_map]. apply Forall_app. split; [|exact IH].
  unfold utf16_units. destruct (c <? 0x10000) eqn:E; repeat constructor; lia.
Qed.

Lemma dec_units_enc s : Forall scalar s -> dec_units (flat_map utf16_units s) = Some s.
Proof.
  induction 1 as [|c r [Hc Hn] Hr IH]; [reflexivity|]. cbn [flat_map]. unfold utf16_units at 1.
  destruct (c <? 0x10000) eqn:E; cbn [app dec_units].
  - destruct ((0xD800 <=? c) && (c <=? 0xDBFF)) eqn:A; [lia|]. destruct ((0xDC00 <=? c) && (c <=? 0xDFFF)) eqn:B; [lia|].
    now rewrite IH.
  - set (k := c - 0x10000). assert (0 <= k < 0x100000) by lia.
    destruct ((0xD800 <=? 0xD800 + k / 0x400) && (0xD800 + k / 0x400 <=? 0xDBFF)) eqn:A; [|lia].
    destruct ((0xDC00 <=? 0xDC00 + k mod 0x400) && (0xDC00 + k mod 0x400 <=? 0xDFFF)) eqn:B; [|lia].
    rewrite IH. f_equal. f_equal. lia.
Qed.

Theorem utf16le_roundtrip s : Forall scalar s -> utf16le_decode (utf16le_encode s) = Some s.
Proof.
  intros Hs. unfold utf16le_decode. rewrite encode_units, units_of_enc by now apply units_range. now apply dec_units_enc.
Qed.

(* padding *)
Lemma encode_app a b : utf16le_encode (a ++ b) = utf16le_encode a ++ utf16le_encode b.
Proof. unfold utf16le_encode. apply flat_map_app. Qed.

Lemma encode_nuls k : utf16le_encode (repeat 0 k) = repeat 0 (2 * k).
Proof. induction k as [|k IH]; [reflexivity|]. cbn [repeat]. change (0 :: repeat 0 k) with ([0] ++ repeat 0 k). rewrite encode_app, IH.
  replace (2 * S k)%nat with (S (S (2 * k))) by lia. reflexivity. Qed.

Lemma len_encode_one c : len (utf16le_encode [c]) = 2 \/ len (utf16le_encode [c]) = 4.
Proof. unfold utf16le_encode, utf16_units. cbn [flat_map]. destruct (c <? 0x10000); [left|right]; reflexivity. Qed.

Lemma len_encode_even s : exists m, len (utf16le_encode s) = 2 * m /\ 0 <= m.
Proof.
  induction s as [|c s (m & Hm & H0)]; [exists 0; split; [reflexivity|lia]|].
  change (c :: s) with ([c] ++ s). rewrite encode_app, len_app, Hm.
  destruct (len_encode_one c) as [-> | ->]; [exists (1 + m)|exists (2 + m)]; split; lia.
Qed.

Lemma scalar_nuls k : Forall scalar (repeat 0 k).
Proof. induction k; constructor; auto. unfold scalar. lia. Qed.

(* stripping *)
Definition edge_ok (s : list Z) : Prop := match s with 0 :: _ => False | _ => True end.

Lemma lstrip_edge s : edge_ok s -> lstrip_nul s = s.
Proof. destruct s as [|x r]; [reflexivity|]. cbn [edge_ok lstrip_nul]. destruct x; try reflexivity. contradiction. Qed.

Lemma lstrip_nuls k : lstrip_nul (repeat 0 k) = [].
Proof. induction k; [reflexivity|exact IHk]. Qed.

Lemma lstrip_nuls_app k s : lstrip_nul (repeat 0 k ++ s) = lstrip_nul s.
Proof. induction k; [reflexivity|exact IHk]. Qed.

Lemma edge_app s z : edge_ok s -> s <> [] -> edge_ok (s ++ z).
Proof. destruct s as [|x r]; [congruence|]. cbn. auto. Qed.

Lemma strip_padded s k : edge_ok s -> edge_ok (rev s) -> strip_nul (s ++ repeat 0 k) = s.
Proof.
  intros H1 H2. unfold strip_nul. destruct s as [|x r] eqn:Es.
  - cbn [app]. rewrite lstrip_nuls. reflexivity.
  - rewrite <- Es in *. assert (Hne : s <> []) by (subst; discriminate).
    rewrite (lstrip_edge (s ++ repeat 0 k)) by now apply edge_app.
    rewrite rev_app_distr, rev_repeat, lstrip_nuls_app, (lstrip_edge (rev s)) by exact H2. apply rev_involutive.
Qed.

(* one field *)
Definition wf_field (w : Z) (s : list Z) : Prop :=
  Forall scalar s /\ edge_ok s /\ edge_ok (rev s) /\ len (utf16le_encode s) <= w.

Lemma field_roundtrip w s : wf_field w s -> (exists h, w = 2 * h) ->
  utf16le_decode (ljustz w (utf16le_encode s)) = Some (s ++ repeat 0 (Z.to_nat ((w - len (utf16le_encode s)) / 2))).
Proof.
  intros (Hs & _ & _ & Hl) [h ->]. destruct (len_encode_even s) as (m & Hm & H0). unfold ljustz. rewrite Hm in *.
  replace (Z.to_nat (2 * h - 2 * m)) with (2 * Z.to_nat ((2 * h - 2 * m) / 2))%nat by lia.
  rewrite <- encode_nuls, <- encode_app. apply utf16le_roundtrip. apply Forall_app. split; [exact Hs|apply scalar_nuls].
Qed.

Theorem title_roundtrip t :
  wf_field 0x80 (short_desc t) -> wf_field 0x100 (long_desc t) -> wf_field 0x80 (publisher t) ->
  title_parse (title_bytes t) = Ok t.
Proof.
  intros W1 W2 W3. unfold title_parse, title_bytes, field.
  set (F1 := ljustz 0x80 (utf16le_encode (short_desc t))). set (F2 := ljustz 0x100 (utf16le_encode (long_desc t))).
  set (F3 := ljustz 0x80 (utf16le_encode (publisher t))).
  assert (L1 : len F1 = 0x80) by (subst F1; unfold ljustz; destruct W1 as (_ & _ & _ & H); rewrite len_app, len_repeat; pose proof (len_nonneg (utf16le_encode (short_desc t))); lia).
  assert (L2 : len F2 = 0x100) by (subst F2; unfold ljustz; destruct W2 as (_ & _ & _ & H); rewrite len_app, len_repeat; pose proof (len_nonneg (utf16le_encode (long_desc t))); lia).
  assert (L3 : len F3 = 0x80) by (subst F3; unfold ljustz; destruct W3 as (_ & _ & _ & H); rewrite len_app, len_repeat; pose proof (len_nonneg (utf16le_encode (publisher t))); lia).
  assert (S1 : pyslice (F1 ++ F2 ++ F3) (Some 0) (Some 0x80) = F1).
  { rewrite pyslice_nonneg by lia. rewrite !len_app, L1, L2, L3. cbn [Z.min Z.sub]. change (Z.min 128 (128 + (256 + 128)) - Z.min 0 (128 + (256 + 128))) with 128.
    change (Z.min 0 (128 + (256 + 128))) with 0. now apply slice_app_exact. }
  assert (S2 : pyslice (F1 ++ F2 ++ F3) (Some 0x80) (Some 0x180) = F2).
  { rewrite pyslice_nonneg by lia. rewrite !len_app, L1, L2, L3.
    change (Z.min 384 (128 + (256 + 128)) - Z.min 128 (128 + (256 + 128))) with 256. change (Z.min 128 (128 + (256 + 128))) with 128.
    rewrite slice_app_r by lia. rewrite L1. change (128 - 128) with 0. now apply slice_app_exact. }
  assert (S3 : pyslice (F1 ++ F2 ++ F3) (Some 0x180) (Some 0x200) = F3).
  { rewrite pyslice_nonneg by lia. rewrite !len_app, L1, L2, L3.
    change (Z.min 512 (128 + (256 + 128)) - Z.min 384 (128 + (256 + 128))) with 128. change (Z.min 384 (128 + (256 + 128))) with 384.
    rewrite slice_app_r by lia. rewrite L1. rewrite slice_app_r by lia. rewrite L2. change (384 - 128 - 256) with 0.
    rewrite <- (app_nil_r F3) at 1. now apply slice_app_exact. }
  rewrite S1, S2, S3. subst F1 F2 F3.
  rewrite (field_roundtrip 0x80 _ W1) by (exists 64; reflexivity). rewrite (field_roundtrip 0x100 _ W2) by (exists 128; reflexivity).
  rewrite (field_roundtrip 0x80 _ W3) by (exists 64; reflexivity). cbn [bind].
  destruct W1 as (_ & A1 & B1 & _), W2 as (_ & A2 & B2 & _), W3 as (_ & A3 & B3 & _).
  rewrite !strip_padded by assumption. destruct t; reflexivity.
Qed.

(* a title with a non-BMP character, a full-width field and an empty one *)
Example title_nonvacuous :
  let t := mkTitle [0x1F600; 97] (repeat 0x3042 128) [] in
  wf_field 0x80 (short_desc t) /\ wf_field 0x100 (long_desc t) /\ wf_field 0x80 (publisher t) /\ title_parse (title_bytes t) = Ok t.
Proof.
  cbv zeta. cbn [short_desc long_desc publisher].
  assert (Sc : forall k, Forall scalar (repeat 0x3042 k)) by (induction k; constructor; auto; unfold scalar; lia).
  repeat split; try (vm_compute; (reflexivity || discriminate || exact I)); try (repeat constructor; unfold scalar; lia); try apply Sc.
Qed.
