From Coq Require Import List Arith Bool Lia Permutation.
Import ListNotations.
From Pyctr Require Import Model.Close.

Lemma mem_In i l : mem i l = true <-> In i l.
Proof.
  unfold mem. rewrite existsb_exists. split.
  - intros (x & Hx & E). apply Nat.eqb_eq in E. subst. exact Hx.
  - intros H. exists i. split; [exact H|apply Nat.eqb_refl].
Qed.

(* closing *)
Lemma close_mono g s a i : s i = true -> close g s a i = true.
Proof. unfold close, mark. intros ->. reflexivity. Qed.

Lemma close_idem g s a i : close g (close g s a) a i = close g s a i.
Proof. unfold close, mark. destruct (s i), (mem i (closure g a)); reflexivity. Qed.

Lemma close_comm g s a b i : close g (close g s a) b i = close g (close g s b) a i.
Proof. unfold close, mark. destruct (s i), (mem i (closure g a)), (mem i (closure g b)); reflexivity. Qed.

Lemma close_contained g s a i : ~ In i (closure g a) -> close g s a i = s i.
Proof.
  intros H. unfold close, mark. destruct (mem i (closure g a)) eqn:E.
  - apply mem_In in E. contradiction.
  - apply orb_false_r.
Qed.

Lemma close_spec g s a i : close g s a i = true <-> s i = true \/ In i (closure g a).
Proof. unfold close, mark. rewrite orb_true_iff, mem_In. tauto. Qed.

Lemma closure_self g a : n_self (nd g a) = true -> In a (closure g a).
Proof. intros H. unfold closure. destruct (length g); cbn; rewrite H; cbn; auto. Qed.

(* runs *)
Lemma step_mono g s o i : s i = true -> fst (step g s o) i = true.
Proof. destruct o; cbn; auto. apply close_mono. Qed.

Lemma run_fst_cons g s o r : fst (run g s (o :: r)) = fst (run g (fst (step g s o)) r).
Proof. cbn [run]. destruct (step g s o) as [s1 out]. cbn [fst]. destruct (run g s1 r). reflexivity. Qed.

Lemma run_mono g ops : forall s i, s i = true -> fst (run g s ops) i = true.
Proof.
  induction ops as [|o r IH]; intros s i H; [exact H|].
  rewrite run_fst_cons. apply IH. apply step_mono. exact H.
Qed.

Lemma run_app_fst g a b s : fst (run g s (a ++ b)) = fst (run g (fst (run g s a)) b).
Proof.
  revert s. induction a as [|o r IH]; intros s; [reflexivity|].
  cbn [app]. rewrite !run_fst_cons. apply IH.
Qed.

(* the closed set after a history is exactly what the closes in it reach *)
Theorem run_closed_iff g ops : forall s i,
  fst (run g s ops) i = true <-> s i = true \/ exists a, In (Close a) ops /\ In i (closure g a).
Proof.
  induction ops as [|o r IH]; intros s i.
  - cbn. split; [auto|]. intros [H|(a & [] & _)]. exact H.
  - rewrite run_fst_cons, IH. destruct o as [a|h|h]; cbn [step fst].
    + rewrite close_spec. split.
      * intros [[H|H]|(b & Hb & Hi)]; [auto| right; exists a; split; [left; reflexivity|exact H] | right; exists b; split; [right; exact Hb|exact Hi]].
      * intros [H|(b & [E|Hb] & Hi)]; [auto| inversion E; subst; auto | right; exists b; auto].
    + split.
      * intros [H|(b & Hb & Hi)]; [auto|right; exists b; split; [right; exact Hb|exact Hi]].
      * intros [H|(b & [E|Hb] & Hi)]; [auto|discriminate|right; exists b; auto].
    + split.
      * intros [H|(b & Hb & Hi)]; [auto|right; exists b; split; [right; exact Hb|exact Hi]].
      * intros [H|(b & [E|Hb] & Hi)]; [auto|discriminate|right; exists b; auto].
Qed.

(* hence the order of the operations (and closing twice) is irrelevant for the final state *)
Theorem run_order_irrelevant g ops ops' s i :
  (forall a, In (Close a) ops <-> In (Close a) ops') -> fst (run g s ops) i = fst (run g s ops') i.
Proof.
  intros H. apply eq_true_iff_eq. rewrite !run_closed_iff. split; intros [E|(a & Ha & Hi)]; auto; right; exists a; split; auto; apply H; exact Ha.
Qed.

Corollary run_perm g ops ops' s i : Permutation ops ops' -> fst (run g s ops) i = fst (run g s ops') i.
Proof. intros P. apply run_order_irrelevant. intros a. split; intros H; [apply (Permutation_in _ P H)|apply (Permutation_in _ (Permutation_sym P) H)]. Qed.

(* uses *)
Lemma shallow_mono g s s' h : (forall i, s i = true -> s' i = true) -> shallow g s h = true -> shallow g s' h = true.
Proof.
  intros M. unfold shallow. rewrite !orb_true_iff, !existsb_exists. intros [H|(x & Hx & E)]; [left; auto|right; exists x; auto].
Qed.

Lemma deep_shallow g n s h : shallow g s h = true -> deep g n s h = true.
Proof. destruct n; cbn; intros ->; reflexivity. Qed.

Lemma covers_shallow g s r h : covers g r h = true -> shallow g (close g s r) h = true.
Proof.
  unfold covers, shallow. rewrite existsb_exists. intros (x & Hx & E). apply orb_true_iff in E as [E|E].
  - apply Nat.eqb_eq in E. subst. apply orb_true_iff. left. apply close_spec. auto.
  - apply mem_In in E. apply orb_true_iff. right. apply existsb_exists. exists x. split; [exact E|]. apply close_spec. auto.
Qed.

(* completeness: once [r] has been closed, whatever else has happened before or happens afterwards, every call on a covered
   handle raises *)
Theorem closed_reader_complete g s before after r h :
  covers g r h = true ->
  let s' := fst (run g s (before ++ Close r :: after)) in
  shallow g s' h = true /\ deep g (length g) s' h = true.
Proof.
  intros C s'. assert (S : shallow g s' h = true).
  { unfold s'. rewrite run_app_fst, run_fst_cons. cbn [step fst].
    eapply shallow_mono; [|apply covers_shallow; exact C]. intros i. apply run_mono. }
  split; [exact S|apply deep_shallow; exact S].
Qed.

(* the outputs: every use after the close answers ValueError *)
Lemma run_outs_app g a b s : snd (run g s (a ++ b)) = snd (run g s a) ++ snd (run g (fst (run g s a)) b).
Proof.
  revert s. induction a as [|o r IH]; intros s; [reflexivity|].
  cbn [app run]. destruct (step g s o) as [s1 out]. specialize (IH s1).
  destruct (run g s1 (r ++ b)) as [x y] eqn:E1. destruct (run g s1 r) as [x' y'] eqn:E2. cbn [snd fst] in *. rewrite IH. reflexivity.
Qed.

Definition uses_of (h : nat) (o : op) : bool := match o with UseS x | UseD x => Nat.eqb x h | Close _ => false end.

Theorem uses_after_close_raise g r h : covers g r h = true ->
  forall after s, (forall i, In i (closure g r) -> s i = true) ->
  forall k o, nth_error after k = Some o -> uses_of h o = true -> nth_error (snd (run g s after)) k = Some (Some true).
Proof.
  intros C. induction after as [|o1 rest IH]; intros s Hcl k o Hk Hu; [destruct k; discriminate|].
  assert (Sh : shallow g s h = true).
  { unfold covers in C. unfold shallow. apply existsb_exists in C as (x & Hx & E). apply orb_true_iff in E as [E|E].
    - apply Nat.eqb_eq in E. subst. rewrite (Hcl _ Hx). reflexivity.
    - apply mem_In in E. apply orb_true_iff. right. apply existsb_exists. exists x. split; [exact E|apply Hcl; exact Hx]. }
  cbn [run]. destruct (step g s o1) as [s1 out] eqn:Es. destruct (run g s1 rest) as [s2 outs] eqn:Er. cbn [snd].
  destruct k as [|k].
  - cbn in Hk. inversion Hk; subst o1. cbn. destruct o as [a|x|x]; cbn in Hu; [discriminate| |]; apply Nat.eqb_eq in Hu; subst x; cbn in Es; inversion Es; subst.
    + rewrite Sh. reflexivity.
    + rewrite (deep_shallow _ _ _ _ Sh). reflexivity.
  - cbn in Hk |- *. assert (M : forall i, s i = true -> s1 i = true).
    { intros i Hi. replace s1 with (fst (step g s o1)) by (rewrite Es; reflexivity). apply step_mono. exact Hi. }
    specialize (IH s1 (fun i Hi => M _ (Hcl i Hi)) k o Hk Hu). rewrite Er in IH. exact IH.
Qed.

(* containment: closing [h] changes nothing outside its closure; with the decidable check on a graph, the other handles answer *)
Theorem close_only_closure g s h i : ~ In i (closure g h) -> close g s h i = s i.
Proof. apply close_contained. Qed.

Lemma contained_spec g h others x : contained g h others = true -> In x others -> x <> h ->
  deep g (length g) (close g s0 h) x = false.
Proof.
  unfold contained. rewrite forallb_forall. intros H Hx Hn. specialize (H x Hx). apply orb_true_iff in H as [H|H].
  - apply Nat.eqb_eq in H. contradiction.
  - apply negb_true_iff in H. exact H.
Qed.

(* ownership: a file is closed after a history from the all-open state iff some closed object reaches it *)
Theorem file_closed_iff g ops f :
  fst (run g s0 ops) f = true <-> exists a, In (Close a) ops /\ closes_file g a f = true.
Proof.
  rewrite run_closed_iff. unfold closes_file. split.
  - intros [H|(a & Ha & Hi)]; [discriminate|]. exists a. split; [exact Ha|apply mem_In; exact Hi].
  - intros (a & Ha & Hi). right. exists a. split; [exact Ha|apply mem_In; exact Hi].
Qed.
