(* C03: the ExeFS crypto ranges partition the region and label every byte with the right key. *)
From Pyctr Require Import Base.Prelude Base.ListExt Model.Ncch.

Lemma chained_app rs1 rs2 a b c : chained rs1 a b -> chained rs2 b c -> chained (rs1 ++ rs2) a c.
Proof.
  revert a; induction rs1 as [|[[x y] l] r IH]; intros a H1 H2; cbn [chained app] in *.
  - now subst.
  - destruct H1 as (-> & ? & H1). repeat split; auto.
Qed.

(* whatever the entry table looks like (unsorted, overlapping, out of bounds), the ranges tile [prev, size) *)
Theorem ranges_tile extra prev size :
  0 <= prev <= size -> chained (build_ranges extra prev size) prev size.
Proof.
  revert prev; induction extra as [|[s e] r IH]; intros prev Hp; cbn [build_ranges].
  - destruct (prev <? size) eqn:E; cbn [chained]; lia.
  - destruct (Z.min e size <=? Z.max s prev) eqn:E; [now apply IH|].
    destruct (Z.max s prev >? prev) eqn:E2; cbn [app chained].
    + repeat split; try lia. apply IH. lia.
    + repeat split; try lia. apply IH. lia.
Qed.

Lemma label_outside rs from to o : chained rs from to -> o < from -> label rs o = None.
Proof.
  revert from; induction rs as [|[[a b] l] r IH]; intros from Hc Ho; cbn [label chained] in *; [reflexivity|].
  destruct Hc as (-> & Hab & Hc). replace ((from <=? o) && (o <? b)) with false by lia. eapply IH; eauto. lia.
Qed.

(* for a sorted, disjoint, in-bounds table the label of every byte says exactly whether it lies in an extra-key file *)
Theorem ranges_label extra prev size o :
  0 <= prev -> sorted_disjoint extra prev size -> prev <= o < size ->
  label (build_ranges extra prev size) o = Some (in_extra extra o).
Proof.
  revert prev; induction extra as [|[s e] r IH]; intros prev Hp Hs Ho; cbn [build_ranges].
  - cbn [in_extra existsb]. replace (prev <? size) with true by lia. cbn [label]. replace ((prev <=? o) && (o <? size)) with true by lia. reflexivity.
  - change (in_extra ((s, e) :: r) o) with (((s <=? o) && (o <? e)) || in_extra r o).
    cbn [sorted_disjoint] in Hs. destruct Hs as (H1 & H2 & H3 & Hs).
    replace (Z.min e size <=? Z.max s prev) with false by lia.
    replace (Z.max s prev) with s by lia. replace (Z.min e size) with e by lia.
    assert (Hrest : forall o', o' < e -> in_extra r o' = false).
    { clear - Hs. revert e Hs. induction r as [|[s' e'] r IH]; intros e Hs o' Ho'; [reflexivity|].
      change (in_extra ((s', e') :: r) o') with (((s' <=? o') && (o' <? e')) || in_extra r o').
      cbn [sorted_disjoint] in Hs. destruct Hs as (? & ? & ? & Hs).
      replace ((s' <=? o') && (o' <? e')) with false by lia. cbn [orb]. eapply (IH e'); eauto. lia. }
    destruct (s >? prev) eqn:Eg; cbn [app label].
    + destruct ((prev <=? o) && (o <? s)) eqn:E1.
      * replace ((s <=? o) && (o <? e)) with false by lia. cbn [orb]. now rewrite Hrest by lia.
      * destruct ((s <=? o) && (o <? e)) eqn:E2; [reflexivity|]. cbn [orb]. apply IH; try lia. exact Hs.
    + destruct ((s <=? o) && (o <? e)) eqn:E2; [reflexivity|]. cbn [orb]. apply IH; try lia. exact Hs.
Qed.

Example ranges_example :
  exefs_ranges [(0x200, 0x600); (0x600, 0x723); (0xA00, 0xA00 + 5)] 0xC00 =
  [(0, 0x200, false); (0x200, 0x600, true); (0x600, 0x723, true); (0x723, 0xA00, false); (0xA00, 0xA05, true); (0xA05, 0xC00, false)].
Proof. reflexivity. Qed.

(* ---- the merged ExeFS view: two whole-region CTR streams, windows selected per range ---- *)
From Pyctr Require Import Base.PyInt Spec.StreamCipher Proofs.CtrProofs.

Section Mixed.
Variable E : list Z -> list Z -> list Z.
Variables (kp ks : list Z) (c0 : Z).          (* primary key, secondary key, region counter *)
Variable mask : Z -> bool.                     (* true = this byte of the region uses the secondary key *)

Definition keyof (l : bool) : list Z := if l then ks else kp.

(* how the region is stored: every byte xor-ed with the keystream of its own key, one counter for the whole region *)
Fixpoint enc_mixed (start : Z) (P : list Z) : list Z :=
  match P with
  | [] => []
  | b :: r => Z.lxor b (ksb E (keyof (mask start)) c0 start) :: enc_mixed (start + 1) r
  end.

Lemma nth_error_enc_mixed start P i :
  nth_error (enc_mixed start P) i =
  option_map (fun b => Z.lxor b (ksb E (keyof (mask (start + Z.of_nat i))) c0 (start + Z.of_nat i))) (nth_error P i).
Proof.
  revert start i; induction P as [|b r IH]; intros start i; [destruct i; reflexivity|].
  destruct i as [|i]; cbn [enc_mixed nth_error option_map].
  - now rewrite Z.add_0_r.
  - rewrite IH. replace (start + 1 + Z.of_nat i) with (start + Z.of_nat (S i)) by lia. reflexivity.
Qed.

(* decrypting the whole stored region with the key of a uniformly labelled range gives the plaintext on that range *)
Lemma range_plain P a n l :
  0 <= a -> 0 <= n -> (forall o, a <= o < a + n -> mask o = l) ->
  slice (stream_dec E false (keyof l) c0 (enc_mixed 0 P)) a n = slice P a n.
Proof.
  intros Ha Hn Hm. apply list_ext. intros i. unfold stream_dec.
  rewrite !nth_error_slice by lia. destruct (Z.ltb_spec (Z.of_nat i) n); [|reflexivity].
  rewrite nth_error_xor_ks, nth_error_enc_mixed.
  destruct (nth_error P (Z.to_nat a + i)) as [b|]; cbn [option_map]; [|reflexivity].
  rewrite !Z.add_0_l. rewrite (Hm (Z.of_nat (Z.to_nat a + i))) by lia. f_equal. apply lxor_cancel.
Qed.

Definition view_of (stored : list Z) (r : Z * Z * bool) : list Z :=
  let '(a, b, l) := r in slice (stream_dec E false (keyof l) c0 stored) a (b - a).

(* the merged view over a chained, correctly labelled range list is the plaintext of the region *)
Theorem merged_view_plain P rs from :
  0 <= from -> chained rs from (len P) ->
  (forall a b l o, In (a, b, l) rs -> a <= o < b -> mask o = l) ->
  concat (map (view_of (enc_mixed 0 P)) rs) = drop P from.
Proof.
  revert from; induction rs as [|[[a b] l] r IH]; intros from Hf Hc Hl; cbn [chained map concat] in *.
  - subst. symmetry. apply drop_ge. lia.
  - destruct Hc as (-> & Hab & Hc). cbn [view_of].
    assert (Hm : forall o, from <= o < from + (b - from) -> mask o = l)
      by (intros o Ho; apply (Hl from b l o); [now left|lia]).
    rewrite (range_plain P from (b - from) l Hf ltac:(lia) Hm).
    assert (Hl' : forall a0 b0 l0 o, In (a0, b0, l0) r -> a0 <= o < b0 -> mask o = l0)
      by (intros a0 b0 l0 o Hin Ho; eapply Hl; eauto; now right).
    rewrite (IH b ltac:(lia) Hc Hl').
    rewrite ?slice_raw, ?drop_raw; unfold slice0, drop0.
    assert (Hb : b <= len P). { clear - Hc Hab. revert b Hab Hc. induction r as [|[[x y] l'] r IH']; intros b Hab Hc; cbn [chained] in Hc; [lia|].
      destruct Hc as (-> & ? & Hc). specialize (IH' y ltac:(lia) Hc). lia. }
    rewrite <- (firstn_skipn (Z.to_nat (b - from)) (skipn (Z.to_nat from) P)) at 2.
    f_equal. rewrite <- skipn_add. f_equal. lia.
Qed.

End Mixed.
