(* C20: config savegame -- loading what to_bytes produced gives back the blocks (ids, flags, data, order). *)
From Pyctr Require Import Base.Prelude Base.ListExt Base.PyInt Base.PySlice Base.Fields Model.CfgSave Proofs.TmdSerProofs.

Definition big (b : blk) : bool := len (b_data b) >? 4.
Definition field_of (b : blk) (cur : Z) : list Z := if big b then le_encode 4 (cur - len (b_data b)) else ljust4 (b_data b).
Definition cur_after (b : blk) (cur : Z) : Z := if big b then cur - len (b_data b) else cur.

Fixpoint ents_of (cur : Z) (bs : list blk) : list Z :=
  match bs with [] => [] | b :: r => entry_bytes b (field_of b cur) ++ ents_of (cur_after b cur) r end.
Fixpoint bd (bs : list blk) (D : list Z) : list Z :=
  match bs with [] => D | b :: r => bd r (if big b then b_data b ++ D else D) end.
Fixpoint total_big (bs : list blk) : Z :=
  match bs with [] => 0 | b :: r => (if big b then len (b_data b) else 0) + total_big r end.

Lemma total_big_nonneg bs : 0 <= total_big bs.
Proof. induction bs as [|b r IH]; cbn [total_big]; [lia|]. pose proof (len_nonneg (b_data b)). destruct (big b); lia. Qed.

Lemma bd_app bs D : bd bs D = bd bs [] ++ D.
Proof.
  revert D; induction bs as [|b r IH]; intros D; [reflexivity|]. cbn [bd]. destruct (big b).
  - rewrite IH, (IH (b_data b ++ [])). rewrite app_nil_r, <- app_assoc. reflexivity.
  - apply IH.
Qed.

Lemma len_bd bs D : len (bd bs D) = total_big bs + len D.
Proof.
  revert D; induction bs as [|b r IH]; intros D; cbn [bd total_big]; [lia|]. rewrite IH. destruct (big b); [rewrite len_app|]; lia.
Qed.

Lemma tb_loop_spec limit bs : forall cur E D cur' E' D',
  tb_loop limit bs cur E D = Ok (cur', (E', D')) ->
  E' = E ++ ents_of cur bs /\ D' = bd bs D /\ cur' = cur - total_big bs.
Proof.
  induction bs as [|b r IH]; intros cur E D cur' E' D' Hl.
  - cbn [tb_loop] in Hl. injection Hl as <- <- <-. cbn [ents_of bd total_big]. rewrite app_nil_r. repeat split; lia.
  - cbn [tb_loop] in Hl. cbn [ents_of bd total_big]. unfold field_of, cur_after, big.
    destruct (len (b_data b) >? 4) eqn:B.
    + destruct (cur - len (b_data b) <? limit); [discriminate|]. apply IH in Hl as (-> & -> & ->).
      rewrite <- app_assoc. repeat split; lia.
    + apply IH in Hl as (-> & -> & ->). rewrite <- app_assoc. repeat split; lia.
Qed.

Section L.
Variable known : Z -> option (Z * Z).

Definition wf_blk (b : blk) : Prop :=
  known (b_id b) = Some (b_flags b, len (b_data b)) /\ allowed_flags (b_flags b) = true /\
  0 <= b_id b < 2 ^ 32 /\ len (b_data b) < 2 ^ 16.

Lemma allowed_range f : allowed_flags f = true -> 0 <= f < 2 ^ 16.
Proof. unfold allowed_flags. intros H. repeat (apply orb_true_iff in H as [H|H]); apply Z.eqb_eq in H; subst; lia. Qed.

Lemma dict_put_fresh d b : ~ In (b_id b) (map b_id d) -> dict_put d b = d ++ [b].
Proof.
  induction d as [|x r IH]; intros Hn; [reflexivity|]. cbn [dict_put map In] in *.
  destruct (b_id x =? b_id b) eqn:E; [apply Z.eqb_eq in E; exfalso; apply Hn; now left|].
  rewrite IH by (intros Hin; apply Hn; now right). reflexivity.
Qed.

Lemma set_block_wf d b : wf_blk b -> ~ In (b_id b) (map b_id d) -> set_block known d b = Ok (d ++ [b]).
Proof.
  intros (Hk & Ha & _) Hn. unfold set_block. rewrite Hk, !Z.eqb_refl, Ha. cbn [negb]. now rewrite dict_put_fresh.
Qed.

Lemma len_entry_bytes b f : len f = 4 -> len (entry_bytes b f) = 12.
Proof. intros Hf. unfold entry_bytes. rewrite !len_app, !len_le_encode, Hf. reflexivity. Qed.

Lemma len_ljust4 d : len d <= 4 -> len (ljust4 d) = 4.
Proof. intros. unfold ljust4. rewrite len_app, len_repeat. pose proof (len_nonneg d). lia. Qed.

Lemma len_field_of b cur : len (field_of b cur) = 4.
Proof. unfold field_of, big. destruct (len (b_data b) >? 4) eqn:B; [apply len_le_encode|apply len_ljust4; lia]. Qed.

(* the fields of one entry *)
Lemma entry_fields b f : wf_blk b -> len f = 4 ->
  let e := entry_bytes b f in
  le_decode (slice e 0 4) = b_id b /\ slice e 4 4 = f /\ le_decode (slice e 8 2) = len (b_data b) /\ le_decode (slice e 0xA 2) = b_flags b.
Proof.
  intros (Hk & Ha & Hi & Hs) Hf. cbv zeta. unfold entry_bytes.
  assert (E : le_encode 4 (b_id b) ++ f ++ le_encode 2 (len (b_data b)) ++ le_encode 2 (b_flags b)
              = concat [le_encode 4 (b_id b); f; le_encode 2 (len (b_data b)); le_encode 2 (b_flags b)])
    by (cbn [concat]; now rewrite app_nil_r).
  rewrite E. pose proof (len_nonneg (b_data b)). pose proof (allowed_range _ Ha).
  rewrite (slice_part _ 0 0 4), (slice_part _ 1 4 4), (slice_part _ 2 8 2), (slice_part _ 3 10 2);
    try (cbn [length]; lia); try (cbn [firstn concat app nth]; rewrite ?len_app, ?len_le_encode, ?Hf, ?len_nil; reflexivity).
  cbn [nth]. rewrite !le_decode_encode_id by (cbn [Z.of_nat Pos.of_succ_nat Pos.succ]; lia). auto.
Qed.
End L.

Section M.
Variable known : Z -> option (Z * Z).
Variable raw : list Z.
Hypothesis Hraw : len raw = CFG_SIZE.
Variable doff : Z.

Lemma NoDup_map_fresh (bs1 : list blk) b r : NoDup (map b_id (bs1 ++ b :: r)) -> ~ In (b_id b) (map b_id bs1).
Proof.
  rewrite map_app. cbn [map]. intros N Hin. apply NoDup_remove_2 in N. apply N. apply in_or_app. now left.
Qed.

Lemma ld_loop_ok : forall bs2 bs1 P D cur tail,
  raw = P ++ bd bs2 D -> cur = CFG_SIZE - len D ->
  doff <= cur - total_big bs2 -> 0 <= cur - total_big bs2 ->
  Forall (wf_blk known) bs2 -> NoDup (map b_id (bs1 ++ bs2)) ->
  ld_loop known raw doff (ents_of cur bs2 ++ tail) (length bs2) cur bs1 = Ok (bs1 ++ bs2).
Proof.
  induction bs2 as [|b r IH]; intros bs1 P D cur tail Er Ec Hd H0 Hw Hn.
  - cbn [length ld_loop]. now rewrite app_nil_r.
  - assert (Wb : wf_blk known b) by (inversion Hw; assumption). assert (Wr : Forall (wf_blk known) r) by (inversion Hw; assumption).
    cbn [length ld_loop ents_of]. rewrite <- app_assoc.
    pose proof (len_field_of known b cur) as Lf.
    rewrite slice_app_exact by (apply len_entry_bytes; exact Lf).
    rewrite drop_app_exact by (apply len_entry_bytes; exact Lf).
    destruct (entry_fields known b _ Wb Lf) as (F1 & F2 & F3 & F4). rewrite F1, F2, F3, F4.
    pose proof (len_nonneg (b_data b)) as Lb. pose proof (len_nonneg D) as LD. pose proof (total_big_nonneg r) as Tr.
    cbn [total_big] in Hd, H0. unfold field_of, cur_after, big in *.
    assert (Eb : mkBlk (b_id b) (b_flags b) (b_data b) = b) by (destruct b; reflexivity).
    pose proof Wb as Wb'. destruct Wb as (Wk & Wa & Wi & Ws).
    destruct (len (b_data b) >? 4) eqn:B.
    + (* data outside the entry *)
      set (sz := len (b_data b)) in *.
      rewrite le_decode_encode_id by (cbn [Z.of_nat Pos.of_succ_nat Pos.succ]; unfold CFG_SIZE in *; lia).
      replace (cur - sz + sz) with cur by lia.
      assert (Er2 : raw = (P ++ bd r []) ++ b_data b ++ D).
      { rewrite Er. cbn [bd]. unfold big. fold sz. rewrite B. rewrite bd_app. now rewrite app_assoc. }
      assert (Lp : len (P ++ bd r []) = cur - sz).
      { pose proof Hraw as Hr. rewrite Er2 in Hr. rewrite (len_app (P ++ bd r [])), (len_app (b_data b)) in Hr. fold sz in Hr. lia. }
      assert (Ed : pyslice raw (Some (cur - sz)) (Some cur) = b_data b).
      { rewrite pyslice_nonneg by (unfold CFG_SIZE in *; lia). rewrite Hraw.
        rewrite !Z.min_l by (unfold CFG_SIZE in *; lia). replace (cur - (cur - sz)) with sz by lia.
        rewrite Er2. rewrite slice_app_r by lia. rewrite Lp. replace (cur - sz - (cur - sz)) with 0 by lia.
        apply slice_app_exact. reflexivity. }
      rewrite Ed. rewrite Z.eqb_refl. cbn [negb orb].
      destruct (cur - sz <? doff) eqn:E; [lia|].
      fold sz. rewrite ?Eb. rewrite set_block_wf by (try exact Wb'; eapply NoDup_map_fresh; eauto). cbn [bind].
      rewrite (IH (bs1 ++ [b]) P (b_data b ++ D) (cur - sz) tail); [now rewrite <- app_assoc | | | | | exact Wr | now rewrite <- app_assoc].
      * rewrite Er. cbn [bd]. unfold big. fold sz. now rewrite B.
      * rewrite len_app. fold sz. lia.
      * lia.
      * lia.
    + (* data inside the entry *)
      assert (Ed : pyslice (entry_bytes b (ljust4 (b_data b))) (Some 4) (Some (4 + len (b_data b))) = b_data b).
      { rewrite pyslice_nonneg by lia. rewrite len_entry_bytes by (apply (len_ljust4 known); lia).
        rewrite !Z.min_l by lia. replace (4 + len (b_data b) - 4) with (len (b_data b)) by lia.
        transitivity (slice (slice (entry_bytes b (ljust4 (b_data b))) 4 4) 0 (len (b_data b))).
        - rewrite slice_slice by lia. f_equal; lia.
        - rewrite F2. unfold ljust4. rewrite slice_app_exact by reflexivity. reflexivity. }
      rewrite Ed.
      rewrite ?Eb. rewrite set_block_wf by (try exact Wb'; eapply NoDup_map_fresh; eauto). cbn [bind].
      rewrite (IH (bs1 ++ [b]) P D cur tail); [now rewrite <- app_assoc | | exact Ec | lia | lia | exact Wr | now rewrite <- app_assoc].
      rewrite Er. cbn [bd]. unfold big. now rewrite B.
Qed.
End M.

Theorem cfg_load_of_bytes known bs raw :
  Forall (wf_blk known) bs -> NoDup (map b_id bs) -> cfg_bytes bs = Ok raw -> cfg_load known raw = Ok bs.
Proof.
  intros Hw Hn Hb. unfold cfg_bytes in Hb.
  destruct (tb_loop (4 + len bs * 12) bs CFG_SIZE [] []) as [[cur [E D]]|e] eqn:T; cbn [bind] in Hb; [|discriminate].
  apply tb_loop_spec in T as (-> & -> & ->). change ([] ++ ents_of CFG_SIZE bs) with (ents_of CFG_SIZE bs) in Hb.
  set (E := ents_of CFG_SIZE bs) in *. set (D := bd bs []) in *. set (cur := CFG_SIZE - total_big bs) in *.
  set (hdr := le_encode 2 (len bs) ++ le_encode 2 cur ++ E) in *.
  destruct (negb (len hdr =? 4 + len bs * 12)) eqn:C1; [discriminate|].
  destruct (negb (cur =? CFG_SIZE - len D)) eqn:C2; [discriminate|].
  set (zeros := repeat 0 (Z.to_nat (CFG_SIZE - len D - len hdr))) in *.
  destruct (negb (len (hdr ++ zeros ++ D) =? CFG_SIZE)) eqn:C3; [discriminate|].
  apply (f_equal (fun r => match r with Ok x => x | Err _ => [] end)) in Hb. cbv beta iota in Hb. subst raw.
  apply negb_false_iff, Z.eqb_eq in C1. apply negb_false_iff, Z.eqb_eq in C2. apply negb_false_iff, Z.eqb_eq in C3.
  pose proof (len_nonneg bs) as Lbs. pose proof (len_nonneg D) as LD. pose proof (total_big_nonneg bs) as Tb.
  assert (Lz : len hdr + len zeros + len D = CFG_SIZE) by (rewrite !len_app in C3; lia).
  assert (Lzn : 0 <= len zeros) by apply len_nonneg.
  assert (LE : len E = len bs * 12) by (subst hdr; rewrite !len_app, !len_le_encode in C1; lia).
  unfold CFG_SIZE in *.
  unfold cfg_load. unfold CFG_SIZE. rewrite C3. cbn [Z.eqb Pos.eqb negb].
  (* the two header fields *)
  assert (S0 : slice (hdr ++ zeros ++ D) 0 2 = le_encode 2 (len bs)).
  { subst hdr. rewrite <- !app_assoc. apply slice_app_exact. apply len_le_encode. }
  assert (S2 : slice (hdr ++ zeros ++ D) 2 2 = le_encode 2 cur).
  { subst hdr. rewrite <- !app_assoc. rewrite slice_app_r by (rewrite ?len_le_encode; lia). rewrite len_le_encode.
    change (2 - Z.of_nat 2) with 0. apply slice_app_exact. apply len_le_encode. }
  rewrite S0, S2. rewrite !le_decode_encode_id by (cbn [Z.of_nat Pos.of_succ_nat Pos.succ]; lia).
  destruct (4 + 12 * len bs >? cur) eqn:R; [lia|].
  (* the entries *)
  assert (SE : pyslice (hdr ++ zeros ++ D) (Some 4) (Some (4 + 12 * len bs)) = E).
  { rewrite pyslice_nonneg by lia. rewrite C3. rewrite !Z.min_l by lia. replace (4 + 12 * len bs - 4) with (len E) by lia.
    subst hdr. replace (le_encode 2 (len bs) ++ le_encode 2 cur ++ E) with ((le_encode 2 (len bs) ++ le_encode 2 cur) ++ E) by now rewrite app_assoc.
    rewrite <- app_assoc. rewrite slice_app_r by (rewrite ?len_app, ?len_le_encode; lia).
    rewrite len_app, !len_le_encode. change (4 - (Z.of_nat 2 + Z.of_nat 2)) with 0. apply slice_app_exact. reflexivity. }
  rewrite SE. unfold len at 1. rewrite Nat2Z.id.
  rewrite <- (app_nil_r E). subst E.
  apply (ld_loop_ok known (hdr ++ zeros ++ D) C3 cur bs [] (hdr ++ zeros) [] 0x8000 []).
  - subst D. now rewrite <- app_assoc.
  - reflexivity.
  - subst cur. lia.
  - lia.
  - exact Hw.
  - exact Hn.
Qed.

(* ---- a concrete save: one block in its entry, two outside ---- *)
Definition ex_known (id : Z) : option (Z * Z) :=
  if id =? 0x00050007 then Some (0xC, 4) else if id =? 0x00090000 then Some (0xE, 8) else if id =? 0x00040003 then Some (0xC, 12) else None.
Definition ex_blocks : list blk :=
  [mkBlk 0x00090000 0xE [1; 2; 3; 4; 5; 6; 7; 8]; mkBlk 0x00050007 0xC [9; 9; 0; 1]; mkBlk 0x00040003 0xC (repeat 7 12)].

Example cfg_nonvacuous :
  Forall (wf_blk ex_known) ex_blocks /\ NoDup (map b_id ex_blocks) /\
  is_ok (cfg_bytes ex_blocks) = true /\ (do raw <- cfg_bytes ex_blocks; cfg_load ex_known raw) = Ok ex_blocks.
Proof.
  split; [repeat constructor; cbn; lia|]. split; [repeat constructor; cbn; intuition lia|].
  split; vm_compute; reflexivity.
Qed.
