(* C19 / C06 for the RomFS walk: the fuel computed from the table sizes is never exhausted, whatever the bytes are. *)
From Pyctr Require Import Base.Prelude Base.ListExt Base.PyInt Base.PySlice Base.Sweep Model.Romfs.

Lemma memz_spec x l : memz x l = true <-> In x l.
Proof.
  unfold memz. rewrite existsb_exists. split.
  - intros (y & Hy & E). apply Z.eqb_eq in E. now subst.
  - intros H. exists x. split; [exact H|apply Z.eqb_refl].
Qed.

Lemma le_decode_nonneg l : bytes_ok l -> 0 <= le_decode l.
Proof. intros H. apply le_decode_range. exact H. Qed.

(* a duplicate-free list of integers from [0, n) has at most n elements *)
Lemma nodup_bound (l : list Z) (n : Z) : NoDup l -> (forall x, In x l -> 0 <= x < n) -> Z.of_nat (length l) <= Z.max 0 n.
Proof.
  intros Hn Hr.
  assert (incl l (zseq 0 (Z.to_nat n))) as Hi by (intros x Hx; apply in_zseq; specialize (Hr x Hx); lia).
  pose proof (NoDup_incl_length Hn Hi) as L.
  rewrite length_zseq in L. lia.
Qed.

Section F.
Variables (dirmeta filemeta : list Z).
Hypothesis Hbd : bytes_ok dirmeta.
Hypothesis Hbf : bytes_ok filemeta.

Definition okset (tbl : list Z) (w : Z) (seen : list Z) : Prop :=
  NoDup seen /\ forall x, In x seen -> 0 <= x /\ x + w <= len tbl.

Lemma okset_len tbl w seen : 0 < w -> okset tbl w seen -> Z.of_nat (length seen) <= len tbl.
Proof.
  intros Hw [Hn Hr]. pose proof (len_nonneg tbl).
  pose proof (nodup_bound seen (len tbl) Hn) as B. rewrite Z.max_r in B by lia. apply B.
  intros x Hx. specialize (Hr x Hx). lia.
Qed.

Lemma okset_cons tbl w seen off :
  okset tbl w seen -> memz off seen = false -> 0 <= off -> len (slice tbl off w) = w -> 0 < w -> okset tbl w (off :: seen).
Proof.
  intros [Hn Hr] Hm Ho Hl Hw. split.
  - constructor; [|exact Hn]. intros Hin. apply memz_spec in Hin. congruence.
  - intros x [<-|Hx]; [|auto]. split; [exact Ho|]. rewrite len_slice in Hl by lia. lia.
Qed.

Definition not_oof {A} (r : result A) : Prop := r <> Err OutOfFuel.

Lemma file_chain_fuel fuel : forall off seen,
  0 <= off -> okset filemeta 0x20 seen ->
  (Z.to_nat (len filemeta) + 1 - length seen <= fuel)%nat ->
  match file_chain filemeta fuel off seen with
  | Ok (_, seen') => okset filemeta 0x20 seen' /\ (length seen <= length seen')%nat
  | Err e => e <> OutOfFuel
  end.
Proof.
  induction fuel as [|f IH]; intros off seen Ho Hok Hf.
  - pose proof (okset_len filemeta 0x20 seen ltac:(lia) Hok). lia.
  - cbn [file_chain]. destruct (memz off seen) eqn:Em; [discriminate|].
    destruct (negb (len (slice filemeta off 32) =? 32)) eqn:El; [discriminate|].
    assert (Hl : len (slice filemeta off 0x20) = 0x20) by lia.
    set (meta := slice filemeta off 32) in *.
    destruct (negb (utf16_ok _)); [discriminate|].
    pose proof (okset_cons filemeta 0x20 seen off Hok Em Ho Hl ltac:(lia)) as Hok'.
    destruct (le_decode (slice meta 4 4) =? NONE) eqn:En.
    + split; [exact Hok'|]. simpl. lia.
    + assert (Hn0 : 0 <= le_decode (slice meta 4 4)).
      { apply le_decode_nonneg. apply bytes_ok_slice. unfold meta. now apply bytes_ok_slice. }
      specialize (IH (le_decode (slice meta 4 4)) (off :: seen) Hn0 Hok' ltac:(simpl; lia)).
      destruct (file_chain filemeta f (le_decode (slice meta 4 4)) (off :: seen)) as [[rest seen']|e]; cbn [bind].
      * destruct IH as [H1 H2]. split; [exact H1|]. simpl in H2. lia.
      * exact IH.
Qed.

Lemma dir_chain_fuel fuel : forall off sd sf,
  0 <= off -> okset dirmeta 0x18 sd -> okset filemeta 0x20 sf ->
  (Z.to_nat (len dirmeta) + 1 - length sd <= fuel)%nat ->
  match dir_chain dirmeta filemeta fuel (file_fuel filemeta) off (sd, sf) with
  | Ok (_, (sd', sf')) => okset dirmeta 0x18 sd' /\ okset filemeta 0x20 sf' /\ (length sd <= length sd')%nat
  | Err e => e <> OutOfFuel
  end.
Proof.
  induction fuel as [|f IH]; intros off sd sf Ho Hd Hfl Hf.
  - pose proof (okset_len dirmeta 0x18 sd ltac:(lia) Hd). lia.
  - cbn [dir_chain]. destruct (memz off sd) eqn:Em; [discriminate|].
    destruct (negb (len (slice dirmeta off 24) =? 24)) eqn:El; [discriminate|].
    assert (Hl : len (slice dirmeta off 0x18) = 0x18) by lia.
    set (meta := slice dirmeta off 24) in *.
    destruct (negb (utf16_ok _)); [discriminate|].
    destruct (bad_dir_name _); [discriminate|].
    pose proof (okset_cons dirmeta 0x18 sd off Hd Em Ho Hl ltac:(lia)) as Hd'.
    assert (Hmb : bytes_ok meta) by (unfold meta; now apply bytes_ok_slice).
    (* sub-directories *)
    assert (S1 : match (if le_decode (slice meta 8 4) =? NONE then Ok ([], (off :: sd, sf))
                        else dir_chain dirmeta filemeta f (file_fuel filemeta) (le_decode (slice meta 8 4)) (off :: sd, sf)) with
                 | Ok (_, (sd', sf')) => okset dirmeta 0x18 sd' /\ okset filemeta 0x20 sf' /\ (S (length sd) <= length sd')%nat
                 | Err e => e <> OutOfFuel end).
    { destruct (le_decode (slice meta 8 4) =? NONE); [simpl; auto|].
      apply IH; auto; [apply le_decode_nonneg; now apply bytes_ok_slice|simpl; lia]. }
    destruct (if le_decode (slice meta 8 4) =? NONE then _ else _) as [[subdirs [sd1 sf1]]|e]; cbn [bind]; [|exact S1].
    destruct S1 as (Hd1 & Hf1 & Hlen1). cbn [snd fst].
    (* files *)
    assert (S2 : match (if le_decode (slice meta 12 4) =? NONE then Ok ([], sf1)
                        else file_chain filemeta (file_fuel filemeta) (le_decode (slice meta 12 4)) sf1) with
                 | Ok (_, sf') => okset filemeta 0x20 sf'
                 | Err e => e <> OutOfFuel end).
    { destruct (le_decode (slice meta 12 4) =? NONE); [exact Hf1|].
      pose proof (file_chain_fuel (file_fuel filemeta) (le_decode (slice meta 12 4)) sf1
                    ltac:(apply le_decode_nonneg; now apply bytes_ok_slice) Hf1 ltac:(unfold file_fuel; lia)) as P.
      destruct (file_chain filemeta (file_fuel filemeta) (le_decode (slice meta 12 4)) sf1) as [[x y]|e]; [tauto|exact P]. }
    destruct (if le_decode (slice meta 12 4) =? NONE then _ else _) as [[files sf2]|e]; cbn [bind]; [|exact S2].
    destruct (le_decode (slice meta 4 4) =? NONE) eqn:En.
    + split; [exact Hd1|split; [exact S2|lia]].
    + specialize (IH (le_decode (slice meta 4 4)) sd1 sf2 ltac:(apply le_decode_nonneg; now apply bytes_ok_slice) Hd1 S2 ltac:(lia)).
      destruct (dir_chain dirmeta filemeta f (file_fuel filemeta) (le_decode (slice meta 4 4)) (sd1, sf2)) as [[rest [sd3 sf3]]|e]; cbn [bind].
      * destruct IH as (I1 & I2 & I3). split; [exact I1|split; [exact I2|lia]].
      * exact IH.
Qed.

(* the walk never runs out of the fuel computed from the table sizes, for every pair of byte strings *)
Theorem walk_bounded_total : walk_bounded dirmeta filemeta <> Err OutOfFuel.
Proof.
  unfold walk_bounded, walk.
  destruct (negb (len (slice dirmeta 0 24) =? 24)) eqn:El; [discriminate|].
  assert (Hl : len (slice dirmeta 0 0x18) = 0x18) by lia.
  assert (Hd0 : okset dirmeta 0x18 [0]).
  { split; [constructor; [intros []|constructor]|]. intros x [<-|[]]. rewrite len_slice in Hl by lia. lia. }
  set (meta := slice dirmeta 0 24) in *.
  assert (Hmb : bytes_ok meta) by (unfold meta; now apply bytes_ok_slice).
  assert (Hf0 : okset filemeta 0x20 []) by (split; [constructor|intros x []]).
  assert (S1 : match (if le_decode (slice meta 8 4) =? NONE then Ok ([], ([0], []))
                      else dir_chain dirmeta filemeta (dir_fuel dirmeta) (file_fuel filemeta) (le_decode (slice meta 8 4)) ([0], [])) with
               | Ok (_, (sd', sf')) => okset filemeta 0x20 sf'
               | Err e => e <> OutOfFuel end).
  { destruct (le_decode (slice meta 8 4) =? NONE); [exact Hf0|].
    pose proof (dir_chain_fuel (dir_fuel dirmeta) (le_decode (slice meta 8 4)) [0] []
                  ltac:(apply le_decode_nonneg; now apply bytes_ok_slice) Hd0 Hf0 ltac:(unfold dir_fuel; simpl; lia)) as P.
    destruct (dir_chain _ _ _ _ _ _) as [[x [y z]]|e]; [tauto|exact P]. }
  destruct (if le_decode (slice meta 8 4) =? NONE then _ else _) as [[subdirs [sd1 sf1]]|e]; cbn [bind]; [|congruence].
  cbn [snd].
  destruct (le_decode (slice meta 12 4) =? NONE); [discriminate|].
  pose proof (file_chain_fuel (file_fuel filemeta) (le_decode (slice meta 12 4)) sf1
                ltac:(apply le_decode_nonneg; now apply bytes_ok_slice) S1 ltac:(unfold file_fuel; lia)) as P.
  destruct (file_chain filemeta (file_fuel filemeta) (le_decode (slice meta 12 4)) sf1) as [[x y]|e]; cbn [bind]; [discriminate|congruence].
Qed.

End F.

(* ---- lookup ---- *)
Section L.
Variable lower : list Z -> list Z.

Lemma find_last_name ci k ns n : find_last lower ci k ns = Some n -> key_of lower ci (node_name n) = k.
Proof.
  induction ns as [|m r IH]; cbn [find_last]; [discriminate|].
  destruct (find_last lower ci k r) as [x|]; [intros E; inversion E; subst; auto|].
  destruct (list_eqb (key_of lower ci (node_name m)) k) eqn:E; [|discriminate].
  intros H. inversion H; subst. now apply list_eqb_spec.
Qed.

(* case-insensitive mode: every spelling with the same lower-casing resolves to the same entry *)
Theorem lookup_ci parts parts' root :
  map lower parts' = map lower parts -> lookup lower true parts' root = lookup lower true parts root.
Proof.
  revert parts' root; induction parts as [|p r IH]; intros [|p' r'] root H; cbn [map] in H; try discriminate; [reflexivity|].
  inversion H as [[Hp Hr]]. cbn [lookup]. destruct root as [nm ch|]; [|reflexivity].
  unfold key_of. rewrite Hp. destruct (find_last lower true (lower p) ch); [apply IH; exact Hr|reflexivity].
Qed.

(* case-sensitive mode: a successful lookup of a non-empty path finds an entry whose stored name is the last component, exactly *)
Theorem lookup_cs parts last root n :
  lookup lower false (parts ++ [last]) root = Ok n -> node_name n = last.
Proof.
  revert root; induction parts as [|p r IH]; intros root; cbn [app lookup].
  - destruct root as [nm ch|]; [|discriminate].
    destruct (find_last lower false (key_of lower false last) ch) as [m|] eqn:E; [|discriminate].
    intros H. inversion H; subst. apply find_last_name in E. exact E.
  - destruct root as [nm ch|]; [|discriminate].
    destruct (find_last lower false (key_of lower false p) ch) as [m|]; [apply IH|discriminate].
Qed.

(* a component that names nothing raises the not-found error *)
Theorem lookup_missing ci p r nm ch :
  find_last lower ci (key_of lower ci p) ch = None -> lookup lower ci (p :: r) (NDir nm ch) = Err (Pyctr 40).
Proof. intros H. cbn [lookup]. now rewrite H. Qed.

End L.
