(* C19: the LZSS decoder never runs out of fuel -- for every byte string the number of control bytes it consumes is at most the
   length of its buffer, whatever the stream says. *)
From Coq Require Import Lia ZifyBool.
From Pyctr Require Import Base.Prelude Base.ListExt Base.PyInt Base.PySlice Model.Lzss.

Lemma copy_seg_not_oof n : forall dec po off, copy_seg n dec po off <> Err OutOfFuel.
Proof.
  induction n as [|n IH]; intros dec po off; cbn [copy_seg]; [discriminate|].
  destruct (getz dec (po + off)); [apply IH|discriminate].
Qed.

Lemma token_not_oof cs de ctrl i s : token cs de ctrl i s <> Err OutOfFuel.
Proof.
  unfold token. destruct ((s_in s <=? cs) || (s_out s <=? cs)); [discriminate|]. destruct (Z.testbit ctrl i).
  - destruct (s_in s - 2 <? cs); [discriminate|].
    match goal with |- (if ?c then _ else _) <> _ => destruct c; [discriminate|] end.
    match goal with |- (if ?c then _ else _) <> _ => destruct c; [discriminate|] end.
    match goal with |- (do x <- ?o; _) <> _ => pose proof (copy_seg_not_oof (Z.to_nat (Z.land (Z.shiftr (le_decode (slice (s_dec s) (s_in s - 2) 2)) 12) 15 + 3)) (s_dec s) (s_out s) (Z.land (le_decode (slice (s_dec s) (s_in s - 2) 2)) 4095 + 2)) as P; destruct o as [[d po]|e]; cbn [bind]; [discriminate|congruence] end.
  - destruct (getz (s_dec s) (s_in s - 1)); discriminate.
Qed.

Lemma tokens_not_oof cs de ctrl is : forall s, tokens cs de ctrl is s <> Err OutOfFuel.
Proof.
  induction is as [|i r IH]; intros s; cbn [tokens]; [discriminate|].
  pose proof (token_not_oof cs de ctrl i s) as P.
  destruct (token cs de ctrl i s) as [[s1 stop]|e]; cbn [bind]; [|congruence].
  destruct stop; [discriminate|apply IH].
Qed.

Lemma token_in_le cs de ctrl i s s' stop : token cs de ctrl i s = Ok (s', stop) -> s_in s' <= s_in s.
Proof.
  unfold token. destruct ((s_in s <=? cs) || (s_out s <=? cs)); [intros H; inversion H; lia|].
  destruct (Z.testbit ctrl i).
  - destruct (s_in s - 2 <? cs); [discriminate|].
    match goal with |- (if ?c then _ else _) = _ -> _ => destruct c; [discriminate|] end.
    match goal with |- (if ?c then _ else _) = _ -> _ => destruct c; [discriminate|] end.
    match goal with |- (do x <- ?o; _) = _ -> _ => destruct o as [[d po]|e]; cbn [bind]; [|discriminate] end.
    intros H; inversion H; subst. cbn [s_in]. lia.
  - destruct (getz (s_dec s) (s_in s - 1)); [|discriminate]. intros H; inversion H; subst. cbn [s_in]. lia.
Qed.

Lemma tokens_in_le cs de ctrl is : forall s s', tokens cs de ctrl is s = Ok s' -> s_in s' <= s_in s.
Proof.
  induction is as [|i r IH]; intros s s' H; cbn [tokens] in H; [inversion H; lia|].
  destruct (token cs de ctrl i s) as [[s1 stop]|e] eqn:Et; cbn [bind] in H; [|discriminate].
  pose proof (token_in_le _ _ _ _ _ _ _ Et). destruct stop; [inversion H; subst; lia|]. specialize (IH _ _ H). lia.
Qed.

(* every pass of the while loop consumes one unit of fuel and lowers ptr_in by at least one *)
Lemma outer_fuel {A} (fuel : list A) cs de : forall s, s_in s - cs <= Z.of_nat (length fuel) -> outer fuel cs de s <> Err OutOfFuel.
Proof.
  induction fuel as [|x f IH]; intros s H; cbn [outer].
  - destruct ((s_in s >? cs) && (s_out s >? cs)) eqn:E; [|discriminate]. apply andb_true_iff in E as [E1 E2]. cbn [length] in H. lia.
  - destruct ((s_in s >? cs) && (s_out s >? cs)) eqn:E; [|discriminate].
    destruct (s_out s <? s_in s); [discriminate|].
    destruct (getz (s_dec s) (s_in s - 1)) as [ctrl|]; [|discriminate].
    pose proof (tokens_not_oof cs de ctrl [7; 6; 5; 4; 3; 2; 1; 0] (mkSt (s_dec s) (s_in s - 1) (s_out s))) as P.
    destruct (tokens cs de ctrl _ _) as [s'|e] eqn:Et; cbn [bind]; [|congruence].
    apply IH. apply tokens_in_le in Et. cbn [s_in] in Et. cbn [length] in H. lia.
Qed.

Theorem decompress_total code : bytes_ok code -> decompress code <> Err OutOfFuel.
Proof.
  intros Hb. unfold decompress.
  destruct (len code <? 8); [discriminate|]. destruct (len code >? CODE_MAX); [discriminate|].
  set (osc := le_decode (pyslice code (Some (-8)) (Some (-4)))). set (add := le_decode (pyslice code (Some (-4)) None)).
  set (cs := if Z.land osc 16777215 <=? len code then len code - Z.land osc 16777215 else 0).
  set (ce := Z.land osc 16777215 - Z.shiftr osc 24 mod 255).
  destruct (ce <? 0); [discriminate|]. destruct (len code + add >? CODE_MAX); [discriminate|].
  set (dec := code ++ repeat 0 (Z.to_nat add)).
  assert (Hcs : 0 <= cs) by (unfold cs; destruct (Z.land osc 16777215 <=? len code) eqn:?; lia).
  assert (Hadd : 0 <= add).
  { unfold add. apply le_decode_range. unfold pyslice. apply bytes_ok_slice. exact Hb. }
  assert (Ld : len dec = len code + add).
  { unfold dec. rewrite len_app. unfold len at 2. rewrite repeat_length. lia. }
  assert (Ho : outer (0 :: dec) cs (cs + (len code + add)) (mkSt dec (cs + ce) (len code + add)) <> Err OutOfFuel).
  { cbn [outer s_in s_out s_dec].
    destruct ((cs + ce >? cs) && (len code + add >? cs)); [|discriminate].
    destruct (len code + add <? cs + ce) eqn:Elt; [discriminate|].
    destruct (getz dec (cs + ce - 1)) as [ctrl|]; [|discriminate].
    pose proof (tokens_not_oof cs (cs + (len code + add)) ctrl [7; 6; 5; 4; 3; 2; 1; 0] (mkSt dec (cs + ce - 1) (len code + add))) as P.
    destruct (tokens _ _ _ _ _) as [s'|e] eqn:Et; cbn [bind]; [|congruence].
    apply outer_fuel. apply tokens_in_le in Et. cbn [s_in] in Et. fold (len dec). lia. }
  destruct (outer _ _ _ _) as [s|e]; cbn [bind]; [|congruence].
  destruct (negb _); [discriminate|]. destruct (negb _); discriminate.
Qed.

(* and it is the buffer length, not the stream, that bounds the work: at most len(code) + add_size + 1 control bytes *)
Corollary decompress_fuel_is_input_length code : length (0 :: code ++ repeat 0 (Z.to_nat (le_decode (pyslice code (Some (-4)) None))))
  = S (length code + Z.to_nat (le_decode (pyslice code (Some (-4)) None))).
Proof. cbn [length]. rewrite app_length, repeat_length. reflexivity. Qed.

(* the buffer (hence the fuel, hence the work) is capped by a constant whatever the trailer claims *)
Theorem decompress_size_cap code :
  len code + le_decode (pyslice code (Some (-4)) None) > CODE_MAX -> exists e, decompress code = Err e.
Proof.
  intros H. unfold decompress.
  destruct (len code <? 8); [eexists; reflexivity|]. destruct (len code >? CODE_MAX); [eexists; reflexivity|].
  match goal with |- context [if ?c <? 0 then _ else _] => destruct (c <? 0); [eexists; reflexivity|] end.
  destruct (len code + le_decode (pyslice code (Some (-4)) None) >? CODE_MAX) eqn:E; [eexists; reflexivity|lia].
Qed.
