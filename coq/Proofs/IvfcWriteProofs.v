(* C18: a write through the hash tree leaves every block of every level consistent with the hash stored for it. *)
From Pyctr Require Import Base.Prelude Base.ListExt Base.PyInt Base.PySlice Model.Ivfc Model.IvfcWrite.

(* ---- overlay / slice facts ---- *)
Lemma slice_overlay_outside (l d : list Z) off a n :
  0 <= off -> off + len d <= len l -> 0 <= a -> 0 <= n -> (a + n <= off \/ off + len d <= a) ->
  slice (overlay 0 l off d) a n = slice l a n.
Proof.
  intros Ho Hf Ha Hn Hdis. destruct d as [|x d]; [reflexivity|].
  assert (Hne : x :: d <> []) by congruence.
  apply list_ext. intros i. rewrite !nth_error_slice by lia.
  destruct (Z.ltb_spec (Z.of_nat i) n); [|reflexivity].
  rewrite nth_error_overlay by exact Hne. cbv zeta. unfold len in *.
  destruct (Nat.ltb_spec (Z.to_nat a + i) (Z.to_nat off)).
  - destruct (Nat.ltb_spec (Z.to_nat a + i) (length l)); [reflexivity|lia].
  - destruct (Nat.ltb_spec (Z.to_nat a + i) (Z.to_nat off + length (x :: d))); [lia|reflexivity].
Qed.

Lemma slice_overlay_inside (l d : list Z) off a n :
  0 <= off -> off + len d <= len l -> 0 <= a -> 0 <= n -> a + n <= len d ->
  slice (overlay 0 l off d) (off + a) n = slice d a n.
Proof.
  intros Ho Hf Ha Hn Hin. destruct d as [|x d].
  - rewrite len_nil in Hin. assert (n = 0) by lia. subst. now rewrite !slice_0.
  - assert (Hne : x :: d <> []) by congruence.
    apply list_ext. intros i. rewrite !nth_error_slice by lia.
    destruct (Z.ltb_spec (Z.of_nat i) n); [|reflexivity].
    rewrite nth_error_overlay by exact Hne. cbv zeta. unfold len in *.
    destruct (Nat.ltb_spec (Z.to_nat (off + a) + i) (Z.to_nat off)); [lia|].
    destruct (Nat.ltb_spec (Z.to_nat (off + a) + i) (Z.to_nat off + length (x :: d))); [|lia].
    f_equal. lia.
Qed.

Lemma len_overlay_inside (l d : list Z) off : 0 <= off -> off + len d <= len l -> len (overlay 0 l off d) = len l.
Proof.
  intros Ho Hf. destruct d as [|x d]; [reflexivity|]. rewrite len_overlay by (try congruence; lia). lia.
Qed.

(* concatenation of 32-byte chunks *)
Lemma slice_concat32 (hs : list (list Z)) k :
  Forall (fun h => len h = 32) hs -> (k < length hs)%nat ->
  slice (concat hs) (32 * Z.of_nat k) 32 = nth k hs [].
Proof.
  revert k; induction hs as [|h r IH]; intros k Hl Hk; [simpl in Hk; lia|].
  inversion Hl as [|? ? Hh Hr]; subst. cbn [concat].
  destruct k as [|k].
  - cbn [nth]. rewrite Z.mul_0_r. rewrite slice_app_l by lia. rewrite <- Hh. apply slice_all.
  - cbn [nth]. rewrite slice_app_r by lia. rewrite Hh.
    replace (32 * Z.of_nat (S k) - 32) with (32 * Z.of_nat k) by lia. apply IH; [exact Hr|simpl in Hk; lia].
Qed.

Lemma len_concat32 (hs : list (list Z)) : Forall (fun h => len h = 32) hs -> len (concat hs) = 32 * len hs.
Proof.
  induction 1 as [|h r Hh Hr IH]; [reflexivity|]. cbn [concat]. rewrite len_app, IH, len_cons. lia.
Qed.

Section P.
Variable H : list Z -> list Z.
Hypothesis H_len : forall d, len (H d) = 32.          (* SHA-256 digests have 32 bytes *)

Definition dflt : level := mkLevel [] 1.
Definition ldata (t : list level) (li : nat) : list Z := lv_data (nth li t dflt).
Definition lbs (t : list level) (li : nat) : Z := lv_bs (nth li t dflt).
Definition nblocks (t : list level) (li : nat) : Z := (len (ldata t li) + lbs t li - 1) / lbs t li.

(* block x of level li verifies against the hash stored for it (the master hash for level index 0) *)
Definition local_ok (t : list level) (m : list (list Z)) (li : nat) (x : Z) : Prop :=
  match li with
  | O => master_at m x = block_hash H t 0 x
  | S u => stored_hash t (S u) x = block_hash H t (S u) x
  end.

Definition consistent_upto (t : list level) (m : list (list Z)) (n : nat) : Prop :=
  forall li x, (li <= n)%nat -> 0 <= x < nblocks t li -> local_ok t m li x.

(* geometry: positive block sizes; each hash level has room for the hashes of the level below; enough master hashes *)
Definition wfg (t : list level) (m : list (list Z)) : Prop :=
  (forall li, (li < length t)%nat -> 0 < lbs t li) /\
  (forall u, (S u < length t)%nat -> 32 * nblocks t (S u) <= len (ldata t u)) /\
  nblocks t 0 <= len m.

Lemma hashes_from_spec bs d x n k :
  (k < n)%nat -> nth k (hashes_from H bs d x n) [] = bhash H bs d (x + Z.of_nat k).
Proof.
  revert x k; induction n as [|n IH]; intros x k Hk; [lia|].
  cbn [hashes_from]. destruct k as [|k]; cbn [nth]; [now rewrite Z.add_0_r|].
  rewrite IH by lia. f_equal. lia.
Qed.

Lemma length_hashes_from bs d x n : length (hashes_from H bs d x n) = n.
Proof. revert x; induction n; intros; simpl; auto. Qed.

Lemma hashes_from_len32 bs d x n : Forall (fun h => len h = 32) (hashes_from H bs d x n).
Proof. revert x; induction n as [|n IH]; intros x; cbn [hashes_from]; constructor; [apply H_len|apply IH]. Qed.

(* set_level *)
Lemma nth_set_level_same t li d : (li < length t)%nat -> nth li (set_level t li d) dflt = mkLevel d (lbs t li).
Proof.
  intros Hl. unfold set_level. rewrite app_nth2 by (rewrite firstn_length; lia).
  rewrite firstn_length. replace (li - Nat.min li (length t))%nat with 0%nat by lia. reflexivity.
Qed.

Lemma nth_firstn_small {A} (t : list A) n j d : (j < n)%nat -> nth j (firstn n t) d = nth j t d.
Proof.
  revert t j; induction n as [|n IH]; intros t j Hj; [lia|].
  destruct t as [|a t]; [destruct j; reflexivity|]. destruct j as [|j]; [reflexivity|]. cbn [firstn nth]. apply IH. lia.
Qed.

Lemma nth_skipn_shift {A} (t : list A) n k d : nth k (skipn n t) d = nth (n + k) t d.
Proof.
  revert t; induction n as [|n IH]; intros t; [reflexivity|].
  destruct t as [|a t]; [destruct k; reflexivity|]. cbn [skipn Nat.add nth]. apply IH.
Qed.

Lemma nth_set_level_other t li d j : (li < length t)%nat -> j <> li -> nth j (set_level t li d) dflt = nth j t dflt.
Proof.
  intros Hl Hj. unfold set_level. destruct (Nat.lt_ge_cases j li).
  - rewrite app_nth1 by (rewrite firstn_length; lia). now apply nth_firstn_small.
  - rewrite app_nth2 by (rewrite firstn_length; lia). rewrite firstn_length.
    replace (Nat.min li (length t)) with li by lia.
    destruct (j - li)%nat as [|k] eqn:Ek; [lia|]. cbn [app nth].
    rewrite nth_skipn_shift. f_equal. lia.
Qed.

Lemma length_set_level t li d : (li < length t)%nat -> length (set_level t li d) = length t.
Proof.
  intros Hl. unfold set_level. rewrite !app_length, firstn_length, skipn_length. simpl. lia.
Qed.


(* set_master *)
Lemma set_master_spec hs : forall m start x,
  0 <= start -> start + len hs <= len m ->
  len (set_master m start hs) = len m /\
  master_at (set_master m start hs) x =
    (if (start <=? x) && (x <? start + len hs) then nth (Z.to_nat (x - start)) hs [] else master_at m x).
Proof.
  induction hs as [|h r IH]; intros m start x Hs Hl.
  - cbn [set_master]. rewrite len_nil. split; [reflexivity|]. replace ((start <=? x) && (x <? start + 0)) with false by lia. reflexivity.
  - cbn [set_master]. rewrite len_cons in *. pose proof (len_nonneg r).
    set (m1 := firstn (Z.to_nat start) m ++ [h] ++ skipn (S (Z.to_nat start)) m).
    assert (Hm1 : len m1 = len m).
    { unfold m1, len in *. rewrite !app_length, firstn_length, skipn_length. simpl. lia. }
    destruct (IH m1 (start + 1) x ltac:(lia) ltac:(lia)) as [L1 L2]. split; [lia|].
    rewrite L2.
    destruct (Z.eq_dec x start) as [->|Hne].
    + replace ((start + 1 <=? start) && (start <? start + 1 + len r)) with false by lia.
      replace ((start <=? start) && (start <? start + (1 + len r))) with true by lia.
      replace (start - start) with 0 by lia. cbn [Z.to_nat nth].
      unfold master_at, zth. destruct (start <? 0) eqn:E; [lia|]. unfold m1.
      rewrite nth_error_app2 by (rewrite firstn_length; unfold len in *; lia).
      rewrite firstn_length. replace (Z.to_nat start - Nat.min (Z.to_nat start) (length m))%nat with 0%nat by (unfold len in *; lia).
      reflexivity.
    + destruct ((start + 1 <=? x) && (x <? start + 1 + len r)) eqn:E1.
      * replace ((start <=? x) && (x <? start + (1 + len r))) with true by lia.
        replace (Z.to_nat (x - start)) with (S (Z.to_nat (x - (start + 1)))) by lia. reflexivity.
      * replace ((start <=? x) && (x <? start + (1 + len r))) with false by lia.
        unfold master_at, zth. destruct (x <? 0) eqn:E; [reflexivity|]. unfold m1.
        destruct (Z.lt_ge_cases x start).
        -- rewrite nth_error_app1 by (rewrite firstn_length; unfold len in *; lia).
           rewrite nth_error_firstn. destruct (Nat.ltb_spec (Z.to_nat x) (Z.to_nat start)); [reflexivity|lia].
        -- rewrite nth_error_app2 by (rewrite firstn_length; unfold len in *; lia).
           rewrite firstn_length. replace (Nat.min (Z.to_nat start) (length m)) with (Z.to_nat start) by (unfold len in *; lia).
           destruct (Z.to_nat x - Z.to_nat start)%nat as [|k] eqn:Ek; [lia|]. cbn [app nth_error].
           rewrite nth_error_skipn. replace (S (Z.to_nat start) + k)%nat with (Z.to_nat x) by lia. reflexivity.
Qed.

Lemma block_hash_eq t li x : block_hash H t li x = bhash H (lbs t li) (ldata t li) x.
Proof. reflexivity. Qed.

(* a block that does not intersect the written range keeps its hash *)
Lemma bhash_untouched bs l d off x :
  0 < bs -> 0 <= off -> off + len d <= len l -> 0 <= x ->
  (x < off / bs \/ (off + len d + bs - 1) / bs - 1 < x) ->
  bhash H bs (overlay 0 l off d) x = bhash H bs l x.
Proof.
  intros Hbs Ho Hf Hx Hout. unfold bhash. f_equal. f_equal.
  apply slice_overlay_outside; try lia. pose proof (len_nonneg d). nia.
Qed.


Lemma range_facts bs L off ld :
  0 < bs -> 0 <= off < L -> off + ld <= L -> 0 <= ld ->
  let start := off / bs in
  let last := Z.max ((off + ld + bs - 1) / bs - 1) start in
  0 <= start <= last /\ last < (L + bs - 1) / bs /\ start * bs <= off /\ off + ld <= (last + 1) * bs /\
  (forall x, x < start -> (x + 1) * bs <= off) /\ (forall x, last < x -> off + ld <= x * bs).
Proof.
  intros Hbs Ho Hf Hl start last.
  pose proof (Z.div_mod off bs ltac:(lia)) as E1. pose proof (Z.mod_pos_bound off bs Hbs) as B1.
  pose proof (Z.div_mod (off + ld + bs - 1) bs ltac:(lia)) as E2. pose proof (Z.mod_pos_bound (off + ld + bs - 1) bs Hbs) as B2.
  pose proof (Z.div_mod (L + bs - 1) bs ltac:(lia)) as E3. pose proof (Z.mod_pos_bound (L + bs - 1) bs Hbs) as B3.
  fold start in E1. set (e := (off + ld + bs - 1) / bs) in *. set (nb := (L + bs - 1) / bs) in *.
  assert (Hs0 : 0 <= start) by (apply Z.div_pos; lia).
  assert (He : start <= e) by (apply Z.div_le_mono; lia).
  assert (Hen : e <= nb) by (apply Z.div_le_mono; lia).
  assert (Hsn : start < nb) by nia.
  subst last. repeat split; try nia.
Qed.

(* facts about the tree that writes preserve *)
Definition same_shape (t t' : list level) : Prop :=
  length t' = length t /\ (forall j, lbs t' j = lbs t j) /\ (forall j, len (ldata t' j) = len (ldata t j)).

Lemma same_shape_nblocks t t' j : same_shape t t' -> nblocks t' j = nblocks t j.
Proof. intros (_ & Hb & Hl). unfold nblocks. now rewrite Hb, Hl. Qed.

Lemma same_shape_set_level t li d :
  (li < length t)%nat -> len d = len (ldata t li) -> same_shape t (set_level t li d).
Proof.
  intros Hl Hd. split; [now apply length_set_level|]. split; intros j; unfold lbs, ldata;
    (destruct (Nat.eq_dec j li) as [->|Hn]; [rewrite nth_set_level_same by exact Hl; auto|rewrite nth_set_level_other by auto; reflexivity]).
Qed.

Theorem write_level_ok li : forall off d t m,
  wfg t m -> (li < length t)%nat -> 0 <= off < len (ldata t li) -> off + len d <= len (ldata t li) ->
  consistent_upto t m li ->
  let '(t', m') := write_level H li off d t m in
  same_shape t t' /\ len m' = len m /\
  ldata t' li = overlay 0 (ldata t li) off d /\
  (forall j, (li < j)%nat -> nth j t' dflt = nth j t dflt) /\
  consistent_upto t' m' li.
Proof.
  induction li as [|u IH]; intros off d t m Hw Hlt Ho Hf Hc; cbn [write_level].
  - (* level index 0: the hashes go to the master hashes *)
    fold dflt. fold (ldata t 0) (lbs t 0).
    destruct Hw as (Hbs & Hroom & Hm). specialize (Hbs 0%nat Hlt).
    set (bs := lbs t 0) in *. set (l := ldata t 0) in *.
    pose proof (len_nonneg d) as Hld.
    destruct (range_facts bs (len l) off (len d) Hbs Ho Hf Hld) as (R1 & R2 & R3 & R4 & R5 & R6).
    set (start := off / bs) in *. set (last := Z.max ((off + len d + bs - 1) / bs - 1) start) in *.
    set (data' := overlay 0 l off d).
    set (cnt := Z.to_nat (last - start + 1)).
    set (hs := hashes_from H bs data' start cnt).
    assert (Hlen' : len data' = len l) by (apply len_overlay_inside; lia).
    assert (Hshape : same_shape t (set_level t 0 data')) by (apply same_shape_set_level; auto).
    assert (Hlhs : len hs = last - start + 1) by (unfold hs, len; rewrite length_hashes_from; unfold cnt; lia).
    assert (Hnb : nblocks t 0 = (len l + bs - 1) / bs) by reflexivity.
    destruct (set_master_spec hs m start 0 ltac:(lia) ltac:(lia)) as [Lm _].
    split; [exact Hshape|]. split; [exact Lm|].
    assert (Hd0 : ldata (set_level t 0 data') 0 = data') by (unfold ldata; now rewrite nth_set_level_same).
    split; [exact Hd0|]. split; [intros j Hj; apply nth_set_level_other; [exact Hlt|lia]|].
    intros li x Hli Hx. assert (li = 0%nat) as -> by lia. cbn [local_ok].
    rewrite (same_shape_nblocks _ _ 0 Hshape), Hnb in Hx.
    destruct (set_master_spec hs m start x ltac:(lia) ltac:(lia)) as [_ Lx]. rewrite Lx.
    rewrite block_hash_eq, Hd0. destruct Hshape as (_ & Hb' & _). rewrite Hb'. fold bs.
    destruct ((start <=? x) && (x <? start + len hs)) eqn:E.
    + unfold hs. rewrite hashes_from_spec by (unfold cnt; lia). f_equal. lia.
    + specialize (Hc 0%nat x (Nat.le_refl _) ltac:(rewrite Hnb; lia)). cbn [local_ok] in Hc. rewrite Hc.
      rewrite block_hash_eq. fold bs l. symmetry. apply bhash_untouched; try lia.
  - (* a data / hash level: the hashes are written into the level above *)
    fold dflt. fold (ldata t (S u)) (lbs t (S u)).
    pose proof Hw as (Hbs & Hroom & Hm). pose proof (Hbs (S u) Hlt) as Hbsu.
    set (bs := lbs t (S u)) in *. set (l := ldata t (S u)) in *.
    pose proof (len_nonneg d) as Hld.
    destruct (range_facts bs (len l) off (len d) Hbsu Ho Hf Hld) as (R1 & R2 & R3 & R4 & R5 & R6).
    set (start := off / bs) in *. set (last := Z.max ((off + len d + bs - 1) / bs - 1) start) in *.
    set (data' := overlay 0 l off d).
    set (cnt := Z.to_nat (last - start + 1)).
    set (hs := hashes_from H bs data' start cnt).
    set (t1 := set_level t (S u) data').
    assert (Hlen' : len data' = len l) by (apply len_overlay_inside; lia).
    assert (Hshape1 : same_shape t t1) by (apply same_shape_set_level; auto).
    assert (Hlhs : len (concat hs) = 32 * (last - start + 1)).
    { rewrite len_concat32 by apply hashes_from_len32. unfold hs, len. rewrite length_hashes_from. unfold cnt. lia. }
    assert (Hnb : nblocks t (S u) = (len l + bs - 1) / bs) by reflexivity.
    assert (Hd1 : ldata t1 (S u) = data') by (unfold ldata, t1; now rewrite nth_set_level_same).
    assert (Hsame_u : forall j, j <> S u -> nth j t1 dflt = nth j t dflt) by (intros j Hj; apply nth_set_level_other; auto).
    assert (Hroom_u : 32 * nblocks t (S u) <= len (ldata t u)) by (apply Hroom; exact Hlt).
    (* hypotheses of the recursive call *)
    assert (Hw1 : wfg t1 m).
    { destruct Hshape1 as (L1 & B1 & D1). split; [|split].
      - intros li Hli. rewrite B1. apply Hbs. lia.
      - intros v Hv. unfold nblocks. rewrite !B1, !D1. apply Hroom. lia.
      - unfold nblocks. rewrite B1, D1. exact Hm. }
    assert (Hdu : ldata t1 u = ldata t u) by (unfold ldata; rewrite Hsame_u by lia; reflexivity).
    assert (Hc1 : consistent_upto t1 m u).
    { intros li x Hli Hx. rewrite (same_shape_nblocks _ _ li Hshape1) in Hx.
      specialize (Hc li x ltac:(lia) Hx). destruct li as [|v]; cbn [local_ok] in *.
      - rewrite block_hash_eq in *. unfold lbs, ldata in *. rewrite Hsame_u by lia. exact Hc.
      - unfold stored_hash, lvl in *. rewrite block_hash_eq in *. unfold lbs, ldata in *.
        rewrite !Hsame_u by lia. exact Hc. }
    specialize (IH (start * 32) (concat hs) t1 m Hw1 ltac:(destruct Hshape1 as (L1 & _); lia)
                   ltac:(rewrite Hdu; nia) ltac:(rewrite Hdu, Hlhs; nia) Hc1).
    destruct (write_level H u (start * 32) (concat hs) t1 m) as [t' m'].
    destruct IH as (Hshape2 & Lm & Hdu' & Habove & Hc2).
    assert (Hshape : same_shape t t').
    { destruct Hshape1 as (A1 & A2 & A3). destruct Hshape2 as (B1 & B2 & B3).
      split; [lia|]. split; intros j; [rewrite B2; apply A2|rewrite B3; apply A3]. }
    split; [exact Hshape|]. split; [exact Lm|].
    assert (Hdli : ldata t' (S u) = data') by (unfold ldata; rewrite Habove by lia; exact Hd1).
    split; [exact Hdli|].
    split; [intros j Hj; rewrite Habove by lia; apply Hsame_u; lia|].
    intros li x Hli Hx. destruct (Nat.eq_dec li (S u)) as [->|Hne]; [|apply Hc2; [lia|exact Hx]].
    cbn [local_ok]. rewrite (same_shape_nblocks _ _ (S u) Hshape), Hnb in Hx.
    unfold stored_hash, lvl. replace (S u - 1)%nat with u by lia. fold dflt. fold (ldata t' u).
    rewrite Hdu', Hdu. rewrite block_hash_eq, Hdli. destruct Hshape as (_ & Hb' & _). rewrite Hb'. fold bs.
    destruct (Z_le_gt_dec start x) as [Hsx|Hsx]; [destruct (Z_le_gt_dec x last) as [Hxl|Hxl]|].
    + (* a re-hashed block: its new hash was stored *)
      replace (x * 32) with (start * 32 + 32 * Z.of_nat (Z.to_nat (x - start))) by lia.
      rewrite slice_overlay_inside by (rewrite ?Hlhs; nia).
      rewrite slice_concat32 by (try apply hashes_from_len32; unfold hs; rewrite length_hashes_from; unfold cnt; lia).
      unfold hs. rewrite hashes_from_spec by (unfold cnt; lia). f_equal. lia.
    + (* a block after the written range *)
      rewrite slice_overlay_outside by (rewrite ?Hlhs; nia).
      specialize (Hc (S u) x (Nat.le_refl _) ltac:(rewrite Hnb; lia)). cbn [local_ok] in Hc.
      unfold stored_hash, lvl in Hc. replace (S u - 1)%nat with u in Hc by lia. fold dflt in Hc. fold (ldata t u) in Hc.
      rewrite Hc. rewrite block_hash_eq. fold bs l. symmetry. apply bhash_untouched; try lia.
    + (* a block before the written range *)
      rewrite slice_overlay_outside by (rewrite ?Hlhs; nia).
      specialize (Hc (S u) x (Nat.le_refl _) ltac:(rewrite Hnb; lia)). cbn [local_ok] in Hc.
      unfold stored_hash, lvl in Hc. replace (S u - 1)%nat with u in Hc by lia. fold dflt in Hc. fold (ldata t u) in Hc.
      rewrite Hc. rewrite block_hash_eq. fold bs l. symmetry. apply bhash_untouched; try lia.
Qed.


(* local consistency of every block gives the authenticated chain of C17 for every block *)
Theorem consistent_chain t m li : forall x,
  wfg t m -> (li < length t)%nat -> consistent_upto t m li -> 0 <= x < nblocks t li -> chain_ok H t m li x.
Proof.
  induction li as [|u IH]; intros x Hw Hlt Hc Hx; cbn [chain_ok].
  - exact (Hc 0%nat x (Nat.le_refl _) Hx).
  - split; [exact (Hc (S u) x (Nat.le_refl _) Hx)|].
    apply IH; auto; [lia|intros li y Hli Hy; apply Hc; [lia|exact Hy]|].
    destruct Hw as (Hbs & Hroom & _). specialize (Hroom u Hlt). specialize (Hbs u ltac:(lia)).
    unfold upper_block, lvl. replace (S u - 1)%nat with u by lia. fold dflt. fold (lbs t u).
    unfold nblocks at 1. fold (lbs t u). set (bs := lbs t u) in *. set (L := len (ldata t u)) in *.
    split; [apply Z.div_pos; lia|]. apply Z.div_lt_upper_bound; [lia|].
    pose proof (Z.div_mod (L + bs - 1) bs ltac:(lia)). pose proof (Z.mod_pos_bound (L + bs - 1) bs Hbs). nia.
Qed.

End P.
