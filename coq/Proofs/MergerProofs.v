(* C09: a merged split file obeys the sub-file contract: for every history of seek / read / tell with arbitrary integer arguments,
   a read returns the slice of the concatenation of the pieces at the reported position, of the clamped length, and the position
   advances by what was returned; seeks land where asked (never below zero). *)
From Coq Require Import Lia.
From Pyctr Require Import Base.Prelude Base.ListExt Base.PySlice Env.PyFile Model.Merger.

Section P.
Variable segs : list (list Z).
Notation C := (concat segs).
Notation start := (seg_start segs).
Notation tot := (total segs).

Lemma seg_start_S i s : nth_error segs i = Some s -> start (S i) = start i + len s.
Proof.
  unfold seg_start. revert i. generalize segs as l. induction l as [|x l IH]; intros [|i] H; cbn in H; try discriminate.
  - inversion H; subst. cbn [firstn concat]. rewrite app_nil_r. rewrite len_nil. lia.
  - rewrite !firstn_cons. cbn [concat]. rewrite !len_app. rewrite (IH i H). lia.
Qed.

Lemma seg_start_nonneg i : 0 <= start i.
Proof. unfold seg_start. apply len_nonneg. Qed.

Lemma seg_end_le_total i s : nth_error segs i = Some s -> start i + len s <= tot.
Proof.
  unfold seg_start, total. revert i. generalize segs as l. induction l as [|x l IH]; intros [|i] H; cbn in H; try discriminate.
  - inversion H; subst. cbn [firstn concat]. rewrite len_nil, len_app. pose proof (len_nonneg (concat l)). lia.
  - rewrite !firstn_cons. cbn [concat]. rewrite !len_app. specialize (IH i H). lia.
Qed.

(* the bytes of piece i are the bytes of the concatenation at its start *)
Lemma slice_concat_piece i s r k : nth_error segs i = Some s -> 0 <= r -> 0 <= k -> r + k <= len s ->
  slice C (start i + r) k = slice s r k.
Proof.
  unfold seg_start. revert i. generalize segs as l. induction l as [|x l IH]; intros [|i] H Hr Hk Hle; cbn in H; try discriminate.
  - inversion H; subst. cbn [firstn concat]. rewrite len_nil. cbn [Z.add]. rewrite slice_app_l by lia. reflexivity.
  - rewrite firstn_cons. cbn [concat]. rewrite len_app. pose proof (len_nonneg x). pose proof (len_nonneg (concat (firstn i l))).
    rewrite slice_app_r by lia. replace (len x + len (concat (firstn i l)) + r - len x) with (len (concat (firstn i l)) + r) by lia.
    apply IH; assumption.
Qed.

Definition inv (m : merger) : Prop :=
  0 <= m_fake m /\
  (m_fake m < tot -> exists s, nth_error segs (m_idx m) = Some s /\ start (m_idx m) <= m_fake m <= start (m_idx m) + len s).

(* the loop: from a piece whose range holds the position (inclusive end) it collects exactly the next [left] bytes *)
Lemma read_loop_ok fuel : forall idx fake left acc s,
  nth_error segs idx = Some s -> start idx <= fake <= start idx + len s ->
  0 < left -> fake + left <= tot -> (length segs - idx <= fuel)%nat -> (idx < length segs)%nat ->
  exists idx' s', read_loop segs fuel idx fake left acc = Ok (acc ++ slice C fake left, fake + left, idx') /\
    nth_error segs idx' = Some s' /\ start idx' <= fake + left <= start idx' + len s'.
Proof.
  induction fuel as [|f IH]; intros idx fake left acc s Hs Hr Hl Ht Hf Hi; [lia|].
  cbn [read_loop]. rewrite Hs. set (real := fake - start idx). set (tr := Z.min (len s - real) left).
  pose proof (len_nonneg s) as Hls. pose proof (seg_start_nonneg idx) as Hst0.
  unfold piece_read. destruct (real <? 0) eqn:E; [unfold real in E; lia|]. cbn [bind].
  assert (Htr : 0 <= tr) by (unfold tr, real; lia).
  destruct (tr <? 0) eqn:E2; [lia|].
  assert (Hp : slice s real tr = slice C fake tr).
  { symmetry. replace fake with (start idx + real) by (unfold real; lia). apply slice_concat_piece; unfold tr, real; try assumption; lia. }
  rewrite Hp. destruct (left - tr <=? 0) eqn:E3.
  - assert (tr = left) by (unfold tr in *; lia). exists idx, s. rewrite H. split; [reflexivity|]. split; [exact Hs|].
    unfold tr, real in H. lia.
  - (* the piece is exhausted: go on with the next one *)
    assert (Htr2 : tr = len s - real) by (unfold tr in *; lia).
    assert (Hnext : fake + tr = start (S idx)) by (rewrite (seg_start_S idx s Hs); unfold real in Htr2; lia).
    destruct (nth_error segs (S idx)) as [s2|] eqn:Es2.
    2:{ (* no next piece although bytes are missing: impossible, the total would be reached *)
        exfalso. apply nth_error_None in Es2.
        assert (Hlast : S idx = length segs) by lia.
        assert (start (S idx) = tot). { unfold seg_start, total. rewrite Hlast. rewrite firstn_all. reflexivity. }
        lia. }
    destruct (IH (S idx) (fake + tr) (left - tr) (acc ++ slice C fake tr) s2 Es2) as (idx' & s' & Hrun & Hs' & Hr'); try lia.
    + rewrite Hnext. pose proof (len_nonneg s2). lia.
    + apply nth_error_Some. congruence.
    + exists idx', s'. rewrite Hrun. split.
      * assert (Q1 : (acc ++ slice C fake tr) ++ slice C (fake + tr) (left - tr) = acc ++ slice C fake left).
        { rewrite <- app_assoc. f_equal. replace left with (tr + (left - tr)) at 2 by lia. rewrite slice_app_split by lia. reflexivity. }
        rewrite Q1. replace (fake + tr + (left - tr)) with (fake + left) by lia. reflexivity.
      * replace (fake + tr + (left - tr)) with (fake + left) in Hr' by lia. auto.
Qed.

Theorem merger_read_ok m n : inv m ->
  exists r m', m_read segs m n = Ok (r, m') /\ inv m' /\
    r = slice C (m_fake m) (len r) /\ len r = read_count tot (m_fake m) n /\ m_fake m' = m_fake m + len r.
Proof.
  intros [Hf Hi]. unfold m_read.
  set (rest := Z.max (tot - m_fake m) 0).
  set (n1 := if n <? 0 then rest else if m_fake m + n >? tot then rest else n).
  assert (Hn1 : n1 = read_count tot (m_fake m) n).
  { unfold n1, rest, read_count. destruct (n <? 0) eqn:?; [lia|]. destruct (m_fake m + n >? tot) eqn:?; lia. }
  destruct (n1 =? 0) eqn:E0.
  - exists [], m. rewrite len_nil, slice_0. repeat split; auto; lia.
  - assert (Hpos : 0 < n1) by (rewrite Hn1 in *; unfold read_count in *; destruct (n <? 0) eqn:?; lia).
    assert (Hlt : m_fake m < tot) by (rewrite Hn1 in Hpos; unfold read_count in Hpos; destruct (n <? 0) eqn:?; lia).
    destruct (Hi Hlt) as (s & Hs & Hr).
    assert (Hidx : (m_idx m < length segs)%nat) by (apply nth_error_Some; congruence).
    destruct (read_loop_ok (S (length segs)) (m_idx m) (m_fake m) n1 [] s Hs Hr Hpos) as (idx' & s' & Hrun & Hs' & Hr'); try lia.
    { rewrite Hn1. unfold read_count. destruct (n <? 0) eqn:?; lia. }
    rewrite Hrun. cbn [app].
    assert (Hlen : len (slice C (m_fake m) n1) = n1).
    { rewrite len_slice by lia. unfold total in *. rewrite Hn1 in *. unfold read_count in *. destruct (n <? 0) eqn:?; lia. }
    exists (slice C (m_fake m) n1), (mkM (m_fake m + n1) idx'). split; [reflexivity|]. rewrite Hlen.
    split; [|split; [reflexivity|split; [exact Hn1|reflexivity]]].
    split; cbn [m_fake m_idx]; [lia|]. intros _. exists s'. auto.
Qed.

(* seeks *)
Lemma find_seg_spec pos : forall l st i j, find_seg st i pos l = Some j ->
  exists s, nth_error l (j - i) = Some s /\ (i <= j)%nat /\
            st + len (concat (firstn (j - i) l)) <= pos < st + len (concat (firstn (j - i) l)) + len s.
Proof.
  induction l as [|x l IH]; intros st i j H; cbn [find_seg] in H; [discriminate|].
  destruct ((st <=? pos) && (pos <? st + len x)) eqn:E.
  - inversion H; subst. exists x. rewrite Nat.sub_diag. cbn [nth_error firstn concat]. rewrite len_nil.
    apply andb_true_iff in E as [E1 E2]. repeat split; auto; lia.
  - destruct (IH _ _ _ H) as (s & Hs & Hij & Hr). exists s.
    replace (j - i)%nat with (S (j - S i)) by lia. rewrite firstn_cons. cbn [nth_error concat]. rewrite len_app. repeat split; auto; lia.
Qed.

Lemma find_seg_none pos : forall l st i, 0 <= st <= pos -> find_seg st i pos l = None -> st + len (concat l) <= pos.
Proof.
  induction l as [|x l IH]; intros st i Hst H; cbn [find_seg concat] in *; [rewrite len_nil; lia|].
  destruct ((st <=? pos) && (pos <? st + len x)) eqn:E; [discriminate|].
  rewrite len_app. pose proof (len_nonneg x). specialize (IH (st + len x) (S i) ltac:(lia) H). lia.
Qed.

Lemma calc_seek_inv m pos : 0 <= pos -> inv (calc_seek segs m pos) /\ m_fake (calc_seek segs m pos) = pos.
Proof.
  intros Hp. unfold calc_seek. destruct (find_seg 0 0 pos segs) as [j|] eqn:E.
  - split; [|reflexivity]. split; cbn [m_fake m_idx]; [exact Hp|]. intros _.
    destruct (find_seg_spec pos segs 0 0%nat j E) as (s & Hs & _ & Hr). rewrite Nat.sub_0_r in *.
    exists s. split; [exact Hs|]. unfold seg_start. lia.
  - split; [|reflexivity]. split; cbn [m_fake m_idx]; [exact Hp|]. intros Hlt.
    pose proof (find_seg_none pos segs 0 0%nat ltac:(lia) E). unfold total in Hlt. lia.
Qed.

Theorem merger_seek_ok m pos whence : inv m ->
  match m_seek segs m pos whence with
  | Ok (p, m') => inv m' /\ m_fake m' = p /\
                  p = (if whence =? 0 then pos else if whence =? 1 then Z.max 0 (m_fake m + pos) else Z.max 0 (tot + pos))
  | Err e => e = ValueError /\ ((whence = 0 /\ pos < 0) \/ (whence <> 0 /\ whence <> 1 /\ whence <> 2))
  end.
Proof.
  intros [Hf _]. unfold m_seek. pose proof (len_nonneg C) as Ht. fold tot in Ht.
  destruct (Z.eqb_spec whence 0) as [->|H0].
  - destruct (pos <? 0) eqn:E; [split; [reflexivity|left; lia]|].
    destruct (calc_seek_inv m pos ltac:(lia)) as [A B]. rewrite B. split; [exact A|split; reflexivity].
  - destruct (Z.eqb_spec whence 1) as [->|H1].
    + destruct (m_fake m + pos <? 0) eqn:E.
      * destruct (calc_seek_inv m (m_fake m + - m_fake m) ltac:(lia)) as [A B]. rewrite B. cbn [Z.eqb Pos.eqb]. split; [exact A|split; [reflexivity|lia]].
      * destruct (calc_seek_inv m (m_fake m + pos) ltac:(lia)) as [A B]. rewrite B. cbn [Z.eqb Pos.eqb]. split; [exact A|split; [reflexivity|lia]].
    + destruct (Z.eqb_spec whence 2) as [->|H2].
      * destruct (tot + pos <? 0) eqn:E.
        -- destruct (calc_seek_inv m (tot + - tot) ltac:(lia)) as [A B]. rewrite B. cbn [Z.eqb Pos.eqb]. split; [exact A|split; [reflexivity|lia]].
        -- destruct (calc_seek_inv m (tot + pos) ltac:(lia)) as [A B]. rewrite B. cbn [Z.eqb Pos.eqb]. split; [exact A|split; [reflexivity|lia]].
      * split; [reflexivity|right; auto].
Qed.

Lemma init_inv : inv (mkM 0 0).
Proof.
  split; cbn [m_fake m_idx]; [lia|]. intros Hlt. unfold total, seg_start in *.
  (* position 0 of a non-empty concatenation: piece 0 exists (it may be empty: inclusive end) *)
  destruct segs as [|x l]; [cbn in Hlt; lia|].
  exists x. cbn [nth_error firstn concat]. rewrite len_nil. pose proof (len_nonneg x). split; [reflexivity|lia].
Qed.

(* every step of every history: the sub-file contract of a read-only view of size tot exposing C *)
Definition mstep_contract (m : merger) (o : mop) (r : mres) (m' : merger) : Prop :=
  match o, r with
  | MRead n, RBytes b => b = slice C (m_fake m) (len b) /\ len b = read_count tot (m_fake m) n /\ m_fake m' = m_fake m + len b
  | MSeek p w, RInt q => m_fake m' = q /\ q = (if w =? 0 then p else if w =? 1 then Z.max 0 (m_fake m + p) else Z.max 0 (tot + p))
  | MSeek p w, RErr e => e = ValueError /\ ((w = 0 /\ p < 0) \/ (w <> 0 /\ w <> 1 /\ w <> 2)) /\ m' = m
  | MTell, RInt q => q = m_fake m /\ m' = m
  | _, _ => False           (* in particular: no read ever raises, whatever the position and the size *)
  end.

Fixpoint msteps_ok (m : merger) (ops : list mop) : Prop :=
  match ops with
  | [] => True
  | o :: r => let '(x, m') := m_step segs m o in mstep_contract m o x m' /\ msteps_ok m' r
  end.

Theorem merger_history_ok ops : forall m, inv m -> msteps_ok m ops.
Proof.
  induction ops as [|o r IH]; intros m Hm; [exact I|]. cbn [msteps_ok].
  destruct o as [n|p w|]; cbn [m_step].
  - destruct (merger_read_ok m n Hm) as (b & m' & -> & Hi & H1 & H2 & H3). split; [cbn; auto|apply IH; exact Hi].
  - pose proof (merger_seek_ok m p w Hm) as S. destruct (m_seek segs m p w) as [[q m']|e].
    + destruct S as (Hi & H1 & H2). split; [cbn; auto|apply IH; exact Hi].
    + destruct S as (H1 & H2). split; [cbn; auto|apply IH; exact Hm].
  - split; [cbn; auto|apply IH; exact Hm].
Qed.
End P.
