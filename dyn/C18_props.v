(* C18 -- save containers: writes keep data and hash tree consistent. *)
From Pyctr Require Import Base.Prelude Base.ListExt Base.PyInt Base.PySlice Model.Ivfc Model.IvfcWrite Proofs.IvfcProofs Proofs.IvfcWriteProofs
  Model.Blocks Model.Dpfs Model.DpfsWrite Proofs.DpfsProofs Proofs.DpfsWriteProofs.

Section C18.
Variable H : list Z -> list Z.                       (* SHA-256: uninterpreted ... *)
Hypothesis H_len : forall d, len (H d) = 32.          (* ... except that digests have 32 bytes *)

(* A write of any data at any offset inside level li of a tree in which every block of levels 0..li verifies against
   the hash stored for it (the master hashes for the top level): afterwards the level holds the data laid over its
   previous contents, no level changes size, and again every block of levels 0..li verifies -- against the updated
   hash levels and master hashes.  (li = 3 is the level-4 data; the statement is for any number of levels.) *)
Theorem C18_write_consistent : forall li off d t m,
  wfg t m -> (li < length t)%nat -> 0 <= off < len (ldata t li) -> off + len d <= len (ldata t li) ->
  consistent_upto H t m li ->
  let '(t', m') := write_level H li off d t m in
  same_shape t t' /\ len m' = len m /\
  ldata t' li = overlay 0 (ldata t li) off d /\
  (forall j, (li < j)%nat -> nth j t' dflt = nth j t dflt) /\
  consistent_upto H t' m' li.
Proof. exact (write_level_ok H H_len). Qed.

(* ... hence every block has an intact chain up to the (new) master hashes: it will be served as valid after
   re-opening (C17_complete), whatever block the write started in *)
Theorem C18_reopen_verifies : forall t m li x,
  wfg t m -> (li < length t)%nat -> consistent_upto H t m li -> 0 <= x < IvfcWriteProofs.nblocks t li -> chain_ok H t m li x.
Proof. exact (consistent_chain H). Qed.

End C18.

(* DPFS: a write of any data at any position through the level-3 view, whatever the level-2 bitmap: the returned count is the
   length of the data cut to the end of the level; every byte of the two-copy area keeps its value except those the active view
   shows at the written positions, which take the data (so the inactive copies and the bytes around are untouched); and the
   active view afterwards is the old one with the data laid over it *)
Theorem C18_dpfs_write : forall size bs lv2 pair off data,
  0 < bs -> 0 < size -> len pair = 2 * size -> 0 <= off ->
  let '(pair', n) := lv3_write pair size bs lv2 off data in
  let d := clamp size off data in
  n = len d /\ len pair' = 2 * size /\
  (forall q, 0 <= q -> zth pair' q = written size bs lv2 off d pair q) /\
  (forall p, 0 <= p < size ->
     zth (active_view pair' size bs (active_bit lv2)) p =
     if (off <=? p) && (p <? off + len d) then zth d (p - off) else zth (active_view pair size bs (active_bit lv2)) p).
Proof. intros size bs lv2 pair off data Hbs Hsize Hl Ho. exact (lv3_write_spec size bs lv2 Hbs Hsize pair off data Hl Ho). Qed.

Print Assumptions C18_write_consistent.
Print Assumptions C18_dpfs_write.
Print Assumptions C18_reopen_verifies.

(* non-vacuity: a toy two-level tree; a write into the second data block *)
Definition toyH (d : list Z) : list Z := repeat (fold_left Z.add d 0 mod 251 + 1) 32.
Example C18_example :
  let d0 := [1; 2; 3; 4; 5; 6; 7; 8] in
  let t := [mkLevel (toyH [1; 2; 3; 4] ++ toyH [5; 6; 7; 8]) 64; mkLevel d0 4] in
  let m := [toyH (toyH [1; 2; 3; 4] ++ toyH [5; 6; 7; 8])] in
  let '(t', m') := write_level toyH 1 5 [9; 9] t m in
  ldata t' 1 = [1; 2; 3; 4; 5; 9; 9; 8] /\ ldata t' 0 = toyH [1; 2; 3; 4] ++ toyH [5; 9; 9; 8] /\ m' = [toyH (ldata t' 0)].
Proof. vm_compute. auto. Qed.

Example C18_dpfs_write_nonvacuous :
  let lv2 := lv2_words ex_lv2 4 (lv1_words ex_lv1 0) in
  lv3_write ex_lv3 10 4 lv2 1 [201; 202; 203; 204; 205; 206; 207; 208] =
  ([0; 1; 2; 3; 204; 205; 206; 207; 8; 9; 100; 201; 202; 203; 104; 105; 106; 107; 208; 109], 8).
Proof. exact dpfs_write_nonvacuous. Qed.
