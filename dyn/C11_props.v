(* C11 -- title metadata: every record covered by an info record is hash-protected; word codecs. *)
From Pyctr Require Import Base.Prelude Base.ListExt Base.PyInt Base.PySlice Base.Sweep Model.Tmd Model.TmdSer Proofs.TmdProofs Proofs.TmdSerProofs.
From Dyn Require Import Gen_tmd.

Section C11.
Variable H : list Z -> list Z.        (* SHA-256: uninterpreted; nothing is assumed about it *)

(* With hash verification on: two files with the same signature type and the same header (so the same info-block
   hash and record count) that both contain all announced chunk records.  Whatever was changed in the info block and
   in the chunk records, if both load then the info records are identical and every chunk record covered by an info
   record is identical -- otherwise the two loads hand us two different inputs with the same SHA-256 (constructed). *)
Theorem C11_tamper : forall raw raw' t t' ss pad,
  bytes_ok raw -> bytes_ok raw' ->
  sig_layout (be_decode (slice raw 0 4)) = Some (ss, pad) ->
  slice raw' 0 4 = slice raw 0 4 ->
  slice raw' (4 + ss + pad) 0xC4 = slice raw (4 + ss + pad) 0xC4 ->
  (let count := be_decode (slice (slice raw (4 + ss + pad) 0xC4) 0x9E 2) in
   4 + ss + pad + 0xC4 + 0x900 + 48 * count <= len raw /\ 4 + ss + pad + 0xC4 + 0x900 + 48 * count <= len raw') ->
  tmd_load H true raw = Ok t -> tmd_load H true raw' = Ok t' ->
  (t_infos t' = t_infos t /\ forall ir, In ir (t_infos t) -> covered (t_chunks t') ir = covered (t_chunks t) ir)
  \/ exists x y, x <> y /\ H x = H y.
Proof. exact (tmd_tamper H). Qed.

(* a 48-byte record determines, and is determined by, its parsed form (what "records equal" means) *)
Theorem C11_record_injective : forall a b, full a -> full b -> ser_chunk a = ser_chunk b -> a = b.
Proof. exact ser_chunk_inj. Qed.

(* Parse then serialise reproduces the input bytes: for every byte string that is a well-formed TMD (exactly the announced
   length, zero signature padding, non-zero info records first, chunk type words within the bits the object keeps, header
   hash = hash of the info block), whatever the values of all other fields, with or without verification. *)
Theorem C11_bytes_of_load : forall v raw t,
  bytes_ok raw -> wf_bytes H raw -> tmd_load H v raw = Ok t -> ser_obj H (obj_of t) = Ok raw.
Proof. exact (tmd_bytes_of_load H). Qed.

(* Serialise then parse reproduces an equal object: for every object that load returns from a file holding all announced
   chunk records (not only the well-formed ones: gaps between info records, stray type bits, non-zero padding are allowed),
   its serialisation loads, under the same verification mode, to an object with equal fields.  Assumes only that the hash
   function returns 32 bytes. *)
Theorem C11_load_of_bytes : (forall x, len (H x) = 32) -> forall v raw t,
  bytes_ok raw -> complete raw -> tmd_load H v raw = Ok t ->
  exists b t', ser_obj H (obj_of t) = Ok b /\ tmd_load H v b = Ok t' /\ obj_of t' = obj_of t.
Proof. intros Hlen. exact (tmd_load_of_bytes H Hlen). Qed.

End C11.

(* the hypotheses of both round-trip theorems hold for a concrete TMD with one content and one info record *)
Example C11_roundtrip_nonvacuous :
  bytes_ok raw0 /\ wf_bytes H0 raw0 /\ complete raw0 /\ (forall x, len (H0 x) = 32) /\
  is_ok (tmd_load H0 true raw0) = true /\
  (do t <- tmd_load H0 true raw0; Ok (length (t_infos t), length (t_chunks t))) = Ok (1%nat, 1%nat).
Proof. exact tmd_roundtrip_nonvacuous. Qed.

(* title-version and content-type words (regenerated kernels; complete sweeps) *)
Definition tv_check (w : Z) : bool :=
  let '(a, b, c) := titleversion_from_int w in (titleversion_index a c b =? w).
Lemma tv_sweep : forallb tv_check (zseq 0 (Z.to_nat 65536)) = true.
Proof. vm_compute. reflexivity. Qed.
Theorem C11_version_word : forall w, 0 <= w < 65536 ->
  let '(major, minor, micro) := titleversion_from_int w in titleversion_index major micro minor = w.
Proof.
  intros w Hw. pose proof (sweep tv_check 65536 tv_sweep w Hw) as H. unfold tv_check in H.
  destruct (titleversion_from_int w) as [[a b] c]. lia.
Qed.

Definition ctf_check (w : Z) : bool :=
  let '(e, d, c, o, s) := ctf_from_int w in (ctf_index c d e o s =? type_mask w).
Lemma ctf_sweep : forallb ctf_check (zseq 0 (Z.to_nat 65536)) = true.
Proof. vm_compute. reflexivity. Qed.
(* the model's type_mask is what the regenerated flag conversion does to a word *)
Theorem C11_type_flags : forall w, 0 <= w < 65536 ->
  let '(encrypted, disc, cfm, optional, shared) := ctf_from_int w in
  ctf_index cfm disc encrypted optional shared = type_mask w.
Proof.
  intros w Hw. pose proof (sweep ctf_check 65536 ctf_sweep w Hw) as H. unfold ctf_check in H.
  destruct (ctf_from_int w) as [[[[e d] c] o] s]. lia.
Qed.

(* the record serialisers the models use are the ones in the source (regenerated each run) *)
Theorem C11_record_bytes_are_source :
  (forall i, inforec_bytes (i_cnt i) (i_hash i) (i_off i) = ser_info i) /\
  (forall c, chunk_bytes (c_index c) (c_hash c) (c_size c) (c_id c) (c_type c) = ser_chunk c).
Proof.
  split; intros x; [unfold inforec_bytes, ser_info|unfold chunk_bytes, ser_chunk]; cbn [concat]; now rewrite app_nil_r.
Qed.

Print Assumptions C11_tamper.
Print Assumptions C11_record_bytes_are_source.
Print Assumptions C11_record_injective.
Print Assumptions C11_bytes_of_load.
Print Assumptions C11_load_of_bytes.
Print Assumptions C11_version_word.
Print Assumptions C11_type_flags.
