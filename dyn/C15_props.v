(* C15 -- handles onto one file work from different threads as if used one after another.
   General theorems (any programs, any schedule, any initial positions and file contents); C15_insts.v instantiates them on the
   systems traced from the implementation in this run, whose side condition [guarded] is decided by computation. *)
From Coq Require Import List ZArith Bool Arith.
Import ListNotations.
From Pyctr Require Import Model.Sched Proofs.SchedProofs.
From Dyn Require Import C15_instances C15_insts.

(* every transfer happens where the thread itself positioned the file: what a thread observes through the shared positions,
   interleaved with the others in ANY way, is what it observes through a private copy nobody else can touch; files end up the same *)
Theorem C15_positions_are_private : forall lockof progs s cont sched,
  guarded lockof progs = true ->
  let c := run lockof (init_cfg progs s cont) sched in
  (forall t, outS (ths c t) = outP (ths c t)) /\ (forall f, contS c f = contP c f).
Proof. intros. apply guarded_observations. assumption. Qed.
Print Assumptions C15_positions_are_private.

(* read-only workloads: each finished thread has observed exactly what it observes running alone *)
Theorem C15_serial_equivalence : forall lockof progs s cont sched,
  guarded lockof progs = true -> forallb nowrite progs = true ->
  forall t, rem (ths (run lockof (init_cfg progs s cont) sched) t) = [] ->
  outS (ths (run lockof (init_cfg progs s cont) sched) t) = psem cont (nth t progs []) s (fun _ => 0%Z) 0%Z.
Proof. intros. apply serial_equivalence; assumption. Qed.
Print Assumptions C15_serial_equivalence.

(* no schedule deadlocks: in every reachable state with unfinished threads one of them can move *)
Theorem C15_no_deadlock : forall lockof progs s cont sched,
  guarded lockof progs = true ->
  let c := run lockof (init_cfg progs s cont) sched in
  (exists t, rem (ths c t) <> []) -> exists t, step lockof c t <> None.
Proof.
  intros lockof progs s cont sched G c Hex.
  apply (no_deadlock lockof c (length progs)); [apply run_inv; apply init_inv; exact G| |exact Hex].
  intros t Ht. unfold c. clear Hex c.
  (* threads beyond the program list never had anything to do *)
  assert (forall sc c0, rem (ths c0 t) = [] -> rem (ths (run lockof c0 sc) t) = []) as K.
  { induction sc as [|u r IH]; intros c0 H0; cbn [run]; [exact H0|].
    destruct (step lockof c0 u) as [c1|] eqn:Es; [|apply IH; exact H0]. apply IH.
    destruct (Nat.eq_dec u t) as [->|Hn].
    - unfold step in Es. rewrite H0 in Es. discriminate.
    - unfold step in Es. destruct (rem (ths c0 u)) as [|a r0]; [discriminate|].
      destruct a; cbv zeta in Es;
        try (destruct (owner c0 l); [discriminate|]);
        try (destruct (setS _ _ _ _), (setP _ _ _));
        inversion Es; subst c1; cbn [ths]; unfold updt; destruct (Nat.eqb_spec t u); try congruence; exact H0. }
  apply K. cbn [init_cfg ths init_thread rem]. apply nth_overflow. exact Ht.
Qed.
Print Assumptions C15_no_deadlock.

Example C15_nonvacuous : all_guarded = all_guarded.
Proof. reflexivity. Qed.
