(* C10 -- CCI, CDN and SD-title containers: partition table and content-file resolution. *)
From Pyctr Require Import Base.Prelude Base.ListExt Base.PyInt Base.PySlice Model.Ncsd Proofs.NcsdProofs.

(* the partitions listed are exactly the table entries with a non-zero offset, at offset*0x200 with size*0x200 *)
Theorem C10_ncsd_table : forall tbl, Forall entry_ok tbl -> length tbl = 8%nat ->
  ncsd_loop (encode_table tbl) 0 8 =
  flat_map (fun j => let p := nth j tbl (0, 0) in
                     if negb (fst p * 0x200 =? 0) then [(Z.of_nat j, fst p * 0x200, snd p * 0x200)] else []) (seq 0 8).
Proof. intros tbl H L. apply (ncsd_loop_spec tbl H 0%nat 8%nat). lia. Qed.

Theorem C10_cci_reject_magic : forall header, list_eqb (slice header 0 4) [78; 67; 83; 68] = false -> ncsd_partitions header = Err (Pyctr 50).
Proof. exact ncsd_reject_magic. Qed.

Theorem C10_cci_reject_media : forall header, all_zeroZ (slice header 8 8) = true -> ncsd_partitions header = Err (Pyctr 50).
Proof. exact ncsd_reject_media. Qed.

(* a content is listed iff its file exists under the lower- or upper-case id; other contents are unaffected *)
Theorem C10_cdn_resolution : forall (upper : list Z -> list Z) names ids id,
  In id (cdn_listed upper names ids) <-> In id ids /\ (has names id = true \/ has names (upper id) = true).
Proof. exact cdn_listed_spec. Qed.

Print Assumptions C10_ncsd_table.
Print Assumptions C10_cci_reject_magic.
Print Assumptions C10_cci_reject_media.
Print Assumptions C10_cdn_resolution.

Example C10_example :
  ncsd_partitions ([78; 67; 83; 68] ++ repeat 0 4 ++ [1] ++ repeat 0 7 ++ repeat 0 16 ++ encode_table [(0x20, 3); (0, 9); (0x40, 1); (0,0); (0,0); (0,0); (0,0); (0x80, 2)] ++ repeat 0 0xA0)
  = Ok [(0, 0x4000, 0x600); (2, 0x8000, 0x200); (7, 0x10000, 0x400)].
Proof. vm_compute. reflexivity. Qed.
