(* C01 -- random-access AES-CTR reads equal whole-stream decryption (3DS and DSi mode). *)
From Pyctr Require Import Base.Prelude Base.ListExt Base.PyInt Base.PySlice Env.PyFile Env.FileIface
  Spec.StreamCipher Env.Cipher Model.Window Model.CtrIO Proofs.WindowProofs Proofs.WrapInstances Proofs.CtrProofs Proofs.TwlProofs Proofs.CtrChunkProofs.
From Dyn Require Import Gen_engine CTR_bridge.

Section C01.
Variable E : list Z -> list Z -> list Z.          (* AES block function: uninterpreted *)
Variables (key : list Z) (counter : Z).

(* 3DS mode, wrapper over a plain file: every read of every seek/read/write/tell history returns the slice of
   the whole-stream decryption at the position reported before it and advances by the bytes returned *)
Theorem C01_ctr_plain : forall io ops,
  io_inv pf_ok fdata fpos true key counter io ->
  call_steps_ok E pyfile_ops fdata fpos true key counter io ops.
Proof.
  intros io ops. apply (ctr_history_ok E pyfile_ops pf_ok fdata fpos pyfile_lawful true).
  intros s d H. destruct (pyfile_write_law s d H) as (k & s' & ? & ? & ? & ? & ?). exists k, s'. auto.
Qed.

(* 3DS mode, wrapper over a window [off, off+sz) of a larger file *)
Theorem C01_ctr_window : forall off sz, 0 <= off -> 0 <= sz -> forall io ops,
  io_inv (win_inside off sz) (win_content off sz) wseek false key counter io ->
  call_steps_ok E (window_ops off sz) (win_content off sz) wseek false key counter io ops.
Proof.
  intros off sz Ho Hs io ops.
  apply (ctr_history_ok E (window_ops off sz) (win_inside off sz) (win_content off sz) wseek
           (window_lawful_inside off sz Ho Hs) false).
  intros s d H. destruct (window_write_law off sz s d Ho Hs H) as (k & s' & ? & ? & ? & ? & ?). exists k, s'. auto.
Qed.

(* composition, 3DS mode: consecutive reads in ANY chunking (sizes negative, zero, sub-block, over-long, past the end), started with
   any cached cipher the invariant allows, glue back to ONE slice of the whole-stream decryption starting at the initial position *)
Theorem C01_ctr_chunks_glue : forall ns io,
  io_inv pf_ok fdata fpos true key counter io -> 0 <= fpos (cu io) ->
  let '(rs, io') := ctr_run E pyfile_ops key counter false io (map CRead ns) in
  exists t, cglue rs = Some t /\
    t = slice (stream_dec E false key counter (fdata (cu io))) (fpos (cu io)) (len t) /\
    fpos (cu io') = fpos (cu io) + len t /\ fdata (cu io') = fdata (cu io) /\ io_inv pf_ok fdata fpos true key counter io'.
Proof.
  intros ns. apply (ctr_chunks_glue E pyfile_ops pf_ok fdata fpos pyfile_lawful true).
  intros s d H. destruct (pyfile_write_law s d H) as (k & s' & ? & ? & ? & ? & ?). exists k, s'. auto.
Qed.

(* the cached cipher object never shows: two wrapper states with the same contents and position answer a read alike, whatever
   cipher (made for another position, for the other direction, or none) each has cached *)
Theorem C01_ctr_cache_invisible : forall io1 io2 n,
  io_inv pf_ok fdata fpos true key counter io1 -> io_inv pf_ok fdata fpos true key counter io2 ->
  fdata (cu io1) = fdata (cu io2) -> fpos (cu io1) = fpos (cu io2) ->
  forall out1 io1' out2 io2',
  ctr_step E pyfile_ops key counter false io1 (CRead n) = (CBytes out1, io1') ->
  ctr_step E pyfile_ops key counter false io2 (CRead n) = (CBytes out2, io2') -> out1 = out2.
Proof.
  apply (ctr_read_cache_invisible E pyfile_ops pf_ok fdata fpos pyfile_lawful true).
  intros s d H. destruct (pyfile_write_law s d H) as (k & s' & ? & ? & ? & ? & ?). exists k, s'. auto.
Qed.

(* DSi mode (keyslots 0-3): the per-block reversal is invisible at every offset and length; any lawful file *)
Theorem C01_twl_read : forall (S : Type) (U : fileops S) inv content pos, lawful U inv content pos ->
  forall io n, inv (cu io) ->
  exists out io', twl_read E U key counter io n = Ok (out, io') /\ inv (cu io') /\
    out = slice (stream_dec E true key counter (content (cu io))) (pos (cu io)) (len out) /\
    len out = read_count (len (content (cu io))) (pos (cu io)) n /\
    content (cu io') = content (cu io) /\ pos (cu io') = pos (cu io) + len out.
Proof. intros S U inv content pos L. exact (twl_read_ok E U inv content pos L key counter). Qed.

(* what "DSi whole-stream decryption" means: block-wise reverse, CTR, reverse *)
Theorem C01_twl_reversal_invisible : forall c0 nb l, length l = (16 * nb)%nat ->
  revblocks (xor_ks E (fun j => j) key c0 0 (revblocks l)) = stream_dec E true key c0 l.
Proof. intros c0 nb l H. unfold stream_dec. exact (revblocks_xor E key c0 nb l H). Qed.

End C01.

(* the flavour is chosen by keyslot < 4 (regenerated from create_ctr_io / create_ctr_cipher) *)
Theorem C01_mode_by_keyslot : forall slot,
  create_ctr_io_is_twl slot = (slot <? 4) /\ create_ctr_cipher_is_twl slot = (slot <? 4).
Proof. exact gen_mode. Qed.

Theorem C01_gen_leaves : forall c cur,
  ctr_read_counter c cur = ctr_start_counter c cur /\ ctr_write_counter c cur = ctr_start_counter c cur /\
  twl_read_counter c cur = ctr_start_counter c cur /\ twl_write_counter c cur = ctr_start_counter c cur.
Proof. exact gen_counters. Qed.

Print Assumptions C01_ctr_plain.
Print Assumptions C01_ctr_window.
Print Assumptions C01_twl_read.
Print Assumptions C01_twl_reversal_invisible.
Print Assumptions C01_mode_by_keyslot.
Print Assumptions C01_gen_leaves.
Print Assumptions C01_ctr_chunks_glue.
Print Assumptions C01_ctr_cache_invisible.

(* non-vacuity: a toy block function, an unaligned history reusing the cached cipher *)
Definition toyE (k b : list Z) : list Z := map (fun x => Z.lxor (x + 7) (hd 0 k) mod 256) (rev b).
Example C01_example :
  let io := mkCtrIO (mkFile (map Z.of_nat (seq 0 40)) 0) None false in
  fst (ctr_run toyE pyfile_ops [3] 5 false io [CSeek 5 0; CRead 7; CRead 20; CSeek (-3) 2; CRead (-1)])
  = [CInt 5; CBytes (slice (stream_dec toyE false [3] 5 (map Z.of_nat (seq 0 40))) 5 7);
     CBytes (slice (stream_dec toyE false [3] 5 (map Z.of_nat (seq 0 40))) 12 20); CInt 37;
     CBytes (slice (stream_dec toyE false [3] 5 (map Z.of_nat (seq 0 40))) 37 3)].
Proof. vm_compute. reflexivity. Qed.

(* chunked reading of the same file: 5 + 0 + 11 + over-long + past the end = the whole decryption *)
Example C01_chunks_example :
  let io := mkCtrIO (mkFile (map Z.of_nat (seq 0 40)) 0) None false in
  cglue (fst (ctr_run toyE pyfile_ops [3] 5 false io (map CRead [5; 0; 11; 100; 4; -1])))
  = Some (stream_dec toyE false [3] 5 (map Z.of_nat (seq 0 40))).
Proof. vm_compute. reflexivity. Qed.
