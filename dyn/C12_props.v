(* C12 -- CTR-wrapper writes keep ciphertext file and plaintext view consistent. *)
From Pyctr Require Import Base.Prelude Base.ListExt Base.PyInt Base.PySlice Env.PyFile Env.FileIface
  Spec.StreamCipher Env.Cipher Model.Window Model.CtrIO Proofs.WindowProofs Proofs.WrapInstances Proofs.CtrProofs Proofs.TwlProofs.
From Dyn Require Import Gen_engine CTR_bridge.

Section C12.
Variable E : list Z -> list Z -> list Z.
Variables (key : list Z) (counter : Z).

(* one write through the 3DS-mode wrapper over a plain file, from any reachable state (cached cipher in either
   direction, or none): never an error; bytes outside [pos, pos+k) keep their ciphertext; the decrypted view is
   updated like an ordinary file whenever the write does not start beyond the end of the file *)
Theorem C12_write_plain : forall io d,
  io_inv pf_ok fdata fpos true key counter io ->
  exists k io', ctr_write E pyfile_ops key counter io d = Ok (k, io') /\
    io_inv pf_ok fdata fpos true key counter io' /\
    k = len d /\ fpos (cu io') = fpos (cu io) + k /\
    (exists ct, len ct = len d /\ fdata (cu io') = overlay 0 (fdata (cu io)) (fpos (cu io)) (take ct k)) /\
    (fpos (cu io) <= len (fdata (cu io)) ->
       stream_dec E false key counter (fdata (cu io')) =
       overlay 0 (stream_dec E false key counter (fdata (cu io))) (fpos (cu io)) (take d k)).
Proof.
  intros io d. apply (ctr_write_ok E pyfile_ops pf_ok fdata fpos pyfile_lawful true).
  intros s d0 H. destruct (pyfile_write_law s d0 H) as (k & s' & ? & ? & ? & ? & ?). exists k, s'. auto.
Qed.

(* the same over a window: the write is truncated at the window end and the cipher cache cannot be observed misaligned *)
Theorem C12_write_window : forall off sz, 0 <= off -> 0 <= sz -> forall io d,
  io_inv (win_inside off sz) (win_content off sz) wseek false key counter io ->
  exists k io', ctr_write E (window_ops off sz) key counter io d = Ok (k, io') /\
    io_inv (win_inside off sz) (win_content off sz) wseek false key counter io' /\
    k = Z.min (len d) (Z.max 0 (len (win_content off sz (cu io)) - wseek (cu io))) /\
    wseek (cu io') = wseek (cu io) + k /\
    (exists ct, len ct = len d /\
       win_content off sz (cu io') = overlay 0 (win_content off sz (cu io)) (wseek (cu io)) (take ct k)) /\
    (wseek (cu io) <= len (win_content off sz (cu io)) ->
       stream_dec E false key counter (win_content off sz (cu io')) =
       overlay 0 (stream_dec E false key counter (win_content off sz (cu io))) (wseek (cu io)) (take d k)).
Proof.
  intros off sz Ho Hs io d.
  apply (ctr_write_ok E (window_ops off sz) (win_inside off sz) (win_content off sz) wseek
           (window_lawful_inside off sz Ho Hs) false).
  intros s d0 H. destruct (window_write_law off sz s d0 Ho Hs H) as (k & s' & ? & ? & ? & ? & ?). exists k, s'. auto.
Qed.

(* all interleavings of seek/read/write/tell: every step obeys [cstep_contract]; in particular no read or write
   ever raises, whatever the order (read-then-write, write-then-read without a seek) *)
Theorem C12_history_plain : forall io ops,
  io_inv pf_ok fdata fpos true key counter io ->
  call_steps_ok E pyfile_ops fdata fpos true key counter io ops.
Proof.
  intros io ops. apply (ctr_history_ok E pyfile_ops pf_ok fdata fpos pyfile_lawful true).
  intros s d H. destruct (pyfile_write_law s d H) as (k & s' & ? & ? & ? & ? & ?). exists k, s'. auto.
Qed.

Theorem C12_history_window : forall off sz, 0 <= off -> 0 <= sz -> forall io ops,
  io_inv (win_inside off sz) (win_content off sz) wseek false key counter io ->
  call_steps_ok E (window_ops off sz) (win_content off sz) wseek false key counter io ops.
Proof.
  intros off sz Ho Hs io ops.
  apply (ctr_history_ok E (window_ops off sz) (win_inside off sz) (win_content off sz) wseek
           (window_lawful_inside off sz Ho Hs) false).
  intros s d H. destruct (window_write_law off sz s d Ho Hs H) as (k & s' & ? & ? & ? & ? & ?). exists k, s'. auto.
Qed.

(* DSi mode over a plain file *)
Theorem C12_twl_write_plain : forall io d, pf_ok (cu io) ->
  exists k io', twl_write E pyfile_ops key counter io d = Ok (k, io') /\ pf_ok (cu io') /\
    k = len d /\ fpos (cu io') = fpos (cu io) + k /\
    (exists ct, len ct = len d /\ fdata (cu io') = overlay 0 (fdata (cu io)) (fpos (cu io)) (take ct k)) /\
    (fpos (cu io) <= len (fdata (cu io)) ->
       stream_dec E true key counter (fdata (cu io')) =
       overlay 0 (stream_dec E true key counter (fdata (cu io))) (fpos (cu io)) (take d k)).
Proof.
  intros io d. apply (twl_write_ok E pyfile_ops pf_ok fdata fpos pyfile_lawful key counter true).
  intros s d0 H. destruct (pyfile_write_law s d0 H) as (k & s' & ? & ? & ? & ? & ?). exists k, s'. auto.
Qed.

End C12.

(* the full statement also covers writes that begin beyond the end of the file; there the zero gap that the
   underlying file inserts is ciphertext, not encrypted zeros (the TODO in CTRFileIO.seek): refuted on the model *)
Definition toyE (k b : list Z) : list Z := map (fun x => Z.lxor (x + 7) (hd 0 k) mod 256) (rev b).
Theorem C12_gap_extension_refuted :
  exists io ops,
    let '(_, io') := ctr_run toyE pyfile_ops [3] 5 false io ops in
    stream_dec toyE false [3] 5 (fdata (cu io')) <> [0; 0; 0; 0; 9].
Proof.
  exists (mkCtrIO (mkFile [] 0) None false), [CSeek 4 0; CWrite [9]].
  vm_compute. congruence.
Qed.

Print Assumptions C12_write_plain.
Print Assumptions C12_write_window.
Print Assumptions C12_history_plain.
Print Assumptions C12_history_window.
Print Assumptions C12_twl_write_plain.
Print Assumptions C12_gap_extension_refuted.
