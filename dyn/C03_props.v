(* C03 -- every NCCH section view yields the section plaintext under every crypto scheme. *)
From Pyctr Require Import Base.Prelude Base.ListExt Base.PyInt Base.PySlice Base.Sweep Spec.Scrambler Spec.StreamCipher
  Model.Ncch Proofs.NcchProofs.
From Dyn Require Import Gen_ncch.

(* the flag bits the reader bases its crypto decisions on (regenerated from NCCHFlags.from_bytes) *)
Theorem C03_flags : forall b0 b1 b2 b3 b4 b5 b6 b7,
  ncchflags_from_bytes [b0; b1; b2; b3; b4; b5; b6; b7] =
  (b3, Z.testbit b5 1, Z.testbit b7 0, Z.testbit b7 1, Z.testbit b7 2, Z.testbit b7 5).
Proof.
  intros. unfold ncchflags_from_bytes. cbn [pyidx Z.ltb Z.compare zth Z.to_nat Pos.to_nat Pos.iter_op Nat.add nth_error].
  repeat match goal with
  | |- context [negb (Z.land ?w ?k =? 0)] =>
      let i := eval vm_compute in (Z.log2 k) in
      replace (negb (Z.land w k =? 0)) with (Z.testbit w i)
        by (symmetry; change k with (2 ^ i); apply land_pow2_testbit; lia)
  end.
  reflexivity.
Qed.

(* the counter of a section: partition id in the high half, section number in the top byte of the low half *)
Theorem C03_counter : forall pid sec, 0 <= pid -> 0 <= sec < 256 -> region_iv pid sec = pid * 2 ^ 64 + sec * 2 ^ 56.
Proof.
  intros pid sec Hp Hs. unfold region_iv. rewrite !Z.shiftl_mul_pow2 by lia.
  apply lor_disjoint_add with (k := 64); [lia|lia|apply Z.mod_mul; lia|lia].
Qed.

Theorem C03_media_units : forall u, region_offset u = 0x200 * u /\ region_size u = 0x200 * u.
Proof. intros. unfold region_offset, region_size. lia. Qed.

(* ExeFS ranges: whatever the entry table, they tile the region; for a sorted disjoint table every byte is labelled
   "extra key" exactly when it lies inside a file that is not icon/banner *)
Theorem C03_exefs_ranges_tile : forall extra size, 0 <= size -> chained (exefs_ranges extra size) 0 size.
Proof. intros. apply ranges_tile. lia. Qed.

Theorem C03_exefs_ranges_label : forall extra size o,
  sorted_disjoint extra 0 size -> 0 <= o < size -> label (exefs_ranges extra size) o = Some (in_extra extra o).
Proof. intros. apply ranges_label; auto; lia. Qed.

(* the merged ExeFS view: per range, a window onto the whole-region CTR stream of the range's key (C01 gives that each
   such window reads the slice of the whole-stream decryption); concatenated over a tiling, correctly labelled range list
   this is the region's plaintext -- one counter running continuously over the region, two keys *)
Theorem C03_merged_view : forall (E : list Z -> list Z -> list Z) kp ks c0 mask P rs,
  chained rs 0 (len P) ->
  (forall a b l o, In (a, b, l) rs -> a <= o < b -> mask o = l) ->
  concat (map (view_of E kp ks c0 (enc_mixed E kp ks c0 mask 0 P)) rs) = P.
Proof. intros. rewrite (merged_view_plain E kp ks c0 mask P rs 0) by (auto; lia). apply drop_0. Qed.

Print Assumptions C03_flags.
Print Assumptions C03_counter.
Print Assumptions C03_exefs_ranges_tile.
Print Assumptions C03_exefs_ranges_label.
Print Assumptions C03_merged_view.
