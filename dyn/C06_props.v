(* C06 -- RomFS: bounded walk of the metadata tables, lookup rules, IVFC offset. *)
From Pyctr Require Import Base.Prelude Base.ListExt Base.PyInt Base.PySlice Model.Romfs Model.RomfsPath Proofs.RomfsProofs Proofs.RomfsRepProofs Proofs.RomfsPathProofs.
From Dyn Require Import Gen_util Gen_romfs.

(* the level-3 offset inside an IVFC-wrapped RomFS, for every block-size exponent *)
Theorem C06_ivfc_offset : forall mhs bs, 0 <= mhs -> 0 <= bs ->
  let o := ivfc_lv3_offset 0 mhs (ivfc_block_size bs) in
  o mod 2 ^ bs = 0 /\ 0x60 + mhs <= o < 0x60 + mhs + 2 ^ bs.
Proof.
  intros mhs bs Hm Hb o. subst o. unfold ivfc_lv3_offset, ivfc_block_size, roundup.
  rewrite Z.shiftl_mul_pow2, Z.mul_1_l by lia.
  assert (Hp : 0 < 2 ^ bs) by (apply Z.pow_pos_nonneg; lia).
  pose proof (Z.div_mod (- (96 + mhs)) (2 ^ bs) ltac:(lia)) as E.
  pose proof (Z.mod_pos_bound (- (96 + mhs)) (2 ^ bs) Hp) as B.
  set (q := - (96 + mhs) / 2 ^ bs) in *. set (r := (- (96 + mhs)) mod 2 ^ bs) in *. set (p := 2 ^ bs) in *.
  rewrite Z.add_0_l. split; [apply Z.mod_mul; lia|nia].
Qed.

(* for EVERY pair of metadata tables the walk ends within fuel computed from the table sizes alone: it returns a tree
   or raises (entry error on cyclic / repeated / out-of-table links, decode error on bad names), never runs on *)
Theorem C06_walk_bounded : forall dirmeta filemeta, bytes_ok dirmeta -> bytes_ok filemeta ->
  walk_bounded dirmeta filemeta <> Err OutOfFuel.
Proof. exact walk_bounded_total. Qed.

Section Lookup.
Variable lower : list Z -> list Z.     (* str.lower: uninterpreted *)

Theorem C06_lookup_ci : forall parts parts' root,
  map lower parts' = map lower parts -> lookup lower true parts' root = lookup lower true parts root.
Proof. exact (lookup_ci lower). Qed.

Theorem C06_lookup_cs : forall parts last root n,
  lookup lower false (parts ++ [last]) root = Ok n -> node_name n = last.
Proof. exact (lookup_cs lower). Qed.

Theorem C06_missing : forall ci p r nm ch,
  find_last lower ci (key_of lower ci p) ch = None -> lookup lower ci (p :: r) (NDir nm ch) = Err (Pyctr 40).
Proof. exact (lookup_missing lower). Qed.
End Lookup.

(* The walk returns the tree the tables represent.  [rep_root dm fm tree doffs foffs] reads the format declaratively: the root
   entry's first-child chain lists the sub-directories (each entry: name, its own sub-directories, its files, next sibling), its
   first-file chain the files (name, data offset, size); doffs / foffs are the directory / file entries used.  For EVERY pair of
   tables and EVERY tree they represent without using an entry twice, the reader's walk -- with the fuel it computes from the
   table sizes -- returns exactly that tree: every name, the nesting, the order, every file's offset and size. *)
Theorem C06_walk_returns_tree : forall dm fm tree doffs foffs,
  rep_root dm fm tree doffs foffs -> NoDup (0 :: doffs) -> NoDup foffs ->
  (forall o, In o doffs -> 0 <= o) -> (forall o, In o foffs -> 0 <= o) ->
  walk_bounded dm fm = Ok tree.
Proof. exact walk_bounded_rep. Qed.

(* Paths as they are written: a path is a string of code units; _get_raw_info drops ONE leading "./" or "/", cuts at every "/" and skips
   empty components.  [spell cs] writes the components cs out, each followed by a run of separators; [slashes pre] is a run in front.
   Whatever the runs (at least one separator between two components, any number in front and behind), the path names what the
   components name: getinfo / openbin / listdir give the same entry for every such spelling, the root for the empty path, for "." and
   for separators only, and not-found when a component names nothing (case-sensitive mode; in case-insensitive mode the path is
   lower-cased as a whole first and then treated the same way). *)
Theorem C06_path_spelling : forall pre pre' cs cs' root,
  Forall (fun ck => word (fst ck)) cs -> seps_ok cs -> not_dot_first cs ->
  Forall (fun ck => word (fst ck)) cs' -> seps_ok cs' -> not_dot_first cs' ->
  map fst cs' = map fst cs ->
  lookup_path (slashes pre' ++ spell cs') root = lookup_path (slashes pre ++ spell cs) root.
Proof. exact lookup_path_spelling. Qed.

Theorem C06_path_components : forall pre cs,
  Forall (fun ck => word (fst ck)) cs -> seps_ok cs -> not_dot_first cs ->
  path_parts (slashes pre ++ spell cs) = map bytes_of_units (map fst cs).
Proof. exact path_parts_spell. Qed.

Theorem C06_path_root : forall k root, lookup_path (slashes k) root = Ok root /\ lookup_path [46] root = Ok root.
Proof. exact lookup_path_root. Qed.

Theorem C06_path_missing : forall pre c k nm ch,
  word c -> c <> [46] -> find_last (fun x => x) false (bytes_of_units c) ch = None ->
  lookup_path (slashes pre ++ spell [(c, k)]) (NDir nm ch) = Err (Pyctr 40).
Proof. exact lookup_path_missing. Qed.

Example C06_path_nonvacuous :
  let root := NDir [] [NDir [65; 0] [NFile [98; 0] 5 7]] in
  lookup_path [47; 47; 65; 47; 47; 98; 47] root = Ok (NFile [98; 0] 5 7)
  /\ lookup_path [65; 47; 98] root = Ok (NFile [98; 0] 5 7)
  /\ lookup_path [47; 65; 47; 47; 120] root = Err (Pyctr 40)
  /\ lookup_path [] root = Ok root.
Proof. exact spelling_nonvacuous. Qed.

Print Assumptions C06_path_spelling.
Print Assumptions C06_path_components.
Print Assumptions C06_path_root.
Print Assumptions C06_path_missing.
Print Assumptions C06_ivfc_offset.
Print Assumptions C06_walk_returns_tree.
Print Assumptions C06_walk_bounded.
Print Assumptions C06_lookup_ci.
Print Assumptions C06_lookup_cs.
Print Assumptions C06_missing.

(* a sibling link pointing back is reported, not followed: root -> dir at 0x18 whose next-sibling is itself *)
Example C06_cycle_detected :
  let le4 v := le_encode 4 v in
  let root := le4 0 ++ le4 NONE ++ le4 0x18 ++ le4 NONE ++ le4 NONE ++ le4 0 in
  let d := le4 0 ++ le4 0x18 ++ le4 NONE ++ le4 NONE ++ le4 NONE ++ le4 2 ++ [97; 0; 0; 0] in
  walk_bounded (root ++ d) [] = Err (Pyctr 42).
Proof. vm_compute. reflexivity. Qed.

(* tables for /a/f and /g: they represent the tree, and the walk returns it *)
Example C06_walk_nonvacuous :
  rep_root ex_dm ex_fm ex_tree [0x18] [0x24; 0] /\ walk_bounded ex_dm ex_fm = Ok ex_tree.
Proof. exact rep_nonvacuous. Qed.
