(* C07 -- ExeFS entries and documented name aliases. *)
From Pyctr Require Import Base.Prelude Base.ListExt Base.PyInt Base.PySlice Base.PyStr Model.Exefs Proofs.ExefsProofs Proofs.ExefsHeaderProofs.
From Dyn Require Import Gen_exefs.

Definition slash : list Z := [47].
Definition dotbin : list Z := [46; 98; 105; 110].

Section Alias.
(* str.lower is Python's Unicode lower-casing: uninterpreted.  The only fact used: lower-casing a string that
   ends in ".bin" gives a string that ends in ".bin" (true of str.lower, which maps ASCII letters and '.' to themselves
   position by position) *)
Variable lower : list Z -> list Z.
Hypothesis lower_keeps_dotbin : forall a, ends_with (lower (a ++ dotbin)) dotbin = true.

Lemma starts_slash_app n s : starts_with n slash = false -> n <> [] -> starts_with (n ++ s) slash = false.
Proof.
  intros H Hn. destruct n as [|x n]; [congruence|]. unfold starts_with in *; rewrite ?take_raw in *; unfold take0 in *. exact H.
Qed.

Lemma strip_suffix n : pyslice (n ++ dotbin) None (Some (-4)) = n.
Proof.
  unfold pyslice, clampidx. rewrite len_app. change (len dotbin) with 4.
  pose proof (len_nonneg n). cbn [Z.ltb]. replace (-4 <? 0) with true by reflexivity.
  replace (Z.max 0 (len n + 4 + -4)) with (len n) by lia. rewrite Z.sub_0_r.
  rewrite ?slice_raw; unfold slice0. simpl skipn. unfold len. rewrite Nat2Z.id.
  rewrite firstn_app, Nat.sub_diag, firstn_all. simpl. apply app_nil_r.
Qed.

Lemma strip_slash n : pyslice (slash ++ n) (Some 1) None = n.
Proof. rewrite pyslice_from by lia. rewrite drop_raw. reflexivity. Qed.

(* every stored name N that does not start with '/' and does not (case-insensitively) end in ".bin" is reached by
   all four documented spellings: N, /N, N.bin, /N.bin *)
Theorem C07_alias : forall n,
  n <> [] -> starts_with n slash = false -> ends_with (lower n) dotbin = false ->
  normalize_path lower n = n /\
  normalize_path lower (slash ++ n) = n /\
  normalize_path lower (n ++ dotbin) = n /\
  normalize_path lower (slash ++ n ++ dotbin) = n.
Proof.
  intros n Hne Hs He. unfold normalize_path. fold slash. fold dotbin. repeat split.
  - rewrite Hs, He. reflexivity.
  - rewrite starts_with_app. rewrite strip_slash, He. reflexivity.
  - rewrite starts_slash_app by assumption. rewrite lower_keeps_dotbin. apply strip_suffix.
  - rewrite starts_with_app. rewrite strip_slash, lower_keeps_dotbin. apply strip_suffix.
Qed.

End Alias.

(* the 16-byte slot codec: what was packed is what is reported (name, offset, size; the hash is the 32 bytes at
   0x1E0 - 0x20*slot), empty slots are skipped, bad offsets and non-ASCII names are rejected with the ExeFS errors *)
Theorem C07_slot_roundtrip : forall e h,
  wf_entry e -> decode_slot (encode_slot e) h = Ok (Some (mkEntry (en_name e) (en_offset e) (en_size e) h)).
Proof. exact slot_roundtrip. Qed.

Theorem C07_reject_offset : forall raw h,
  all_zero raw = false -> is_ascii (rstrip0 (slice raw 0 8)) = true ->
  le_decode (slice raw 8 4) mod 512 <> 0 -> decode_slot raw h = Err (Pyctr 11).
Proof. exact slot_bad_offset. Qed.

Theorem C07_reject_name : forall raw h,
  all_zero raw = false -> is_ascii (rstrip0 (slice raw 0 8)) = false -> decode_slot raw h = Err (Pyctr 12).
Proof. exact slot_bad_name. Qed.

(* the whole header: ten slots, used or empty in any positions, any 32 reserved bytes, any bytes in the hash fields of empty
   slots: the reader lists exactly the used entries, in slot order, each with the hash stored for ITS slot (the hash table runs
   backwards from the end of the header) *)
Theorem C07_header_roundtrip : forall reserved fill slots,
  len reserved = 32 -> len fill = 32 -> length slots = 10%nat -> Forall wf_slot slots ->
  exefs_parse (encode_header reserved fill slots) = Ok (used slots).
Proof. exact header_roundtrip. Qed.

Print Assumptions C07_alias.
Print Assumptions C07_header_roundtrip.
Print Assumptions C07_slot_roundtrip.
Print Assumptions C07_reject_offset.
Print Assumptions C07_reject_name.

(* non-vacuity: ASCII lower-casing satisfies the hypothesis on concrete names, and "banner" resolves *)
Definition ascii_lower (s : list Z) : list Z := map (fun c => if (65 <=? c) && (c <=? 90) then c + 32 else c) s.
Example C07_alias_banner :
  let banner := [98; 97; 110; 110; 101; 114] in
  normalize_path ascii_lower (slash ++ banner ++ [46; 66; 73; 78]) = banner /\
  normalize_path ascii_lower (banner ++ dotbin) = banner.
Proof. vm_compute. auto. Qed.

Example C07_header_nonvacuous :
  let e k nm off sz := mkEntry nm off sz (k :: repeat 0 31) in
  let slots := [None; Some (e 1 [105; 99; 111; 110] 0 0x36C0); None; None; Some (e 2 [46; 99; 111; 100; 101] 0x3800 5); None; None; None; None;
                Some (e 3 [98] 0x3A00 0)] in
  Forall wf_slot slots /\
  exefs_parse (encode_header (repeat 7 32) (repeat 9 32) slots) = Ok (used slots) /\ length (used slots) = 3%nat.
Proof. exact header_roundtrip_nonvacuous. Qed.
