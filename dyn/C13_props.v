(* C13 -- NAND: each partition is decrypted with the keyslot and counter its type dictates. *)
From Pyctr Require Import Base.Prelude Base.ListExt Base.PyInt Base.PySlice Env.PyFile Env.FileIface Spec.StreamCipher Model.CtrIO Model.Nand
  Model.NandWrite Proofs.CtrProofs Proofs.NandProofs Proofs.NandWriteProofs.

(* which base file, keyslot and mode a (fs type, crypt type) pair selects *)
Theorem C13_typing :
  base_of 1 1 = 1 /\ base_of 1 2 = 2 /\ base_of 1 3 = 3 /\ (forall c, base_of 3 c = 4) /\ (forall c, base_of 4 c = 5) /\
  (forall fs c, fs <> 1 -> fs <> 3 -> fs <> 4 -> base_of fs c = 0) /\
  (forall c, c <> 1 -> c <> 2 -> c <> 3 -> base_of 1 c = 0) /\
  slot_of 1 = Some (0x03, true) /\ slot_of 2 = Some (0x04, false) /\ slot_of 3 = Some (0x05, false) /\
  slot_of 4 = Some (0x06, false) /\ slot_of 5 = Some (0x07, false).
Proof. exact typing_table. Qed.
Print Assumptions C13_typing.

(* every partition / sub-partition view (a window on the wrapper of its key type over the whole image) returns, at every offset and
   for every size, the slice of the partition's plaintext = whole-image decryption in the mode of its type, at absolute offsets *)
Theorem C13_partition_views_3ds : forall E S (U : fileops S) (inv : S -> Prop) (content : S -> list Z) (pos : S -> Z), lawful U inv content pos ->
  (forall s o, inv s -> 0 <= o -> exists s', f_seek U s o 0 = Ok (o, s')) ->
  forall extends : bool, (forall s d, inv s -> exists k s', f_write U s d = Ok (k, s') /\ inv s' /\
      k = (if extends then len d else Z.min (len d) (Z.max 0 (len (content s) - pos s))) /\
      content s' = overlay 0 (content s) (pos s) (take d k) /\ pos s' = pos s + k) ->
  forall key counter off size sk io n,
  io_inv inv content pos extends key counter io -> 0 <= off -> 0 <= size -> 0 <= sk -> off + size <= len (content (cu io)) ->
  exists r io', sub_read (ctr_ops E U key counter) off size sk io n = Ok (r, io') /\
    content (cu io') = content (cu io) /\
    r = slice (slice (stream_dec E false key counter (content (cu io))) off size) sk (len r) /\
    len r = read_count size sk n.
Proof. intros. eapply ctr_partition_read; eauto. Qed.
Print Assumptions C13_partition_views_3ds.

Theorem C13_partition_views_twl : forall E S (U : fileops S) (inv : S -> Prop) (content : S -> list Z) (pos : S -> Z), lawful U inv content pos ->
  (forall s o, inv s -> 0 <= o -> exists s', f_seek U s o 0 = Ok (o, s')) ->
  forall key counter off size sk io n,
  inv (cu io) -> 0 <= off -> 0 <= size -> 0 <= sk -> off + size <= len (content (cu io)) ->
  exists r io', sub_read (twl_ops E U key counter) off size sk io n = Ok (r, io') /\
    r = slice (slice (stream_dec E true key counter (content (cu io))) off size) sk (len r) /\
    len r = read_count size sk n.
Proof. intros. eapply twl_partition_read; eauto. Qed.
Print Assumptions C13_partition_views_twl.

(* data written through a view is re-encrypted in place: the view stores min(len d, size - pos) bytes, the decrypted image changes
   exactly there (inside the partition), the raw image changes nowhere else, and the partition reads back as old content with
   the data laid over it -- for any lawful underlying file, so also after re-opening (the file is all the state there is) *)
Theorem C13_write_back_3ds : forall E S (U : fileops S) (inv : S -> Prop) (content : S -> list Z) (pos : S -> Z), lawful U inv content pos ->
  (forall s o, inv s -> 0 <= o -> exists s', f_seek U s o 0 = Ok (o, s')) ->
  forall extends : bool, (forall s d, inv s -> exists k s', f_write U s d = Ok (k, s') /\ inv s' /\
      k = (if extends then len d else Z.min (len d) (Z.max 0 (len (content s) - pos s))) /\
      content s' = overlay 0 (content s) (pos s) (take d k) /\ pos s' = pos s + k) ->
  forall key counter off size sk io d,
  io_inv inv content pos extends key counter io -> 0 <= off -> 0 <= sk <= size -> off + size <= len (content (cu io)) ->
  exists k io', sub_write (ctr_ops E U key counter) off size sk io d = Ok (k, io') /\
    io_inv inv content pos extends key counter io' /\
    k = Z.min (len d) (size - sk) /\
    stream_dec E false key counter (content (cu io')) = overlay 0 (stream_dec E false key counter (content (cu io))) (off + sk) (take d k) /\
    (exists ct, len ct = k /\ content (cu io') = overlay 0 (content (cu io)) (off + sk) ct).
Proof. intros. eapply ctr_partition_write; eauto. Qed.
Print Assumptions C13_write_back_3ds.

Theorem C13_write_back_twl : forall E S (U : fileops S) (inv : S -> Prop) (content : S -> list Z) (pos : S -> Z), lawful U inv content pos ->
  (forall s o, inv s -> 0 <= o -> exists s', f_seek U s o 0 = Ok (o, s')) ->
  forall extends : bool, (forall s d, inv s -> exists k s', f_write U s d = Ok (k, s') /\ inv s' /\
      k = (if extends then len d else Z.min (len d) (Z.max 0 (len (content s) - pos s))) /\
      content s' = overlay 0 (content s) (pos s) (take d k) /\ pos s' = pos s + k) ->
  forall key counter off size sk io d,
  inv (cu io) -> 0 <= off -> 0 <= sk <= size -> off + size <= len (content (cu io)) ->
  exists k io', sub_write (twl_ops E U key counter) off size sk io d = Ok (k, io') /\
    inv (cu io') /\
    k = Z.min (len d) (size - sk) /\
    stream_dec E true key counter (content (cu io')) = overlay 0 (stream_dec E true key counter (content (cu io))) (off + sk) (take d k) /\
    (exists ct, len ct = k /\ content (cu io') = overlay 0 (content (cu io)) (off + sk) ct).
Proof. intros. eapply twl_partition_write; eauto. Qed.
Print Assumptions C13_write_back_twl.

Theorem C13_read_back : forall E S (U : fileops S) (inv : S -> Prop) (content : S -> list Z) (pos : S -> Z), lawful U inv content pos ->
  (forall s o, inv s -> 0 <= o -> exists s', f_seek U s o 0 = Ok (o, s')) ->
  forall extends : bool, (forall s d, inv s -> exists k s', f_write U s d = Ok (k, s') /\ inv s' /\
      k = (if extends then len d else Z.min (len d) (Z.max 0 (len (content s) - pos s))) /\
      content s' = overlay 0 (content s) (pos s) (take d k) /\ pos s' = pos s + k) ->
  forall key counter off size sk io d,
  io_inv inv content pos extends key counter io -> 0 <= off -> 0 <= sk <= size -> off + size <= len (content (cu io)) ->
  exists k io', sub_write (ctr_ops E U key counter) off size sk io d = Ok (k, io') /\
    slice (stream_dec E false key counter (content (cu io'))) off size
    = overlay 0 (slice (stream_dec E false key counter (content (cu io))) off size) sk (take d k).
Proof. intros. eapply ctr_partition_readback; eauto. Qed.
Print Assumptions C13_read_back.

(* counter inference: with D the inverse of E, the standard MBR blocks give back exactly the counter the image was encrypted with *)
Theorem C13_infer_ctr : forall E D, (forall k b, D k (E k b) = b) -> (forall k b, length (E k b) = 16%nat) ->
  forall key c boff, 0 <= c + boff -> c + boff + 1 < 2 ^ 128 ->
  infer_ctr E D key (E key (be_encode 16 (c + boff))) (E key (be_encode 16 (c + boff + 1))) boff = Some c.
Proof. exact infer_ctr_ok. Qed.
Print Assumptions C13_infer_ctr.

Theorem C13_infer_twl : forall E D, (forall k b, D k (E k b) = b) -> (forall k b, length (E k b) = 16%nat) -> (forall k b, bytes_ok (E k b)) ->
  forall key c boff blk0, 0 <= c + boff -> c + boff + 1 < 2 ^ 128 ->
  be_decode blk0 = Z.lxor (be_decode twl_known0) (be_decode (rev (E key (be_encode 16 (c + boff))))) ->
  infer_twl E D key blk0 (xor_bytes twl_known1 (rev (E key (be_encode 16 (c + boff + 1))))) boff = Some c.
Proof. intros. apply infer_twl_ok; auto. Qed.
Print Assumptions C13_infer_twl.

(* header codec: a header with all-zero unused slots parses, and serialises back to the same 512 bytes *)
Theorem C13_header_roundtrip : forall sig mu tbl unk mbr h,
  len sig = 0x100 -> len unk = 94 -> len mbr = 66 -> length tbl = 8%nat -> 0 <= mu < 2 ^ 32 -> Forall tuple_ok tbl ->
  nand_parse (mk_header sig mu tbl unk mbr) = Ok h ->
  nand_bytes h = mk_header sig mu tbl unk mbr /\ h_slots h = map slot_of_tuple tbl /\ h_image_size h = mu * 0x200.
Proof. exact nand_header_roundtrip. Qed.
Print Assumptions C13_header_roundtrip.

(* premises are satisfiable: the retail Old-3DS table parses, with the five partitions typed twl / agb / firm / firm / ctr_old *)
Example C13_example :
  let tbl := [(1, 1, 0, 0x58800); (4, 2, 0x58800, 0x180); (3, 2, 0x58980, 0x2000); (3, 2, 0x5A980, 0x2000); (1, 2, 0x5C980, 0x17AE80);
              (0, 0, 0, 0); (0, 0, 0, 0); (0, 0, 0, 0)] in
  match nand_parse (mk_header (repeat 7 256) 0x200000 tbl (repeat 1 94) (repeat 2 66)) with
  | Ok h => map (fun s => match s with Some e => e_base e | None => 0 end) (h_slots h) = [1; 5; 4; 4; 2; 0; 0; 0]
            /\ h_alias h = [(-11, 0); (-12, 1); (-13, 2); (-14, 3); (-15, 4)]
  | Err _ => False
  end.
Proof. vm_compute. split; reflexivity. Qed.
