(* C05 -- CIA archives: section geometry, title key, content selection. *)
From Pyctr Require Import Base.Prelude Base.ListExt Base.PyInt Base.PySlice Base.PyStr Spec.StreamCipher Model.Cia Proofs.CiaProofs.
From Dyn Require Import Gen_util Gen_cia.

(* the regenerated roundup is the least multiple of the alignment that is >= the argument, for EVERY integer *)
Theorem C05_align : forall x a, 0 < a -> roundup x a mod a = 0 /\ x <= roundup x a < x + a.
Proof.
  intros x a Ha. unfold roundup.
  pose proof (Z.div_mod (- x) a ltac:(lia)) as E. pose proof (Z.mod_pos_bound (- x) a Ha) as B.
  set (q := - x / a) in *. set (r := (- x) mod a) in *. split.
  - apply Z.mod_mul. lia.
  - nia.
Qed.

(* section offsets (regenerated expressions): each section starts at the 64-byte boundary that follows the previous one *)
Theorem C05_geometry : forall hdr cert tik tmd content,
  0 <= hdr -> 0 <= cert -> 0 <= tik -> 0 <= tmd -> 0 <= content ->
  let co := cia_cert_chain_offset hdr in
  let to := cia_ticket_offset co cert in
  let mo := cia_tmd_offset to tik in
  let no := cia_content_offset mo tmd in
  let eo := cia_meta_offset no content in
  co mod 64 = 0 /\ to mod 64 = 0 /\ mo mod 64 = 0 /\ no mod 64 = 0 /\ eo mod 64 = 0 /\
  hdr <= co < hdr + 64 /\ co + cert <= to < co + cert + 64 /\ to + tik <= mo < to + tik + 64 /\
  mo + tmd <= no < mo + tmd + 64 /\ no + content <= eo < no + content + 64.
Proof.
  intros. unfold cia_cert_chain_offset, cia_ticket_offset, cia_tmd_offset, cia_content_offset, cia_meta_offset in *.
  pose proof (C05_align hdr 64 ltac:(lia)). pose proof (C05_align cert 64 ltac:(lia)). pose proof (C05_align tik 64 ltac:(lia)).
  pose proof (C05_align tmd 64 ltac:(lia)). pose proof (C05_align content 64 ltac:(lia)).
  subst co to mo no eo.
  set (r1 := roundup hdr 64) in *. set (r2 := roundup cert 64) in *. set (r3 := roundup tik 64) in *.
  set (r4 := roundup tmd 64) in *. set (r5 := roundup content 64) in *. lia.
Qed.

(* IV of an encrypted content: its index, big-endian, then fourteen zero bytes *)
Theorem C05_content_iv : forall i, cia_content_iv i = be_encode 2 i ++ repeat 0 14.
Proof. intros. unfold cia_content_iv. now rewrite seq_mul_single. Qed.

(* content index: content i is listed exactly when bit (7 - i mod 8) of byte i / 8 is set *)
Theorem C05_index_codec : forall bytes i, bytes_ok bytes -> (In i (index_decode bytes) <-> index_bit bytes i = true).
Proof. exact index_decode_spec. Qed.

(* active contents: exactly the TMD records whose index is marked present, in TMD order; an index without a record is refused *)
Theorem C05_active_exact : forall active tmd chosen, select_contents active tmd = Ok chosen ->
  chosen = filter (fun c => mem c active) tmd /\ (forall a, In a active -> In a tmd) /\
  (forall c, In c chosen <-> In c tmd /\ In c active).
Proof. exact select_ok. Qed.

Theorem C05_reject_missing : forall active tmd, (exists a, In a active /\ ~ In a tmd) -> select_contents active tmd = Err (Pyctr 20).
Proof. exact select_reject. Qed.

(* the title key comes back out of the ticket whenever AES decryption inverts encryption (the only fact used about AES) *)
Theorem C05_titlekey : forall (E D : list Z -> list Z -> list Z) common iv tk,
  (forall k b, D k (E k b) = b) -> length tk = length iv ->
  titlekey_decrypt D common iv (titlekey_encrypt E common iv tk) = tk.
Proof. exact titlekey_roundtrip. Qed.

Theorem C05_content_regions : forall cur sizes i, (i < length sizes)%nat ->
  nth i (content_offsets cur sizes) 0 = cur + fold_left Z.add (firstn i sizes) 0.
Proof. exact content_offsets_spec. Qed.

Print Assumptions C05_align.
Print Assumptions C05_geometry.
Print Assumptions C05_content_iv.
Print Assumptions C05_index_codec.
Print Assumptions C05_active_exact.
Print Assumptions C05_reject_missing.
Print Assumptions C05_titlekey.
Print Assumptions C05_content_regions.

Example C05_index_example : index_decode [0xA0; 0x01] = [2; 0; 15] /\ select_contents [0; 2; 15] [0; 1; 2; 15; 16] = Ok [0; 2; 15]
  /\ select_contents [0; 3] [0; 1; 2] = Err (Pyctr 20).
Proof. vm_compute. auto. Qed.
