(* C19 -- no input makes a reader hang: the parts a theorem can carry.  Termination of a Gallina function is trivial; what is
   proved is that the FUEL each link- or stream-driven loop is given -- a function of the input length alone -- is never exhausted,
   for every byte string, so the modelled loops stop after at most that many iterations whatever the links / stream say. *)
From Pyctr Require Import Base.Prelude Base.ListExt Base.PyInt Base.PySlice Model.Romfs Model.Lzss Model.IvfcBound Proofs.RomfsProofs Proofs.LzssProofs Proofs.IvfcBoundProofs Model.NcchFull Proofs.NcchAvailProofs.

(* RomFS: the first-child / next-sibling walk over the two metadata tables, with fuel len(dirmeta)+1 / len(filemeta)+1 *)
Theorem C19_romfs_walk_bounded : forall dirmeta filemeta, bytes_ok dirmeta -> bytes_ok filemeta ->
  walk_bounded dirmeta filemeta <> Err OutOfFuel.
Proof. intros. apply walk_bounded_total; assumption. Qed.
Print Assumptions C19_romfs_walk_bounded.

(* LZSS: at most len(code) + add_size + 1 control bytes are consumed, and len(code) + add_size <= CODE_MAX_SIZE (35 MiB) or the
   input is rejected before any work: the bound is (input length) + a constant *)
Theorem C19_lzss_bounded : forall code, bytes_ok code -> decompress code <> Err OutOfFuel.
Proof. exact decompress_total. Qed.
Print Assumptions C19_lzss_bounded.

Theorem C19_lzss_size_cap : forall code, len code + le_decode (pyslice code (Some (-4)) None) > CODE_MAX -> exists e, decompress code = Err e.
Proof. exact decompress_size_cap. Qed.
Print Assumptions C19_lzss_size_cap.

(* Save partitions: the block loop of the verified level-4 read (as repaired: it stops at the first block the file does not hold).
   Whatever size the descriptor CLAIMS for level 4 -- a 64-bit field -- and whatever position and size are asked for, one read ends within
   a fuel computed from the LENGTH of the level file alone, and fetches at most (length / block size) + 2 blocks. *)
Theorem C19_lv4_read_bounded : forall data bs claimed pos n, 0 < bs -> 0 <= pos ->
  read_blocks data bs claimed pos n <> Err OutOfFuel.
Proof. intros. now apply read_blocks_total. Qed.
Print Assumptions C19_lv4_read_bounded.

Theorem C19_lv4_read_output_bounded : forall data bs claimed pos n r, 0 < bs -> 0 <= pos ->
  read_blocks data bs claimed pos n = Ok r -> Z.of_nat (length r) <= len data / bs + 2.
Proof. intros. eapply read_blocks_bounded; eassumption. Qed.
Print Assumptions C19_lv4_read_output_bounded.

Example C19_lv4_nonvacuous :
  read_blocks [1; 2; 3; 4; 5; 6; 7; 8; 9; 10] 4 (2 ^ 63) 0 (-1) = Ok [[1; 2; 3; 4]; [5; 6; 7; 8]; [9; 10]].
Proof. exact bound_nonvacuous. Qed.

(* NCCH: the fully-decrypted view is assembled one 0x200-byte media unit at a time.  Whatever size the header DECLARES (a 32-bit count
   of media units) and whatever is asked for, one read walks over at most (length of the file) / 0x200 + 2 units. *)
Theorem C19_fulldec_units_bounded : forall content avail off size, 0 <= off -> 0 <= avail ->
  fulldec_units content avail off size <= avail / 0x200 + 2.
Proof. exact fulldec_units_bounded. Qed.
Print Assumptions C19_fulldec_units_bounded.

Example C19_fulldec_nonvacuous : fulldec_units (0xFFFFFFFF * 0x200) 0x600 0 (0xFFFFFFFF * 0x200) = 3.
Proof. exact avail_nonvacuous. Qed.

(* a sibling link pointing back into the chain is an error, not a loop (smallest instance: one directory entry whose next-sibling
   link is its own offset) *)
Example C19_romfs_cycle_is_error :
  let root := le_encode 4 0 ++ le_encode 4 0xFFFFFFFF ++ le_encode 4 0x18 ++ le_encode 4 0xFFFFFFFF ++ le_encode 4 0xFFFFFFFF ++ le_encode 4 0 in
  let child := le_encode 4 0 ++ le_encode 4 0x18 ++ le_encode 4 0xFFFFFFFF ++ le_encode 4 0xFFFFFFFF ++ le_encode 4 0xFFFFFFFF ++ le_encode 4 2 ++ [97; 0] in
  walk_bounded (root ++ child) [] = Err (Pyctr 42).
Proof. vm_compute. reflexivity. Qed.

Example C19_lzss_nonvacuous : exists code, bytes_ok code /\ exists out, decompress code = Ok out /\ len out > len code.
Proof.
  exists [0; 192; 0; 240; 97; 98; 99; 24; 16; 0; 0; 8; 20; 0; 0; 0].      (* 'abc' x 12, compressed by the reference compressor *)
  split; [repeat constructor; unfold byte_ok; lia|]. eexists. split; [vm_compute; reflexivity|vm_compute; reflexivity].
Qed.
