(* C14 -- SD-card files: the path-derived counter (regenerated from CryptoEngine.sd_path_to_iv). *)
From Pyctr Require Import Base.Prelude Base.ListExt Base.PyInt Base.PySlice Base.PyStr Model.Sd Proofs.SdProofs.
From Dyn Require Import Gen_engine.

Section C14.
Variable lower : list Z -> list Z.         (* str.lower: uninterpreted *)
Variable sha256 : list Z -> list Z.        (* SHA-256: uninterpreted *)
Hypothesis lower_idem : forall s, lower (lower s) = lower s.
(* '\' and '/' are caseless and nothing lower-cases to them *)
Hypothesis lower_sep : forall s, lower (str_replace1 s 92 [47]) = str_replace1 (lower s) 92 [47].

Definition norm (p : list Z) : list Z := str_replace1 (lower p) 92 [47].

(* the counter is a function of the lower-cased, forward-slashed path only *)
Theorem C14_counter_normalised : forall p q, norm p = norm q -> sd_path_to_iv lower sha256 p = sd_path_to_iv lower sha256 q.
Proof. intros p q H. unfold sd_path_to_iv. fold (norm p). fold (norm q). now rewrite H. Qed.

(* what it is for a path outside /backup: SHA-256 of the normalised path as NUL-terminated UTF-16LE, halves xor-ed *)
Theorem C14_counter_spec : forall p,
  (starts_with (norm p) [47; 98; 97; 99; 107; 117; 112] && (len (norm p) >? 28)) = false ->
  sd_path_to_iv lower sha256 p =
  Z.lxor (be_decode (pyslice (sha256 (utf16le_encode (norm p) ++ [0; 0])) (Some 0) (Some 16)))
         (be_decode (pyslice (sha256 (utf16le_encode (norm p) ++ [0; 0])) (Some 16) (Some 32))).
Proof. intros p H. unfold sd_path_to_iv. fold (norm p). now rewrite H. Qed.

Theorem C14_case_insensitive : forall p, sd_path_to_iv lower sha256 (lower p) = sd_path_to_iv lower sha256 p.
Proof. intros p. apply C14_counter_normalised. unfold norm. now rewrite lower_idem. Qed.

Theorem C14_separator_insensitive : forall p,
  sd_path_to_iv lower sha256 (str_replace1 p 92 [47]) = sd_path_to_iv lower sha256 p.
Proof.
  intros p. apply C14_counter_normalised. unfold norm. rewrite lower_sep.
  apply str_replace1_idem. cbn. intros [H|[]]. discriminate.
Qed.

End C14.

(* different normalised paths are different hash inputs: UTF-16LE is injective on strings of scalar values *)
Theorem C14_utf16_injective : forall a b, Forall scalar a -> Forall scalar b -> utf16le_encode a = utf16le_encode b -> a = b.
Proof. exact utf16le_injective. Qed.

Print Assumptions C14_counter_normalised.
Print Assumptions C14_counter_spec.
Print Assumptions C14_case_insensitive.
Print Assumptions C14_separator_insensitive.
Print Assumptions C14_utf16_injective.

(* the hypotheses are satisfiable: ASCII lower-casing *)
Definition ascii_lower (s : list Z) : list Z := map (fun c => if (65 <=? c) && (c <=? 90) then c + 32 else c) s.
Example C14_example :
  let p := [47; 84; 105; 116; 108; 101; 92; 65] in       (* "/Title\A" *)
  str_replace1 (ascii_lower p) 92 [47] = [47; 116; 105; 116; 108; 101; 47; 97] /\ utf16le_encode [0x1F600] = [0x3D; 0xD8; 0x00; 0xDE].
Proof. vm_compute. auto. Qed.
