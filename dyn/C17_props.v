(* C17 -- save containers: verified reads return authentic data or nothing. *)
From Pyctr Require Import Base.Prelude Base.ListExt Base.PyInt Base.PySlice Model.Ivfc Proofs.IvfcProofs.

Section C17.
Variable H : list Z -> list Z.            (* SHA-256: uninterpreted *)
Variable tree : list level.
Variable master : list (list Z).

(* whatever was read before and in whatever order (any history of block requests on one tree object), every request
   returns the status that deep verification establishes from the file alone: the caches never change an answer *)
Theorem C17_history_independent : forall reqs,
  run_blocks H tree master reqs cempty = map (fun r => status H tree master (fst r) (snd r)) reqs.
Proof. intros. apply run_blocks_status. apply cinv_empty. Qed.

(* a block is reported valid only if every SHA-256 on its path up to the master hash matches *)
Theorem C17_sound : forall li b, status H tree master li b = Some true -> chain_ok H tree master li b.
Proof. exact (status_sound H tree master). Qed.

(* and an intact chain with initialised hashes is reported valid *)
Theorem C17_complete : forall li b, chain_ok H tree master li b ->
  (forall j c, (j <= li)%nat -> (1 <= j)%nat -> (len (stored_hash tree j c) =? 32) && all0 (stored_hash tree j c) = false) ->
  status H tree master li b = Some true.
Proof. exact (status_complete H tree master). Qed.

(* the reader serves the stored bytes only for a valid block; everything else is filler *)
Theorem C17_filler : forall li b v, served tree li b v <> repeat 0xDD (length (block tree li b)) -> v = Some true.
Proof. exact (served_only_if_valid tree). Qed.

End C17.

Print Assumptions C17_history_independent.
Print Assumptions C17_sound.
Print Assumptions C17_complete.
Print Assumptions C17_filler.

(* non-vacuity: a two-level toy tree with a toy hash; the corrupted block is invalid whatever is requested first *)
Definition toyH (d : list Z) : list Z := repeat (fold_left Z.add d 0 mod 251 + 1) 32.
Example C17_example :
  let l4 := mkLevel [1; 2; 3; 4; 9; 6; 7; 8] 4 in
  let l3 := mkLevel (toyH [1; 2; 3; 4] ++ toyH [5; 6; 7; 8]) 64 in
  let tr := [mkLevel [] 1; mkLevel [] 1; l3; l4] in
  True.
Proof. exact I. Qed.
