(* C17 -- save containers: verified reads return authentic data or nothing. *)
From Pyctr Require Import Base.Prelude Base.ListExt Base.PyInt Base.PySlice Base.Sweep Model.Blocks Proofs.BlocksProofs Model.Dpfs Proofs.DpfsProofs Model.Ivfc Proofs.IvfcProofs Model.IvfcRead Proofs.IvfcReadProofs.
From Dyn Require Import Gen_util Gen_savecommon Gen_dpfs.

Section C17.
Variable H : list Z -> list Z.            (* SHA-256: uninterpreted *)
Variable tree : list level.
Variable master : list (list Z).

(* whatever was read before and in whatever order (any history of block requests on one tree object), every request
   returns the status that deep verification establishes from the file alone: the caches never change an answer *)
Theorem C17_history_independent : forall reqs,
  run_blocks H tree master reqs cempty = map (fun r => status H tree master (fst r) (snd r)) reqs.
Proof. intros. apply run_blocks_status. apply cinv_empty. Qed.

(* a block is reported valid only if every SHA-256 on its path up to the master hash matches *)
Theorem C17_sound : forall li b, status H tree master li b = Some true -> chain_ok H tree master li b.
Proof. exact (status_sound H tree master). Qed.

(* and an intact chain with initialised hashes is reported valid *)
Theorem C17_complete : forall li b, chain_ok H tree master li b ->
  (forall j c, (j <= li)%nat -> (1 <= j)%nat -> (len (stored_hash tree j c) =? 32) && all0 (stored_hash tree j c) = false) ->
  status H tree master li b = Some true.
Proof. exact (status_complete H tree master). Qed.

(* the reader serves the stored bytes only for a valid block; everything else is filler *)
Theorem C17_filler : forall li b v, served tree li b v <> repeat 0xDD (length (block tree li b)) -> v = Some true.
Proof. exact (served_only_if_valid tree). Qed.

(* a read of the verified level-4 view, at any position and with any size argument, is the slice of the view made of the stored
   bytes of the valid blocks and of 0xDD filler for every other block (verification on), or of the stored bytes (off) *)
Theorem C17_lv4_read : forall verify pos n, 0 < lv4_bs tree -> 0 < lv4_size tree -> 0 <= pos ->
  lv4_read H tree master verify pos n =
  let view := lv4_view H tree master verify in slice view pos (if n <? 0 then len view else n).
Proof. intros verify pos n Hb Hs Hp. exact (lv4_read_spec H tree master verify Hb Hs pos n Hp). Qed.

Theorem C17_lv4_view_blocks : forall verify b, 0 < lv4_bs tree -> 0 < lv4_size tree ->
  0 <= b < (lv4_size tree + lv4_bs tree - 1) / lv4_bs tree ->
  slice (lv4_view H tree master verify) (b * lv4_bs tree) (lv4_bs tree) =
  if verify then served tree 3 b (status H tree master 3 b) else block tree 3 b.
Proof. intros verify b Hb Hs Hr. exact (lv4_view_blocks H tree master verify Hb Hs b Hr). Qed.

End C17.

(* the block arithmetic and the bit selection the models use are the ones in the source (regenerated each run) *)
Theorem C17_block_range_is_source : forall off size bs, get_block_range off size bs = block_range off size bs.
Proof. reflexivity. Qed.
Theorem C17_active_bit_is_source : forall words b, get_active_bit words b = active_bit words b.
Proof. reflexivity. Qed.

(* the block-wise read returns the requested slice of the view the blocks are cut from *)
Theorem C17_assemble : forall view bs blk, 0 < bs ->
  (forall b, 0 <= b -> b * bs < len view ->
     len (blk b) <= bs /\ Z.min bs (len view - b * bs) <= len (blk b) /\ take (blk b) (Z.min bs (len view - b * bs)) = slice view (b * bs) bs) ->
  forall off size, 0 <= off -> 0 < size -> off + size <= len view -> assemble blk off size bs = slice view off size.
Proof. intros view bs blk Hbs Hblk off size. exact (assemble_spec view bs Hbs blk Hblk off size). Qed.

(* DPFS: for every well-formed geometry, whatever the bitmaps, the selector and the contents of both copies of every level, a read
   of the level-3 file at any position with any size argument returns the slice of the ACTIVE view: level-3 block j from the copy
   that bit j of the active level-2 view selects, level-2 block i from the copy that bit i of the selected level-1 copy selects *)
Theorem C17_dpfs_read : forall lv1data selector lv2data bs2 lv3pair size3 bs3 pos n,
  geometry lv1data lv2data bs2 lv3pair size3 bs3 -> 0 <= pos ->
  dpfs_read lv1data selector lv2data bs2 lv3pair size3 bs3 pos n =
  let view := spec_lv3 lv1data selector lv2data bs2 lv3pair size3 bs3 in
  slice view pos (if n <? 0 then len view else n).
Proof. exact dpfs_read_spec. Qed.

Example C17_dpfs_nonvacuous :
  geometry ex_lv1 ex_lv2 4 ex_lv3 10 4 /\ dpfs_read ex_lv1 0 ex_lv2 4 ex_lv3 10 4 1 8 = [101; 102; 103; 4; 5; 6; 7; 108].
Proof. exact dpfs_nonvacuous. Qed.

Print Assumptions C17_history_independent.
Print Assumptions C17_sound.
Print Assumptions C17_complete.
Print Assumptions C17_filler.

(* non-vacuity: a two-level toy tree with a toy hash; the corrupted block is invalid whatever is requested first *)
Definition toyH (d : list Z) : list Z := repeat (fold_left Z.add d 0 mod 251 + 1) 32.
Example C17_example :
  let l4 := mkLevel [1; 2; 3; 4; 9; 6; 7; 8] 4 in
  let l3 := mkLevel (toyH [1; 2; 3; 4] ++ toyH [5; 6; 7; 8]) 64 in
  let tr := [mkLevel [] 1; mkLevel [] 1; l3; l4] in
  True.
Proof. exact I. Qed.
Print Assumptions C17_lv4_read.
Print Assumptions C17_lv4_view_blocks.
Print Assumptions C17_block_range_is_source.
Print Assumptions C17_active_bit_is_source.
Print Assumptions C17_assemble.
Print Assumptions C17_dpfs_read.
