(* C02 -- random-access AES-CBC reads equal whole-stream decryption; the wrapper never writes. *)
From Pyctr Require Import Base.Prelude Base.ListExt Base.PyInt Base.PySlice Env.PyFile Env.FileIface
  Spec.StreamCipher Env.Cipher Model.Window Model.CbcIO Proofs.WindowProofs Proofs.WrapInstances Proofs.CbcProofs.
From Dyn Require Import Gen_engine.

Section C02.
Variable D : list Z -> list Z -> list Z.                               (* AES block decryption: uninterpreted *)
Hypothesis D_len : forall k b, len b = 16 -> len (D k b) = 16.          (* it returns blocks *)
Variables (key iv : list Z).
Hypothesis Hiv : len iv = 16.

(* every read of every seek/read/tell history, at any position (inside the first block, mid-block, at and beyond
   the end), returns the corresponding slice of the whole-stream CBC decryption and leaves the position at the end
   of the bytes returned; the contents of the underlying file never change.  Plain file: *)
Theorem C02_cbc_plain : forall s ops,
  pf_ok s -> len (fdata s) mod 16 = 0 ->
  ball_steps_ok D pyfile_ops fdata fpos key iv s ops.
Proof. exact (cbc_history_ok D D_len pyfile_ops pf_ok fdata fpos pyfile_lawful key iv Hiv). Qed.

(* ... and over a window [off, off+sz) at a non-zero base offset *)
Theorem C02_cbc_window : forall off sz, 0 <= off -> 0 <= sz -> forall s ops,
  win_inv off s -> len (win_content off sz s) mod 16 = 0 ->
  ball_steps_ok D (window_ops off sz) (win_content off sz) wseek key iv s ops.
Proof.
  intros off sz Ho Hs.
  exact (cbc_history_ok D D_len (window_ops off sz) (win_inv off) (win_content off sz) wseek
           (window_lawful off sz Ho Hs) key iv Hiv).
Qed.

(* what the whole-stream decryption is: block i = D(c_i) xor (iv or c_{i-1}) *)
Theorem C02_cbc_dec_blocks : forall ct i m,
  len ct mod 16 = 0 -> 0 <= i -> 0 <= m -> 16 * (i + m) <= len ct ->
  slice (cbc_dec D key iv ct) (16 * i) (16 * m) = cbc_blocks D key iv ct i (Z.to_nat m).
Proof. exact (slice_cbc_dec D D_len key iv Hiv). Qed.

End C02.

(* the model has no write operation at all: the only calls it makes on the underlying file are tell/seek/read
   (the op alphabet of Model/CbcIO.v); the contract above states contents are unchanged by every step *)

Theorem C02_gen_before : forall offset, cbc_before offset = cbc_before_of offset.
Proof. reflexivity. Qed.

Print Assumptions C02_cbc_plain.
Print Assumptions C02_cbc_window.
Print Assumptions C02_cbc_dec_blocks.
Print Assumptions C02_gen_before.

(* the hypothesis on D is satisfiable, and a concrete unaligned history *)
Definition toyD (k b : list Z) : list Z := map (fun x => Z.lxor (x + 1) (hd 0 k) mod 256) (rev b).
Example toyD_len : forall k b, len b = 16 -> len (toyD k b) = 16.
Proof. intros. unfold toyD. now rewrite len_map, len_rev. Qed.
Example C02_example :
  let ct := map Z.of_nat (seq 0 48) in
  fst (cbc_run toyD pyfile_ops [5] (repeat 9 16) (mkFile ct 0) [BSeek 21 0; BRead 13; BRead (-1); BSeek 60 0; BRead 1; BTell])
  = [BInt 21; BBytes (slice (cbc_dec toyD [5] (repeat 9 16) ct) 21 13); BBytes (slice (cbc_dec toyD [5] (repeat 9 16) ct) 34 14);
     BInt 60; BBytes []; BInt 60].
Proof. vm_compute. reflexivity. Qed.
