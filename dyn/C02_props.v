(* C02 -- random-access AES-CBC reads equal whole-stream decryption; the wrapper never writes. *)
From Pyctr Require Import Base.Prelude Base.ListExt Base.PyInt Base.PySlice Env.PyFile Env.FileIface
  Spec.StreamCipher Env.Cipher Model.Window Model.CbcIO Proofs.WindowProofs Proofs.WrapInstances Proofs.CbcProofs
  Proofs.CbcChunkProofs.
From Dyn Require Import Gen_engine.

Section C02.
Variable D : list Z -> list Z -> list Z.                               (* AES block decryption: uninterpreted *)
Hypothesis D_len : forall k b, len b = 16 -> len (D k b) = 16.          (* it returns blocks *)
Variables (key iv : list Z).
Hypothesis Hiv : len iv = 16.

(* every read of every seek/read/tell history, at any position (inside the first block, mid-block, at and beyond
   the end), returns the corresponding slice of the whole-stream CBC decryption and leaves the position at the end
   of the bytes returned; the contents of the underlying file never change.  Plain file: *)
Theorem C02_cbc_plain : forall s ops,
  pf_ok s -> len (fdata s) mod 16 = 0 ->
  ball_steps_ok D pyfile_ops fdata fpos key iv s ops.
Proof. exact (cbc_history_ok D D_len pyfile_ops pf_ok fdata fpos pyfile_lawful key iv Hiv). Qed.

(* ... and over a window [off, off+sz) at a non-zero base offset *)
Theorem C02_cbc_window : forall off sz, 0 <= off -> 0 <= sz -> forall s ops,
  win_inv off s -> len (win_content off sz s) mod 16 = 0 ->
  ball_steps_ok D (window_ops off sz) (win_content off sz) wseek key iv s ops.
Proof.
  intros off sz Ho Hs.
  exact (cbc_history_ok D D_len (window_ops off sz) (win_inv off) (win_content off sz) wseek
           (window_lawful off sz Ho Hs) key iv Hiv).
Qed.

(* what the whole-stream decryption is: block i = D(c_i) xor (iv or c_{i-1}) *)
Theorem C02_cbc_dec_blocks : forall ct i m,
  len ct mod 16 = 0 -> 0 <= i -> 0 <= m -> 16 * (i + m) <= len ct ->
  slice (cbc_dec D key iv ct) (16 * i) (16 * m) = cbc_blocks D key iv ct i (Z.to_nat m).
Proof. exact (slice_cbc_dec D D_len key iv Hiv). Qed.

(* composition.  Consecutive reads in ANY chunking (sizes negative, zero, sub-block, over-long, past the end) glue back to ONE
   slice of the whole-stream decryption starting at the initial position; the position ends behind the bytes returned *)
Theorem C02_cbc_chunks_glue : forall ns s, pf_ok s -> len (fdata s) mod 16 = 0 ->
  let '(rs, s') := cbc_run D pyfile_ops key iv s (map BRead ns) in
  exists t, glue rs = Some t /\ t = slice (cbc_dec D key iv (fdata s)) (fpos s) (len t) /\
    fpos s' = fpos s + len t /\ fdata s' = fdata s /\ pf_ok s'.
Proof. intros ns s Hs. exact (cbc_chunks_glue D D_len pyfile_ops pf_ok fdata fpos pyfile_lawful key iv Hiv ns s Hs Hs). Qed.

(* ... and over a window *)
Theorem C02_cbc_chunks_glue_window : forall off sz, 0 <= off -> 0 <= sz -> forall ns s,
  win_inv off s -> 0 <= wseek s -> len (win_content off sz s) mod 16 = 0 ->
  let '(rs, s') := cbc_run D (window_ops off sz) key iv s (map BRead ns) in
  exists t, glue rs = Some t /\ t = slice (cbc_dec D key iv (win_content off sz s)) (wseek s) (len t) /\
    wseek s' = wseek s + len t /\ win_content off sz s' = win_content off sz s /\ win_inv off s'.
Proof.
  intros off sz Ho Hs.
  exact (cbc_chunks_glue D D_len (window_ops off sz) (win_inv off) (win_content off sz) wseek
           (window_lawful off sz Ho Hs) key iv Hiv).
Qed.

(* from position 0, any chunks and then read(-1): exactly the whole-stream decryption *)
Theorem C02_cbc_chunks_then_rest_is_whole : forall ns s, pf_ok s -> fpos s = 0 -> len (fdata s) mod 16 = 0 ->
  exists t, glue (fst (cbc_run D pyfile_ops key iv s (map BRead (ns ++ [-1])))) = Some t /\ t = cbc_dec D key iv (fdata s).
Proof. exact (cbc_chunks_then_rest_is_whole D D_len pyfile_ops pf_ok fdata fpos pyfile_lawful key iv Hiv). Qed.

(* history independence: the wrapper carries nothing from one call to the next but the position.  After ANY history, seek(p) then
   read(n) returns the slice at p -- what the same two calls return on a freshly made wrapper *)
Theorem C02_cbc_read_history_independent : forall ops p n s, pf_ok s -> len (fdata s) mod 16 = 0 -> 0 <= p ->
  forall q s2, f_seek pyfile_ops (snd (cbc_run D pyfile_ops key iv s ops)) p 0 = Ok (q, s2) ->
  exists out s3, cbc_step D pyfile_ops key iv s2 (BRead n) = (BBytes out, s3) /\
    out = slice (cbc_dec D key iv (fdata s)) q (read_count (len (fdata s)) q n).
Proof. exact (cbc_read_history_independent D D_len pyfile_ops pf_ok fdata fpos pyfile_lawful key iv Hiv). Qed.

End C02.

(* the model has no write operation at all: the only calls it makes on the underlying file are tell/seek/read
   (the op alphabet of Model/CbcIO.v); the contract above states contents are unchanged by every step *)

Theorem C02_gen_before : forall offset, cbc_before offset = cbc_before_of offset.
Proof. reflexivity. Qed.

Print Assumptions C02_cbc_plain.
Print Assumptions C02_cbc_window.
Print Assumptions C02_cbc_dec_blocks.
Print Assumptions C02_gen_before.
Print Assumptions C02_cbc_chunks_glue.
Print Assumptions C02_cbc_chunks_glue_window.
Print Assumptions C02_cbc_chunks_then_rest_is_whole.
Print Assumptions C02_cbc_read_history_independent.

(* the hypothesis on D is satisfiable, and a concrete unaligned history *)
Definition toyD (k b : list Z) : list Z := map (fun x => Z.lxor (x + 1) (hd 0 k) mod 256) (rev b).
Example toyD_len : forall k b, len b = 16 -> len (toyD k b) = 16.
Proof. intros. unfold toyD. now rewrite len_map, len_rev. Qed.
Example C02_example :
  let ct := map Z.of_nat (seq 0 48) in
  fst (cbc_run toyD pyfile_ops [5] (repeat 9 16) (mkFile ct 0) [BSeek 21 0; BRead 13; BRead (-1); BSeek 60 0; BRead 1; BTell])
  = [BInt 21; BBytes (slice (cbc_dec toyD [5] (repeat 9 16) ct) 21 13); BBytes (slice (cbc_dec toyD [5] (repeat 9 16) ct) 34 14);
     BInt 60; BBytes []; BInt 60].
Proof. vm_compute. reflexivity. Qed.

(* chunked reading on the concrete history: 7 + 0 + 20 + over-long + past-the-end *)
Example C02_chunks_example :
  let ct := map Z.of_nat (seq 0 48) in
  glue (fst (cbc_run toyD pyfile_ops [5] (repeat 9 16) (mkFile ct 0) (map BRead [7; 0; 20; 100; 3; -1])))
  = Some (cbc_dec toyD [5] (repeat 9 16) ct).
Proof. vm_compute. reflexivity. Qed.
