(* The pure parts of SubsectionIO regenerated from pyctr/fileio.py equal the hand model's. *)
From Pyctr Require Import Base.Prelude Base.ListExt Base.PySlice Env.PyFile Model.Window.
From Dyn Require Import Gen_fileio.

Lemma gen_seek_spec sk sz s wh :
  SubsectionIO_seek sk sz s wh =
  match win_seek_pos sz sk s wh with Ok p => Ok (p, p) | Err e => Err e end.
Proof.
  unfold SubsectionIO_seek, win_seek_pos.
  destruct (wh =? 0); [destruct (s <? 0); reflexivity|].
  destruct (wh =? 1); [reflexivity|]. destruct (wh =? 2); reflexivity.
Qed.

Lemma gen_read_prefix_spec off sz sk n :
  SubsectionIO_read_prefix (off + sz) off sk sz n =
  if off + sk >? off + sz then None else Some (win_read_size sz sk n).
Proof.
  unfold SubsectionIO_read_prefix, win_read_size.
  destruct (n <? 0); destruct (off + sk >? off + sz); try reflexivity.
  - destruct (sk + (sz - sk) >? sz); reflexivity.
  - destruct (sk + n >? sz); reflexivity.
Qed.

Lemma gen_write_prefix_spec sz sk d :
  SubsectionIO_write_prefix sk sz d =
  if sk >? sz then None else Some (win_write_data sz sk d).
Proof.
  unfold SubsectionIO_write_prefix, win_write_data.
  destruct (sk >? sz); [reflexivity|]. destruct (len d + sk >? sz); reflexivity.
Qed.
