(* Bridge between the kernels regenerated from pyctr/crypto/engine.py (Gen_engine)
   and the scrambler specification.  Re-checked on every run against the current source. *)
From Pyctr Require Import Base.Prelude Base.ListExt Base.PyInt Spec.Scrambler Model.Engine.
From Dyn Require Import Gen_engine.

Lemma gen_rol_spec v r :
  0 <= v -> 0 <= r -> rol v r 128 = rotl128 (v mod W) (r mod 128).
Proof.
  intros Hv Hr. unfold rol.
  apply shift_mask_rotl; [exact Hv|]. apply Z.mod_pos_bound. lia.
Qed.

Lemma gen_rol_range v r : 0 <= v -> 0 <= r -> 0 <= rol v r 128 < W.
Proof.
  intros Hv Hr. rewrite gen_rol_spec by assumption.
  apply rotl128_range; [apply Z.mod_pos_bound; unfold W; lia | apply Z.mod_pos_bound; lia].
Qed.

Lemma lxor_range a b : 0 <= a < W -> 0 <= b < W -> 0 <= Z.lxor a b < W.
Proof.
  unfold W. intros Ha Hb. split; [apply Z.lxor_nonneg; lia|].
  destruct (Z.eq_dec (Z.lxor a b) 0) as [->|Hne]; [lia|].
  assert (0 <= Z.lxor a b) by (apply Z.lxor_nonneg; lia).
  apply Z.log2_lt_pow2; [lia|].
  assert (Z.log2 a < 128) by (destruct (Z.eq_dec a 0) as [->|]; [simpl; lia|apply Z.log2_lt_pow2; lia]).
  assert (Z.log2 b < 128) by (destruct (Z.eq_dec b 0) as [->|]; [simpl; lia|apply Z.log2_lt_pow2; lia]).
  pose proof (Z.log2_lxor a b ltac:(lia) ltac:(lia)). lia.
Qed.

Lemma gen_keygen_manual_spec x y :
  0 <= x < W -> 0 <= y < W -> keygen_manual x y = keygen3ds x y.
Proof.
  intros Hx Hy. unfold keygen_manual, keygen3ds, scramble3ds. f_equal.
  assert (R2 : rol x 2 128 = rotl128 x 2).
  { rewrite gen_rol_spec by lia. rewrite Z.mod_small by lia. reflexivity. }
  rewrite R2.
  pose proof (rotl128_range x 2 Hx ltac:(lia)) as Hr.
  pose proof (lxor_range _ _ Hr Hy) as Hl.
  rewrite gen_rol_spec; [reflexivity| |lia].
  unfold C3DS in *. lia.
Qed.

Lemma gen_keygen_twl_manual_spec x y :
  0 <= x < W -> 0 <= y < W -> keygen_twl_manual x y = keygentwl x y.
Proof.
  intros Hx Hy. unfold keygen_twl_manual, keygentwl, scrambleTwl. f_equal.
  pose proof (lxor_range _ _ Hx Hy) as Hl.
  rewrite gen_rol_spec; [reflexivity| |lia].
  lia.
Qed.

(* to_bytes(0x10, 'big') in the generated kernels cannot overflow *)
Lemma gen_keygen_no_overflow x y :
  0 <= x < W -> 0 <= y < W ->
  to_bytes_ok 16 (rol ((Z.lxor (rol x 2 128) y) + C3DS) 87 128) = true /\
  to_bytes_ok 16 (rol ((Z.lxor x y) + CTWL) 42 128) = true.
Proof.
  intros Hx Hy. unfold to_bytes_ok.
  assert (R2 : 0 <= rol x 2 128 < W) by (apply gen_rol_range; lia).
  pose proof (lxor_range _ _ R2 Hy). pose proof (lxor_range _ _ Hx Hy).
  assert (A : 0 <= rol (Z.lxor (rol x 2 128) y + C3DS) 87 128 < W) by (apply gen_rol_range; unfold C3DS; lia).
  assert (B : 0 <= rol (Z.lxor x y + CTWL) 42 128 < W) by (apply gen_rol_range; unfold CTWL; lia).
  change (256 ^ Z.of_nat 16) with W. lia.
Qed.
