(* C20 -- inverse pairs: word codecs, SMDH bit tables, RGB565 expansion, Morton tiling, DIFI descriptor.
   All statements are about the kernels regenerated from the current source (Gen_tmd, Gen_smdh, Gen_difi). *)
From Pyctr Require Import Base.Prelude Base.ListExt Base.PyInt Base.PySlice Base.PyStr Base.Sweep Base.Fields.
From Pyctr Require Import Model.Codecs Proofs.CodecsProofs Model.Nand Proofs.NandProofs Model.CfgSave Proofs.CfgSaveProofs Model.AppTitle Proofs.AppTitleProofs.
From Dyn Require Import Gen_tmd Gen_smdh Gen_difi.

(* ---- title-version and content-type flag words (finite domains: swept completely, bound in the statement) ---- *)
Definition tv_check (w : Z) : bool :=
  let '(a, b, c) := titleversion_from_int w in (titleversion_index a c b =? w).
Lemma tv_sweep : forallb tv_check (zseq 0 (Z.to_nat 65536)) = true.
Proof. vm_compute. reflexivity. Qed.
Theorem C20_version_word : forall w, 0 <= w < 65536 ->
  let '(major, minor, micro) := titleversion_from_int w in titleversion_index major micro minor = w.
Proof.
  intros w Hw. pose proof (sweep tv_check 65536 tv_sweep w Hw) as H. unfold tv_check in H.
  destruct (titleversion_from_int w) as [[a b] c]. lia.
Qed.

Definition tv_check2 (major mm : Z) : bool :=
  let minor := mm / 16 in let micro := mm mod 16 in
  let '(a, b, c) := titleversion_from_int (titleversion_index major micro minor) in
  (a =? major) && (b =? minor) && (c =? micro).
Lemma tv_sweep2 : forallb (fun a => forallb (tv_check2 a) (zseq 0 (Z.to_nat 1024))) (zseq 0 (Z.to_nat 64)) = true.
Proof. vm_compute. reflexivity. Qed.
Theorem C20_version_triple : forall major minor micro, 0 <= major < 64 -> 0 <= minor < 64 -> 0 <= micro < 16 ->
  titleversion_from_int (titleversion_index major micro minor) = (major, minor, micro).
Proof.
  intros major minor micro H1 H2 H3.
  pose proof (sweep2 tv_check2 64 1024 tv_sweep2 major (16 * minor + micro) H1 ltac:(lia)) as H.
  unfold tv_check2 in H. replace ((16 * minor + micro) / 16) with minor in H by lia.
  replace ((16 * minor + micro) mod 16) with micro in H by lia.
  destruct (titleversion_from_int (titleversion_index major micro minor)) as [[a b] c].
  apply andb_true_iff in H as [H Hc]. apply andb_true_iff in H as [Ha Hb].
  f_equal; [f_equal|]; lia.
Qed.

Definition ctf_check (w : Z) : bool :=
  let '(e, d, c, o, s) := ctf_from_int w in (ctf_index c d e o s =? Z.land w 49159).
Lemma ctf_sweep : forallb ctf_check (zseq 0 (Z.to_nat 65536)) = true.
Proof. vm_compute. reflexivity. Qed.
Theorem C20_type_flags : forall w, 0 <= w < 65536 ->
  let '(encrypted, disc, cfm, optional, shared) := ctf_from_int w in
  ctf_index cfm disc encrypted optional shared = Z.land w 0xC007.
Proof.
  intros w Hw. pose proof (sweep ctf_check 65536 ctf_sweep w Hw) as H. unfold ctf_check in H.
  destruct (ctf_from_int w) as [[[[e d] c] o] s]. change 0xC007 with 49159. lia.
Qed.

(* ---- SMDH flag / region-lockout words: every 32-bit word, by bit reasoning ---- *)
Theorem C20_smdh_flags : forall w, 0 <= w < 2 ^ 32 ->
  smdhflags_from_bytes (le_encode 4 w) =
  (Z.testbit w 0, Z.testbit w 1, Z.testbit w 2, Z.testbit w 3, Z.testbit w 4, Z.testbit w 5, Z.testbit w 6,
   Z.testbit w 7, Z.testbit w 8, Z.testbit w 10, Z.testbit w 12).
Proof.
  intros w Hw. unfold smdhflags_from_bytes.
  rewrite le_decode_encode_id by (change (256 ^ Z.of_nat 4) with (2 ^ 32); lia).
  repeat match goal with
  | |- context [negb (Z.land w ?k =? 0)] =>
      let i := eval vm_compute in (Z.log2 k) in
      replace (negb (Z.land w k =? 0)) with (Z.testbit w i)
        by (symmetry; change k with (2 ^ i); apply land_pow2_testbit; lia)
  end.
  reflexivity.
Qed.

Theorem C20_smdh_lockout : forall w, 0 <= w < 2 ^ 32 ->
  lockout_from_bytes (le_encode 4 w) =
  (Z.testbit w 0, Z.testbit w 1, Z.testbit w 2, Z.testbit w 3, Z.testbit w 4, Z.testbit w 5, Z.testbit w 6,
   w =? 0x7FFFFFFF).
Proof.
  intros w Hw. unfold lockout_from_bytes.
  rewrite le_decode_encode_id by (change (256 ^ Z.of_nat 4) with (2 ^ 32); lia).
  repeat match goal with
  | |- context [negb (Z.land w ?k =? 0)] =>
      let i := eval vm_compute in (Z.log2 k) in
      replace (negb (Z.land w k =? 0)) with (Z.testbit w i)
        by (symmetry; change k with (2 ^ i); apply land_pow2_testbit; lia)
  end.
  reflexivity.
Qed.

(* ---- RGB565 -> RGB888: all 65 536 colours ---- *)
Definition rgb_spec (w : Z) : Z * Z * Z := ((w / 2048) * 255 / 31, ((w / 32) mod 64) * 255 / 63, (w mod 32) * 255 / 31).
Definition rgb_check (w : Z) : bool :=
  let '(r, g, b) := rgb565_to_rgb888_tuple (le_encode 2 w) in
  let '(r', g', b') := rgb_spec w in (r =? r') && (g =? g') && (b =? b') && (0 <=? r) && (r <? 256) && (g <? 256) && (b <? 256).
Lemma rgb_sweep : forallb rgb_check (zseq 0 (Z.to_nat 65536)) = true.
Proof. vm_compute. reflexivity. Qed.
Theorem C20_rgb565 : forall w, 0 <= w < 65536 -> rgb565_to_rgb888_tuple (le_encode 2 w) = rgb_spec w.
Proof.
  intros w Hw. pose proof (sweep rgb_check 65536 rgb_sweep w Hw) as H. unfold rgb_check in H.
  destruct (rgb565_to_rgb888_tuple (le_encode 2 w)) as [[r g] b]. destruct (rgb_spec w) as [[r' g'] b'].
  repeat (apply andb_true_iff in H as [H ?]). f_equal; [f_equal|]; lia.
Qed.

(* ---- Morton-order 8x8 tiling: both icon sizes, every pixel ---- *)
Definition bit (v i : Z) : Z := (v / 2 ^ i) mod 2.
Definition morton_spec (w x y : Z) : Z :=
  64 * ((y / 8) * (w / 8) + x / 8)
  + bit x 0 + 2 * bit y 0 + 4 * bit x 1 + 8 * bit y 1 + 16 * bit x 2 + 32 * bit y 2.
Definition tile_check (w : Z) (x y : Z) : bool :=
  let o := pixel_offset x y w 2 in (o =? 2 * morton_spec w x y) && (0 <=? o) && (o <? 2 * w * w).
Lemma tile_sweep24 : forallb (fun x => forallb (tile_check 24 x) (zseq 0 (Z.to_nat 24))) (zseq 0 (Z.to_nat 24)) = true.
Proof. vm_compute. reflexivity. Qed.
Lemma tile_sweep48 : forallb (fun x => forallb (tile_check 48 x) (zseq 0 (Z.to_nat 48))) (zseq 0 (Z.to_nat 48)) = true.
Proof. vm_compute. reflexivity. Qed.
Theorem C20_morton : forall w x y, (w = 24 \/ w = 48) -> 0 <= x < w -> 0 <= y < w ->
  pixel_offset x y w 2 = 2 * morton_spec w x y /\ 0 <= pixel_offset x y w 2 < 2 * w * w.
Proof.
  intros w x y [-> | ->] Hx Hy.
  - pose proof (sweep2 (tile_check 24) 24 24 tile_sweep24 x y Hx Hy) as H. unfold tile_check in H.
    repeat (apply andb_true_iff in H as [H ?]). lia.
  - pose proof (sweep2 (tile_check 48) 48 48 tile_sweep48 x y Hx Hy) as H. unfold tile_check in H.
    repeat (apply andb_true_iff in H as [H ?]). lia.
Qed.

(* the tiling is a bijection onto [0, w*w): the Morton position determines the pixel *)
Definition untile (w m : Z) : Z * Z :=
  let t := m / 64 in let r := m mod 64 in
  (8 * (t mod (w / 8)) + bit r 0 + 2 * bit r 2 + 4 * bit r 4, 8 * (t / (w / 8)) + bit r 1 + 2 * bit r 3 + 4 * bit r 5).
Definition untile_check (w x y : Z) : bool :=
  let '(x', y') := untile w (morton_spec w x y) in (x' =? x) && (y' =? y).
Lemma untile_sweep24 : forallb (fun x => forallb (untile_check 24 x) (zseq 0 (Z.to_nat 24))) (zseq 0 (Z.to_nat 24)) = true.
Proof. vm_compute. reflexivity. Qed.
Lemma untile_sweep48 : forallb (fun x => forallb (untile_check 48 x) (zseq 0 (Z.to_nat 48))) (zseq 0 (Z.to_nat 48)) = true.
Proof. vm_compute. reflexivity. Qed.
Theorem C20_morton_injective : forall w x y x' y', (w = 24 \/ w = 48) ->
  0 <= x < w -> 0 <= y < w -> 0 <= x' < w -> 0 <= y' < w ->
  pixel_offset x y w 2 = pixel_offset x' y' w 2 -> x = x' /\ y = y'.
Proof.
  intros w x y x' y' Hw Hx Hy Hx' Hy' E.
  destruct (C20_morton w x y Hw Hx Hy) as [E1 _]. destruct (C20_morton w x' y' Hw Hx' Hy') as [E2 _].
  assert (Em : morton_spec w x y = morton_spec w x' y') by lia.
  assert (U : forall a b, 0 <= a < w -> 0 <= b < w -> untile w (morton_spec w a b) = (a, b)).
  { intros a b Ha Hb. destruct Hw as [-> | ->].
    - pose proof (sweep2 (untile_check 24) 24 24 untile_sweep24 a b Ha Hb) as H. unfold untile_check in H.
      destruct (untile 24 (morton_spec 24 a b)) as [p q]. apply andb_true_iff in H as [? ?]. f_equal; lia.
    - pose proof (sweep2 (untile_check 48) 48 48 untile_sweep48 a b Ha Hb) as H. unfold untile_check in H.
      destruct (untile 48 (morton_spec 48 a b)) as [p q]. apply andb_true_iff in H as [? ?]. f_equal; lia. }
  pose proof (U x y Hx Hy) as U1. pose proof (U x' y' Hx' Hy') as U2. rewrite Em in U1. rewrite U1 in U2.
  inversion U2. auto.
Qed.

(* ---- DIFI partition descriptor: serialise then parse ---- *)
Theorem C20_difi_roundtrip : forall io isz dof dsz po ps ext sel eo,
  0 <= io < 2 ^ 64 -> 0 <= isz < 2 ^ 64 -> 0 <= dof < 2 ^ 64 -> 0 <= dsz < 2 ^ 64 -> 0 <= po < 2 ^ 64 ->
  0 <= ps < 2 ^ 64 -> 0 <= sel < 256 -> 0 <= eo < 2 ^ 64 ->
  difi_from_bytes (difi_to_bytes dof dsz sel ext eo io isz po ps) = Ok (io, isz, dof, dsz, po, ps, ext, sel, eo).
Proof.
  intros io isz dof dsz po ps ext sel eo H1 H2 H3 H4 H5 H6 H7 H8.
  unfold difi_to_bytes, difi_from_bytes. cbv zeta.
  set (parts := [[68; 73; 70; 73; 0; 0; 1; 0]; le_encode 8 io; le_encode 8 isz; le_encode 8 dof; le_encode 8 dsz;
                 le_encode 8 po; le_encode 8 ps; le_encode 1 (Z.b2z ext); le_encode 1 sel; [0; 0]; le_encode 8 eo]).
  assert (Hlen : len (concat parts) = 68) by (unfold parts; len_parts).
  rewrite (pyslice_part parts 0 0 8) by (unfold parts; len_parts). cbn [nth parts list_eqb Z.eqb Pos.eqb andb negb].
  rewrite Hlen. cbn [Z.eqb Pos.eqb negb].
  rewrite (pyslice_part parts 1 8 16), (pyslice_part parts 2 16 24), (pyslice_part parts 3 24 32),
          (pyslice_part parts 4 32 40), (pyslice_part parts 5 40 48), (pyslice_part parts 6 48 56),
          (pyslice_part parts 10 60 68) by (unfold parts; len_parts).
  rewrite (pyidx_part parts 7 56 (Z.b2z ext)), (pyidx_part parts 8 57 sel)
    by (unfold parts; try len_parts; cbn [nth le_encode]; f_equal; destruct ext; cbn [Z.b2z]; lia).
  cbn [nth parts].
  rewrite !le_decode_encode_id by (change (256 ^ Z.of_nat 8) with (2 ^ 64); lia).
  destruct ext; reflexivity.
Qed.

Print Assumptions C20_version_word.
Print Assumptions C20_version_triple.
Print Assumptions C20_type_flags.
Print Assumptions C20_smdh_flags.
Print Assumptions C20_smdh_lockout.
Print Assumptions C20_rgb565.
Print Assumptions C20_morton.
Print Assumptions C20_morton_injective.
Print Assumptions C20_difi_roundtrip.

(* ---- save partition descriptors IVFC and DPFS (hand models of from_bytes / to_bytes, tied by correspondence) ---- *)
Theorem C20_ivfc_parse_of_bytes : forall v, ivfc_ok v -> ivfc_from_bytes (ivfc_to_bytes v) = Ok v.
Proof. exact ivfc_parse_of_bytes. Qed.
Print Assumptions C20_ivfc_parse_of_bytes.
Theorem C20_ivfc_bytes_of_parse : forall b v, bytes_ok b -> ivfc_from_bytes b = Ok v ->
  (forall i, In i [0; 1; 2; 3] -> slice b (0x10 + i * 0x18 + 20) 4 = repeat 0 4) -> ivfc_to_bytes v = b.
Proof. exact ivfc_bytes_of_parse. Qed.
Print Assumptions C20_ivfc_bytes_of_parse.
Theorem C20_dpfs_parse_of_bytes : forall v, dpfs_ok v -> dpfs_from_bytes (dpfs_to_bytes v) = Ok v.
Proof. exact dpfs_parse_of_bytes. Qed.
Print Assumptions C20_dpfs_parse_of_bytes.
Theorem C20_dpfs_bytes_of_parse : forall b v, bytes_ok b -> dpfs_from_bytes b = Ok v ->
  (forall i, In i [0; 1; 2] -> slice b (0x8 + i * 0x18 + 20) 4 = repeat 0 4) -> dpfs_to_bytes v = b.
Proof. exact dpfs_bytes_of_parse. Qed.
Print Assumptions C20_dpfs_bytes_of_parse.

(* ---- the seed database: a database (unique ids below 2^64, 16-byte seeds) saved and loaded into an empty one comes back, in order ---- *)
Theorem C20_seeddb_roundtrip : forall db, Forall entry_ok db -> keys_fresh [] db -> len db < 2 ^ 32 -> seeddb_load (seeddb_save db) [] = db.
Proof. exact seeddb_roundtrip. Qed.
Print Assumptions C20_seeddb_roundtrip.

(* ---- the config savegame: loading what to_bytes produced gives back the blocks -- ids, flags, data and order -- for every block
   list with distinct ids whose blocks pass the strict table (whatever that table is), as soon as to_bytes does not run out of
   space: blocks of up to 4 bytes inside their entries, larger ones laid out from the end of the file, in entry order ---- *)
Theorem C20_config_save_roundtrip : forall known bs raw,
  Forall (wf_blk known) bs -> NoDup (map b_id bs) -> cfg_bytes bs = Ok raw -> cfg_load known raw = Ok bs.
Proof. exact cfg_load_of_bytes. Qed.
Print Assumptions C20_config_save_roundtrip.

Example C20_config_save_nonvacuous :
  Forall (wf_blk ex_known) ex_blocks /\ NoDup (map b_id ex_blocks) /\
  is_ok (cfg_bytes ex_blocks) = true /\ (do raw <- cfg_bytes ex_blocks; cfg_load ex_known raw) = Ok ex_blocks.
Proof. exact cfg_nonvacuous. Qed.

(* ---- the SMDH application title: three UTF-16LE strings (lists of code points) in NUL-padded fields of 0x80 / 0x100 / 0x80 bytes.
   Parsing what was serialised gives back the strings, for all strings of scalar values (BMP or not) that fit their field and neither
   begin nor end with NUL (which strip() removes); decode-of-encode holds for every string of scalar values ---- *)
Theorem C20_utf16le_roundtrip : forall s, Forall scalar s -> utf16le_decode (utf16le_encode s) = Some s.
Proof. exact utf16le_roundtrip. Qed.
Theorem C20_apptitle_roundtrip : forall t,
  wf_field 0x80 (short_desc t) -> wf_field 0x100 (long_desc t) -> wf_field 0x80 (publisher t) -> title_parse (title_bytes t) = Ok t.
Proof. exact title_roundtrip. Qed.
Print Assumptions C20_utf16le_roundtrip.
Print Assumptions C20_apptitle_roundtrip.
Example C20_apptitle_nonvacuous :
  let t := mkTitle [0x1F600; 97] (repeat 0x3042 128) [] in
  wf_field 0x80 (short_desc t) /\ wf_field 0x100 (long_desc t) /\ wf_field 0x80 (publisher t) /\ title_parse (title_bytes t) = Ok t.
Proof. exact title_nonvacuous. Qed.

(* ---- the NAND NCSD header (model and proof shared with C13): parse then serialise gives back the 512 bytes ---- *)
Theorem C20_ncsd_header_roundtrip : forall sig mu tbl unk mbr h,
  len sig = 0x100 -> len unk = 94 -> len mbr = 66 -> length tbl = 8%nat -> 0 <= mu < 2 ^ 32 -> Forall tuple_ok tbl ->
  nand_parse (mk_header sig mu tbl unk mbr) = Ok h -> nand_bytes h = mk_header sig mu tbl unk mbr.
Proof. intros. eapply nand_header_roundtrip; eauto. Qed.
Print Assumptions C20_ncsd_header_roundtrip.
