(* C04 -- the fully-decrypted NCCH view is one consistent image of the container. *)
From Pyctr Require Import Base.Prelude Base.ListExt Base.PySlice Model.NcchFull Proofs.NcchFullProofs Proofs.NcchAvailProofs.

(* For every well-formed region table (0x200-aligned, pairwise disjoint sections inside the declared content size)
   and EVERY offset and length inside the container, the chunk-classifying, dictionary-grouping, head/tail-trimming
   read of the FullDecrypted branch returns exactly the corresponding slice of one whole image -- the image made of
   each section's decrypted chunk, raw bytes in the gaps, and the two patched header flag bytes. *)
Theorem C04_fulldec_read : forall N, wf N -> forall off size,
  0 <= off -> 0 <= size -> off + size <= n_content N ->
  fulldec_read N off size = slice (image N) off size.
Proof. exact fulldec_read_ok. Qed.

(* The reader as it is since the repair for C19 cuts every request down to what the file holds before it walks over media units.
   On a file that holds everything its header declares this changes nothing: *)
Theorem C04_fulldec_read_file_holds : forall N, wf N -> forall avail off size,
  n_content N <= avail -> 0 <= off -> 0 <= size -> off + size <= n_content N ->
  fulldec_read_avail N avail off size = slice (image N) off size.
Proof. exact fulldec_read_avail_ok. Qed.
Print Assumptions C04_fulldec_read_file_holds.

(* and that image has exactly the container's declared size *)
Theorem C04_image_size : forall N, wf N -> len (image N) = n_content N.
Proof. exact image_size. Qed.

(* the dictionary never merges two different runs: after any number of chunks the groups are consecutive runs with
   distinct keys (stated for an arbitrary classifier whose known sections are intervals of chunks) *)
Theorem C04_grouping : forall cls gd img,
  (forall c x cur, cls c = (TRaw x, cur) -> x = c /\ cur = 0) ->
  (forall c1 c2 c3 t cur1 cur3, c1 <= c2 <= c3 -> is_raw t = false -> cls c1 = (t, cur1) -> cls c3 = (t, cur3) ->
     cls c2 = (t, cur1) /\ cur3 = cur1) ->
  (forall c t cur m, c mod 0x200 = 0 -> (0 < m)%nat ->
     (forall j, (j < m)%nat -> cls (c + 0x200 * Z.of_nat j) = (t, cur)) ->
     gd t (c - cur) (0x200 * Z.of_nat m) = concat (map img (chunks_from c m))) ->
  forall content off size, 0 <= off -> 0 <= size -> off + size <= content ->
  let before := off mod 0x200 in
  let nch := Z.to_nat ((size + before + 0x1FF) / 0x200) in
  (forall j, (j < nch)%nat -> len (img (off - before + 0x200 * Z.of_nat j)) = 0x200) ->
  fulldec_generic cls gd content off size = slice (concat (map img (chunks_from (off - before) nch))) before size.
Proof. exact fulldec_generic_ok. Qed.

Print Assumptions C04_fulldec_read.
Print Assumptions C04_image_size.
Print Assumptions C04_grouping.

(* non-vacuity: a concrete well-formed container with a gap, read across two boundaries *)
Definition exN : ncch :=
  let z n v := repeat v n in
  mkNcch (mkReg 0xC00 0x400 (z 0x400%nat 7)) (mkReg 0x400 0x400 (z 0x400%nat 5)) (mkReg 0 0x200 (z 0x200%nat 1))
         (mkReg 0x200 0x200 (z 0x200%nat 2)) (mkReg 0 0 []) (mkReg 0 0 []) 0x1000 (z 0x1000%nat 9).
Example C04_example : fulldec_read exN 0x3FE 0x405 = slice (image exN) 0x3FE 0x405 /\ slice (image exN) 0x7FF 3 = [5; 9; 9].
Proof. vm_compute. auto. Qed.
