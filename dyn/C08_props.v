(* C08 -- property theorems.  Nothing but statements closed by [exact]. *)
From Pyctr Require Import Base.Prelude Base.ListExt Base.PyInt Spec.Scrambler Model.Engine Proofs.EngineProofs.
From Dyn Require Import Gen_engine C08_bridge.

(* the regenerated rotate is a true 128-bit rotation, for every operand and every amount *)
Theorem C08_rol : forall v r, 0 <= v -> 0 <= r -> rol v r 128 = rotl128 (v mod W) (r mod 128).
Proof. exact gen_rol_spec. Qed.
Print Assumptions C08_rol.

Theorem C08_rotl_is_rotation : forall v k i, 0 <= v < W -> 0 <= k < 128 -> 0 <= i < 128 ->
  Z.testbit (rotl128 v k) i = Z.testbit v ((i - k) mod 128).
Proof. exact rotl128_bits. Qed.
Print Assumptions C08_rotl_is_rotation.

(* both regenerated scramblers equal the formula, including carries out of bit 127 *)
Theorem C08_scramble_3ds : forall x y, 0 <= x < W -> 0 <= y < W ->
  keygen_manual x y = be_encode 16 (rotl128 ((Z.lxor (rotl128 x 2) y + C3DS) mod W) 87).
Proof. exact gen_keygen_manual_spec. Qed.
Print Assumptions C08_scramble_3ds.

Theorem C08_scramble_twl : forall x y, 0 <= x < W -> 0 <= y < W ->
  keygen_twl_manual x y = be_encode 16 (rotl128 ((Z.lxor x y + CTWL) mod W) 42).
Proof. exact gen_keygen_twl_manual_spec. Qed.
Print Assumptions C08_scramble_twl.

Theorem C08_no_overflow : forall x y, 0 <= x < W -> 0 <= y < W ->
  to_bytes_ok 16 (rol ((Z.lxor (rol x 2 128) y) + C3DS) 87 128) = true /\
  to_bytes_ok 16 (rol ((Z.lxor x y) + CTWL) 42 128) = true.
Proof. exact gen_keygen_no_overflow. Qed.
Print Assumptions C08_no_overflow.

(* keyslot state machine: every history *)
Theorem C08_coherent_after_update : forall e ops isx slot key x y,
  let e' := run e (ops ++ [SetKey isx slot key true]) in
  kx e' slot = Some x -> ky e' slot = Some y -> kn e' slot = Some (keygen_slot slot x y).
Proof. exact coherent_after_update. Qed.
Print Assumptions C08_coherent_after_update.

Theorem C08_refresh : forall e ops slot x y,
  let e' := run e ops in
  kx e' slot = Some x -> ky e' slot = Some y -> kn (step e' Refresh) slot = Some (keygen_slot slot x y).
Proof. exact deferred_then_refresh. Qed.
Print Assumptions C08_refresh.

Theorem C08_normal_persists : forall e slot k ops,
  forallb (fun o => negb (sets_xy o slot) && negb (sets_normal o slot) && negb (is_refresh o)) ops = true ->
  kn (run (step e (SetNormal slot k)) ops) slot = Some k.
Proof. exact normal_persists. Qed.
Print Assumptions C08_normal_persists.

Theorem C08_frame : forall e o slot,
  sets_xy o slot = false -> sets_normal o slot = false -> is_refresh o = false ->
  kx (step e o) slot = kx e slot /\ ky (step e o) slot = ky e slot /\ kn (step e o) slot = kn e slot.
Proof. exact step_frame. Qed.
Print Assumptions C08_frame.

Theorem C08_endianness : forall e isx slot b upd,
  step e (SetKeyBytes isx slot b upd) = step e (SetKey isx slot (if slot >? 3 then be_decode b else le_decode b) upd).
Proof. exact bytes_endianness. Qed.
Print Assumptions C08_endianness.

Theorem C08_factories : forall e slot,
  (forall k, kn e slot = Some k -> normal_for e slot = Ok k) /\ (kn e slot = None -> normal_for e slot = Err (Pyctr 1)).
Proof. exact normal_for_spec. Qed.
Print Assumptions C08_factories.
