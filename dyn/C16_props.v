(* C16 -- closing is complete, contained, idempotent and respects ownership.
   General theorems (all graphs, all histories) from Proofs/CloseProofs.v, specialised to the graphs read off the implementation
   in this run (C16_instances.v, whose decidable side conditions are discharged by computation). *)
From Coq Require Import List Arith Bool Permutation.
Import ListNotations.
From Pyctr Require Import Model.Close Proofs.CloseProofs.
From Dyn Require Import C16_instances.

Lemma inst_facts x : In x instances -> inst_ok x = true.
Proof. intros H. pose proof instances_ok as A. rewrite forallb_forall in A. exact (A x H). Qed.

(* completeness: in every configuration, for every history in which the reader is closed at some point, every later (and final)
   call on every handle -- including handles of nested readers -- raises ValueError *)
Theorem C16_reader_close_complete : forall x, In x instances -> forall h, In h (i_handles x) ->
  forall s before after,
    let s' := fst (run (i_g x) s (before ++ Close (i_reader x) :: after)) in
    shallow (i_g x) s' h = true /\ deep (i_g x) (length (i_g x)) s' h = true.
Proof.
  intros x Hx h Hh s before after. apply closed_reader_complete.
  apply inst_facts in Hx. unfold inst_ok in Hx. rewrite !andb_true_iff in Hx. destruct Hx as [[[C _] _] _].
  unfold covers_all in C. rewrite forallb_forall in C. exact (C h Hh).
Qed.
Print Assumptions C16_reader_close_complete.

Theorem C16_uses_after_close_raise : forall x, In x instances -> forall h, In h (i_handles x) ->
  forall s before after k o, nth_error after k = Some o -> uses_of h o = true ->
    let s1 := fst (run (i_g x) s (before ++ [Close (i_reader x)])) in
    nth_error (snd (run (i_g x) s1 after)) k = Some (Some true).
Proof.
  intros x Hx h Hh s before after k o Hk Hu s1.
  apply inst_facts in Hx. unfold inst_ok in Hx. rewrite !andb_true_iff in Hx. destruct Hx as [[[C _] _] _].
  unfold covers_all in C. rewrite forallb_forall in C.
  assert (A : forall i, In i (closure (i_g x) (i_reader x)) -> s1 i = true).
  { intros i Hi. unfold s1. rewrite run_app_fst, run_fst_cons. cbn [step fst run]. apply close_spec. auto. }
  eapply uses_after_close_raise; eauto.
Qed.
Print Assumptions C16_uses_after_close_raise.

(* nested readers: closing one silences its own handles *)
Theorem C16_nested_close_complete : forall x, In x instances -> forall p, In p (i_groups x) -> forall h, In h (snd p) ->
  forall s before after, shallow (i_g x) (fst (run (i_g x) s (before ++ Close (fst p) :: after))) h = true.
Proof.
  intros x Hx p Hp h Hh s before after. apply closed_reader_complete.
  apply inst_facts in Hx. unfold inst_ok in Hx. rewrite !andb_true_iff in Hx. destruct Hx as [[[_ G] _] _].
  rewrite forallb_forall in G. specialize (G p Hp). unfold covers_all in G. rewrite forallb_forall in G. exact (G h Hh).
Qed.
Print Assumptions C16_nested_close_complete.

(* idempotent, any order: the closed set after a history depends only on WHICH objects were closed *)
Theorem C16_idempotent_any_order : forall g ops ops' s i,
  (forall a, In (Close a) ops <-> In (Close a) ops') -> fst (run g s ops) i = fst (run g s ops') i.
Proof. exact run_order_irrelevant. Qed.
Print Assumptions C16_idempotent_any_order.

Theorem C16_close_twice : forall g s a i, close g (close g s a) a i = close g s a i.
Proof. exact close_idem. Qed.

(* containment: closing one handle leaves every sibling handle and the reader answering *)
Theorem C16_contained : forall x, In x instances -> forall h, In h (i_handles x) ->
  forall y, In y (i_handles x ++ [i_reader x]) -> y <> h ->
  deep (i_g x) (length (i_g x)) (close (i_g x) s0 h) y = false.
Proof.
  intros x Hx h Hh y Hy Hn. apply inst_facts in Hx. unfold inst_ok in Hx. rewrite !andb_true_iff in Hx. destruct Hx as [[_ K] _].
  rewrite forallb_forall in K. eapply contained_spec; eauto.
Qed.
Print Assumptions C16_contained.

(* ownership: after any history from the all-open state the file is closed iff the reader was closed and owns it
   (closefd rule: i_owns); no handle or nested reader ever closes it *)
Theorem C16_ownership : forall x, In x instances -> forall f, i_file x = Some f ->
  (forall a, In a (i_closables x) -> True) ->
  forall ops, (forall a, In (Close a) ops -> In a (i_closables x)) ->
  (fst (run (i_g x) s0 ops) f = true <-> (i_owns x = true /\ In (Close (i_reader x)) ops)).
Proof.
  intros x Hx f Hf _ ops Hops. apply inst_facts in Hx. unfold inst_ok in Hx. rewrite !andb_true_iff in Hx. destruct Hx as [_ F].
  rewrite Hf in F. rewrite andb_true_iff in F. destruct F as [F1 F2]. apply Bool.eqb_prop in F1. rewrite forallb_forall in F2.
  rewrite file_closed_iff. split.
  - intros (a & Ha & Hc). specialize (F2 a (Hops a Ha)). apply orb_true_iff in F2 as [E|E].
    + apply Nat.eqb_eq in E. subst a. rewrite <- F1. auto.
    + rewrite Hc in E. discriminate.
  - intros [Ho Hr]. exists (i_reader x). rewrite F1. auto.
Qed.
Print Assumptions C16_ownership.

Example C16_nonvacuous : instances <> [] /\ exists x, In x instances /\ i_handles x <> [].
Proof. split; [discriminate|]. exists inst_0. split; [left; reflexivity|discriminate]. Qed.
