(* Arithmetic leaves of CTRFileIO / TWLCTRFileIO regenerated from engine.py = the model's. *)
From Pyctr Require Import Base.Prelude Base.ListExt Base.PyInt Base.PySlice Base.PyStr Env.FileIface
  Spec.StreamCipher Env.Cipher Model.CtrIO.
From Dyn Require Import Gen_engine.

Lemma gen_counters c cur :
  ctr_read_counter c cur = ctr_start_counter c cur /\ ctr_write_counter c cur = ctr_start_counter c cur /\
  twl_read_counter c cur = ctr_start_counter c cur /\ twl_write_counter c cur = ctr_start_counter c cur.
Proof. repeat split; reflexivity. Qed.

Lemma gen_discard cur :
  ctr_read_discard cur = zeros (pad_before cur) /\ ctr_write_discard cur = zeros (pad_before cur).
Proof. unfold ctr_read_discard, ctr_write_discard, zeros, pad_before. rewrite seq_mul_single. auto. Qed.

Lemma gen_pads cur pb d :
  twl_read_pad_before cur = pad_before cur /\ twl_write_pad_before cur = pad_before cur /\
  twl_read_pad_after pb d = pad_after pb (len d) /\ twl_write_pad_after pb d = pad_after pb (len d).
Proof. repeat split; reflexivity. Qed.

Lemma gen_mode slot :
  create_ctr_io_is_twl slot = (slot <? 4) /\ create_ctr_cipher_is_twl slot = (slot <? 4).
Proof. split; reflexivity. Qed.
