(* C09 -- property theorems (SubsectionIO part). *)
From Pyctr Require Import Base.Prelude Base.ListExt Base.PySlice Env.PyFile Model.Window Model.Merger Proofs.WindowProofs Proofs.MergerProofs.
From Dyn Require Import Gen_fileio C09_bridge.

(* every step of every history of seek/read/write/tell calls, with any integer arguments,
   on a window [off, off+sz) over a base file that reaches the window's start, obeys the
   sub-file contract [step_contract] (WindowProofs.v) *)
(* merged split files: every step of every seek / read / tell history with arbitrary integer arguments obeys the contract of a
   read-only view exposing the concatenation of the pieces (reads are the slice at the reported position, clamped; never an error) *)
Theorem C09_merger : forall segs ops m, MergerProofs.inv segs m -> msteps_ok segs m ops.
Proof. intros. apply merger_history_ok. assumption. Qed.
Print Assumptions C09_merger.

Theorem C09_merger_initial : forall segs, MergerProofs.inv segs (mkM 0 0).
Proof. exact MergerProofs.init_inv. Qed.

Theorem C09_window : forall off sz, 0 <= off -> 0 <= sz ->
  forall w ops, win_inv off w -> all_steps_ok off sz w ops.
Proof. exact window_history_ok. Qed.
Print Assumptions C09_window.

(* the regenerated pure parts of SubsectionIO are the model's *)
Theorem C09_gen_seek : forall sk sz s wh,
  SubsectionIO_seek sk sz s wh = match win_seek_pos sz sk s wh with Ok p => Ok (p, p) | Err e => Err e end.
Proof. exact gen_seek_spec. Qed.
Print Assumptions C09_gen_seek.

Theorem C09_gen_read_prefix : forall off sz sk n,
  SubsectionIO_read_prefix (off + sz) off sk sz n = if off + sk >? off + sz then None else Some (win_read_size sz sk n).
Proof. exact gen_read_prefix_spec. Qed.
Print Assumptions C09_gen_read_prefix.

Theorem C09_gen_write_prefix : forall sz sk d,
  SubsectionIO_write_prefix sk sz d = if sk >? sz then None else Some (win_write_data sz sk d).
Proof. exact gen_write_prefix_spec. Qed.
Print Assumptions C09_gen_write_prefix.
