(* C09 -- property theorems (SubsectionIO part). *)
From Pyctr Require Import Base.Prelude Base.ListExt Base.PySlice Env.PyFile Model.Window Model.Merger Proofs.WindowProofs Proofs.MergerProofs.
From Pyctr Require Import Base.PyInt Env.FileIface Model.PosReader Proofs.PosReaderProofs Model.Blocks Model.Dpfs Proofs.DpfsProofs Model.Ivfc Model.IvfcRead Proofs.IvfcReadProofs Proofs.LawfulChunkProofs.
From Dyn Require Import Gen_fileio C09_bridge Gen_common Gen_dpfs Gen_ivfcpd.

(* every step of every history of seek/read/write/tell calls, with any integer arguments,
   on a window [off, off+sz) over a base file that reaches the window's start, obeys the
   sub-file contract [step_contract] (WindowProofs.v) *)
(* merged split files: every step of every seek / read / tell history with arbitrary integer arguments obeys the contract of a
   read-only view exposing the concatenation of the pieces (reads are the slice at the reported position, clamped; never an error) *)
Theorem C09_merger : forall segs ops m, MergerProofs.inv segs m -> msteps_ok segs m ops.
Proof. intros. apply merger_history_ok. assumption. Qed.
Print Assumptions C09_merger.

Theorem C09_merger_initial : forall segs, MergerProofs.inv segs (mkM 0 0).
Proof. exact MergerProofs.init_inv. Qed.

Theorem C09_window : forall off sz, 0 <= off -> 0 <= sz ->
  forall w ops, win_inv off w -> all_steps_ok off sz w ops.
Proof. exact window_history_ok. Qed.
Print Assumptions C09_window.

(* the regenerated pure parts of SubsectionIO are the model's *)
Theorem C09_gen_seek : forall sk sz s wh,
  SubsectionIO_seek sk sz s wh = match win_seek_pos sz sk s wh with Ok p => Ok (p, p) | Err e => Err e end.
Proof. exact gen_seek_spec. Qed.
Print Assumptions C09_gen_seek.

Theorem C09_gen_read_prefix : forall off sz sk n,
  SubsectionIO_read_prefix (off + sz) off sk sz n = if off + sk >? off + sz then None else Some (win_read_size sz sk n).
Proof. exact gen_read_prefix_spec. Qed.
Print Assumptions C09_gen_read_prefix.

Theorem C09_gen_write_prefix : forall sz sk d,
  SubsectionIO_write_prefix sk sz d = if sk >? sz then None else Some (win_write_data sz sk d).
Proof. exact gen_write_prefix_spec. Qed.
Print Assumptions C09_gen_write_prefix.

(* ---- handles that keep a position of their own (reader-owned files, the DPFS level-3 file, the verified level-4 view) ---- *)

(* their seek methods, regenerated from the three source files, are one and the same function: the model's *)
Theorem C09_seek_is_source : forall pos size off wh,
  let want := match pr_seek_pos size pos off wh with Ok p => Ok (p, p) | Err e => Err e end in
  ReaderOpenFileBase_seek pos size off wh = want /\ DPFSLevel3FileIO_seek pos size off wh = want /\ IVFCLevel4Reader_seek pos size off wh = want.
Proof.
  intros pos size off wh. cbv zeta. unfold ReaderOpenFileBase_seek, DPFSLevel3FileIO_seek, IVFCLevel4Reader_seek, pr_seek_pos.
  destruct (wh =? 0); [destruct (off <? 0); auto|]. destruct (wh =? 1); [auto|]. destruct (wh =? 2); auto.
Qed.
Print Assumptions C09_seek_is_source.

(* every such handle obeys the file contract over the view it shows, at every step of every history: reads return the slice of
   the view at the position (clamped to its end) and advance by what they return, seeks set the position they report, nothing
   changes the view *)
Theorem C09_reader_file : forall data,
  lawful (pr_ops (len data) (rof_fetch data)) (fun s => 0 <= pr_pos s) (fun _ => data) pr_pos.
Proof. exact reader_file_lawful. Qed.
Print Assumptions C09_reader_file.

Theorem C09_dpfs_file : forall pair size bs lv2, 0 < bs -> 0 < size -> len pair = 2 * size ->
  let view := active_view pair size bs (active_bit lv2) in
  lawful (pr_ops (len view) (lv3_file_read pair size bs lv2)) (fun s => 0 <= pr_pos s) (fun _ => view) pr_pos.
Proof. exact dpfs_file_lawful. Qed.
Print Assumptions C09_dpfs_file.

Theorem C09_ivfc_file : forall H tree master verify, 0 < lv4_bs tree -> 0 < lv4_size tree ->
  let view := lv4_view H tree master verify in
  lawful (pr_ops (len view) (lv4_read H tree master verify)) (fun s => 0 <= pr_pos s) (fun _ => view) pr_pos.
Proof. exact ivfc_file_lawful. Qed.
Print Assumptions C09_ivfc_file.

(* composition, for EVERY handle kind above (window, reader-owned file, DPFS level-3 file, level-4 view: each is a lawful file by the
   theorems above): consecutive reads in ANY chunking (sizes negative, zero, over-long, past the end) return, glued, ONE slice of
   the view starting at the initial position, and leave the position behind it; the view is unchanged *)
Theorem C09_chunks_glue : forall (S : Type) (U : fileops S) inv content pos, lawful U inv content pos ->
  forall ns s, inv s ->
  exists t s', reads U s ns = Some (t, s') /\
    t = slice (content s) (pos s) (len t) /\ pos s' = pos s + len t /\ content s' = content s /\ inv s'.
Proof. intros S U inv content pos L ns. exact (lawful_chunks_glue U inv content pos L ns). Qed.
Print Assumptions C09_chunks_glue.

(* a window read from its start in any chunks and then to the end: exactly the bytes [off, off+sz) of the base file (cut at the
   end of the base file), not one byte more or less *)
Theorem C09_window_chunks_whole : forall off sz, 0 <= off -> 0 <= sz -> forall ns w, win_inv off w -> wseek w = 0 ->
  exists w', reads (window_ops off sz) w (ns ++ [-1]) = Some (slice (fdata (wbase w)) off sz, w').
Proof.
  intros off sz Ho Hs ns w Hi Hp.
  exact (lawful_chunks_then_rest_is_whole (window_ops off sz) (win_inv off) (win_content off sz) wseek (window_lawful off sz Ho Hs) ns w Hi Hp).
Qed.
Print Assumptions C09_window_chunks_whole.

Example C09_chunks_example :
  reads (window_ops 5 20) (mkWin (mkFile (map Z.of_nat (seq 0 40)) 33) 0) [3; 0; 9; 100; 2; -1]
  = Some (map Z.of_nat (seq 5 20), mkWin (mkFile (map Z.of_nat (seq 0 40)) 25) 20).
Proof. vm_compute. reflexivity. Qed.
