#!/usr/bin/env python3
"""tools/collect_seeds.py <prop> <n> [extra props...]: re-confirm one seeded change against the current /repo HEAD (scratch worktree)
and store it as /verif/seeded/<prop>-<n>/ {patch.diff, demo.py, note.txt, meta.json}."""
import json, os, re, shutil, subprocess, sys
args = sys.argv[1:]
src_root, as_n = '/tmp/seed_%s', None
while '--src' in args:
    i = args.index('--src'); src_root = args[i + 1]; del args[i:i + 2]
while '--as' in args:
    i = args.index('--as'); as_n = args[i + 1]; del args[i:i + 2]
prop, n = args[0], args[1]
extra = args[2:]
src = ((src_root % prop) + '/' + n) if src_root != 'KEPT' else ''
n = as_n or n
if src_root == 'KEPT':
    src = f'/verif/seeded/{prop}-{n}'          # re-confirm a change that is already kept (after fix: commits moved HEAD)
out = subprocess.run(['/verif/tools/try_seed.sh', prop, src, 'quick'] + extra, capture_output=True, text=True).stdout.strip()
m = re.search(r'tests=\[(.*?)\] demo_clean=(\d+) demo_mut=(\d+) checks:(.*)$', out)
dst = f'/verif/seeded/{prop}-{n}'
os.makedirs(dst, exist_ok=True)
for f in ('patch.diff', 'demo.py', 'note.txt'):
    if os.path.exists(os.path.join(src, f)) and os.path.abspath(src) != os.path.abspath(dst):
        shutil.copy(os.path.join(src, f), os.path.join(dst, f))
meta = dict(property=prop, seed=int(n), raw=out)
if m:
    checks = {}
    for c in re.finditer(r'\[(C\d+) rc=(\d+) ([^\]]*)\]', m.group(4)):
        checks[c.group(1)] = dict(exit=int(c.group(2)), violation_line=bool(c.group(3).strip()),
                                  found_input='no-failing-input-found' not in c.group(3))
    diff = open(os.path.join(dst, 'patch.diff')).read()
    meta.update(tests=m.group(1), tests_pass='47 passed' in m.group(1), demo_exit_on_clean_tree=int(m.group(2)), demo_exit_on_changed_tree=int(m.group(3)),
                files=sorted(set(re.findall(r'^\+\+\+ b/(\S+)', diff, re.M))), checks=checks,
                caught_by=[k for k, v in checks.items() if v['exit'] == 1 and v['violation_line']],
                note=open(os.path.join(dst, 'note.txt')).read() if os.path.exists(os.path.join(dst, 'note.txt')) else '',
                how='written by a fresh sub-agent that saw only the property text and a scratch worktree; confirmed here on a scratch worktree of '
                    'the current HEAD: patch applies, the 47 tests pass, the demo exits 0 without and 1 with the change, the listed checks report it')
json.dump(meta, open(os.path.join(dst, 'meta.json'), 'w'), indent=1)
print(prop, n, 'caught_by', meta.get('caught_by'), 'tests', meta.get('tests_pass'), 'demo', meta.get('demo_exit_on_clean_tree'), meta.get('demo_exit_on_changed_tree'), '' if m else out)
