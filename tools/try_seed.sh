#!/bin/bash
# tools/try_seed.sh <prop> <dir-with-patch.diff-and-demo.py> [tier] [extra props...]
# Trial of one seeded change against a scratch checkout (never /repo): confirms the change (tests pass, demo fails on it,
# demo passes without it) and runs the property's check on it.  Output: one summary line.
P=$1; D=$2; TIER=${3:-quick}; shift 3 2>/dev/null
WT=$(mktemp -d /tmp/trial_${P}_XXXX); OUT=$(mktemp -d /tmp/trialout_${P}_XXXX)
git -C /repo worktree add -q --detach $WT HEAD >/dev/null 2>&1 || { echo "worktree failed"; exit 2; }
cd $WT
export PYTHONDONTWRITEBYTECODE=1
clean_demo=$(PYTHONPATH=$WT timeout 300 /venv/bin/python $D/demo.py >/dev/null 2>&1; echo $?)
if ! git apply $D/patch.diff 2>/dev/null; then echo "$P $(basename $D): PATCH-DOES-NOT-APPLY"; git -C /repo worktree remove --force $WT; rm -rf $OUT; exit 2; fi
tests=$(timeout 900 /venv/bin/python -m pytest -q -p no:cacheprovider --timeout=900 2>&1 | tail -1)
mut_demo=$(PYTHONPATH=$WT timeout 300 /venv/bin/python $D/demo.py 2>&1 | grep -m1 "BROKEN" | cut -c1-160; exit ${PIPESTATUS[0]})
mut_rc=$(PYTHONPATH=$WT timeout 300 /venv/bin/python $D/demo.py >/dev/null 2>&1; echo $?)
res=""
for Q in $P "$@"; do
  o=$(PYCTR_REPO=$WT VERIF_OUT=$OUT timeout 3000 /verif/check $Q --tier $TIER 2>&1); rc=$?
  v=$(echo "$o" | grep -m1 "^VIOLATION" | cut -c1-200)
  res="$res [$Q rc=$rc ${v}]"
done
echo "$P $(basename $D): tests=[$tests] demo_clean=$clean_demo demo_mut=$mut_rc checks:$res"
cd /; git -C /repo worktree remove --force $WT; rm -rf $OUT
