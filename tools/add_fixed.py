#!/usr/bin/env python3
"""tools/add_fixed.py <prop> <commit> <signature> <text...>: append a kind=fixed entry to KNOWN_FINDINGS.json (done by hand after a fix: commit,
never by a check)."""
import json, sys
prop, commit, sig = sys.argv[1:4]
text = ' '.join(sys.argv[4:])
p = '/verif/KNOWN_FINDINGS.json'
d = json.load(open(p))
d['entries'].append(dict(kind='fixed', property=prop, commit=commit, signature=sig, text=f'fixed: property={prop} {commit} {text}'))
json.dump(d, open(p, 'w'), indent=1)
print(len(d['entries']))
