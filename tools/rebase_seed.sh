#!/bin/bash
# tools/rebase_seed.sh <seeded-dir>: a seeded change whose patch no longer applies to /repo HEAD (a later fix: commit touched the same lines)
# is carried over by a three-way merge on a scratch worktree; the patch file is rewritten only if the merge is clean.
D=$1
WT=$(mktemp -d /tmp/rebase_XXXX)
git -C /repo worktree add -q --detach $WT HEAD || exit 2
cd $WT
if git apply --check $D/patch.diff 2>/dev/null; then echo "$(basename $D): applies"; cd /; git -C /repo worktree remove --force $WT; exit 0; fi
if git apply --3way $D/patch.diff >/dev/null 2>&1 && ! git diff --name-only --diff-filter=U | grep -q .; then
  git diff HEAD > $D/patch.diff.new && mv $D/patch.diff.new $D/patch.diff && echo "$(basename $D): rebased"
else
  echo "$(basename $D): CONFLICT"; git diff --diff-filter=U | head -60
fi
cd /; git -C /repo worktree remove --force $WT
