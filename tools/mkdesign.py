#!/usr/bin/env python3
"""Assembles /verif/DESIGN.md: the hand-written parts below + per-property sections built from harness/mkmanifest.py (what is
claimed), dyn/*_props.v (the theorem names), KNOWN_FINDINGS.json (repairs, findings) and seeded/*/meta.json (which checks catch
which seeded change).  Run after changing any of those: python3 tools/mkdesign.py"""
import glob
import json
import os
import re
import sys

sys.path.insert(0, '/verif')
from harness import mkmanifest as MM     # noqa

HEAD = open('/verif/tools/design_head.md').read()
TAIL = open('/verif/tools/design_tail.md').read()
PER = json.load(open('/verif/tools/design_props.json'))

props = {}
for l in open('/verif/properties.jsonl'):
    d = json.loads(l)
    props[d['id']] = d
kf = json.load(open('/verif/KNOWN_FINDINGS.json'))['entries']
seeds = {}
for m in sorted(glob.glob('/verif/seeded/*/meta.json')):
    d = json.load(open(m))
    seeds.setdefault(d['property'], []).append(d)

out = [HEAD]
out.append('## 7. Per-property sections (as built)\n')
for pid in sorted(props):
    p = props[pid]
    c = MM.CHECKS.get(pid)
    out.append(f'### {pid} — {p["title"]}\n')
    if not c:
        out.append('Not claimed.\n')
        continue
    extra = PER.get(pid, {})
    th = re.findall(r'^Theorem\s+(\w+)', open(f'/verif/dyn/{pid}_props.v').read(), re.M)
    if extra.get('code'):
        out.append('**Code.** ' + extra['code'] + '\n')
    if extra.get('model'):
        out.append('**Model / proofs.** ' + extra['model'] + '\n')
    out.append('**Theorems** (`dyn/%s_props.v`, each closed by `exact`/a two-line proof from the lemma files, `Print Assumptions` beneath): ' % pid
               + ', '.join('`%s`' % t for t in th) + '.\n')
    out.append('**What is claimed.** ' + c['text'] + '\n')
    out.append('**Partial aspects / trusted.** ' + c['note'] + '\n')
    if extra.get('deviation'):
        out.append('**Deviation from the plan written before the code.** ' + extra['deviation'] + '\n')
    fx = [e for e in kf if e['property'] == pid]
    if fx:
        out.append('**Defects of Desterly/pyctr this check exposed.**\n')
        for e in fx:
            out.append(('* KNOWN FINDING (listed, not repaired): ' if e['kind'] == 'finding' else '* ') + e['text'])
        out.append('')
    sd = seeds.get(pid, [])
    if sd:
        out.append('**Seeded changes** (`seeded/%s-N/`; each passes the 47 tests; written by a sub-agent that saw only the property text):\n' % pid)
        for d in sd:
            first = (d.get('note') or '').strip().split('\n')[0][:230]
            out.append(f'* {pid}-{d["seed"]} ({", ".join(d.get("files", []))}): {first} — caught by {", ".join(d.get("caught_by") or ["NOTHING"])}'
                       + ('' if all(v.get('found_input', True) for v in d.get('checks', {}).values()) else ' (no failing input found by the search)'))
        out.append('')
import subprocess
fixes = subprocess.check_output(['git', '-C', '/repo', 'log', '--reverse', '--format=%h %s']).decode().splitlines()
fixes = ['* `%s` %s' % tuple(l.split(' ', 1)) for l in fixes if ' fix:' in l]
chk = '  (not run yet)'
if os.path.exists('/verif/tools/coqchk_axioms.txt'):
    chk = ''.join('  ' + l for l in open('/verif/tools/coqchk_axioms.txt'))
out.append(TAIL.replace('{{FIXES}}', '\n'.join(fixes)).replace('{{COQCHK}}', chk.rstrip()))
open('/verif/DESIGN.md', 'w').write('\n'.join(out))
print('DESIGN.md', sum(len(x) for x in out), 'bytes')
