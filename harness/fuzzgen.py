"""C19 input generators: valid files of every format (from the independent builders) with every offset / link / count / size /
exponent field retargeted, singly and in pairs, plus plain random byte strings."""
import io
import random
import struct

from . import pyenv, ncchcommon as nc, savecommon as sv
from .builders import romfs as RB, exefs as XB, pack as P, lzss as LZ, nand as NB


def values_for(rng, width, cur, offset, size, others):
    top = (1 << (8 * width)) - 1
    v = [0, 1, 2, 3, offset, top, top - 1, top >> 1, (top >> 1) + 1, size, max(0, size - 1), size + 1, cur + 1, max(0, cur - 1), cur * 2,
         cur ^ 0x80, 0x18, 0x20, 0x28, 0x10000, 0x7FFFFFFF, rng.getrandbits(8 * width), rng.randrange(0, max(1, size))]
    v += [o for o in others[:6]]
    if width == 8:
        v += [1 << 63, 1 << 62, (1 << 32) - 1, 1 << 32, 1 << 40]
    if width == 1:
        v += [4, 5, 8, 9, 12, 16, 31, 32, 63, 64, 127, 128, 255]
    if width == 4:
        v += [31, 32, 33, 62, 63, 64, 1 << 24, 1 << 31]
    out = []
    for x in v:
        x &= top
        if x != cur and x not in out:
            out.append(x)
    return out


def patch(data, off, width, value, big=False):
    b = bytearray(data)
    if off + width <= len(b):
        b[off:off + width] = value.to_bytes(width, 'big' if big else 'little')
    return bytes(b)


def word_fields(lo, hi, width=4, step=None):
    step = step or width
    return [(o, width, f'word@{o:#x}') for o in range(lo, hi - width + 1, step)]


def seeds(rng, kind):
    """-> list of (name, image bytes, fields [(off, width, descr)], big-endian?, patcher or None)"""
    out = []
    if kind == 'romfs':
        for t in range(3):
            tree = RB.random_tree(rng, max_depth=3, max_children=4, max_file=120, unicode_names=False)
            lv3, info = RB.pack_lv3(tree)
            out.append((f'lv3#{t}', lv3, info['fields'] + info['hash_fields'], False, None))
            img, winfo = RB.wrap_ivfc(lv3, block_log2=rng.choice([9, 12]))
            f2 = winfo['fields'] + [(o + winfo['lv3_offset'], w, d) for o, w, d in info['fields']]
            out.append((f'ivfc#{t}', img, f2, False, None))
        # structured multi-field retargetings: every directory is BOTH first child and next sibling of its predecessor (a DAG with 2^n
        # paths), a two-entry sibling cycle, a child pointing at its own parent
        n = 48
        tree = {'d%02d' % i: {} for i in range(n)}
        lv3, info = RB.pack_lv3(tree)
        offs = [info['dirs']['/d%02d' % i] for i in range(n)]
        dm = next(o for o, w, d in info['fields'] if d == 'hdr.dirmeta.offset')
        dirmeta_off = int.from_bytes(lv3[dm:dm + 4], 'little')

        def put(b, entry, field, value):
            b[dirmeta_off + entry + field:dirmeta_off + entry + field + 4] = value.to_bytes(4, 'little')
        b = bytearray(lv3)
        put(b, 0, 8, offs[0])
        for i in range(n - 1):
            put(b, offs[i], 4, offs[i + 1])
            put(b, offs[i], 8, offs[i + 1])
        out.append(('lv3-dag', bytes(b), [], False, None))
        b = bytearray(lv3)
        put(b, offs[0], 4, offs[1])
        put(b, offs[1], 4, offs[0])
        out.append(('lv3-cycle2', bytes(b), [], False, None))
        b = bytearray(lv3)
        put(b, offs[3], 8, 0)
        out.append(('lv3-child-is-root', bytes(b), [], False, None))
        # a directory entry whose name has length 0 (it would be indistinguishable from its parent), a name length running off the table
        tree = {'d1': {'x': b'1', 'e': {'y': b'2'}}, 'd2': {}, 'f': b'abc'}
        lv3, info = RB.pack_lv3(tree)
        for f in [f for f in info['fields'] if f[2].startswith('dir[') and f[2].endswith('.name_length') and f[2] != 'dir[/].name_length'][:3]:
            for v in (0, 1, 0xFFFFFFFF):
                out.append((f'lv3-{f[2]}:={v:#x}', patch(lv3, f[0], 4, v), [], False, None))
        # directory names made of separators only ('/', '//', '///': such a directory resolves back to its parent, a walk never ends) and
        # names with a separator inside them
        for nm in ('/', '//', '///', 'a/b', '/a', 'a/'):
            lv3, info = RB.pack_lv3({nm: {'x': b'1'}, 'f': b'abc'})
            out.append((f'lv3-dirname-{nm!r}', lv3, [], False, None))
            lv3, info = RB.pack_lv3({'d': {nm: {}}})
            out.append((f'lv3-nested-dirname-{nm!r}', lv3, [], False, None))
        # one file entry whose 64-bit data offset lies where the file underneath refuses to go (>= 2^63), its siblings intact: the
        # entry cannot be read, the others can
        tree = {'a.bin': b'A' * 40, 'b.bin': b'B' * 50, 'c.bin': b'C' * 60, 'd': {'e.bin': b'E' * 70}}
        lv3, info = RB.pack_lv3(tree)
        wide = [f for f in info['fields'] if f[2].endswith('.data_offset')]
        for k, f in enumerate(wide[:2]):
            for v in (1 << 63, (1 << 64) - 1):
                b = bytearray(lv3)
                b[f[0]:f[0] + 8] = v.to_bytes(8, 'little')
                out.append((f'lv3-unreadable-entry{k}-{v:#x}', bytes(b), [], False, None))
    elif kind == 'exefs':
        for t in range(2):
            files = [(nm, pyenv.rbytes(rng, rng.choice([0, 5, 0x200, 0x233]))) for nm in rng.sample(['.code', 'icon', 'banner', 'logo', 'x'], rng.randrange(1, 5))]
            files = [(n, (b'SMDH' + bytes(0x36BC)) if n == 'icon' else d) for n, d in files]
            img = XB.build_exefs(files)[0]
            out.append((f'exefs#{t}', img, [(16 * i + o, 4, f'entry{i}.{n}') for i in range(10) for o, n in ((8, 'offset'), (12, 'size'))] + word_fields(0, 0xA0, 4, 16), False, None))
    elif kind == 'ncch':
        for t in range(3):
            spec = nc.gen_spec(rng, small=True)
            spec['mode'] = rng.choice(['nocrypto', 'normal', 'fixed']) if t else 'normal'     # (the first one encrypted: its fully-decrypted view is assembled, not a window)
            spec['uses_seed'] = False
            spec['b9seed'] = 777
            image, info, kwargs = nc.build(spec)
            out.append((f'ncch#{t}', image, word_fields(0x100, 0x200) + [(0x188 + i, 1, f'flag{i}') for i in range(8)], False, None))
            if t == 0:
                # the declared size of the container (media units, header offset 0x104) far beyond what the file holds
                for v in (0x00080000, 0x7FFFFFFF, 0xFFFFFFFF):
                    out.append((f'ncch#0-content-size-{v:#x}', patch(image, 0x104, 4, v), [], False, None))
    elif kind in ('cia', 'cci'):
        pyenv.install_fake_boot9(777)
        from pyctr.crypto import engine as E
        ckx = int.from_bytes(E._b9_keyblob['retail'][0x1C0:0x1D0], 'big')
        for t in range(2):
            n1 = P.minimal_ncch(0x400 * rng.choice([1, 2]))
            if kind == 'cia':
                data = n1 + b'\0' * ((-len(n1)) % 16)
                conts = [dict(id=1, index=0, data=data, encrypted=rng.random() < 0.5), dict(id=7, index=rng.choice([1, 3]), data=data, encrypted=False)]
                img, info = P.build_cia(conts, title_id=0x0004000000012300, titlekey=bytes(16), common_key_x=ckx)
                be = [d for o, w, d in info['fields'] if d.startswith(('tmd.', 'ticket.'))]
                out.append((f'cia#{t}', img, info['fields'], 'mixed', None))
                if t == 0:
                    # a content that is a whole NCCH (extended header, ExeFS, RomFS) behind the title-key layer: cut short, its header
                    # points past what is there
                    spec = nc.gen_spec(rng, small=True)
                    spec.update(mode='nocrypto', uses_seed=False, b9seed=777, extheader=True, romfs=True)
                    if not spec['exefs']:
                        spec['exefs'], spec['slots'] = [['.code', 0x210]], [0]
                    image = nc.build(spec)[0]
                    data = image + b'\0' * ((-len(image)) % 16)
                    conts = [dict(id=1, index=0, data=data, encrypted=True)]
                    img, info = P.build_cia(conts, title_id=0x0004000000012300, titlekey=bytes(16), common_key_x=ckx)
                    out.append(('cia#ncch', img, info['fields'], 'mixed', None))
            else:
                img, info = P.build_cci({0: n1, rng.choice([1, 6, 7]): n1})
                out.append((f'cci#{t}', img, info['fields'] + word_fields(0x100, 0x120), False, None))
    elif kind == 'tmd':
        for t in range(2):
            conts = [dict(id=i + 1, index=i, data=pyenv.rbytes(rng, 32), encrypted=False) for i in range(rng.choice([1, 3, 5]))]
            tmd = P.build_tmd(0x0004000000012300, P._tmd_chunks_from_contents(conts) if hasattr(P, '_tmd_chunks_from_contents') else conts)
            tmd = tmd[0] if isinstance(tmd, tuple) else tmd
            out.append((f'tmd#{t}', tmd, P.tmd_fields(tmd), True, None))
    elif kind == 'smdh':
        img = bytearray(0x36C0)
        img[0:4] = b'SMDH'
        for i in range(0x8, 0x2008, 2):
            img[i] = 0x41 if rng.random() < 0.5 else 0
        out.append(('smdh#0', bytes(img), word_fields(0, 0x10) + word_fields(0x2008, 0x2040), False, None))
    elif kind == 'nandhdr':
        table = [(1, 1, 0, 0x58800), (4, 2, 0x58800, 0x180), (3, 2, 0x58980, 0x2000), (3, 2, 0x5A980, 0x2000), (1, 2, 0x5C980, 0x17AE80), (0, 0, 0, 0), (0, 0, 0, 0), (0, 0, 0, 0)]
        img = NB.header_bytes(pyenv.rbytes(rng, 0x100), 0x200000, table, pyenv.rbytes(rng, 94), pyenv.rbytes(rng, 0x42))
        out.append(('nandhdr#0', img, word_fields(0x100, 0x160) + [(0x110 + i, 1, f'fs{i}') for i in range(8)] + [(0x118 + i, 1, f'crypt{i}') for i in range(8)], False, None))
    elif kind in ('disa', 'diff'):
        for t in range(4):
            g = sv.gen_geom(rng, small=True)
            g['kind'] = kind
            if t == 3:
                # blocks of 4 KiB and a payload of a few blocks: every hash level is a single block, so that no walk up the tree runs
                # off a hash table when a size field claims more than is there
                for p_ in g['parts']:
                    p_.update(bl=(12, 12, 12, 12), size=0x2000 + rng.choice([0, 0x123]), db=(2, 2, 12), lv3_tail=0)
            img, info = sv.build(g)[:2]
            from .builders import save as SB
            out.append((f'{kind}#{t}', img, info['fields'], False, lambda image, f, v, info=info, SB=SB: SB.retarget(image, info, f[0], v)))
            if t == 3:
                # fixed inputs of every run: the size fields of that geometry claiming far more than the file holds
                for f in [f for f in info['fields'] if f[2].endswith(('ivfc.lv4_size', 'dpfs.lv3_size'))]:
                    for v in (0x7FFFFFFF, 1 << 40, 1 << 62):
                        try:
                            out.append((f'{kind}#3-{f[2]}:={v:#x}', SB.retarget(img, info, f[0], v), [], False, None))
                        except Exception:
                            pass
    elif kind == 'config':
        from pyctr.type.config.save import ConfigSaveReader, KNOWN_BLOCKS
        c = ConfigSaveReader()
        for bid in rng.sample(sorted(KNOWN_BLOCKS), 12):
            c.set_block(bid, pyenv.rbytes(rng, KNOWN_BLOCKS[bid]['size']), KNOWN_BLOCKS[bid]['flags'], strict=True)
        img = c.to_bytes()
        out.append(('config#0', img, [(0, 2, 'count'), (2, 2, 'data_offset')] + [(4 + 12 * i + o, w, f'entry{i}.{n}') for i in range(12) for o, w, n in ((0, 4, 'id'), (4, 4, 'offset_or_data'), (8, 2, 'size'), (10, 2, 'flags'))], False, None))
    elif kind == 'seeddb':
        n = 5
        img = struct.pack('<I', n) + bytes(12) + b''.join(struct.pack('<Q', rng.getrandbits(64)) + pyenv.rbytes(rng, 16) + bytes(8) for _ in range(n))
        out.append(('seeddb#0', img, [(0, 4, 'count')] + word_fields(4, 0x10), False, None))
    elif kind == 'lzss':
        for t in range(3):
            d = bytes(rng.choice(b'abc') for _ in range(rng.choice([60, 300, 1200])))
            code, info = LZ.compress(d, random.Random(t), greedy=True)
            if code:
                L = len(code)
                out.append((f'lzss#{t}', code, [(L - 8, 4, 'off_size_comp'), (L - 8, 3, 'comp_size'), (L - 5, 1, 'header_len'), (L - 4, 4, 'add_size')] +
                            [(o, 1, f'stream@{o}') for o in range(max(0, L - 40), L - 8)] + [(o, 2, f'word@{o}') for o in range(0, max(0, L - 9), 7)], False, None))
    return out


KINDS = ['romfs', 'exefs', 'ncch', 'cia', 'cci', 'tmd', 'smdh', 'nandhdr', 'disa', 'diff', 'config', 'seeddb', 'lzss']


def is_big(flag, descr):
    if flag == 'mixed':
        return descr.startswith(('tmd.', 'ticket.'))
    return bool(flag)


def tasks(rng, budget, exhaustive=False):
    """yield (key, kind, data).  key is JSON-able: [kind, seed name, mutation description]"""
    per_kind = max(1, budget // (len(KINDS) + 1))
    for kind in KINDS:
        ss = seeds(rng, kind)
        muts = []
        for name, img, fields, big, patcher in ss:
            yield ([kind, name, 'valid'], kind, img)
            others = []
            for o, w, d in fields:
                if o + w <= len(img):
                    others.append(int.from_bytes(img[o:o + w], 'big' if is_big(big, d) else 'little'))
            for f in fields:
                o, w, d = f
                if o + w > len(img):
                    continue
                cur = int.from_bytes(img[o:o + w], 'big' if is_big(big, d) else 'little')
                for v in values_for(rng, w, cur, o, len(img), [x for x in others if x != cur]):
                    muts.append((name, img, f, v, big, patcher))
        if not exhaustive:
            rng.shuffle(muts)
            muts = muts[:per_kind]
        for name, img, f, v, big, patcher in muts:
            try:
                data = patcher(img, f, v) if patcher else patch(img, f[0], f[1], v, is_big(big, f[2]))
            except Exception:
                data = patch(img, f[0], f[1], v, is_big(big, f[2]))
            yield ([kind, name, f'{f[2]}@{f[0]:#x}:={v:#x}'], kind, data)
        # truncated files: every reader meets a file that ends early (cut at field boundaries, in the middle, near the end)
        for name, img, fields, big, patcher in ss:
            cuts = sorted({len(img) - 1, len(img) - 16, len(img) // 2, len(img) * 3 // 4, 0x200, 0x1FF} |
                          {f[0] + f[1] for f in rng.sample(fields, min(len(fields), 3))} |
                          {rng.randrange(1, max(2, len(img))) for _ in range(2 if not exhaustive else 12)})
            for cut in cuts:
                if 0 < cut < len(img):
                    yield ([kind, name, f'truncated@{cut:#x}'], kind, img[:cut])
        # pairs
        for _ in range(per_kind // 4):
            if not ss:
                break
            name, img, fields, big, patcher = rng.choice(ss)
            fs = [f for f in fields if f[0] + f[1] <= len(img)]
            if len(fs) < 2:
                continue
            f1, f2 = rng.sample(fs, 2)
            data = img
            desc = []
            for f in (f1, f2):
                cur = int.from_bytes(data[f[0]:f[0] + f[1]], 'big' if is_big(big, f[2]) else 'little')
                v = rng.choice(values_for(rng, f[1], cur, f[0], len(img), []))
                try:
                    data = patcher(data, f, v) if patcher else patch(data, f[0], f[1], v, is_big(big, f[2]))
                except Exception:
                    data = patch(data, f[0], f[1], v, is_big(big, f[2]))
                desc.append(f'{f[2]}:={v:#x}')
            yield ([kind, name, ' & '.join(desc)], kind, data)
    # plain random byte strings (and random strings behind a valid magic)
    magics = {'romfs': b'IVFC\0\0\1\0', 'smdh': b'SMDH', 'disa': b'', 'diff': b'', 'tmd': b'\0\1\0\4'}
    for i in range(per_kind):
        kind = rng.choice(KINDS)
        n = rng.choice([0, 1, 8, 64, 0x200, 0x1000, rng.randrange(0, 65536)])
        data = magics.get(kind, b'') + pyenv.rbytes(rng, n)
        yield ([kind, 'random', f'seed{i}:{n}'], kind, data)
