"""Regenerates /verif/MANIFEST.json from the table below (kept next to the checks so it stays current)."""
import json

CHECKS = {
 'C08': dict(
  text='Coq theorems over kernels regenerated from engine.py (rol is a 128-bit rotation for all operands; both scramblers equal the formula incl. carries; to_bytes cannot overflow) and over an executable model of the keyslot state machine (coherence after updating/refresh, persistence of direct normal keys, frame, endianness, factories) for all histories; model tied to the code by a correspondence run of the extracted model against CryptoEngine.',
  note='Trusted: Coq kernel, translator py2gallina.py, extraction (ExtrOcamlBasic) + OCaml driver, hand model Engine.v (tie 2), synthetic bootROM blobs; clone isolation and cipher factories are checked on the implementation only (the functional model has no aliasing).',
  technique='Rocq/Coq proof over regenerated kernels + model/implementation correspondence'),
 'C09': dict(
  text='Coq theorem C09_window: every step of every seek/read/write/tell history with arbitrary integer arguments on the SubsectionIO model obeys the sub-file contract (bytes only from the window, counts, positions, write confinement); pure parts of SubsectionIO regenerated from source and proved equal to the model; extracted model run against the implementation; the other view classes are checked against the same contract by a direct oracle (sampled).',
  note='Proof covers SubsectionIO over an in-memory base file (PyFile model of io.BytesIO, conformance by correspondence). Merged files, CloseWrapper, nested windows: oracle on sampled histories only (partial).',
  technique='Rocq/Coq proof (induction over operation histories) + regenerated kernels + correspondence'),
 'C01': dict(
  text='Coq theorems for all keys/counters/contents and all seek/read(/write) histories: each read of the CTR wrapper model returns the slice of the whole-stream decryption at the position reported before it and advances by the bytes returned -- 3DS mode by an invariant on the cached cipher (over a plain file and over a window), DSi mode by the block-reversal lemma (any lawful file); AES is an uninterpreted function; arithmetic leaves and the keyslot<4 mode tests are regenerated from engine.py; the extracted model is run against create_ctr_io with AES answered by PyCryptodome.',
  note='Trusted: Coq kernel, translator, extraction + driver, hand models PyFile/Window/Cipher/CtrIO (tie 2), PyCryptodome as the AES oracle. Precondition counter + blocks < 2^128 as in the property.',
  technique='Rocq/Coq refinement proof (cached-cipher invariant, induction over histories) + regenerated kernels + correspondence'),
 'C12': dict(
  text='Coq theorems: from any reachable wrapper state a write never errs, leaves bytes outside [pos,pos+k) untouched and updates the decrypted view like an ordinary file (3DS mode over plain file and window incl. truncation, DSi mode over plain file); all read/write/seek interleavings obey the step contract (no TypeError-style failures); the gap case (write beginning beyond EOF) is refuted on the model and recorded as a known finding; extracted model and an independent whole-stream oracle run against the implementation.',
  note='Trusted as C01. Partial: positive theorem excludes writes that begin beyond the end of a growable file (C12_gap_extension_refuted, KNOWN_FINDINGS).',
  technique='Rocq/Coq invariant proof over operation histories + refutation witness + correspondence'),
 'C02': dict(
  text='Coq theorems for all keys, IVs, block-aligned ciphertexts and all seek/read/tell histories: every read of the CBC wrapper model (at any position, incl. inside the first block, mid-block, at and beyond the end) returns the slice of the whole-stream CBC decryption and leaves the position at the end of the bytes returned, contents unchanged -- over a plain file and over a window; AES decryption is an uninterpreted function assumed only to return 16-byte blocks; the model calls only tell/seek/read on the underlying file; extracted model and PyCryptodome MODE_CBC oracle run against create_cbc_io with a write log on the base file.',
  note='Trusted: Coq kernel, translator (one leaf), extraction + driver, hand models PyFile/Window/Cipher/CbcIO (tie 2), PyCryptodome as the AES oracle. Section hypothesis length (D k b) = 16 (shown satisfiable by an Example).',
  technique='Rocq/Coq refinement proof (block algebra + I/O sequencing over lawful files) + correspondence'),
 'C07': dict(
  text='Coq theorem C07_alias over the _normalize_path regenerated from exefs.py: every stored name (not starting with "/" and not ending in ".bin") is reached by N, /N, N.bin and /N.bin, for all names, with str.lower uninterpreted; slot codec round trip and both rejects proved on the header model; extracted header parser run against ExeFSReader on valid and malformed headers; entries, aliases, missing names and entry bytes checked against an independent builder.',
  note='Trusted: Coq kernel, translator, extraction + driver, hand model Exefs.v (tie 2), independent builder. Partial: the header theorem is per 16-byte slot; entry bytes rely on C09 windows and are sampled here.',
  technique='Rocq/Coq proof over regenerated kernel + slot codec round trip + correspondence'),
 'C20': dict(
  text='Coq theorems about kernels regenerated from source: TitleVersion and ContentTypeFlags word round trips (all 65 536 words, all in-range triples), SMDH flag and region-lockout bit tables for every 32-bit word (bit reasoning), RGB565->RGB888 for all 65 536 colours, the pixel_offset expression equals Morton 8x8 tiling and is injective for both icon sizes (complete sweeps, bound in the statement), DIFI serialise-then-parse round trip for all field values. The remaining types of the property (AppTitle, whole SMDH images, config save, seed DB, NCSD header, IVFC/DPFS descriptors, LZSS with a reference backward compressor) are decided by direct round-trip oracles on generated values plus exhaustive pixel/colour/word sweeps on the implementation.',
  note='Partial: only the listed kernels have theorems; the other codecs are sampled (oracle). Trusted: Coq kernel (vm_compute for finite sweeps), translator, reference LZSS compressor.',
  technique='Rocq/Coq proofs over regenerated kernels (finite sweeps lifted by forallb_forall, bit lemmas, field-extraction lemmas) + round-trip oracles'),
 'C11': dict(
  text='Coq theorem C11_tamper over an executable model of TitleMetadataReader.load: for two inputs with the same signature type and header that both load with verification on, the info records and every chunk record covered by an info record are identical, or the loads exhibit two different inputs with equal SHA-256 (constructed; no collision-resistance assumption); records are determined by their 48-byte form; version/type word codecs swept completely on regenerated kernels; extracted model (hashlib as SHA-256 oracle) compared with the implementation on valid, corrupted and truncated inputs; parse/serialise round trips and a tamper sweep decided on the implementation against an independent builder.',
  note='Partial: no Coq theorem for __bytes__ (round trips are oracle-only, sampled; all 65 536 categories in thorough). Tamper theorem assumes both inputs contain all announced chunk records. Trusted: Coq kernel, extraction + driver, hand model Tmd.v (tie 2), translator for the word codecs, builder pack.py.',
  technique='Rocq/Coq proof with constructed collision witnesses + model/implementation correspondence + round-trip oracle'),
 'C03': dict(
  text='Coq theorems: the ExeFS crypto ranges built by load_sections tile the region for every entry table and, for sorted disjoint tables, label each byte "extra key" exactly when it lies in a non-icon/banner file; the merged ExeFS view (windows onto two whole-region CTR streams selected per range) equals the region plaintext for any AES (uninterpreted), one counter running continuously; the flag bits and the section counter expression are regenerated from source and proved against their bit-level meaning. Section views are CTR wrappers over windows (C01/C09). Plaintexts of every section under the crypto-method x seed x fixed-key x no-crypto x assume-decrypted product are decided against an independent builder.',
  note='Partial: keyslot selection / seed handling of __init__ are oracle-only (sampled product; full product in thorough). Trusted: Coq kernel, translator, extraction + driver, hand model Ncch.v (tie 2 against reader._exefs_crypto_ranges), builder ncch.py, synthetic bootROM blob.',
  technique='Rocq/Coq proofs (range partition/labelling by induction, merged-view refinement) + regenerated kernels + builder oracle'),
 'C04': dict(
  text='Coq theorem C04_fulldec_read over an executable model of the FullDecrypted branch of get_data (chunk classification, insertion-ordered grouping dictionary, header patch, head/tail trimming): for every well-formed region table and every (offset, length) the read equals the slice of one whole image, whose size is the declared content size; the grouping argument is proved for any classifier whose sections are chunk intervals. Extracted model run against get_data; seek/read histories around every section boundary, image size and the key-free re-parse decided against builder plaintexts.',
  note='Theorem assumes 0x200-aligned, pairwise disjoint regions inside the content (malformed tables: C19). Handle position bookkeeping is oracle-checked here (C09 covers the base class). Trusted: Coq kernel, extraction + driver, hand model NcchFull.v (tie 2), builder.',
  technique='Rocq/Coq refinement proof (run-grouping invariant over the chunk loop, trimming algebra) + correspondence + metamorphic re-parse'),
 'C05': dict(
  text='Coq theorems: the regenerated roundup is the least multiple >= x for every integer; the five regenerated section-offset expressions place each section at the next 64-byte boundary; the content-index loop lists content i exactly when bit (7 - i mod 8) of byte i/8 is set; content selection returns exactly the TMD records marked present and refuses an index without a record; the title key survives the ticket round trip whenever D inverts E; content regions lie back to back; content IV expression regenerated. Content views are CBC wrappers over windows (C02). Geometry, title key, active set, content views and nested readers (different keys, interleaved order) decided against independent CIA/NCCH builders.',
  note='Partial: key isolation between nested readers and the composition with nested NCCH readers are oracle-only. Trusted: Coq kernel, translator, hand model Cia.v (tie 2 by oracle), builders, synthetic bootROM blobs.',
  technique='Rocq/Coq proofs over regenerated kernels and the index/selection model + builder oracle'),
 'C06': dict(
  text='Coq theorems over an executable model of the RomFS metadata walk (iterate_dir with visited sets and table bounds) and path lookup: for EVERY pair of metadata byte strings the walk ends within fuel computed from the table sizes (it returns a tree or raises an entry/decode error; cyclic, repeated and out-of-table links are reported); case-insensitive lookups depend only on the lower-cased components, case-sensitive lookups find an entry named exactly as asked, missing components raise the not-found error; the IVFC level-3 offset expression is regenerated and proved for every block exponent. Extracted walk compared with the reader on valid images and on images with one retargeted link/length; listing, stat, walk, file bytes, case variants and error classes decided against an independent packer.',
  note='Partial: "walking a packed tree returns that tree" (C06_walk_pack) is oracle-only (generated trees), not a theorem. Trusted: Coq kernel, translator, extraction + driver, hand model Romfs.v (tie 2), packer romfs.py.',
  technique='Rocq/Coq proofs (fuel bound by a duplicate-free visited-set invariant, lookup lemmas) + correspondence on valid and corrupted tables + packer oracle'),
 'C10': dict(
  text='Coq theorems over the model of the NCSD partition-table loop: for every table of 32-bit entries the listed partitions are exactly the entries with a non-zero offset, at offset*0x200 with size*0x200; wrong magic and zero media id are refused; the CDN/SD content-file resolution rule lists a record iff a file with its lower- or upper-case id exists (others unaffected). Extracted table parser compared with CCIReader.sections. The same NCCHs packaged as CCI, CDN directory (three key-supply modes, name cases, MemoryFS/OS directories), plain SD title and SD-encrypted title (through SDRoot) are checked for listing, raw bytes and nested sections against independent builders.',
  note='Partial: the cross-packaging equality of nested readers is sampled (oracle); views rely on C02/C09/C14. Trusted: Coq kernel, extraction + driver, hand model Ncsd.v, builders pack.py / ncch.py / sdcommon.py, PyFilesystem2.',
  technique='Rocq/Coq proof of the table codec and resolution rule + correspondence + metamorphic builder oracle'),
 'C14': dict(
  text='Coq theorems about the sd_path_to_iv regenerated from engine.py (str.lower and SHA-256 uninterpreted): the counter is a function of the lower-cased, forward-slashed path only; for paths outside /backup it is the xor of the two halves of SHA-256 of the normalised path as NUL-terminated UTF-16LE; it is case-insensitive and separator-insensitive (under the stated hypotheses on lower); UTF-16LE encoding of scalar values is injective. setup_sd_key (accepted lengths, ID0) is modelled and run against the implementation. File views are CTR wrappers (C01/C12). Reads, writes, raw backing bytes after writes, ID0, root and opendir views on MemoryFS and OS directories are decided against an independent derivation.',
  note='Trusted: Coq kernel, translator, hand model Sd.v, independent derivation sdcommon.py, PyFilesystem2, Python str.lower/UTF-16. Hypotheses on lower: idempotent and commuting with the backslash replacement (Example with ASCII lower-casing).',
  technique='Rocq/Coq proofs over the regenerated kernel (+ UTF-16 injectivity) + correspondence + independent-derivation oracle'),
 'C17': dict(
  text='Coq theorems over an executable model of IVFCHashTree.get_block (per-level verification caches, deep verification; SHA-256 uninterpreted): any history of block requests on one tree object returns, for each request, the status that verification establishes from the file alone (cache invariant), a block reported valid has every hash on its path up to the master hash matching, an intact initialised chain is reported valid, and stored bytes are served only for valid blocks (filler otherwise). Extracted model compared with IVFCHashTree on hand-made trees with corruptions and blank hashes under random request histories. Whole DIFF/DISA containers: DPFS active view, verified level-4 view, single-bit corruption of data / hash levels / master hashes x prior read history, and the table-hash reject decided against an independent builder and verifier.',
  note='Partial: the DPFS bitmap selection and the container/descriptor parsing are oracle-only (the bit selector is modelled, not yet proved against a spec). File assumed static while a reader is open. Trusted: Coq kernel, extraction + driver, hand model Ivfc.v (tie 2), builder/verifier save.py.',
  technique='Rocq/Coq invariant proof over request histories + soundness/completeness of the status function + correspondence + corruption oracle'),
 'C18': dict(
  text='Coq theorem C18_write_consistent over an executable model of IVFCHashTree.write_data (any number of levels, SHA-256 uninterpreted with 32-byte digests): after a write of any data at any offset of a level of a fully consistent tree, the level holds the data laid over its previous contents, no level changes size and every block of every level up to it verifies against the updated hash levels and master hashes -- hence has an intact chain (C18_reopen_verifies), whatever block the write starts in. Extracted model compared with IVFCHashTree under write histories. Whole containers opened read-write: same-session read back, independent verification of the file, re-open with a fresh reader, untouched inactive copies and slack, CMAC for four schemes, read-only refusal.',
  note='Partial: DPFS copy selection under writes and the descriptor / table hash / CMAC update chain are oracle-only. Trusted: Coq kernel, extraction + driver, hand model IvfcWrite.v (tie 2), builder/verifier save.py, PyCryptodome CMAC.',
  technique='Rocq/Coq proof by induction over the hash levels (overlay/slice algebra) + correspondence + independent re-verification oracle'),
 'C16': dict(
  text='Coq theorems over a graph model of closing (objects = files, windows, crypto wrappers, handles, readers; edges = what close() closes, which closed flags the closed-check decorators test, what a transfer goes through): for ALL graphs and ALL histories the closed set is exactly what the closes reach (so order and repetition are irrelevant), closing changes nothing outside the closure, and once a reader that covers a handle was closed every later call on the handle raises. The decidable side conditions (reader covers every handle incl. handles of nested readers; closing a handle leaves siblings and reader answering; the file is in the reader closure iff the closefd rule says so and in no handle closure) are discharged by vm_compute on the graph read off the live objects of every configuration in this run (10 reader kinds + 7 wrapper kinds x object/path/filesystem source x closefd default/True/False). Close histories on the real objects are compared with the extracted model and, independently, with the property.',
  note='Handles are opened before the history; garbage collection is not modelled; NAND is exercised by C13 scenarios only. The per-class edge rules (harness/closegraph.py) are tied by the correspondence run. Trusted: Coq kernel, extraction + driver, closegraph rules, scenario matrix closecommon.py.',
  technique='Rocq/Coq proof over all close/use histories of an ownership graph + per-configuration side conditions by computation on graphs regenerated from the live objects + correspondence'),
}

NOT_YET = 'check not built yet in this session (work in progress; see DESIGN.md section 10 order of work)'


def main():
    checks = []
    for pid, c in sorted(CHECKS.items()):
        checks.append(dict(property_id=pid, quick_cmd=f'./check {pid} --tier quick', thorough_cmd=f'./check {pid} --tier thorough',
                           evidence_file=f'/verif/evidence/{pid}.json', replay_cmd_template=f'./check {pid} --replay {{path}}',
                           engine='coq-proof',
                           level_claimed=dict(category='proof', text=c['text'], design_ref='DESIGN.md section 7 ' + pid),
                           level_note=c['note'], technique=c['technique']))
    props = [json.loads(l)['id'] for l in open('/verif/properties.jsonl')]
    m = dict(version=1,
             setup_cmd='cd /verif/coq && coq_makefile -f _CoqProject -o Makefile && timeout 3000 make -j12 && cd /verif/ocaml && ./build.sh',
             hooks=dict(guard='PYCTR_VERIF',
                        enable='no source hooks: checks import /repo directly (PYTHONPATH=/repo) and patch module globals from the harness',
                        baseline_off_cmd='cd /repo && /venv/bin/python -m pytest -ra -q -p no:cacheprovider --timeout=900 --continue-on-collection-errors',
                        source_commits=[], add_only=True),
             engines=[dict(name='coq-proof', path='/verif/check', serves_properties=sorted(CHECKS),
                           kind_free_text='Coq 8.16 theorems over regenerated kernels and hand models; extracted OCaml model run against the implementation')],
             checks=checks,
             notes='See DESIGN.md. KNOWN_FINDINGS.json lists fixed defects and recorded findings.',
             not_applicable=[dict(property_id=p, reason=NOT_YET) for p in props if p not in CHECKS])
    json.dump(m, open('/verif/MANIFEST.json', 'w'), indent=1)


if __name__ == '__main__':
    main()
