"""C16 scenarios: every reader type x source kind x closefd, with the handles a caller can obtain from it.

A scenario is a dict
  reader   : the reader object
  base     : the caller's file object (source kind 'obj') or None
  own      : the file object pyctr opened itself (source kinds 'path' / 'fs'), taken from reader._file, or None
  handles  : name -> file-like handle obtained from the reader or from one of its nested readers
  nested   : name -> nested reader object
"""
import io
import os
import random
import shutil
import tempfile

from . import pyenv, ncchcommon as nc, savecommon as sv
from .builders import exefs as XB, romfs as RB, pack as P

READERS = ['romfs', 'exefs', 'exefs_lzss', 'ncch', 'ncch_special', 'ncch_plain', 'ncch_lzss', 'srl', 'cia', 'cci', 'cdn', 'sdtitle', 'disa', 'diff', 'nand']
WRAPPERS = ['w_ctr', 'w_twl', 'w_cbc', 'w_ctr_win', 'w_sub', 'w_merge', 'w_closewrap']
SOURCES = ['obj', 'path', 'fs']
CLOSEFD = [None, True, False]
B9SEED = 4242

_cache = {}


def _ncch_spec(special):
    rng = random.Random(77 if special else 78)
    return dict(b9seed=B9SEED, dseed=5, method=1 if special else 0, mode='normal', uses_seed=False,
                program_id=0x0004000000012300, partition_id=0x1122334455667788, extheader=True, logo=None, plain=0x10,
                exefs=[['.code', 0x210], ['icon', 0x36C0], ['banner', 0x100]], slots=[0, 1, 2], romfs=True,
                gaps={k: 0 for k in ('logo', 'plain', 'exefs', 'romfs', 'end')}, order=['logo', 'plain', 'exefs', 'romfs'])


def images():
    """small fixed containers (built once)"""
    if _cache:
        return _cache
    rng = random.Random(1)
    tree = {'a.txt': b'hello world', 'd': {'b.bin': bytes(range(200))}}
    lv3, _ = RB.pack_lv3(tree)
    _cache['romfs'], _ = RB.wrap_ivfc(lv3)
    _cache['exefs'] = XB.build_exefs([('icon', b'\x01' * 0x36C0), ('banner', b'\x02' * 0x80), ('.code', b'\x03' * 0x123)])[0]
    # a compressed .code: after decompress_code() the reader hands out '.code-decompressed' from memory
    from .builders import lzss as LZ
    plain = (b'abcabcabd' * 40 + bytes(range(64))) * 2
    code = LZ.compress(plain, None, greedy=True)[0]
    _cache['exefs_lzss'] = XB.build_exefs([('.code', code), ('banner', b'\x02' * 0x40)])[0]
    for special in (False, True):
        image, info, kwargs = nc.build(_ncch_spec(special))
        _cache['ncch_special' if special else 'ncch'] = image
    # an NCCH whose ExeFS holds a compressed .code: the nested ExeFS reader hands out '.code-decompressed' from memory
    lz = dict(_ncch_spec(False))
    lz['exefs_data'] = {'.code': code.hex()}
    lz['exefs'] = [['.code', len(code)], ['icon', 0x36C0], ['banner', 0x100]]
    for dseed in range(5, 60):
        lz['dseed'] = dseed
        image, info, kwargs = nc.build(lz)
        if any(k_ == 'file' for k_, _v in RB.flatten(info['romfs_tree']).values()):     # the RomFS needs a file to open a handle on
            break
    _cache['ncch_lzss'] = image
    # a DS(i) ROM header as far as SRLReader looks at it: 0x180 header bytes, unit code 0, an icon offset
    _cache['srl'] = bytes(0x68) + (0x200).to_bytes(4, 'little') + bytes(0x180 - 0x6C) + bytes(0x200 - 0x180) + bytes(0x2400)
    # an unencrypted NCCH: the files of its nested readers are windows stacked directly on the section windows
    _cache['ncch_plain'] = nc.build(dict(_ncch_spec(False), mode='nocrypto'))[0]
    from pyctr.crypto import engine as E
    pyenv.install_fake_boot9(B9SEED)
    ckx = int.from_bytes(E._b9_keyblob['retail'][0x1C0:0x1D0], 'big')
    ncch = _cache['ncch']
    data = ncch + b'\0' * ((-len(ncch)) % 16)
    tid = 0x0004000000012300
    titlekey = bytes(range(16))
    conts = [dict(id=1, index=0, data=data, encrypted=True), dict(id=2, index=1, data=data, encrypted=False)]
    _cache['cia'] = P.build_cia(conts, title_id=tid, titlekey=titlekey, common_key_x=ckx)[0]
    _cache['cci'] = P.build_cci({0: ncch, 1: ncch})[0]
    _cache['cdn'] = dict(conts=conts, tid=tid, titlekey=titlekey, ckx=ckx)
    g = sv.gen_geom(random.Random(3), small=True)
    g['kind'] = 'diff'
    _cache['diff'] = sv.build(g)[0]
    g = sv.gen_geom(random.Random(4), small=True)
    g['kind'] = 'disa'
    _cache['disa'] = sv.build(g)[0]
    return _cache


class Scenario:
    def __init__(self):
        self.reader = None
        self.base = None
        self.own = None
        self.handles = {}
        self.nested = {}
        self.tmp = None
        self.fsobj = None
        self.error = None

    def cleanup(self):
        for h in list(self.handles.values()) + list(self.nested.values()) + [self.reader, self.base]:
            try:
                if h is not None:
                    h.close()
            except Exception:
                pass
        if self.fsobj is not None:
            try:
                self.fsobj.close()
            except Exception:
                pass
        if self.tmp:
            shutil.rmtree(self.tmp, ignore_errors=True)


def _source(sc, source, name, data):
    """-> (positional file argument, extra kwargs)"""
    if source == 'obj':
        sc.base = io.BytesIO(data)
        return sc.base, {}
    if source == 'path':
        sc.tmp = tempfile.mkdtemp(prefix='pyctr_c16_', dir='/dev/shm' if os.path.isdir('/dev/shm') else None)
        p = os.path.join(sc.tmp, name)
        with open(p, 'wb') as f:
            f.write(data)
        return p, {}
    from fs.memoryfs import MemoryFS
    sc.fsobj = MemoryFS()
    sc.fsobj.writebytes('/' + name, data)
    return '/' + name, dict(fs=sc.fsobj)


def _ncch_handles(sc, r, prefix=''):
    from pyctr.type.ncch import NCCHSection
    sc.handles[prefix + 'sec_exthdr'] = r.open_raw_section(NCCHSection.ExtendedHeader)
    sc.handles[prefix + 'sec_exefs'] = r.open_raw_section(NCCHSection.ExeFS)
    sc.handles[prefix + 'sec_romfs'] = r.open_raw_section(NCCHSection.RomFS)
    sc.handles[prefix + 'sec_plain'] = r.open_raw_section(NCCHSection.Plain)
    sc.handles[prefix + 'sec_full'] = r.open_raw_section(NCCHSection.FullDecrypted)
    sc.nested[prefix + 'exefs'] = r.exefs
    sc.nested[prefix + 'romfs'] = r.romfs
    sc.handles[prefix + 'exefs_icon'] = r.exefs.open('icon')
    sc.handles[prefix + 'exefs_code'] = r.exefs.open('.code')
    info = next(iter(r.romfs.walk.files('/')))
    sc.handles[prefix + 'romfs_file'] = r.romfs.openbin(info)


def build(kind, source, closefd):
    """open reader `kind` from `source` with closefd (None = leave the default) and open one handle of every kind"""
    im = images()
    pyenv.install_fake_boot9(B9SEED)
    from pyctr.crypto import seeddb
    seeddb._seeds.clear()
    seeddb._loaded_from_default_paths = True
    sc = Scenario()
    kw = {} if closefd is None else dict(closefd=closefd)
    try:
        if kind == 'romfs':
            from pyctr.type.romfs import RomFSReader
            f, k = _source(sc, source, 'romfs.bin', im['romfs'])
            r = sc.reader = RomFSReader(f, **k, **kw)
            sc.handles['file_a'] = r.openbin('/a.txt')
            sc.handles['file_b'] = r.openbin('/d/b.bin')
            # FS.open() wraps the handle in PyFilesystem2's RawWrapper; see KNOWN_FINDINGS (close after the reader raises)
            sc.handles['file_fsopen'] = r.open('/a.txt', 'rb')
        elif kind == 'exefs':
            from pyctr.type.exefs import ExeFSReader
            f, k = _source(sc, source, 'exefs.bin', im['exefs'])
            r = sc.reader = ExeFSReader(f, **k, **kw)
            sc.handles['icon'] = r.open('icon')
            sc.handles['code'] = r.open('.code')
        elif kind == 'exefs_lzss':
            from pyctr.type.exefs import ExeFSReader
            f, k = _source(sc, source, 'l.exefs', im['exefs_lzss'])
            r = sc.reader = ExeFSReader(f, **k, **kw)
            r.decompress_code()
            sc.handles['code_dec'] = r.open('.code-decompressed')
            sc.handles['banner'] = r.open('banner')
        elif kind in ('ncch', 'ncch_special', 'ncch_plain', 'ncch_lzss'):
            from pyctr.type.ncch import NCCHReader
            f, k = _source(sc, source, 'c.ncch', im[kind])
            r = sc.reader = NCCHReader(f, **k, **kw)
            _ncch_handles(sc, r)
            if kind == 'ncch_lzss':
                r.exefs.decompress_code()
                sc.handles['exefs_code_dec'] = r.exefs.open('.code-decompressed')
        elif kind == 'srl':
            from pyctr.type.srl import SRLReader
            f, k = _source(sc, source, 'rom.srl', im['srl'])
            if k:
                sc.error = 'n/a'          # SRLReader takes a path or a file object, no filesystem object
                return sc
            r = sc.reader = SRLReader(f, **kw)
        elif kind == 'cia':
            from pyctr.type.cia import CIAReader, CIASection
            f, k = _source(sc, source, 't.cia', im['cia'])
            r = sc.reader = CIAReader(f, **k, **kw)
            sc.handles['sec_tmd'] = r.open_raw_section(CIASection.TitleMetadata)
            sc.handles['sec_c0'] = r.open_raw_section(0)
            sc.handles['sec_c1'] = r.open_raw_section(1)
            sc.handles['sec_c0_again'] = r.open_raw_section(0)
            sc.nested['c0'] = r.contents[0]
            _ncch_handles(sc, r.contents[0], 'c0_')
        elif kind == 'cci':
            from pyctr.type.cci import CCIReader, CCISection
            f, k = _source(sc, source, 't.cci', im['cci'])
            r = sc.reader = CCIReader(f, **k, **kw)
            sc.handles['sec_p0'] = r.open_raw_section(CCISection.Application)
            sc.handles['sec_p1'] = r.open_raw_section(CCISection.Manual)
            sc.nested['p0'] = r.contents[CCISection.Application]
            _ncch_handles(sc, r.contents[CCISection.Application], 'p0_')
        elif kind in ('cdn', 'sdtitle'):
            if source == 'obj':
                sc.error = 'n/a'          # these readers take a path only
                return sc
            c = im['cdn']
            # unencrypted contents are handed out as the filesystem's own file objects; MemoryFS files keep returning data
            # after close() (PyFilesystem2 behaviour, not pyctr's), so both source kinds use an OS directory here
            from fs.osfs import OSFS
            sc.tmp = tempfile.mkdtemp(prefix='pyctr_c16_', dir='/dev/shm' if os.path.isdir('/dev/shm') else None)
            fsobj = OSFS(sc.tmp)
            if source == 'fs':
                sc.fsobj = fsobj
            if closefd is not None:
                sc.error = 'n/a'          # no closefd parameter
                return sc
            if kind == 'cdn':
                from pyctr.type.cdn import CDNReader
                P.write_cdn_dir(fsobj, c['conts'], title_id=c['tid'], titlekey=c['titlekey'], common_key_x=c['ckx'], with_ticket=True)
                r = sc.reader = (CDNReader(os.path.join(sc.tmp, 'tmd')) if source == 'path' else CDNReader('tmd', fs=fsobj))
            else:
                from pyctr.type.sdtitle import SDTitleReader
                P.write_sdtitle_dir(fsobj, c['conts'], title_id=c['tid'], subdir='')
                r = sc.reader = (SDTitleReader(os.path.join(sc.tmp, '00000000.tmd')) if source == 'path' else SDTitleReader('00000000.tmd', fs=fsobj))
            if source == 'path':
                fsobj.close()
            sc.handles['sec_c0'] = r.open_raw_section(0)
            sc.handles['sec_c1'] = r.open_raw_section(1)
            # a second handle on a section that already has a live one: a sibling like any other
            sc.handles['sec_c0_again'] = r.open_raw_section(0)
            sc.nested['c0'] = r.contents[0]
            _ncch_handles(sc, r.contents[0], 'c0_')
        elif kind in ('disa', 'diff'):
            from pyctr.crypto.engine import CryptoEngine
            from pyctr.type.save.diff import DIFF
            from pyctr.type.save.disa import DISA
            from pyctr.type.save.partdesc.ivfc import IVFCLevel4Reader
            f, k = _source(sc, source, 'save.bin', im[kind])
            cls = DIFF if kind == 'diff' else DISA
            r = sc.reader = cls(f, crypto=CryptoEngine(setup_b9_keys=False), **k, **kw)
            # (partition.dpfs_lv3_file is the layer under the level-4 readers, not a sibling handle)
            sc.handles['lv4'] = IVFCLevel4Reader(r.partitions[0].ivfc_hash_tree)
            sc.handles['lv4_b'] = IVFCLevel4Reader(r.partitions[0].ivfc_hash_tree, verify=False)
        elif kind == 'nand':
            if source != 'obj':
                sc.error = 'n/a'          # the image is a 0x3AF00000-byte sparse virtual file: only the file-object source kind
                return sc
            from . import nandcommon as NC
            from pyctr.type.nand import NAND, NANDSection
            case = NC.gen_case(random.Random(5), force=dict(layout='retail', cid_mode='given', otp_mode='dec', essential=True, bonus=False))
            img, info, spec, nkw, truth = NC.materialise(case)
            sc.base = img
            r = sc.reader = NAND(img, **nkw, **kw)
            sc.handles['sec_firm0'] = r.open_raw_section(NANDSection.FIRM0)
            sc.handles['sec_firm1'] = r.open_raw_section(NANDSection.FIRM1)
            sc.handles['sec_header'] = r.open_raw_section(NANDSection.Header)
            sc.handles['part_ctr'] = r.open_ctr_partition(0)
            sc.handles['part_twl'] = r.open_twl_partition(0)
            if r.essential:
                sc.nested['essential'] = r.essential
                sc.handles['essential_hdr'] = r.essential.open('nand_hdr')
        elif kind in WRAPPERS:
            if source != 'obj':
                sc.error = 'n/a'
                return sc
            from pyctr.crypto.engine import CryptoEngine
            from pyctr.fileio import SubsectionIO, SplitFileMerger, CloseWrapper
            e = CryptoEngine(setup_b9_keys=False)
            e.set_normal_key(0x03, bytes(16))
            e.set_normal_key(0x2C, bytes(16))
            sc.base = io.BytesIO(bytes(range(256)) * 2)
            if kind == 'w_ctr':
                w = e.create_ctr_io(0x2C, sc.base, 5, **kw)
            elif kind == 'w_twl':
                w = e.create_ctr_io(0x03, sc.base, 5, **kw)
            elif kind == 'w_cbc':
                w = e.create_cbc_io(0x2C, sc.base, bytes(16), **kw)
            elif kind == 'w_ctr_win':
                sc.handles['window'] = SubsectionIO(sc.base, 0x10, 0x100)
                w = e.create_ctr_io(0x2C, sc.handles['window'], 5, **kw)
            elif kind == 'w_sub':
                if closefd is not None:
                    sc.error = 'n/a'
                    return sc
                w = SubsectionIO(sc.base, 0x10, 0x100)
                sc.handles['sibling'] = SubsectionIO(sc.base, 0x20, 0x100)
            elif kind == 'w_merge':
                a, b = SubsectionIO(sc.base, 0, 0x40), SubsectionIO(sc.base, 0x80, 0x40)
                sc.handles['piece_a'], sc.handles['piece_b'] = a, b
                w = SplitFileMerger([(a, 0x40), (b, 0x40)], **({} if closefd is None else dict(closefds=closefd)))
            else:
                if closefd is not None:
                    sc.error = 'n/a'
                    return sc
                w = CloseWrapper(sc.base)
            sc.reader = w
            sc.handles['wrapper'] = w
        else:
            raise ValueError(kind)
        if source != 'obj' and kind not in ('cdn', 'sdtitle'):
            sc.own = sc.reader._file
    except Exception as ex:
        sc.error = pyenv.errname(ex) + ': ' + str(ex)[:100]
    return sc


USES = ['read1', 'read0', 'tell', 'seek0']
# asked of a closed crypto wrapper only: must be refused like any other call (and must not reach the caller's file)
CLOSED_ONLY_USES = ['truncate']


def use(h, how):
    """-> 'VE' (ValueError), 'ok', or the name of another exception"""
    try:
        if how == 'read1':
            h.read(1)
        elif how == 'read0':
            h.read(0)
        elif how == 'tell':
            h.tell()
        elif how == 'seek0':
            h.seek(0)
        elif how == 'readable':
            h.readable()
        elif how == 'write':
            h.write(b'x')
        elif how == 'truncate':
            h.truncate(8)
        return 'ok'
    except ValueError:
        return 'VE'
    except Exception as ex:
        return pyenv.errname(ex)
