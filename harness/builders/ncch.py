"""Independent NCCH builder (3dbrew: NCCH).  Everything is computed here (key scrambler, AES-CTR with
PyCryptodome ECB, SHA-256); pyctr is not imported.

spec keys (all optional except where noted):
  key_y (16 bytes), program_id (int), partition_id (int), crypto_method (0, 1, 0x0A, 0x0B), fixed_key (bool),
  no_crypto (bool), uses_seed (bool), seed (16 bytes), product_code (str), version (int),
  extheader (bytes of 0x800 or None), logo / plain (bytes or None), exefs_files (list of (name, data)) or None,
  exefs_slots (list), romfs (bytes or None), gaps (dict section-name -> extra media units before it),
  order (list of section names for the layout after the extended header), store_plain (bool: write the image unencrypted
  although the flags say encrypted -- for assume_decrypted), keyx (dict slot -> int KeyX) -- required when encrypting.
Returns (image, info) with info['plain'][section] = plaintext of each present section, info['regions'][section] = (offset, size),
info['raw'] = the image, info['exefs'] = per-file info, info['keys'] = {'primary','secondary'}."""
import hashlib

from Cryptodome.Cipher import AES

from .exefs import build_exefs

MU = 0x200
W = 1 << 128
C3DS = 0x1FF9E9AAC5FE0408024591DC5D52768A
FIXED_SYSTEM_KEY = bytes.fromhex('527CE630A9CA305F3696F3CDE954194B')
EXTRA_SLOT = {0x00: 0x2C, 0x01: 0x25, 0x0A: 0x18, 0x0B: 0x1B}
SECTION_ID = {'extheader': 1, 'exefs': 2, 'romfs': 3}


def rotl(v, k):
    k %= 128
    return ((v << k) | (v >> (128 - k))) & (W - 1) if k else v


def scramble(x, y):
    return rotl(((rotl(x, 2) ^ y) + C3DS) % W, 87).to_bytes(16, 'big')


def ctr_xor(key, counter, data, skip=0):
    """AES-CTR (128-bit big-endian counter) over data whose first byte is stream byte `skip`"""
    ecb = AES.new(key, AES.MODE_ECB)
    out = bytearray(len(data))
    first = skip // 16
    nblocks = (skip + len(data) + 15) // 16 - first
    ks = b''.join(ecb.encrypt(((counter + first + i) % W).to_bytes(16, 'big')) for i in range(nblocks))
    off = skip - 16 * first
    for i, b in enumerate(data):
        out[i] = b ^ ks[off + i]
    return bytes(out)


def pad_mu(b):
    return b + b'\0' * ((-len(b)) % MU)


def build_ncch(spec):
    key_y = spec.get('key_y', bytes(16))
    program_id = spec.get('program_id', 0x0004000000030000)
    partition_id = spec.get('partition_id', program_id)
    method = spec.get('crypto_method', 0)
    fixed = spec.get('fixed_key', False)
    no_crypto = spec.get('no_crypto', False)
    uses_seed = spec.get('uses_seed', False)
    seed = spec.get('seed')
    keyx = spec.get('keyx', {})

    # keys
    if fixed:
        primary = FIXED_SYSTEM_KEY if program_id & (0x10 << 32) else bytes(16)
        secondary = primary
    elif no_crypto and not keyx:
        primary = secondary = bytes(16)
    else:
        ky = int.from_bytes(key_y, 'big')
        primary = scramble(keyx[0x2C], ky)
        ky2 = ky
        if uses_seed:
            ky2 = int.from_bytes(hashlib.sha256(key_y + seed).digest()[:16], 'big')
        secondary = scramble(keyx[EXTRA_SLOT[method]], ky2)

    plain = {}
    exefs_info = None
    if spec.get('extheader') is not None:
        assert len(spec['extheader']) == 0x800
        plain['extheader'] = spec['extheader']
    for name in ('logo', 'plain'):
        if spec.get(name) is not None:
            plain[name] = pad_mu(spec[name])
    if spec.get('exefs_files') is not None:
        img, exefs_info = build_exefs(spec['exefs_files'], spec.get('exefs_slots'))
        if spec.get('exefs_overlap'):
            # entry b is made to begin 0x200 bytes into entry a (two entries sharing bytes: unusual, but nothing in the format forbids it);
            # which bytes get the secondary key is decided from the entries as they are now (the union of their ranges)
            a, b = spec['exefs_overlap']
            new_off = exefs_info[a]['offset'] + 0x200
            slot = exefs_info[b]['slot']
            img = bytearray(img)
            img[16 * slot + 8:16 * slot + 12] = new_off.to_bytes(4, 'little')
            img = bytes(img)
            exefs_info[b] = dict(exefs_info[b], offset=new_off)
        plain['exefs'] = pad_mu(img)
    if spec.get('romfs') is not None:
        plain['romfs'] = pad_mu(spec['romfs'])

    # layout: header, extheader at unit 1 (fixed), then the others in the requested order
    regions = {}
    cur = MU
    if 'extheader' in plain:
        regions['extheader'] = (MU, 0x800)
        cur = MU + 0x800
    gaps = spec.get('gaps', {})
    order = [s for s in spec.get('order', ['logo', 'plain', 'exefs', 'romfs']) if s in plain]
    for s in order:
        cur += MU * gaps.get(s, 0)
        regions[s] = (cur, len(plain[s]))
        cur += len(plain[s])
    cur += MU * gaps.get('end', 0)
    content_size = cur

    # which bytes of the ExeFS use the secondary key
    def exefs_secondary_mask(n):
        mask = bytearray(n)
        if exefs_info:
            for fname, fi in exefs_info.items():
                if fname not in ('icon', 'banner'):
                    for i in range(0x200 + fi['offset'], 0x200 + fi['offset'] + fi['size']):
                        mask[i] = 1
        return mask

    encrypt = not no_crypto and not spec.get('store_plain', False)
    stored = {}
    for s, data in plain.items():
        if s in SECTION_ID and encrypt:
            ctr = (partition_id << 64) | (SECTION_ID[s] << 56)
            if s == 'extheader':
                stored[s] = ctr_xor(primary, ctr, data)
            elif s == 'romfs':
                stored[s] = ctr_xor(secondary, ctr, data)
            else:
                a = ctr_xor(primary, ctr, data)
                b = ctr_xor(secondary, ctr, data)
                mask = exefs_secondary_mask(len(data))
                stored[s] = bytes(b[i] if mask[i] else a[i] for i in range(len(data)))
        else:
            stored[s] = data

    filler = spec.get('filler', b'\xEE')
    image = bytearray(filler * content_size)
    hdr = bytearray(MU)
    sig = spec.get('signature', bytes(0x100))
    hdr[0:0x100] = key_y + sig[16:0x100]
    hdr[0x100:0x104] = b'NCCH'
    hdr[0x104:0x108] = (content_size // MU).to_bytes(4, 'little')
    hdr[0x108:0x110] = partition_id.to_bytes(8, 'little')
    hdr[0x112:0x114] = spec.get('version', 2).to_bytes(2, 'little')
    if uses_seed:
        hdr[0x114:0x118] = hashlib.sha256(seed + program_id.to_bytes(8, 'little')).digest()[:4]
    hdr[0x118:0x120] = program_id.to_bytes(8, 'little')
    hdr[0x150:0x160] = spec.get('product_code', 'CTR-P-TEST').encode('ascii').ljust(16, b'\0')
    hdr[0x180:0x184] = (0x400 if 'extheader' in plain else 0).to_bytes(4, 'little')
    flags = bytearray(8)
    flags[3] = method
    flags[4] = spec.get('platform', 1)
    flags[5] = spec.get('content_type', 0x3 if 'extheader' in plain else 0x1)
    flags[6] = 0
    flags[7] = (1 if fixed else 0) | (0x2 if 'romfs' not in plain else 0) | (0x4 if no_crypto else 0) | (0x20 if uses_seed else 0) \
        | spec.get('extra_flag7', 0)
    hdr[0x188:0x190] = flags

    def put(off, name):
        if name in regions:
            o, sz = regions[name]
            hdr[off:off + 8] = (o // MU).to_bytes(4, 'little') + (sz // MU).to_bytes(4, 'little')
    put(0x190, 'plain')
    put(0x198, 'logo')
    put(0x1A0, 'exefs')
    put(0x1B0, 'romfs')
    image[0:MU] = hdr
    for s, (o, sz) in regions.items():
        image[o:o + sz] = stored[s]
    plain_all = dict(plain)
    plain_all['header'] = bytes(hdr)
    regions_all = dict(regions)
    regions_all['header'] = (0, MU)
    return bytes(image), dict(plain=plain_all, regions=regions_all, exefs=exefs_info, content_size=content_size,
                              keys=dict(primary=primary, secondary=secondary), stored=stored)
