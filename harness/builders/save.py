"""Independent builder / verifier for Nintendo 3DS DISA and DIFF save containers.

Everything here is computed from the format description (3dbrew "DISA and DIFF") with
hashlib only; pyctr is imported only inside ``_selftest()``.

Public API
==========

``build_diff(data, *, rng, block_log2=(9, 9, 9, 9), dpfs_block_log2=(7, 7), external_lv4=False,
active_table=0, random_bitmaps=True, unique_id=0, slack=True) -> (image: bytes, info: dict)``

``build_disa(partitions, *, rng, block_log2=(9, 9, 9, 9), dpfs_block_log2=(7, 7), external_lv4=False,
active_table=0, random_bitmaps=True, slack=True) -> (image: bytes, info: dict)``

    * ``data`` / ``partitions[i]``: IVFC level-4 payload (at least one byte).  ``partitions`` has 1 or 2
      entries (index 1 is the format's "partition B" / DATA partition).
    * ``rng``: a ``random.Random`` - the only source of randomness (bitmaps, garbage, slack).
    * ``block_log2``: block-size exponents of IVFC levels 1..4.  Hash levels need >= 5 (one hash per block).
    * ``dpfs_block_log2``: ``(lv2, lv3)`` or ``(lv1, lv2, lv3)`` DPFS block-size exponents (the level-1
      exponent is not used by the format; with two values it is set equal to lv2).  lv2 needs >= 2
      (bitmaps are arrays of u32).
    * ``external_lv4``: level 4 lives outside the DPFS tree (not duplicated), DIFI flag set.
    * ``build_disa`` accepts, for block_log2 / dpfs_block_log2 / external_lv4 / random_bitmaps, either one
      value used for all partitions or a list with one value per partition.
    * ``active_table``: 0 = the header selects the primary partition table/descriptor, 1 = the secondary.
      The inactive one is random garbage of the same size.
    * ``random_bitmaps``: every DPFS bit (the level-1 selector in DIFI, every level-1 and level-2 bit,
      including unused ones) is drawn independently from rng; otherwise all bits are 0 (copy 0 active).
    * ``slack``: insert random garbage-filled gaps (whole blocks) between regions, so that a reader
      assuming contiguity is detected.  In-block padding covered by a hash is always zero.
    * The level-4 size stored in the IVFC descriptor is the logical size ``len(data)``; physically the
      level occupies ``ceil(len/bs4)*bs4`` bytes, the tail being zero (hashes are over the zero-padded
      block, both for a reader that pads and for one that hashes the physical block).

``verify_image(image) -> {'ok', 'kind', 'data', 'bad_blocks', 'uninitialized', 'errors'}``

    Independent verifier (shares only sha256/int helpers with the builder; it trusts nothing but the
    bytes): parses header, follows the active table, DIFI selector and both DPFS bitmap levels, checks
    every block of IVFC levels 1..4 against the level above / the master hashes, and the header hash.
    ``data`` = list of level-4 payloads (``lv4.size`` bytes each, returned even when bad),
    ``bad_blocks`` = list of ``(partition, level, block)`` whose own SHA-256 does not match its stored
    hash (level 1 is checked against the master hashes), ``uninitialized`` = the subset whose stored
    hash is all zero, ``errors`` = list of strings (structural problems, header hash mismatch).  Never
    raises on malformed input.  ``ok`` iff no errors and no bad blocks.

``retarget(image, info, field, value, *, fix_header_hash=True) -> bytes``

    Patch one entry of ``info['fields']`` (selected by description string or absolute offset) to
    ``value`` and, if the field lies in the active partition table, recompute the header hash so that
    the reader gets past the table check (for fuzzing by retargeting).

``info`` dict
=============
All offsets are absolute file offsets; all ranges are ``(offset, length)``.

    kind                    'DIFF' | 'DISA'
    image_size, active_table, partition_count
    cmac_field              (0, 0x10)       AES-CMAC; written as zeros (pyctr never checks it on open)
    header_range            (0x100, 0x100)
    header_hash_field       (0x134, 0x20) for DIFF, (0x16C, 0x20) for DISA
    partition_table_range   active table / descriptor
    inactive_table_range    the other one (garbage)
    inactive_ranges         every inactive copy in the file: the inactive table, and per partition the
                            inactive DPFS level-1 chunk, inactive level-2 blocks, inactive level-3 blocks
                            (adjacent ranges merged)
    slack_ranges            garbage gaps that belong to no structure (between tables, partitions and the
                            DPFS regions of a partition)
    view_slack_ranges       garbage gaps INSIDE the active DPFS level-3 view (between / after the IVFC
                            levels), given through the file offsets of their active copy; they are part
                            of active DPFS blocks but no IVFC block covers them
    fields                  [(absolute_offset, width, description)] for every offset/size/count/
                            block-exponent/selector field of header, DIFI, IVFC and DPFS descriptors of
                            the ACTIVE table.  Descriptions: 'hdr.<name>', 'p<i>.difi.<name>',
                            'p<i>.ivfc.<name>', 'p<i>.dpfs.<name>'.
    partitions              list of per-partition dicts (below)
    level4_size, block_sizes, lv4_ranges, hash_ranges, master_hash_range, ... : aliases of
                            partitions[0][...] (for DISA look into info['partitions'][i]).

    per partition:
    index, partition_range, descriptor_range (inside the active table)
    level4_size             logical payload size (= IVFC lv4.size)
    block_sizes             (bs1, bs2, bs3, bs4) in bytes;  block_log2 likewise
    dpfs_block_sizes        (b1, b2, b3);  dpfs_block_log2 likewise
    external_lv4            bool
    level_sizes             (size1, size2, size3, size4) logical sizes of the IVFC levels
    level_offsets           (off1..off4) offsets inside the DPFS level-3 view (off4 unused if external)
    level_blocks            (n1..n4) number of blocks
    master_hash_range       (offset, n1*0x20) inside the active table
    hash_ranges             {1: [...], 2: [...], 3: [...]}; entry i = (offset, length) of the FIRST
                            contiguous run of the active copy of block i of that level, length clipped
                            to the level's logical size.  This is the whole block whenever the DPFS
                            level-3 block is at least as large as the level's block (always true for
                            external level 4); otherwise a block is scattered over several DPFS blocks,
                            see hash_segments.
    lv4_ranges              same for level 4
    hash_segments, lv4_segments   same shape, but entry i is the full list of (offset, length) runs
    dpfs_selector           DIFI level-1 selector
    dpfs_lv1_range          (offset, size) of the active level-1 chunk
    dpfs_lv2_bits, dpfs_lv3_bits   meaningful bits (lists of 0/1): lv1 bits select lv2 blocks, lv2 bits
                            select lv3 blocks (named after the level they select)
    dpfs_lv2_block_offsets, dpfs_lv3_block_offsets   file offset of the active copy of each block
    dpfs_view               bytes: the active DPFS level-3 view (what DPFSLevel3FileIO must return)
    inactive_ranges, slack_ranges, view_slack_ranges, fields   the partition's share of the global lists

On-disk layout produced
=======================
    0x000  16   AES-CMAC (zeros)              0x010  0xF0 zeros
    0x100  0x100 header:
        DIFF: 'DIFF' u32 0x30000 | u64 secondary table off | u64 primary table off | u64 table size |
              u64 partition off | u64 partition size | u32 active table | SHA-256(active table) @0x34 |
              u64 unique id @0x54 | zeros
        DISA: 'DISA' u32 0x40000 | u32 partition count | u32 0 | u64 secondary table off | u64 primary
              table off | u64 table size | u64 descriptor A off (in table), size | u64 descriptor B off,
              size | u64 partition A off, size | u64 partition B off, size | u8 active table | 3x0 |
              SHA-256(active table) @0x6C | zeros
    0x200  secondary table, [slack], primary table, [slack]; partitions at 0x1000-aligned offsets
    table  = descriptor A [|| descriptor B]; descriptor = DIFI(0x44) | IVFC(0x78) | DPFS(0x50) | master
             hashes (n1 * 0x20):
        DIFI: 'DIFI' u32 0x10000 | u64 IVFC off,size | u64 DPFS off,size | u64 hash off,size |
              u8 external-lv4 flag | u8 DPFS level-1 selector | u16 0 | u64 external lv4 offset
        IVFC: 'IVFC' u32 0x20000 | u64 master hash size | 4 x (u64 off, u64 size, u32 log2, u32 0) |
              u64 0x78.  Offsets relative to the DPFS level-3 view.
        DPFS: 'DPFS' u32 0x10000 | 3 x (u64 off, u64 size, u32 log2, u32 0).  Offsets relative to the
              partition, size = one chunk; chunk 1 follows chunk 0 immediately.
    partition = [slack] DPFS lv1 chunk0|chunk1 [slack] lv2 chunk0|chunk1 [slack] lv3 chunk0|chunk1
                [slack] [external level 4 (single copy, physically padded to its block size)]
    bitmaps: bit i = (u32le[i >> 5] >> (31 - i % 32)) & 1; lv1 bit j selects the chunk holding the active
             copy of lv2 block j, lv2 bit j that of lv3 block j; DIFI selector selects the lv1 chunk.
    Inactive lv3 blocks are random garbage (guaranteed different from the active copy); inactive bitmap
    chunks/blocks are the bitwise COMPLEMENT of the active ones, so that a reader consulting the wrong
    copy selects the wrong (garbage) copy for every block below it.
    DPFS lv3 view = IVFC lv1 | lv2 | lv3 | [lv4], each aligned to its own block size, hash levels being
    the concatenated SHA-256 of the zero-padded blocks of the next level.

How pyctr exposes the result (used by ``_selftest``; run ``python -m harness.builders.save``)
==========================================================================================
    c = DIFF(io.BytesIO(img)) / DISA(io.BytesIO(img))       # read-write iff the file object is writable;
                                                            # for a path pass mode='rb+'
    part = c.partitions[i]                                  # pyctr.type.save.partition.Partition
    part.difi / part.ivfc / part.dpfs / part.master_hashes  # parsed descriptors
    part.dpfs_lv3_file                                      # DPFSLevel3FileIO: active DPFS level-3 view
    part.ivfc_hash_tree                                     # IVFCHashTree (.get_block, .write_data, .levels)
    IVFCLevel4Reader(part.ivfc_hash_tree, verify=True, deep_verify=True)   # the (verified) level-4 file
                                                            # object; not created by Partition itself;
                                                            # invalid blocks read as b'\\xDD' filler
The self-test keeps to reads of >= 1 byte inside the level and counts, without failing, the reader
defects it knows about (read(0), reads crossing the end, verification cache shared between levels).
"""

import hashlib

__all__ = ['build_diff', 'build_disa', 'verify_image', 'retarget']

HEADER_OFFSET = 0x100
HEADER_SIZE = 0x100
CMAC_FIELD = (0, 0x10)
PARTITION_ALIGN = 0x1000

_DIFI_MAGIC = b'DIFI\0\0\1\0'
_IVFC_MAGIC = b'IVFC\0\0\2\0'
_DPFS_MAGIC = b'DPFS\0\0\1\0'
_DIFF_MAGIC = b'DIFF\0\0\3\0'
_DISA_MAGIC = b'DISA\0\0\4\0'


# ----------------------------------------------------------------------------------------------
# small helpers
# ----------------------------------------------------------------------------------------------

def _sha(b):
    return hashlib.sha256(b).digest()


def _align(x, a):
    return (x + a - 1) // a * a


def _le(v, n):
    return int(v).to_bytes(n, 'little')


def _garbage(rng, n):
    if n <= 0:
        return b''
    try:
        return rng.randbytes(n)
    except AttributeError:  # pragma: no cover  (python < 3.9)
        return rng.getrandbits(8 * n).to_bytes(n, 'little')


def _garbage_unlike(rng, ref):
    """random bytes of len(ref), guaranteed != ref"""
    g = _garbage(rng, len(ref))
    if g == ref and ref:
        g = bytes([g[0] ^ 0xFF]) + g[1:]
    return g


def _merge(ranges):
    out = []
    for off, ln in sorted(r for r in ranges if r[1] > 0):
        if out and out[-1][0] + out[-1][1] == off:
            out[-1] = (out[-1][0], out[-1][1] + ln)
        else:
            out.append((off, ln))
    return out


class _Writer:
    """byte string under construction that remembers where its numeric fields are"""

    def __init__(self, prefix):
        self.buf = bytearray()
        self.fields = []
        self.prefix = prefix

    def raw(self, b):
        self.buf += b

    def u(self, value, width, name=None):
        if name is not None:
            self.fields.append((len(self.buf), width, self.prefix + name))
        self.buf += _le(value, width)


def _bitmap_bytes(bits, nbytes, rng, random_fill):
    """bits -> u32le array, MSB of each u32 first; unused bits random (or 0)"""
    nwords = nbytes // 4
    words = [rng.getrandbits(32) if random_fill else 0 for _ in range(nwords)]
    for i, b in enumerate(bits):
        m = 1 << (31 - (i % 32))
        if b:
            words[i >> 5] |= m
        else:
            words[i >> 5] &= ~m
    return b''.join(_le(w, 4) for w in words)


def _complement(b):
    return bytes(x ^ 0xFF for x in b)


# ----------------------------------------------------------------------------------------------
# partition builder (all offsets relative to the partition / to the descriptor)
# ----------------------------------------------------------------------------------------------

def _norm_dpfs_log2(d):
    d = tuple(int(x) for x in d)
    if len(d) == 2:
        d = (d[0],) + d
    if len(d) != 3:
        raise ValueError('dpfs_block_log2 must have 2 or 3 entries')
    if d[1] < 2:
        raise ValueError('DPFS level-2 block must hold at least one u32 (log2 >= 2)')
    if min(d) < 0 or max(d) > 30:
        raise ValueError('DPFS block exponent out of range')
    return d


# gaps (bytes) in front of the IVFC descriptor, the DPFS descriptor and the master hashes inside a partition descriptor; set by the caller
DESC_LAYOUT = {'gaps': (0, 0, 0)}


def _build_partition(index, data, rng, block_log2, dpfs_block_log2, external_lv4, random_bitmaps, slack, lv3_tail=0):
    data = bytes(data)
    if not data:
        raise ValueError('level-4 payload must not be empty')
    block_log2 = tuple(int(x) for x in block_log2)
    if len(block_log2) != 4:
        raise ValueError('block_log2 must have 4 entries')
    if min(block_log2[:3]) < 5 or min(block_log2) < 0 or max(block_log2) > 30:
        raise ValueError('IVFC block exponent out of range (hash levels need >= 5)')
    d1l, d2l, d3l = _norm_dpfs_log2(dpfs_block_log2)
    bs = tuple(1 << e for e in block_log2)
    db1, db2, db3 = 1 << d1l, 1 << d2l, 1 << d3l
    external_lv4 = bool(external_lv4)

    def gap(unit, p=0.3, most=2):
        """size of an optional slack gap, a multiple of unit"""
        if slack and rng.random() < p:
            return unit * rng.randint(1, most)
        return 0

    # ---- IVFC levels: level k (0-based) holds the hashes of the blocks of level k+1 --------------
    levels = [None, None, None, data]
    for k in (3, 2, 1):
        b = bs[k]
        src = levels[k]
        levels[k - 1] = b''.join(_sha(src[i:i + b].ljust(b, b'\0')) for i in range(0, len(src), b))
    master = b''.join(_sha(levels[0][i:i + bs[0]].ljust(bs[0], b'\0')) for i in range(0, len(levels[0]), bs[0]))
    sizes = tuple(len(x) for x in levels)
    nblocks = tuple((sizes[k] + bs[k] - 1) // bs[k] for k in range(4))

    # ---- placement of the levels inside the DPFS level-3 view -------------------------------------
    offs = []
    pos = 0
    view_slack = []  # (offset in view, length)
    for k in range(4):
        a = _align(pos, bs[k])
        a2 = a + (gap(bs[k]) if k else 0)
        offs.append(a2)
        if k == 3 and external_lv4:
            break  # offset recorded as if it were internal, but no space taken
        if a2 > pos:
            view_slack.append((pos, a2 - pos))
        pos = a2 + nblocks[k] * bs[k]
    total = pos
    size_d3 = _align(total, db3) + gap(db3)
    if lv3_tail:
        # a level-3 size that is not a multiple of its block size: the last block is partial, the second copy starts at `size`
        size_d3 += int(lv3_tail) % db3
    if size_d3 > total:
        view_slack.append((total, size_d3 - total))

    view = bytearray(_garbage(rng, size_d3)) if slack else bytearray(size_d3)
    for k in range(4):
        if k == 3 and external_lv4:
            break
        ext = nblocks[k] * bs[k]
        view[offs[k]:offs[k] + ext] = levels[k].ljust(ext, b'\0')
    view = bytes(view)

    # ---- DPFS level 3 (data), level 2 and level 1 (bitmaps) ---------------------------------------
    n_d3 = (size_d3 + db3 - 1) // db3
    bits3 = [rng.getrandbits(1) if random_bitmaps else 0 for _ in range(n_d3)]  # stored in lv2, select lv3
    chunks3 = (bytearray(size_d3), bytearray(size_d3))
    for j in range(n_d3):
        blk = view[j * db3:(j + 1) * db3]
        chunks3[bits3[j]][j * db3:(j + 1) * db3] = blk
        chunks3[1 - bits3[j]][j * db3:(j + 1) * db3] = _garbage_unlike(rng, blk)

    size_d2 = _align(((n_d3 + 31) // 32) * 4, db2)
    lv2 = _bitmap_bytes(bits3, size_d2, rng, random_bitmaps)
    n_d2 = size_d2 // db2
    bits2 = [rng.getrandbits(1) if random_bitmaps else 0 for _ in range(n_d2)]  # stored in lv1, select lv2
    chunks2 = (bytearray(size_d2), bytearray(size_d2))
    for j in range(n_d2):
        blk = lv2[j * db2:(j + 1) * db2]
        chunks2[bits2[j]][j * db2:(j + 1) * db2] = blk
        chunks2[1 - bits2[j]][j * db2:(j + 1) * db2] = _complement(blk)

    size_d1 = ((n_d2 + 31) // 32) * 4
    lv1 = _bitmap_bytes(bits2, size_d1, rng, random_bitmaps)
    selector = rng.getrandbits(1) if random_bitmaps else 0
    chunks1 = [None, None]
    chunks1[selector] = lv1
    chunks1[1 - selector] = _complement(lv1)

    # ---- partition layout --------------------------------------------------------------------------
    part = bytearray()
    pslack = []

    def pad_to(target):
        if target > len(part):
            pslack.append((len(part), target - len(part)))
            part.extend(_garbage(rng, target - len(part)))

    pad_to(gap(8))
    off_d1 = len(part)
    part += chunks1[0] + chunks1[1]
    pad_to(_align(len(part), 4) + gap(4))
    off_d2 = len(part)
    part += chunks2[0] + chunks2[1]
    pad_to(_align(len(part), db3) + gap(db3))
    off_d3 = len(part)
    part += chunks3[0] + chunks3[1]
    off_ext = 0
    if external_lv4:
        pad_to(_align(len(part), bs[3]) + gap(bs[3]))
        off_ext = len(part)
        # the last block is HASHED zero-padded; what the file holds behind the end of level 4 is nobody's business (garbage here)
        part += data + (_garbage(rng, nblocks[3] * bs[3] - len(data)) if slack else bytes(nblocks[3] * bs[3] - len(data)))
    pad_to(len(part) + gap(16, p=0.5, most=8))

    # ---- descriptor -----------------------------------------------------------------------------
    # the DIFI header says where the three parts are; consoles write them back to back, the format does not require it
    g1, g2, g3 = DESC_LAYOUT['gaps']
    ivfc_off, ivfc_size = 0x44 + g1, 0x78
    dpfs_off, dpfs_size = ivfc_off + ivfc_size + g2, 0x50
    hash_off, hash_size = dpfs_off + dpfs_size + g3, len(master)

    w = _Writer('p%d.difi.' % index)
    w.raw(_DIFI_MAGIC)
    w.u(ivfc_off, 8, 'ivfc_offset')
    w.u(ivfc_size, 8, 'ivfc_size')
    w.u(dpfs_off, 8, 'dpfs_offset')
    w.u(dpfs_size, 8, 'dpfs_size')
    w.u(hash_off, 8, 'hash_offset')
    w.u(hash_size, 8, 'hash_size')
    w.u(1 if external_lv4 else 0, 1, 'external_lv4_enable')
    w.u(selector, 1, 'dpfs_lv1_selector')
    w.raw(b'\0\0')
    w.u(off_ext, 8, 'external_lv4_offset')
    assert len(w.buf) == 0x44
    fields = list(w.fields)
    desc = bytearray(w.buf) + bytes(g1)

    w = _Writer('p%d.ivfc.' % index)
    w.raw(_IVFC_MAGIC)
    w.u(len(master), 8, 'master_hash_size')
    for k in range(4):
        w.u(offs[k], 8, 'lv%d_offset' % (k + 1))
        w.u(sizes[k], 8, 'lv%d_size' % (k + 1))
        w.u(block_log2[k], 4, 'lv%d_block_log2' % (k + 1))
        w.raw(b'\0\0\0\0')
    w.u(0x78, 8, 'descriptor_size')
    assert len(w.buf) == 0x78
    fields += [(ivfc_off + o, n, d) for o, n, d in w.fields]
    desc += w.buf + bytes(g2)

    w = _Writer('p%d.dpfs.' % index)
    w.raw(_DPFS_MAGIC)
    for name, o, s, l in (('lv1', off_d1, size_d1, d1l), ('lv2', off_d2, size_d2, d2l), ('lv3', off_d3, size_d3, d3l)):
        w.u(o, 8, name + '_offset')
        w.u(s, 8, name + '_size')
        w.u(l, 4, name + '_block_log2')
        w.raw(b'\0\0\0\0')
    assert len(w.buf) == 0x50
    fields += [(dpfs_off + o, n, d) for o, n, d in w.fields]
    desc += w.buf + bytes(g3)
    assert len(desc) == hash_off
    desc += master

    # ---- bookkeeping (relative to the partition start) -----------------------------------------
    d3_block_off = [off_d3 + bits3[j] * size_d3 + j * db3 for j in range(n_d3)]
    d2_block_off = [off_d2 + bits2[j] * size_d2 + j * db2 for j in range(n_d2)]

    def map_view(voff, length):
        """active file runs (partition-relative) of view[voff:voff+length]"""
        runs = []
        end = voff + length
        while voff < end:
            j = voff // db3
            n = min(end, (j + 1) * db3) - voff
            o = d3_block_off[j] + voff - j * db3
            if runs and runs[-1][0] + runs[-1][1] == o:
                runs[-1] = (runs[-1][0], runs[-1][1] + n)
            else:
                runs.append((o, n))
            voff += n
        return runs

    segments = []
    for k in range(4):
        segs = []
        for i in range(nblocks[k]):
            ln = min(bs[k], sizes[k] - i * bs[k])
            if k == 3 and external_lv4:
                segs.append([(off_ext + i * bs[k], ln)])
            else:
                segs.append(map_view(offs[k] + i * bs[k], ln))
        segments.append(segs)

    inactive = [(off_d1 + (1 - selector) * size_d1, size_d1)]
    inactive += [(off_d2 + (1 - bits2[j]) * size_d2 + j * db2, db2) for j in range(n_d2)]
    inactive += [(off_d3 + (1 - bits3[j]) * size_d3 + j * db3, min(db3, size_d3 - j * db3)) for j in range(n_d3)]
    vslack = []
    for vo, vl in view_slack:
        vslack += map_view(vo, vl)

    pinfo = {
        'index': index,
        'level4_size': sizes[3],
        'block_sizes': bs, 'block_log2': block_log2,
        'dpfs_block_sizes': (db1, db2, db3), 'dpfs_block_log2': (d1l, d2l, d3l),
        'external_lv4': external_lv4,
        'level_sizes': sizes, 'level_offsets': tuple(offs), 'level_blocks': nblocks,
        'dpfs_selector': selector,
        'dpfs_lv2_bits': bits2, 'dpfs_lv3_bits': bits3,
        'dpfs_view': view,
        # the following are relocated by the caller
        '_rel': {
            'segments': segments,
            'inactive': _merge(inactive),
            'slack': _merge(pslack),
            'view_slack': _merge(vslack),
            'lv1_range': (off_d1 + selector * size_d1, size_d1),
            'areas': ((off_d1, size_d1), (off_d2, size_d2), (off_d3, size_d3)),     # start and per-copy size of the two-copy areas
            'd2_block_off': d2_block_off, 'd3_block_off': d3_block_off,
            'master': (hash_off, hash_size),
            'fields': fields,
        },
    }
    return bytes(part), bytes(desc), pinfo


def _relocate(pinfo, part_off, part_size, table_off, desc_off, desc_size):
    rel = pinfo.pop('_rel')
    segs = [[[(o + part_off, n) for o, n in runs] for runs in lvl] for lvl in rel['segments']]
    pinfo['partition_range'] = (part_off, part_size)
    pinfo['descriptor_range'] = (table_off + desc_off, desc_size)
    pinfo['master_hash_range'] = (table_off + desc_off + rel['master'][0], rel['master'][1])
    pinfo['hash_segments'] = {k + 1: segs[k] for k in range(3)}
    pinfo['lv4_segments'] = segs[3]
    pinfo['hash_ranges'] = {k + 1: [runs[0] for runs in segs[k]] for k in range(3)}
    pinfo['lv4_ranges'] = [runs[0] for runs in segs[3]]
    pinfo['dpfs_lv1_range'] = (rel['lv1_range'][0] + part_off, rel['lv1_range'][1])
    pinfo['dpfs_areas'] = tuple((o + part_off, n) for o, n in rel['areas'])
    pinfo['dpfs_lv2_block_offsets'] = [o + part_off for o in rel['d2_block_off']]
    pinfo['dpfs_lv3_block_offsets'] = [o + part_off for o in rel['d3_block_off']]
    pinfo['inactive_ranges'] = [(o + part_off, n) for o, n in rel['inactive']]
    pinfo['slack_ranges'] = [(o + part_off, n) for o, n in rel['slack']]
    pinfo['view_slack_ranges'] = [(o + part_off, n) for o, n in rel['view_slack']]
    pinfo['fields'] = [(table_off + desc_off + o, n, d) for o, n, d in rel['fields']]
    return pinfo


# ----------------------------------------------------------------------------------------------
# containers
# ----------------------------------------------------------------------------------------------

def _per_partition(value, count, is_scalar):
    """one value for all partitions, or a list with one value per partition"""
    if is_scalar(value):
        return [value] * count
    value = list(value)
    if len(value) != count:
        raise ValueError('per-partition option needs %d entries' % count)
    return value


def _is_int_seq(v):
    try:
        return all(isinstance(x, int) for x in v)
    except TypeError:
        return False


def _is_flag(v):
    return isinstance(v, (bool, int))


def _build_container(kind, payloads, rng, block_log2, dpfs_block_log2, external_lv4, active_table,
                     random_bitmaps, unique_id, slack, lv3_tail=0):
    if active_table not in (0, 1):
        raise ValueError('active_table must be 0 or 1')
    count = len(payloads)
    if kind == 'DIFF' and count != 1 or kind == 'DISA' and count not in (1, 2):
        raise ValueError('bad partition count')
    g_block = _per_partition(block_log2, count, _is_int_seq)
    g_dpfs = _per_partition(dpfs_block_log2, count, _is_int_seq)
    g_ext = _per_partition(external_lv4, count, _is_flag)
    g_rnd = _per_partition(random_bitmaps, count, _is_flag)

    parts = []
    for i in range(count):
        tails = lv3_tail if isinstance(lv3_tail, (list, tuple)) else [lv3_tail] * count
        parts.append(_build_partition(i, payloads[i], rng, g_block[i], g_dpfs[i], g_ext[i], g_rnd[i], slack, tails[i]))

    # table = descriptors back to back
    table = b''
    desc_pos = []
    for _, desc, _ in parts:
        desc_pos.append((len(table), len(desc)))
        table += desc
    tsize = len(table)

    def gap(unit, most=4):
        if slack and rng.random() < 0.3:
            return unit * rng.randint(1, most)
        return 0

    # file layout
    sec_off = HEADER_OFFSET + HEADER_SIZE
    pri_off = sec_off + tsize + gap(4)
    pos = pri_off + tsize
    part_pos = []
    for body, _, _ in parts:
        pos = _align(pos, PARTITION_ALIGN) + gap(PARTITION_ALIGN, most=1)
        part_pos.append((pos, len(body)))
        pos += len(body)
    image_size = pos

    image = bytearray(_garbage(rng, image_size)) if slack else bytearray(image_size)
    image[0:HEADER_OFFSET] = bytes(HEADER_OFFSET)
    act_off, inact_off = (pri_off, sec_off) if active_table == 0 else (sec_off, pri_off)
    image[act_off:act_off + tsize] = table
    image[inact_off:inact_off + tsize] = _garbage_unlike(rng, table)
    for (body, _, _), (po, ps) in zip(parts, part_pos):
        image[po:po + ps] = body

    w = _Writer('hdr.')
    if kind == 'DIFF':
        w.raw(_DIFF_MAGIC)
        w.u(sec_off, 8, 'secondary_table_offset')
        w.u(pri_off, 8, 'primary_table_offset')
        w.u(tsize, 8, 'table_size')
        w.u(part_pos[0][0], 8, 'partition_offset')
        w.u(part_pos[0][1], 8, 'partition_size')
        w.u(active_table, 4, 'active_table')
        hash_rel = len(w.buf)
        w.raw(_sha(table))
        w.u(unique_id, 8)
        assert hash_rel == 0x34 and len(w.buf) == 0x5C
    else:
        w.raw(_DISA_MAGIC)
        w.u(count, 4, 'partition_count')
        w.raw(b'\0\0\0\0')
        w.u(sec_off, 8, 'secondary_table_offset')
        w.u(pri_off, 8, 'primary_table_offset')
        w.u(tsize, 8, 'table_size')
        for i, letter in enumerate('ab'):
            o, s = desc_pos[i] if i < count else (0, 0)
            w.u(o, 8, 'descriptor_%s_offset' % letter)
            w.u(s, 8, 'descriptor_%s_size' % letter)
        for i, letter in enumerate('ab'):
            o, s = part_pos[i] if i < count else (0, 0)
            w.u(o, 8, 'partition_%s_offset' % letter)
            w.u(s, 8, 'partition_%s_size' % letter)
        w.u(active_table, 1, 'active_table')
        w.raw(b'\0\0\0')
        hash_rel = len(w.buf)
        w.raw(_sha(table))
        assert hash_rel == 0x6C and len(w.buf) == 0x8C
    header = bytes(w.buf).ljust(HEADER_SIZE, b'\0')
    image[HEADER_OFFSET:HEADER_OFFSET + HEADER_SIZE] = header

    fields = [(HEADER_OFFSET + o, n, d) for o, n, d in w.fields]
    pinfos = []
    inactive = [(inact_off, tsize)]
    slack_ranges = []
    view_slack_ranges = []
    covered = [(0, HEADER_OFFSET + HEADER_SIZE), (sec_off, tsize), (pri_off, tsize)] + part_pos
    for i in range(count):
        pi = _relocate(parts[i][2], part_pos[i][0], part_pos[i][1], act_off, desc_pos[i][0], desc_pos[i][1])
        pinfos.append(pi)
        fields += pi['fields']
        inactive += pi['inactive_ranges']
        slack_ranges += pi['slack_ranges']
        view_slack_ranges += pi['view_slack_ranges']
    pos = 0
    for o, n in sorted(covered):
        if o > pos:
            slack_ranges.append((pos, o - pos))
        pos = max(pos, o + n)

    info = {
        'kind': kind,
        'image_size': image_size,
        'active_table': active_table,
        'partition_count': count,
        'cmac_field': CMAC_FIELD,
        'header_range': (HEADER_OFFSET, HEADER_SIZE),
        'header_hash_field': (HEADER_OFFSET + hash_rel, 0x20),
        'partition_table_range': (act_off, tsize),
        'inactive_table_range': (inact_off, tsize),
        'inactive_ranges': _merge(inactive),
        'slack_ranges': _merge(slack_ranges),
        'view_slack_ranges': _merge(view_slack_ranges),
        'fields': fields,
        'partitions': pinfos,
    }
    for key, val in pinfos[0].items():  # aliases of partition 0
        if key not in info:
            info[key] = val
    return bytes(image), info


def build_diff(data, *, rng, block_log2=(9, 9, 9, 9), dpfs_block_log2=(7, 7), external_lv4=False,
               active_table=0, random_bitmaps=True, unique_id=0, slack=True, lv3_tail=0):
    """Build a DIFF image whose single partition carries `data` as IVFC level 4; see module docstring."""
    return _build_container('DIFF', [data], rng, block_log2, dpfs_block_log2, external_lv4, active_table,
                            random_bitmaps, unique_id, slack, lv3_tail)


def build_disa(partitions, *, rng, block_log2=(9, 9, 9, 9), dpfs_block_log2=(7, 7), external_lv4=False,
               active_table=0, random_bitmaps=True, slack=True, lv3_tail=0):
    """Build a DISA image with 1 or 2 partitions; geometry options may be given per partition (lists)."""
    return _build_container('DISA', list(partitions), rng, block_log2, dpfs_block_log2, external_lv4,
                            active_table, random_bitmaps, 0, slack, lv3_tail)


def retarget(image, info, field, value, *, fix_header_hash=True):
    """Return a copy of image with one field of info['fields'] set to value (mod 2**(8*width)).
    `field` is a description string or an absolute offset.  When the field lies inside the active
    partition table the header hash is recomputed (unless fix_header_hash is false)."""
    for off, width, desc in info['fields']:
        if field == desc or field == off:
            break
    else:
        raise KeyError(field)
    img = bytearray(image)
    img[off:off + width] = _le(value % (1 << (8 * width)), width)
    t_off, t_size = info['partition_table_range']
    if fix_header_hash and t_off <= off < t_off + t_size:
        h_off, h_len = info['header_hash_field']
        img[h_off:h_off + h_len] = _sha(bytes(img[t_off:t_off + t_size]))
    return bytes(img)


# ----------------------------------------------------------------------------------------------
# independent verifier
# ----------------------------------------------------------------------------------------------

class _Malformed(Exception):
    pass


def _u(b, off, n):
    if off < 0 or off + n > len(b):
        raise _Malformed('field at %#x+%d outside a %#x-byte structure' % (off, n, len(b)))
    return int.from_bytes(b[off:off + n], 'little')


def _cut(b, off, n, what):
    if off < 0 or n < 0 or off + n > len(b):
        raise _Malformed('%s: range %#x+%#x outside its %#x-byte container' % (what, off, n, len(b)))
    return b[off:off + n]


def _bit(bitmap, i, what):
    if 4 * (i >> 5) + 4 > len(bitmap):
        raise _Malformed('%s: bit %d outside a %d-byte bitmap' % (what, i, len(bitmap)))
    word = int.from_bytes(bitmap[4 * (i >> 5):4 * (i >> 5) + 4], 'little')
    return (word >> (31 - (i & 31))) & 1


def _select_blocks(pair, size, log2, bitmap, what):
    """pair = chunk0||chunk1 (2*size bytes); returns the view made of the blocks selected by bitmap"""
    if log2 > 40:
        raise _Malformed('%s: absurd block exponent %d' % (what, log2))
    bs = 1 << log2
    out = []
    j = 0
    pos = 0
    while pos < size:
        n = min(bs, size - pos)
        chunk = _bit(bitmap, j, what)
        out.append(pair[chunk * size + pos:chunk * size + pos + n])
        pos += n
        j += 1
    return b''.join(out)


def _verify_partition(img, p, desc, part_off, part_size, res):
    part = _cut(img, part_off, part_size, 'partition %d' % p)
    if desc[0:8] != _DIFI_MAGIC:
        raise _Malformed('partition %d: DIFI magic missing' % p)
    if len(desc) < 0x44:
        raise _Malformed('partition %d: descriptor shorter than DIFI' % p)
    ivfc_off, ivfc_size = _u(desc, 0x08, 8), _u(desc, 0x10, 8)
    dpfs_off, dpfs_size = _u(desc, 0x18, 8), _u(desc, 0x20, 8)
    hash_off, hash_size = _u(desc, 0x28, 8), _u(desc, 0x30, 8)
    external = desc[0x38]
    selector = desc[0x39]
    ext_off = _u(desc, 0x3C, 8)
    if external not in (0, 1) or selector not in (0, 1):
        res['errors'].append('partition %d: DIFI flag bytes are not 0/1' % p)
    ivfc = _cut(desc, ivfc_off, ivfc_size, 'partition %d IVFC descriptor' % p)
    dpfs = _cut(desc, dpfs_off, dpfs_size, 'partition %d DPFS descriptor' % p)
    master = _cut(desc, hash_off, hash_size, 'partition %d master hashes' % p)
    if ivfc[0:8] != _IVFC_MAGIC or len(ivfc) != 0x78:
        raise _Malformed('partition %d: bad IVFC descriptor' % p)
    if dpfs[0:8] != _DPFS_MAGIC or len(dpfs) != 0x50:
        raise _Malformed('partition %d: bad DPFS descriptor' % p)
    if _u(ivfc, 0x08, 8) != hash_size:
        res['errors'].append('partition %d: IVFC master hash size != DIFI hash size' % p)
    if _u(ivfc, 0x70, 8) != 0x78:
        res['errors'].append('partition %d: IVFC descriptor size field != 0x78' % p)

    # DPFS
    d = [(_u(dpfs, 8 + 0x18 * k, 8), _u(dpfs, 0x10 + 0x18 * k, 8), _u(dpfs, 0x18 + 0x18 * k, 4)) for k in range(3)]
    pairs = [_cut(part, o, 2 * s, 'partition %d DPFS level %d' % (p, k + 1)) for k, (o, s, _) in enumerate(d)]
    s1 = d[0][1]
    lv1 = pairs[0][s1:] if selector else pairs[0][:s1]
    lv2 = _select_blocks(pairs[1], d[1][1], d[1][2], lv1, 'partition %d DPFS level 2' % p)
    view = _select_blocks(pairs[2], d[2][1], d[2][2], lv2, 'partition %d DPFS level 3' % p)

    # IVFC
    lv = [(_u(ivfc, 0x10 + 0x18 * k, 8), _u(ivfc, 0x18 + 0x18 * k, 8), _u(ivfc, 0x20 + 0x18 * k, 4)) for k in range(4)]
    content = []
    for k, (o, s, l) in enumerate(lv):
        if l > 40:
            raise _Malformed('partition %d: absurd IVFC block exponent' % p)
        if k == 3 and external:
            content.append(_cut(part, ext_off, s, 'partition %d external level 4' % p))
        else:
            content.append(_cut(view, o, s, 'partition %d IVFC level %d' % (p, k + 1)))
    res['data'][p] = content[3]

    for k in range(4):
        bs = 1 << lv[k][2]
        hashes = master if k == 0 else content[k - 1]
        nblk = (len(content[k]) + bs - 1) // bs
        if nblk * 0x20 > len(hashes):
            res['errors'].append('partition %d: level %d has %d blocks but only %d bytes of hashes above it'
                                 % (p, k + 1, nblk, len(hashes)))
        for i in range(nblk):
            stored = hashes[i * 0x20:(i + 1) * 0x20]
            if len(stored) < 0x20:
                res['bad_blocks'].append((p, k + 1, i))
                continue
            if stored != _sha(content[k][i * bs:(i + 1) * bs].ljust(bs, b'\0')):
                res['bad_blocks'].append((p, k + 1, i))
                if stored == bytes(0x20):
                    res['uninitialized'].append((p, k + 1, i))


def verify_image(image):
    """Independent check of a DISA/DIFF image; see module docstring for the result dict."""
    img = bytes(image)
    res = {'ok': False, 'kind': None, 'data': [], 'bad_blocks': [], 'uninitialized': [], 'errors': []}
    try:
        hdr = _cut(img, HEADER_OFFSET, HEADER_SIZE, 'header')
        magic = hdr[0:8]
        if magic == _DIFF_MAGIC:
            res['kind'] = 'DIFF'
            sec, pri, tsize = _u(hdr, 0x08, 8), _u(hdr, 0x10, 8), _u(hdr, 0x18, 8)
            parts = [(_u(hdr, 0x20, 8), _u(hdr, 0x28, 8))]
            active = _u(hdr, 0x30, 4)
            stored = hdr[0x34:0x54]
        elif magic == _DISA_MAGIC:
            res['kind'] = 'DISA'
            count = _u(hdr, 0x08, 4)
            if count not in (1, 2):
                raise _Malformed('DISA partition count %d' % count)
            sec, pri, tsize = _u(hdr, 0x10, 8), _u(hdr, 0x18, 8), _u(hdr, 0x20, 8)
            descs = [(_u(hdr, 0x28, 8), _u(hdr, 0x30, 8)), (_u(hdr, 0x38, 8), _u(hdr, 0x40, 8))][:count]
            parts = [(_u(hdr, 0x48, 8), _u(hdr, 0x50, 8)), (_u(hdr, 0x58, 8), _u(hdr, 0x60, 8))][:count]
            active = hdr[0x68]
            stored = hdr[0x6C:0x8C]
        else:
            raise _Malformed('no DISA/DIFF magic: %r' % magic)
        if active not in (0, 1):
            res['errors'].append('active table selector is %d' % active)
        table = _cut(img, sec if active else pri, tsize, 'active partition table')
        if _sha(table) != stored:
            res['errors'].append('header hash does not match the active partition table')
        if res['kind'] == 'DIFF':
            descs = [(0, tsize)]
        res['data'] = [b''] * len(parts)
        for p, ((doff, dsize), (poff, psize)) in enumerate(zip(descs, parts)):
            try:
                _verify_partition(img, p, _cut(table, doff, dsize, 'descriptor %d' % p), poff, psize, res)
            except _Malformed as e:
                res['errors'].append(str(e))
    except _Malformed as e:
        res['errors'].append(str(e))
    except Exception as e:  # never raise on malformed input
        res['errors'].append('internal: %s: %s' % (type(e).__name__, e))
    res['ok'] = not res['errors'] and not res['bad_blocks']
    return res


# ----------------------------------------------------------------------------------------------
# self-test (the only place where pyctr is imported)
# ----------------------------------------------------------------------------------------------

def _selftest(iterations=240, seed=20261001, verbose=True):
    import io
    import random
    from collections import Counter

    from harness import pyenv
    pyenv.install_fake_boot9(1234)
    from pyctr.type.save.disa import DISA
    from pyctr.type.save.diff import DIFF
    from pyctr.type.save.common import CorruptPartitionError
    from pyctr.type.save.partdesc.ivfc import IVFCLevel4Reader

    rng = random.Random(seed)
    notes = Counter()      # discrepancies of the READER on well-formed images (tolerated, reported)
    stats = Counter()

    def open_container(kind, img):
        return (DIFF if kind == 'DIFF' else DISA)(io.BytesIO(img))

    def flip(img, off):
        b = bytearray(img)
        b[off] ^= 1 << rng.randrange(8)
        return bytes(b)

    for it in range(iterations):
        kind = ('DIFF', 'DISA', 'DISA')[it % 3]
        count = 1 if kind == 'DIFF' else 1 + (it // 3) % 2
        active = rng.getrandbits(1)
        geo, dgeo, ext, payloads = [], [], [], []
        for _ in range(count):
            g = tuple(rng.randint(7, 12) for _ in range(4))
            geo.append(g)
            dgeo.append((rng.randint(2, 7), rng.randint(5, 12)))
            ext.append(bool(rng.getrandbits(1)))
            n4 = rng.randint(1, 40)
            size = n4 << g[3]
            if rng.random() < 0.5:
                size -= rng.randrange(1 << g[3])      # unaligned logical size, same number of blocks
            payloads.append(_garbage(rng, size))
        rb = rng.random() < 0.85
        slack = rng.random() < 0.7
        if kind == 'DIFF':
            img, info = build_diff(payloads[0], rng=rng, block_log2=geo[0], dpfs_block_log2=dgeo[0],
                                   external_lv4=ext[0], active_table=active, random_bitmaps=rb,
                                   unique_id=rng.getrandbits(64), slack=slack)
        else:
            img, info = build_disa(payloads, rng=rng, block_log2=geo, dpfs_block_log2=dgeo, external_lv4=ext,
                                   active_table=active, random_bitmaps=rb, slack=slack)
        assert len(img) == info['image_size']
        stats['images'] += 1

        # ---- builder bookkeeping is self-consistent ------------------------------------------------
        for p, pi in enumerate(info['partitions']):
            bs4 = pi['block_sizes'][3]
            got = b''.join(img[o:o + n] for runs in pi['lv4_segments'] for o, n in runs)
            assert got == payloads[p], 'lv4_segments do not reproduce the payload'
            for i, (o, n) in enumerate(pi['lv4_ranges']):
                assert img[o:o + n] == payloads[p][i * bs4:i * bs4 + n]
            o, n = pi['master_hash_range']
            assert n == 0x20 * pi['level_blocks'][0]
        for o, w_, d in info['fields']:
            assert 0 <= o and o + w_ <= len(img)
        assert len({d for _, _, d in info['fields']}) == len(info['fields'])
        # ranges of different roles never overlap
        occ = bytearray(len(img))
        roles = list(info['inactive_ranges']) + list(info['slack_ranges']) + [info['partition_table_range']]
        for pi in info['partitions']:
            roles.append(pi['dpfs_lv1_range'])
            roles += [(o, pi['dpfs_block_sizes'][1]) for o in pi['dpfs_lv2_block_offsets']]
            roles += [(o, pi['dpfs_block_sizes'][2]) for o in pi['dpfs_lv3_block_offsets']]
            if pi['external_lv4']:
                roles.append((pi['lv4_ranges'][0][0], pi['level_blocks'][3] * pi['block_sizes'][3]))
        for o, n in roles:
            assert not any(occ[o:o + n]), 'overlapping ranges in info'
            occ[o:o + n] = b'\1' * n
        assert all(occ[0x200:]), 'some byte of the image has no role in info'

        # ---- own verifier accepts ------------------------------------------------------------------
        v = verify_image(img)
        assert v['ok'], v['errors'] + v['bad_blocks']
        assert v['kind'] == kind and v['data'] == payloads

        # ---- pyctr reads the pristine image ----------------------------------------------------------
        try:
            c = open_container(kind, img)
        except Exception as e:  # reader rejects a well-formed image: tolerated, reported
            notes['open failed: %s' % type(e).__name__] += 1
            continue
        assert sorted(c.partitions) == list(range(count))
        for p, pi in enumerate(info['partitions']):
            part = c.partitions[p]
            # every descriptor field in info['fields'] is where (and what) the reader parses
            fv = {d: int.from_bytes(img[o:o + w_], 'little') for o, w_, d in pi['fields']}
            for k in range(1, 5):
                lvl = getattr(part.ivfc, 'lv%d' % k)
                if (lvl.offset, lvl.size, lvl.block_size_log2) != tuple(
                        fv['p%d.ivfc.lv%d_%s' % (p, k, s)] for s in ('offset', 'size', 'block_log2')):
                    notes['IVFC descriptor parsed differently'] += 1
            for k in range(1, 4):
                lvl = getattr(part.dpfs, 'lv%d' % k)
                if (lvl.offset, lvl.size, lvl.block_size_log2) != tuple(
                        fv['p%d.dpfs.lv%d_%s' % (p, k, s)] for s in ('offset', 'size', 'block_log2')):
                    notes['DPFS descriptor parsed differently'] += 1
            if (part.difi.enable_external_ivfc_lv4, part.difi.dpfs_tree_lv1_selector,
                    part.difi.external_ivfc_lv4_offset, part.difi.part_hash_size, part.ivfc.master_hash_size) != (
                    pi['external_lv4'], pi['dpfs_selector'], fv['p%d.difi.external_lv4_offset' % p],
                    pi['master_hash_range'][1], pi['master_hash_range'][1]):
                notes['DIFI descriptor parsed differently'] += 1
            part.dpfs_lv3_file.seek(0)
            if part.dpfs_lv3_file.read() != pi['dpfs_view']:
                notes['DPFS level-3 view differs'] += 1
            for verify in (True, False):
                r = IVFCLevel4Reader(part.ivfc_hash_tree, verify=verify)
                r.seek(0)
                got = r.read(len(payloads[p]))
                if got != payloads[p]:
                    notes['full level-4 read differs (verify=%s)' % verify] += 1
            r = IVFCLevel4Reader(part.ivfc_hash_tree)
            for _ in range(12):
                size = len(payloads[p])
                o = rng.randrange(size)
                # NOTE reader bug: read(0) returns the rest of the block instead of b'' - lengths >= 1 only
                n = rng.randint(1, size - o)
                r.seek(o)
                got = r.read(n)
                stats['random reads'] += 1
                if got != payloads[p][o:o + n]:
                    notes['random level-4 read differs'] += 1
            # Probes of KNOWN reader defects on a pristine, well-formed image.  They are tolerated (only
            # counted): the builder is not bent to them.
            #  - read(0) returns the rest of the current block instead of b''
            #  - a read that crosses the end of an INTERNAL level 4 whose size is block aligned returns
            #    extra bytes (filler, or raw bytes with verify=False) or raises IndexError, because
            #    DPFSLevel3FileIO.read(0) at its end hands out the block after the view
            try:
                size = len(payloads[p])
                r.seek(rng.randrange(size))
                if r.read(0) != b'':
                    notes['KNOWN: read(0) returns data'] += 1
                o = rng.randrange(size)
                r.seek(o)
                if r.read(size - o + rng.randint(1, 2 * pi['block_sizes'][3])) != payloads[p][o:]:
                    notes['KNOWN: read crossing the end of level 4 returns extra bytes'] += 1
            except IndexError:
                notes['KNOWN: read crossing the end of level 4 raises IndexError'] += 1
        c.close()

        # ---- corruptions ------------------------------------------------------------------------
        p = rng.randrange(count)
        pi = info['partitions'][p]
        for level in (1, 2, 3, 4):
            segs = pi['lv4_segments'] if level == 4 else pi['hash_segments'][level]
            blk = rng.randrange(len(segs))
            o, n = rng.choice(segs[blk])
            off = o + rng.randrange(n)
            bad = flip(img, off)
            v = verify_image(bad)
            assert not v['ok'] and (p, level, blk) in v['bad_blocks'], (level, blk, v)
            allowed = {(p, level, blk)}
            if level < 4:  # a damaged hash also makes the block it describes mismatch
                runs = segs[blk]
                rel = sum(n_ for _, n_ in runs[:runs.index((o, n))]) + (off - o)   # offset inside the block
                allowed.add((p, level + 1, (blk * pi['block_sizes'][level - 1] + rel) // 0x20))
            assert set(v['bad_blocks']) <= allowed, (v['bad_blocks'], allowed)
            stats['corruptions rejected by verify_image'] += 1
            # pyctr, fresh reader, reading a damaged level-4 block FIRST (so that its shared verification
            # cache is still empty) must hand out filler, not data
            victim = blk
            for lv in range(level, 4):   # first level-4 block below the damaged one
                victim = victim * (pi['block_sizes'][lv - 1] // 0x20)
            # (the flipped byte may belong to the hash of a later block of the same hash block; deep
            # verification must still refuse everything below the damaged hash block)
            assert victim < pi['level_blocks'][3]
            try:
                c = open_container(kind, bad)
                r = IVFCLevel4Reader(c.partitions[p].ivfc_hash_tree)
                bs4 = pi['block_sizes'][3]
                r.seek(victim * bs4)
                n = min(bs4, len(payloads[p]) - victim * bs4)
                got = r.read(n)
                if got != b'\xDD' * n:
                    notes['fresh reader returned a damaged level-%d chain as valid' % level] += 1
                c.close()
                stats['corruptions checked against pyctr'] += 1
                # KNOWN reader defect (tolerated, counted): the verification-result cache is keyed by
                # block number only and shared by all four levels, so after ANOTHER block was read the
                # damaged level-4 block may be handed out as valid.
                if level == 4 and pi['level_blocks'][3] > 1:
                    c = open_container(kind, bad)
                    r = IVFCLevel4Reader(c.partitions[p].ivfc_hash_tree)
                    other = rng.choice([b for b in range(pi['level_blocks'][3]) if b != blk])
                    r.seek(other * bs4)
                    r.read(1)
                    r.seek(victim * bs4)
                    if r.read(n) != b'\xDD' * n:
                        notes['KNOWN: damaged level-4 block returned as valid after another block was read'] += 1
                    c.close()
            except Exception as e:
                notes['reader raised on damaged image: %s' % type(e).__name__] += 1

        # master hash / active table damage -> header hash
        o, n = pi['master_hash_range']
        bad = flip(img, o + rng.randrange(n))
        v = verify_image(bad)
        assert not v['ok'] and any('header hash' in e for e in v['errors'])
        try:
            open_container(kind, bad)
            notes['reader accepted a damaged active table'] += 1
        except CorruptPartitionError:
            pass
        # header hash field itself
        o, n = info['header_hash_field']
        assert not verify_image(flip(img, o + rng.randrange(n)))['ok']
        # inactive copies and slack are really dead: damaging them changes nothing
        dead = info['inactive_ranges'] + info['slack_ranges'] + info['view_slack_ranges']
        bad = bytearray(img)
        for o, n in dead:
            bad[o:o + n] = _garbage(rng, n)
        bad = bytes(bad)
        v = verify_image(bad)
        assert v['ok'] and v['data'] == payloads, 'inactive/slack ranges are not dead'
        try:
            c = open_container(kind, bad)
            for p2 in range(count):
                r = IVFCLevel4Reader(c.partitions[p2].ivfc_hash_tree)
                if r.read(len(payloads[p2])) != payloads[p2]:
                    notes['reader depends on inactive/slack bytes'] += 1
            c.close()
        except Exception as e:
            notes['reader raised after inactive copies were rewritten: %s' % type(e).__name__] += 1
        # complementing one meaningful DPFS bit must be noticed (wrong copy -> garbage)
        which = rng.choice(('sel', 'lv1', 'lv2'))
        db2, db3 = pi['dpfs_block_sizes'][1:]
        per = db2 * 8                                   # level-3 blocks governed by one level-2 block
        used = set()                                    # level-3 blocks holding bytes of some IVFC level
        for k in range(3 if pi['external_lv4'] else 4):
            lo, sz = pi['level_offsets'][k], pi['level_sizes'][k]
            used.update(range(lo // db3, (lo + sz - 1) // db3 + 1))
        bad = bytearray(img)
        if which == 'sel':
            o = [o for o, _, d in info['fields'] if d == 'p%d.difi.dpfs_lv1_selector' % p][0]
            bad = retarget(img, info, o, bad[o] ^ 1)
            noticed = True
        else:
            bits = pi['dpfs_lv2_bits'] if which == 'lv1' else pi['dpfs_lv3_bits']
            j = rng.randrange(len(bits))
            if which == 'lv1':
                base = pi['dpfs_lv1_range'][0]
                noticed = bool(used & set(range(j * per, (j + 1) * per)))
            else:
                base = pi['dpfs_lv2_block_offsets'][j // per] - (j // per) * db2
                noticed = j in used
            bad[base + 4 * (j >> 5) + 3 - ((j & 31) >> 3)] ^= 0x80 >> (j & 7)
            bad = bytes(bad)
        v = verify_image(bad)
        assert v['ok'] != noticed, 'flipping a DPFS %s bit: noticed=%s expected %s' % (which, not v['ok'], noticed)
        if noticed:
            # the reader must not hand out the payload as verified either (fresh reader, one pass)
            try:
                c = open_container(kind, bad)
                r = IVFCLevel4Reader(c.partitions[p].ivfc_hash_tree)
                if r.read(len(payloads[p])) == payloads[p]:
                    notes['reader returned the payload as verified after a DPFS %s flip' % which] += 1
                c.close()
            except Exception as e:
                notes['reader raised after a DPFS bit flip: %s' % type(e).__name__] += 1
        stats['dpfs bit flips (%s)' % which] += 1

        # retarget keeps the table hash valid
        f = rng.choice([d for _, _, d in info['fields'] if d.startswith('p')])
        v = verify_image(retarget(img, info, f, rng.getrandbits(64)))
        assert not any('header hash' in e for e in v['errors'])

    # garbage / truncation never raises
    for _ in range(200):
        n = rng.randrange(0, len(img))
        verify_image(img[:n])
        verify_image(_garbage(rng, rng.randrange(0x400)))
        o, w_, d = rng.choice(info['fields'])
        verify_image(retarget(img, info, d, rng.getrandbits(8 * w_)))

    if verbose:
        for k in sorted(stats):
            print('%-45s %d' % (k, stats[k]))
        if notes:
            print('READER discrepancies on well-formed images (tolerated):')
            for k in sorted(notes):
                print('   %-60s %d' % (k, notes[k]))
        else:
            print('no reader discrepancies in this run')
        print('selftest ok')
    return stats, notes


if __name__ == '__main__':
    _selftest()
