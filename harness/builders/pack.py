"""Independent builders for the 3DS title packaging formats: TMD, Ticket, CIA, CCI (NCSD), CDN
directory layout and SD title directory layout.

Nothing here calls pyctr: layouts follow 3dbrew (Title_metadata, Ticket, CIA, NCSD) and all
hashing / encryption is done with hashlib and Cryptodome.Cipher.AES.  The key scrambler, the common
KeyY table and the dev common key 0 are re-stated here (the self test compares them with pyctr).

Conventions
-----------
* TMD / Ticket integers are big-endian (except the two TMD save sizes, which are little-endian);
  CIA header and NCSD header integers are little-endian.
* "content dict" (for build_cia / write_cdn_dir / write_sdtitle_dir):
      {'id': int (32-bit content id), 'index': int (16-bit content index), 'data': bytes (plaintext),
       'encrypted': bool, optional 'type': int (extra TMD type flag bits, OR'ed with bit0=encrypted)}
  The TMD chunk record for it has size = len(data), hash = sha256(plaintext data).
  Encrypted data must be a multiple of 16 bytes (ValueError otherwise).
* "chunk dict" (for build_tmd): {'id': int, 'index': int, 'type': int, 'size': int, 'hash': bytes(32)}

API
---
scramble(key_x: int, key_y: int) -> bytes
    3DS key scrambler: rol128((rol128(X, 2) ^ Y) + 0x1FF9E9AAC5FE0408024591DC5D52768A, 87), 16 BE bytes.
common_normal_key(common_key_x: int, common_key_index: int = 0, dev_key0: bytes | None = None) -> bytes
    scramble(common_key_x, COMMON_KEY_Y[index]); dev_key0 is returned instead iff it is given and index == 0.
cbc_encrypt(key, iv, data) / cbc_decrypt(key, iv, data) -> bytes      (data multiple of 16)
content_iv(index: int) -> bytes                     index as 2 bytes BE + 14 zero bytes
encrypt_titlekey(titlekey, title_id, common_key_x, common_key_index=0, dev_key0=None) -> bytes (16)
pattern(n: int, tag='') -> bytes                    deterministic non-repeating filler (sha256 counter stream)
minimal_ncch(size: int = 0x200, *, program_id=..., partition_id=None, product_code=b'CTR-P-VRFY', fill_tag='ncch') -> bytes
    Smallest NCCH pyctr accepts: 0x200-byte header ('NCCH' at 0x100, size in media units at 0x104,
    flags[7] (0x18F) = 0x4 NoCrypto, no sections), followed by pattern filler up to `size` (multiple of 0x200).

build_tmd(title_id, contents, *, sig_type=0x10004, title_version=0, save_size=0, srl_save_size=0, extra=None) -> bytes
    contents: chunk dicts.  Layout: sig type u32, signature, padding to 0x40 alignment, 0xC4-byte header,
    0x900-byte info-record block (64 x 0x24), n x 0x30 chunk records.
    One info record (index_offset 0, command_count n) covers all chunk records, unless extra['info_split'] is a
    list of counts (summing to n): record k then covers the next counts[k] chunk records (index_offset = running sum).
    Every info-record hash and the info-block hash (header + 0xA4) are valid.
    extra keys (all optional): 'signature' (bytes, sig size), 'sig_padding' (bytes), and the unused header fields by name:
    'issuer' (<=64, NUL padded), 'version' 'ca_crl_version' 'signer_crl_version' 'reserved1' (1 byte each),
    'system_version' (8), 'title_type' (4), 'group_id' (2), 'reserved2' (4), 'srl_flag' (1), 'reserved3' (0x31),
    'access_rights' (4), 'boot_count' (2), 'padding' (2).  Values are bytes of exactly that width (ints accepted
    for the 1-byte fields).  Unknown keys raise KeyError.
tmd_fields(tmd: bytes) -> list[(offset, width, description)]
    every size/offset/count/index field inside a TMD, relative to the TMD start.
build_ticket(title_id, titlekey, common_key_x, common_key_index=0, *, dev_key0=None) -> bytes
    0x350-byte ticket, sig type 0x10004; encrypted title key at 0x1BF, title id (BE) at 0x1DC, common key index at 0x1F1,
    standard 0xAC-byte content-index block at 0x2A4.  Title key encrypted with AES-CBC, key = common_normal_key(...),
    IV = title id (8 bytes BE) + 8 zero bytes.
build_cia(contents, *, title_id, titlekey, common_key_x, common_key_index=0, present=None, cert_chain=b'', meta=b'',
          dev_key0=None, tmd_extra=None, title_version=0) -> (bytes, info)
    header 0x2020 bytes (LE): header size u32, type u16, version u16, cert size u32, ticket size u32, tmd size u32,
    meta size u32, content size u64, 0x2000-byte content index bitmap (bit (7 - i%8) of byte i//8 for present index i).
    Sections (header, cert chain, ticket, TMD, contents, meta) each start 64-byte aligned; the contents are concatenated
    in TMD order without padding between them (that is what CIAReader and ctrtool assume); only `present` content
    indices are stored (default: all) but the TMD lists all.  Encrypted contents: AES-CBC, title key, IV = content_iv(index).
    info = {'offsets': {'header','cert_chain','ticket','tmd','content','meta','end'}  ('meta' is the aligned offset where
                        meta starts / would start; 'end' = len(image): the image is not padded after its last byte),
            'sizes': same keys except 'end' (unpadded sizes),
            'content_offsets': {index: (abs offset, size)} for present contents,
            'fields': [(abs_offset, width, description)] for every size/offset/count/index field (CIA header, ticket, TMD),
            'tmd': bytes, 'ticket': bytes, 'stored': {index: stored (possibly encrypted) bytes}}
build_cci(partitions, *, media_id=0x0004000000012300, image_size_units=None, gaps=None) -> (bytes, info)
    partitions: {0..7: bytes}.  0x100 signature filler, NCSD header at 0x100 ('NCSD', image size in media units at 0x104,
    media id LE at 0x108, partition table at 0x120: 8 x (offset units u32, size units u32)), partition flags at 0x188, partition id
    table at 0x190, card-info / dev-info filler up to 0x4000.  1 media unit = 0x200.  Partitions are placed in index order at increasing
    media-unit offsets >= 0x4000, each padded with zeros to a media unit.  gaps: int (extra media units before every
    partition) or {index: units}.  image_size_units defaults to the real image size.
    info = {'partitions': {i: (abs offset, padded size)}, 'padded': {i: padded bytes}, 'image_size': int,
            'header': bytes(0x200), 'card_info': bytes(0x1000), 'dev_info': bytes(0x300),
            'fields': [(abs_offset, width, description)]}
write_cdn_dir(fs_or_path, contents, *, title_id, titlekey, common_key_x, common_key_index=0, present=None,
              upper_case_names=None, with_ticket=True, dev_key0=None, tmd_extra=None, title_version=0,
              subdir='', cetk_trailer=b'') -> dict
    writes 'tmd', optionally 'cetk' (ticket + cetk_trailer) and one file per present content (index in `present`,
    default all) named '%08x' % id (upper-case hex for ids in upper_case_names).  fs_or_path: OS directory (str /
    PathLike, created if needed) or a PyFilesystem2 FS object.  subdir: optional sub-directory below it.
    returns {'names': {'tmd': name, 'cetk': name (if written), index: name ...}, 'tmd': bytes, 'ticket': bytes,
             'enc_titlekey': bytes, 'files': {relative path: bytes written}}
write_sdtitle_dir(fs_or_path, contents, *, title_id, tmd_name='00000000.tmd', present=None, sd_encrypt=None,
                  tmd_extra=None, title_version=0, subdir='') -> dict
    writes '<tmd_name>' and '<%08x id>.app' for present contents (contents are stored in plaintext: no title-key layer
    on SD).  sd_encrypt(relative_path, data) -> bytes, if given, is applied to every file; relative_path is the path
    relative to fs_or_path, '/'-separated, without leading slash.
    returns {'names': {'tmd': name, index: name ...}, 'tmd': bytes (plaintext), 'files': {relative path: bytes written}}

Run as a script (python -m harness.builders.pack) for the self test against pyctr.
"""
import hashlib
import os
import struct

from Cryptodome.Cipher import AES

__all__ = ['MEDIA_UNIT', 'CIA_ALIGN', 'SIGNATURE_TYPES', 'COMMON_KEY_Y', 'DEV_COMMON_KEY_0', 'scramble',
           'common_normal_key', 'cbc_encrypt', 'cbc_decrypt', 'content_iv', 'encrypt_titlekey', 'pattern',
           'minimal_ncch', 'build_tmd', 'tmd_fields', 'build_ticket', 'build_cia', 'build_cci', 'write_cdn_dir',
           'write_sdtitle_dir']

MEDIA_UNIT = 0x200
CIA_ALIGN = 64
CIA_HEADER_SIZE = 0x2020
TICKET_SIZE = 0x350
TMD_HEADER_SIZE = 0xC4
TMD_INFO_BLOCK_SIZE = 0x900
TMD_INFO_RECORD_SIZE = 0x24
TMD_CHUNK_RECORD_SIZE = 0x30

# signature type -> (signature size, padding size)   [3dbrew: Title_metadata#Signature_Type]
SIGNATURE_TYPES = {
    0x10000: (0x200, 0x3C),
    0x10001: (0x100, 0x3C),
    0x10002: (0x3C, 0x40),
    0x10003: (0x200, 0x3C),
    0x10004: (0x100, 0x3C),
    0x10005: (0x3C, 0x40),
}

# common KeyY table of keyslot 0x3D [3dbrew: AES_Registers / process9]
COMMON_KEY_Y = (
    0xD07B337F9CA4385932A2E25723232EB9,
    0x0C767230F0998F1C46828202FAACBE4C,
    0xC475CB3AB8C788BB575E12A10907B8A4,
    0xE486EEE3D0C09C902F6686D4C06F649F,
    0xED31BA9C04B067506C4497A35B7804FC,
    0x5E66998AB4E8931606850FD7A16DD755,
)
DEV_COMMON_KEY_0 = bytes.fromhex('55A3F872BDC80C555A654381139E153B')

_SCRAMBLER_CONST = 0x1FF9E9AAC5FE0408024591DC5D52768A
_M128 = (1 << 128) - 1


# ---------------------------------------------------------------------------------------------------------------------
# primitives

def _rol128(v, n):
    v &= _M128
    n %= 128
    return ((v << n) | (v >> (128 - n))) & _M128


def scramble(key_x, key_y):
    """3DS hardware key scrambler, result as 16 big-endian bytes."""
    return _rol128(((_rol128(key_x, 2) ^ (key_y & _M128)) + _SCRAMBLER_CONST) & _M128, 87).to_bytes(16, 'big')


def common_normal_key(common_key_x, common_key_index=0, dev_key0=None):
    if dev_key0 is not None and common_key_index == 0:
        if len(dev_key0) != 16:
            raise ValueError('dev_key0 must be 16 bytes')
        return bytes(dev_key0)
    return scramble(common_key_x, COMMON_KEY_Y[common_key_index])


def cbc_encrypt(key, iv, data):
    if len(data) % 16:
        raise ValueError('CBC data length %#x is not a multiple of 16' % len(data))
    if not data:
        return b''
    return AES.new(bytes(key), AES.MODE_CBC, bytes(iv)).encrypt(bytes(data))


def cbc_decrypt(key, iv, data):
    if len(data) % 16:
        raise ValueError('CBC data length %#x is not a multiple of 16' % len(data))
    if not data:
        return b''
    return AES.new(bytes(key), AES.MODE_CBC, bytes(iv)).decrypt(bytes(data))


def content_iv(index):
    return index.to_bytes(2, 'big') + b'\0' * 14


def encrypt_titlekey(titlekey, title_id, common_key_x, common_key_index=0, dev_key0=None):
    if len(titlekey) != 16:
        raise ValueError('title key must be 16 bytes')
    key = common_normal_key(common_key_x, common_key_index, dev_key0)
    return cbc_encrypt(key, title_id.to_bytes(8, 'big') + b'\0' * 8, titlekey)


def pattern(n, tag=''):
    """n deterministic, non-repeating filler bytes."""
    out = bytearray()
    ctr = 0
    seed = str(tag).encode()
    while len(out) < n:
        out += hashlib.sha256(seed + b'#' + ctr.to_bytes(8, 'big')).digest()
        ctr += 1
    return bytes(out[:n])


def _align(n, a):
    return (n + a - 1) // a * a


def _pad(b, a, fill=b'\0'):
    return b + fill * (_align(len(b), a) - len(b))


def minimal_ncch(size=MEDIA_UNIT, *, program_id=0x0004000000012300, partition_id=None, product_code=b'CTR-P-VRFY',
                 fill_tag='ncch'):
    """Smallest plaintext NCCH: header only (NoCrypto, no extheader / logo / plain / exefs / romfs)."""
    if size % MEDIA_UNIT or size < MEDIA_UNIT:
        raise ValueError('NCCH size must be a positive multiple of 0x200')
    if partition_id is None:
        partition_id = program_id
    h = bytearray(MEDIA_UNIT)
    h[0:0x100] = pattern(0x100, fill_tag + '/sig')
    h[0x100:0x104] = b'NCCH'
    struct.pack_into('<I', h, 0x104, size // MEDIA_UNIT)
    struct.pack_into('<Q', h, 0x108, partition_id)
    h[0x110:0x112] = b'00'          # maker code
    struct.pack_into('<H', h, 0x112, 2)   # version
    struct.pack_into('<Q', h, 0x118, program_id)
    h[0x150:0x160] = bytes(product_code).ljust(16, b'\0')[:16]
    # 0x180 extheader size = 0; 0x188 flags: [4] platform = 1 (CTR), [5] content type = 1 (Data -> CFA),
    # [7] = 0x4 NoCrypto | 0x2 NoMountRomFs
    h[0x188 + 4] = 1
    h[0x188 + 5] = 1
    h[0x188 + 7] = 0x4 | 0x2
    return bytes(h) + pattern(size - MEDIA_UNIT, fill_tag + '/body')


# ---------------------------------------------------------------------------------------------------------------------
# TMD

# unused / reserved header fields: name -> (offset in the 0xC4 header, width, default)
_TMD_UNUSED = {
    'issuer': (0x00, 0x40, b'Root-CA00000003-CP0000000b'),
    'version': (0x40, 1, b'\x01'),
    'ca_crl_version': (0x41, 1, b'\0'),
    'signer_crl_version': (0x42, 1, b'\0'),
    'reserved1': (0x43, 1, b'\0'),
    'system_version': (0x44, 8, b'\0' * 8),
    'title_type': (0x54, 4, b'\0\0\0\x40'),
    'group_id': (0x58, 2, b'\0\0'),
    'reserved2': (0x62, 4, b'\0' * 4),
    'srl_flag': (0x66, 1, b'\0'),
    'reserved3': (0x67, 0x31, b'\0' * 0x31),
    'access_rights': (0x98, 4, b'\0' * 4),
    'boot_count': (0xA0, 2, b'\0\0'),
    'padding': (0xA2, 2, b'\0\0'),
}
_TMD_EXTRA_OTHER = {'info_split', 'signature', 'sig_padding'}


def _chunk_record(c):
    h = bytes(c['hash'])
    if len(h) != 32:
        raise ValueError('chunk hash must be 32 bytes')
    return struct.pack('>IHHQ', c['id'] & 0xFFFFFFFF, c['index'], int(c['type']) & 0xFFFF, c['size']) + h


def build_tmd(title_id, contents, *, sig_type=0x10004, title_version=0, save_size=0, srl_save_size=0, extra=None):
    extra = dict(extra or {})
    for k in extra:
        if k not in _TMD_UNUSED and k not in _TMD_EXTRA_OTHER:
            raise KeyError('unknown tmd extra field %r' % (k,))
    sig_size, sig_pad = SIGNATURE_TYPES[sig_type]
    n = len(contents)
    if n > 0xFFFF:
        raise ValueError('too many contents')

    signature = bytes(extra.get('signature', pattern(sig_size, 'tmd/signature')))
    if len(signature) != sig_size:
        raise ValueError('signature must be %#x bytes' % sig_size)
    sig_padding = bytes(extra.get('sig_padding', b'\0' * sig_pad))
    if len(sig_padding) != sig_pad:
        raise ValueError('sig_padding must be %#x bytes' % sig_pad)

    chunks = [_chunk_record(c) for c in contents]

    split = extra.get('info_split')
    if split is None:
        split = [n]
    split = list(split)
    if sum(split) != n or any(s < 0 for s in split):
        raise ValueError('info_split must be non-negative counts summing to the content count')
    if len(split) > TMD_INFO_BLOCK_SIZE // TMD_INFO_RECORD_SIZE:
        raise ValueError('at most 64 info records')
    info = bytearray()
    pos = 0
    for cnt in split:
        digest = hashlib.sha256(b''.join(chunks[pos:pos + cnt])).digest()
        info += struct.pack('>HH', pos, cnt) + digest
        pos += cnt
    info = bytes(info).ljust(TMD_INFO_BLOCK_SIZE, b'\0')

    hdr = bytearray(TMD_HEADER_SIZE)
    for name, (off, width, default) in _TMD_UNUSED.items():
        v = extra.get(name, default)
        if isinstance(v, int):
            v = v.to_bytes(width, 'big')
        elif isinstance(v, str):
            v = v.encode('ascii')
        v = bytes(v)
        if name == 'issuer':
            if len(v) > width:
                raise ValueError('issuer longer than 64 bytes')
            v = v.ljust(width, b'\0')
        if len(v) != width:
            raise ValueError('tmd field %s must be %d bytes' % (name, width))
        hdr[off:off + width] = v
    struct.pack_into('>Q', hdr, 0x4C, title_id)
    struct.pack_into('<I', hdr, 0x5A, save_size)        # little-endian, unlike the rest
    struct.pack_into('<I', hdr, 0x5E, srl_save_size)
    struct.pack_into('>H', hdr, 0x9C, int(title_version))
    struct.pack_into('>H', hdr, 0x9E, n)
    hdr[0xA4:0xC4] = hashlib.sha256(info).digest()

    return struct.pack('>I', sig_type) + signature + sig_padding + bytes(hdr) + info + b''.join(chunks)


def tmd_fields(tmd):
    """(offset, width, description) of every size/offset/count/index field of a TMD, relative to its start."""
    sig_type = int.from_bytes(tmd[0:4], 'big')
    sig_size, sig_pad = SIGNATURE_TYPES[sig_type]
    h = 4 + sig_size + sig_pad
    out = [(0, 4, 'tmd.sig_type'),
           (h + 0x5A, 4, 'tmd.save_size (LE)'),
           (h + 0x5E, 4, 'tmd.srl_save_size (LE)'),
           (h + 0x9C, 2, 'tmd.title_version'),
           (h + 0x9E, 2, 'tmd.content_count')]
    n = int.from_bytes(tmd[h + 0x9E:h + 0xA0], 'big')
    ib = h + TMD_HEADER_SIZE
    for k in range(TMD_INFO_BLOCK_SIZE // TMD_INFO_RECORD_SIZE):
        rec = tmd[ib + k * TMD_INFO_RECORD_SIZE: ib + (k + 1) * TMD_INFO_RECORD_SIZE]
        if rec != b'\0' * TMD_INFO_RECORD_SIZE:
            out.append((ib + k * TMD_INFO_RECORD_SIZE, 2, 'tmd.info[%d].index_offset' % k))
            out.append((ib + k * TMD_INFO_RECORD_SIZE + 2, 2, 'tmd.info[%d].command_count' % k))
    cb = ib + TMD_INFO_BLOCK_SIZE
    for k in range(n):
        o = cb + k * TMD_CHUNK_RECORD_SIZE
        if o + TMD_CHUNK_RECORD_SIZE > len(tmd):
            break
        out.append((o + 4, 2, 'tmd.chunk[%d].index' % k))
        out.append((o + 6, 2, 'tmd.chunk[%d].type' % k))
        out.append((o + 8, 8, 'tmd.chunk[%d].size' % k))
    return out


def _tmd_chunks_from_contents(contents):
    out = []
    for c in contents:
        data = bytes(c['data'])
        enc = bool(c.get('encrypted', False))
        out.append({'id': c['id'], 'index': c['index'], 'type': (int(c.get('type', 0)) & ~1) | int(enc),
                    'size': len(data), 'hash': hashlib.sha256(data).digest()})
    return out


def _check_contents(contents):
    seen_idx, seen_id = set(), set()
    for c in contents:
        if c['index'] in seen_idx:
            raise ValueError('duplicate content index %r' % (c['index'],))
        if c['id'] in seen_id:
            raise ValueError('duplicate content id %r' % (c['id'],))
        seen_idx.add(c['index'])
        seen_id.add(c['id'])
        if not 0 <= c['index'] <= 0xFFFF:
            raise ValueError('content index out of range')
        if not 0 <= c['id'] <= 0xFFFFFFFF:
            raise ValueError('content id out of range')
        if c.get('encrypted') and len(c['data']) % 16:
            raise ValueError('encrypted content %#x: length not a multiple of 16' % c['index'])


def _present_set(contents, present):
    all_idx = {c['index'] for c in contents}
    if present is None:
        return all_idx
    present = set(present)
    if present - all_idx:
        raise ValueError('present indices not in contents: %r' % sorted(present - all_idx))
    return present


def _stored(c, titlekey):
    data = bytes(c['data'])
    if c.get('encrypted'):
        return cbc_encrypt(titlekey, content_iv(c['index']), data)
    return data


# ---------------------------------------------------------------------------------------------------------------------
# Ticket

# the content-index block every retail 0x350 ticket carries at 0x2A4 (header 0x2C bytes + 0x80-byte bitmap)
_TICKET_CONTENT_INDEX = (bytes.fromhex('00010014' '000000AC' '00000014' '00010014' '00000000' '00000028'
                                       '00000001' '00000084' '00000084' '00030000' '00000000')
                         + b'\xFF' * 0x80)


def build_ticket(title_id, titlekey, common_key_x, common_key_index=0, *, dev_key0=None):
    t = bytearray(TICKET_SIZE)
    struct.pack_into('>I', t, 0, 0x10004)
    t[4:0x104] = pattern(0x100, 'ticket/signature')
    # 0x104..0x140 padding
    t[0x140:0x180] = b'Root-CA00000003-XS0000000c'.ljust(0x40, b'\0')
    t[0x180:0x1BC] = pattern(0x3C, 'ticket/ecc')
    t[0x1BC] = 1                       # version
    t[0x1BD] = 0                       # ca crl version
    t[0x1BE] = 0                       # signer crl version
    t[0x1BF:0x1CF] = encrypt_titlekey(titlekey, title_id, common_key_x, common_key_index, dev_key0)
    t[0x1D0:0x1D8] = pattern(8, 'ticket/id')
    # 0x1D8 console id = 0
    struct.pack_into('>Q', t, 0x1DC, title_id)
    # 0x1E6 ticket title version = 0, 0x1F0 license type = 0
    t[0x1F1] = common_key_index
    # 0x21C eshop account id = 0, 0x221 audit = 1, 0x264 limits = 0
    t[0x221] = 1
    t[0x2A4:0x350] = _TICKET_CONTENT_INDEX
    assert len(t) == TICKET_SIZE
    return bytes(t)


_TICKET_FIELDS = [(0, 4, 'ticket.sig_type'), (0x1F1, 1, 'ticket.common_key_index'),
                  (0x2A4 + 4, 4, 'ticket.content_index.total_size')]


# ---------------------------------------------------------------------------------------------------------------------
# CIA

def build_cia(contents, *, title_id, titlekey, common_key_x, common_key_index=0, present=None, cert_chain=b'',
              meta=b'', dev_key0=None, tmd_extra=None, title_version=0):
    _check_contents(contents)
    present = _present_set(contents, present)
    cert_chain = bytes(cert_chain)
    meta = bytes(meta)

    ticket = build_ticket(title_id, titlekey, common_key_x, common_key_index, dev_key0=dev_key0)
    tmd = build_tmd(title_id, _tmd_chunks_from_contents(contents), title_version=title_version, extra=tmd_extra)

    stored = {}
    order = []
    for c in contents:           # TMD order
        if c['index'] in present:
            stored[c['index']] = _stored(c, titlekey)
            order.append(c['index'])
    content_size = sum(len(stored[i]) for i in order)

    bitmap = bytearray(0x2000)
    for i in present:
        bitmap[i // 8] |= 0x80 >> (i % 8)

    header = struct.pack('<IHHIIIIQ', CIA_HEADER_SIZE, 0, 0, len(cert_chain), len(ticket), len(tmd), len(meta),
                         content_size) + bytes(bitmap)
    assert len(header) == CIA_HEADER_SIZE

    off = {'header': 0}
    off['cert_chain'] = _align(CIA_HEADER_SIZE, CIA_ALIGN)
    off['ticket'] = off['cert_chain'] + _align(len(cert_chain), CIA_ALIGN)
    off['tmd'] = off['ticket'] + _align(len(ticket), CIA_ALIGN)
    off['content'] = off['tmd'] + _align(len(tmd), CIA_ALIGN)
    off['meta'] = off['content'] + _align(content_size, CIA_ALIGN)
    sizes = {'header': CIA_HEADER_SIZE, 'cert_chain': len(cert_chain), 'ticket': len(ticket), 'tmd': len(tmd),
             'content': content_size, 'meta': len(meta)}

    image = bytearray()
    image += _pad(header, CIA_ALIGN)
    image += _pad(cert_chain, CIA_ALIGN)
    image += _pad(ticket, CIA_ALIGN)
    image += _pad(tmd, CIA_ALIGN)
    assert len(image) == off['content']
    content_offsets = {}
    for i in order:
        content_offsets[i] = (len(image), len(stored[i]))
        image += stored[i]
    if meta:
        image += b'\0' * (off['meta'] - len(image))
        image += meta
    off['end'] = len(image)      # no padding after the last stored byte
    assert len(image) == (off['meta'] + len(meta) if meta else off['content'] + content_size)

    fields = [(0x00, 4, 'cia.header_size'), (0x04, 2, 'cia.type'), (0x06, 2, 'cia.version'),
              (0x08, 4, 'cia.cert_chain_size'), (0x0C, 4, 'cia.ticket_size'), (0x10, 4, 'cia.tmd_size'),
              (0x14, 4, 'cia.meta_size'), (0x18, 8, 'cia.content_size')]
    for i in sorted(present):
        fields.append((0x20 + i // 8, 1, 'cia.content_index byte holding bit for index %d' % i))
    fields += [(off['ticket'] + o, w, d) for o, w, d in _TICKET_FIELDS]
    fields += [(off['tmd'] + o, w, d) for o, w, d in tmd_fields(tmd)]

    info = {'offsets': off, 'sizes': sizes, 'content_offsets': content_offsets, 'fields': fields, 'tmd': tmd,
            'ticket': ticket, 'stored': stored}
    return bytes(image), info


# ---------------------------------------------------------------------------------------------------------------------
# CCI / NCSD

def build_cci(partitions, *, media_id=0x0004000000012300, image_size_units=None, gaps=None, first_unit=None, order=None):
    for i in partitions:
        if not 0 <= i <= 7:
            raise ValueError('partition index must be 0..7')
    if gaps is None:
        gaps = {}
    if isinstance(gaps, int):
        gaps = {i: gaps for i in range(8)}

    # retail images start their first partition at 0x4000; the format only needs it to lie behind the header areas (0x1500)
    first = 0x4000 // MEDIA_UNIT if first_unit is None else int(first_unit)
    assert first * MEDIA_UNIT >= 0x1600
    table = [(0, 0)] * 8
    cur = first
    padded = {}
    for i in (list(order) if order is not None else sorted(partitions)):      # order of placement in the file
        p = _pad(bytes(partitions[i]), MEDIA_UNIT)
        padded[i] = p
        cur += int(gaps.get(i, 0))
        table[i] = (cur, len(p) // MEDIA_UNIT)
        cur += len(p) // MEDIA_UNIT
    total_units = cur
    if image_size_units is None:
        image_size_units = total_units

    hdr = bytearray(MEDIA_UNIT)
    hdr[0:0x100] = pattern(0x100, 'ncsd/signature')
    hdr[0x100:0x104] = b'NCSD'
    struct.pack_into('<I', hdr, 0x104, image_size_units & 0xFFFFFFFF)
    struct.pack_into('<Q', hdr, 0x108, media_id)
    # 0x110 partition fs types (8 x u8) = 0, 0x118 partition crypt types (8 x u8) = 0
    for i, (o, s) in enumerate(table):
        struct.pack_into('<II', hdr, 0x120 + 8 * i, o, s)
    # 0x160 exheader hash (0x20), 0x180 additional header size, 0x184 sector zero offset, 0x188 partition flags
    hdr[0x188 + 5] = 1      # media type index: card1
    hdr[0x188 + 4] = 1      # media platform: CTR
    hdr[0x188 + 6] = 0      # media unit size = 0x200 << 0
    for i in sorted(partitions):
        struct.pack_into('<Q', hdr, 0x190 + 8 * i, media_id)     # partition id table
    card_info = pattern(0x1000, 'ncsd/card_info')
    dev_info = pattern(0x300, 'ncsd/dev_info')

    image = bytearray(bytes(hdr) + card_info + dev_info)
    for i in sorted(partitions, key=lambda i: table[i][0]):
        o, s = table[i]
        image += b'\xFF' * (o * MEDIA_UNIT - len(image))
        image += padded[i]
    assert len(image) == total_units * MEDIA_UNIT

    fields = [(0x104, 4, 'ncsd.image_size_units')]
    for i in range(8):
        fields.append((0x120 + 8 * i, 4, 'ncsd.partition[%d].offset_units' % i))
        fields.append((0x124 + 8 * i, 4, 'ncsd.partition[%d].size_units' % i))
    fields.append((0x188 + 6, 1, 'ncsd.flags.media_unit_exponent'))

    info = {'partitions': {i: (table[i][0] * MEDIA_UNIT, table[i][1] * MEDIA_UNIT) for i in sorted(partitions)},
            'padded': padded, 'image_size': total_units * MEDIA_UNIT, 'header': bytes(hdr), 'card_info': card_info,
            'dev_info': dev_info, 'fields': fields}
    return bytes(image), info


# ---------------------------------------------------------------------------------------------------------------------
# directory layouts

class _Sink:
    """Write files below an OS directory or a PyFilesystem2 FS object."""

    def __init__(self, fs_or_path, subdir=''):
        self.subdir = subdir.strip('/')
        self.files = {}
        if isinstance(fs_or_path, (str, bytes, os.PathLike)):
            self.fs = None
            self.root = os.fsdecode(fs_or_path)
            os.makedirs(os.path.join(self.root, *self.subdir.split('/')) if self.subdir else self.root, exist_ok=True)
        else:
            self.fs = fs_or_path
            if self.subdir:
                self.fs.makedirs(self.subdir, recreate=True)

    def rel(self, name):
        return self.subdir + '/' + name if self.subdir else name

    def write(self, name, data, transform=None):
        rel = self.rel(name)
        if transform is not None:
            data = transform(rel, data)
        data = bytes(data)
        if self.fs is None:
            with open(os.path.join(self.root, *rel.split('/')), 'wb') as f:
                f.write(data)
        else:
            self.fs.writebytes(rel, data)
        self.files[rel] = data
        return rel


def write_cdn_dir(fs_or_path, contents, *, title_id, titlekey, common_key_x, common_key_index=0, present=None,
                  upper_case_names=None, with_ticket=True, dev_key0=None, tmd_extra=None, title_version=0, subdir='',
                  cetk_trailer=b''):
    _check_contents(contents)
    present = _present_set(contents, present)
    upper = set(upper_case_names or ())
    sink = _Sink(fs_or_path, subdir)

    tmd = build_tmd(title_id, _tmd_chunks_from_contents(contents), title_version=title_version, extra=tmd_extra)
    ticket = build_ticket(title_id, titlekey, common_key_x, common_key_index, dev_key0=dev_key0)
    names = {'tmd': 'tmd'}
    sink.write('tmd', tmd)
    if with_ticket:
        names['cetk'] = 'cetk'
        sink.write('cetk', ticket + bytes(cetk_trailer))
    for c in contents:
        if c['index'] not in present:
            continue
        name = '%08x' % c['id']
        if c['id'] in upper:
            name = name.upper()
        names[c['index']] = name
        sink.write(name, _stored(c, titlekey))
    return {'names': names, 'tmd': tmd, 'ticket': ticket, 'enc_titlekey': ticket[0x1BF:0x1CF], 'files': sink.files}


def write_sdtitle_dir(fs_or_path, contents, *, title_id, tmd_name='00000000.tmd', present=None, sd_encrypt=None,
                      tmd_extra=None, title_version=0, subdir=''):
    _check_contents(contents)
    present = _present_set(contents, present)
    sink = _Sink(fs_or_path, subdir)

    tmd = build_tmd(title_id, _tmd_chunks_from_contents(contents), title_version=title_version, extra=tmd_extra)
    names = {'tmd': tmd_name}
    sink.write(tmd_name, tmd, sd_encrypt)
    for c in contents:
        if c['index'] not in present:
            continue
        name = '%08x.app' % c['id']
        names[c['index']] = name
        sink.write(name, bytes(c['data']), sd_encrypt)
    return {'names': names, 'tmd': tmd, 'files': sink.files}


# ---------------------------------------------------------------------------------------------------------------------
# self test against pyctr (the only place pyctr is imported)

def _selftest():
    import io
    import shutil
    import tempfile
    import warnings
    warnings.simplefilter('ignore')

    from harness import pyenv
    pyenv.install_fake_boot9(1234)
    from fs.memoryfs import MemoryFS
    from pyctr.crypto import engine as E
    from pyctr.crypto.engine import CryptoEngine
    from pyctr.type.cci import CCIReader, CCISection
    from pyctr.type.cdn import CDNReader, CDNSection
    from pyctr.type.cia import CIAReader, CIASection
    from pyctr.type.sdtitle import SDTitleReader, SDTitleSection
    from pyctr.type.tmd import TitleMetadataReader

    checks = [0]

    def ok(cond, what):
        checks[0] += 1
        if not cond:
            raise AssertionError(what)

    def readall(fh):
        with fh:
            return fh.read()

    # constants / scrambler
    ok(COMMON_KEY_Y == tuple(E._common_key_y), 'common KeyY table')
    ok(DEV_COMMON_KEY_0 == E.DEV_COMMON_KEY_0, 'dev common key 0')
    kx = CryptoEngine().key_x[0x3D]
    kx_dev = CryptoEngine(dev=True).key_x[0x3D]
    for y in COMMON_KEY_Y:
        ok(scramble(kx, y) == CryptoEngine.keygen_manual(kx, y), 'scrambler')

    tid = 0x0004000000ABCD00
    tk = pattern(16, 'selftest/titlekey')

    # --- TMD: parse + byte-exact round trip
    def chunks(n):
        return [{'id': 0x100 + i, 'index': i * 3, 'type': (i & 1) | (0x4000 if i == 2 else 0), 'size': 0x200 * (i + 1),
                 'hash': hashlib.sha256(b'%d' % i).digest()} for i in range(n)]
    tmd_cases = [build_tmd(tid, chunks(3), sig_type=st, title_version=0xFFFF, save_size=0x12345678,
                           srl_save_size=0x9ABCDEF0) for st in SIGNATURE_TYPES]
    tmd_cases += [build_tmd(tid, []), build_tmd(tid, chunks(7), extra={'info_split': [1, 2, 0, 4]}),
                  build_tmd(tid, chunks(64), extra={'info_split': [1] * 64}), build_tmd(tid, chunks(300)),
                  build_tmd(tid, chunks(2), extra={n: pattern(w, n) for n, (o, w, d) in _TMD_UNUSED.items()
                                                   if w > 1 and n != 'issuer'}),
                  build_tmd(tid, chunks(2), extra={'issuer': b'A' * 64, 'version': 0x7F, 'srl_flag': 0x7F,
                                                   'ca_crl_version': 1, 'signer_crl_version': 2, 'reserved1': 3})]
    for t in tmd_cases:
        r = TitleMetadataReader.load(io.BytesIO(t))
        ok(bytes(r) == t, 'tmd round trip')
        ok(r.title_id == '%016x' % tid, 'tmd title id')
    r = TitleMetadataReader.load(io.BytesIO(tmd_cases[0]))
    ok((r.save_size, r.srl_save_size, int(r.title_version), r.content_count) == (0x12345678, 0x9ABCDEF0, 0xFFFF, 3),
       'tmd fields')
    ok([(c.id, c.cindex, int(c.type), c.size) for c in r.chunk_records] ==
       [('%08x' % c['id'], c['index'], c['type'], c['size']) for c in chunks(3)], 'tmd chunk records')
    for o, w, d in tmd_fields(tmd_cases[0]):
        if d == 'tmd.content_count':
            ok(int.from_bytes(tmd_cases[0][o:o + w], 'big') == 3, 'tmd_fields content_count')

    # --- ticket
    for idx in range(len(COMMON_KEY_Y)):
        e = CryptoEngine()
        e.load_from_ticket(build_ticket(tid, tk, kx, idx))
        ok(e.key_normal[0x40] == tk, 'ticket retail idx %d' % idx)
        e = CryptoEngine(dev=True)
        e.load_from_ticket(build_ticket(tid, tk, kx_dev, idx, dev_key0=DEV_COMMON_KEY_0))
        ok(e.key_normal[0x40] == tk, 'ticket dev idx %d' % idx)
    ok(len(build_ticket(tid, tk, kx)) == 0x350, 'ticket size')

    # --- CIA
    ncch = [minimal_ncch(0x200 * (i + 1), program_id=tid, fill_tag='n%d' % i) for i in range(3)]
    raw = [{'id': 0x10, 'index': 0, 'data': pattern(0x400, 'a'), 'encrypted': True},
           {'id': 0xABCDEF01, 'index': 1, 'data': pattern(0x231, 'b'), 'encrypted': False},
           {'id': 0x12, 'index': 5, 'data': pattern(0x30, 'c'), 'encrypted': True},
           {'id': 0x13, 'index': 0xFFFF, 'data': pattern(0x50, 'd'), 'encrypted': True},
           {'id': 0x14, 'index': 2, 'data': b'', 'encrypted': False}]
    nc = [{'id': 0, 'index': 0, 'data': ncch[0], 'encrypted': True},
          {'id': 0xABCDEF01, 'index': 1, 'data': ncch[1], 'encrypted': False},
          {'id': 0x12, 'index': 2, 'data': ncch[2], 'encrypted': True}]
    sec_names = {'header': CIASection.ArchiveHeader, 'cert_chain': CIASection.CertificateChain,
                 'ticket': CIASection.Ticket, 'tmd': CIASection.TitleMetadata, 'meta': CIASection.Meta}
    for contents, present, cert, meta, idx, dev, start in [
            (raw, None, pattern(0xA00, 'cert'), pattern(0x3AC0, 'meta'), 0, False, 0),
            (raw, {1, 5, 0xFFFF}, b'', b'', 3, False, 0x123),
            (raw, set(), b'x' * 7, b'M' * 5, 1, False, 0),
            (raw, None, b'', b'', 0, True, 0),
            (raw, None, b'', b'', 1, True, 0),
            (nc, None, b'', b'', 0, False, 0)]:
        cia, info = build_cia(contents, title_id=tid, titlekey=tk, common_key_x=kx_dev if dev else kx,
                              common_key_index=idx, present=present, cert_chain=cert, meta=meta,
                              dev_key0=DEV_COMMON_KEY_0 if dev else None)
        f = io.BytesIO(b'\xEE' * start + cia)
        f.seek(start)
        rd = CIAReader(f, dev=dev, load_contents=False)
        for name, sec in sec_names.items():
            if name == 'meta' and not meta:
                ok(sec not in rd.sections, 'cia: no meta section')
                continue
            ok((rd.sections[sec].offset, rd.sections[sec].size) == (info['offsets'][name], info['sizes'][name]),
               'cia section ' + name)
        ok(readall(rd.open_raw_section(CIASection.Ticket)) == info['ticket'], 'cia ticket view')
        ok(readall(rd.open_raw_section(CIASection.TitleMetadata)) == info['tmd'], 'cia tmd view')
        ok(readall(rd.open_raw_section(CIASection.CertificateChain)) == cert, 'cia cert view')
        if meta:
            ok(readall(rd.open_raw_section(CIASection.Meta)) == meta, 'cia meta view')
            ok(rd.total_size == len(cia) == info['offsets']['end'], 'cia total size')
        want = {c['index'] for c in contents} if present is None else present
        ok({r.cindex for r in rd.content_info} == want == set(info['content_offsets']), 'cia present set')
        ok(len(rd.tmd.chunk_records) == len(contents), 'cia tmd lists all')
        for c in contents:
            if c['index'] in want:
                reg = rd.sections[c['index']]
                ok((reg.offset, reg.size) == info['content_offsets'][c['index']], 'cia content offset')
                ok(readall(rd.open_raw_section(c['index'])) == c['data'], 'cia content view %#x' % c['index'])
                o, s = info['content_offsets'][c['index']]
                ok((cia[o:o + s] == c['data']) == (not c['encrypted'] or not c['data']), 'cia stored form')
                ok(hashlib.sha256(c['data']).digest() ==
                   [r.hash for r in rd.tmd.chunk_records if r.cindex == c['index']][0], 'cia tmd hash')
        for o, w, d in info['fields']:
            ok(o + w <= len(cia), 'cia field inside image: ' + d)
        ok(int.from_bytes(cia[0x18:0x20], 'little') == info['sizes']['content'], 'cia content size field')
        rd.close()
    # NCCH contents: the default load_contents=True path works with minimal_ncch()
    cia, info = build_cia(nc, title_id=tid, titlekey=tk, common_key_x=kx)
    rd = CIAReader(io.BytesIO(cia))
    ok(sorted(rd.contents) == [0, 1, 2] and rd.contents[2].content_size == 0x600, 'cia load_contents with minimal ncch')
    ok(rd.contents[1].program_id == '%016x' % tid and rd.contents[1].flags.no_crypto, 'minimal ncch parsed')
    rd.close()

    # --- CCI
    for parts, gaps, dev_start in [({0: ncch[0], 1: ncch[1], 7: ncch[2]}, {1: 3}, 0),
                                   ({0: pattern(0x333, 'x'), 3: b'', 5: pattern(0x200, 'y')}, 2, 77),
                                   ({i: pattern(0x200 + i, 'p%d' % i) for i in range(8)}, None, 0)]:
        cci, ci = build_cci(parts, gaps=gaps, media_id=0x0004000000FEDC00)
        f = io.BytesIO(b'\x11' * dev_start + cci)
        f.seek(dev_start)
        rd = CCIReader(f, load_contents=False)
        ok(rd.media_id == '0004000000fedc00' and rd.image_size == len(cci) == ci['image_size'], 'cci header')
        ok({int(s) for s in rd.sections if s >= 0} == set(parts), 'cci partitions')
        prev_end = 0x4000
        for i in sorted(parts):
            reg = rd.sections[CCISection(i)]
            ok((reg.offset, reg.size) == ci['partitions'][i], 'cci partition region')
            ok(reg.offset >= prev_end and reg.offset % MEDIA_UNIT == 0, 'cci partition placement')
            prev_end = reg.offset + reg.size
            ok(readall(rd.open_raw_section(CCISection(i))) == ci['padded'][i], 'cci partition view')
            ok(ci['padded'][i][:len(parts[i])] == parts[i] and not any(ci['padded'][i][len(parts[i]):]), 'cci padding')
        ok(readall(rd.open_raw_section(CCISection.Header)) == ci['header'], 'cci header view')
        ok(readall(rd.open_raw_section(CCISection.CardInfo)) == ci['card_info'], 'cci card info view')
        ok(readall(rd.open_raw_section(CCISection.DevInfo)) == ci['dev_info'], 'cci dev info view')
        rd.close()
    cci, ci = build_cci({0: ncch[1], 6: ncch[0]}, image_size_units=0x1000)
    rd = CCIReader(io.BytesIO(cci))
    ok(rd.image_size == 0x200000 and sorted(int(k) for k in rd.contents) == [0, 6], 'cci load_contents with minimal ncch')
    rd.close()

    # --- CDN directory: OS directory and MemoryFS
    def check_cdn(rd, contents, present):
        ok({r.cindex for r in rd.content_info} == present, 'cdn present set')
        for c in contents:
            if c['index'] in present:
                ok(readall(rd.open_raw_section(c['index'])) == c['data'], 'cdn content view %#x' % c['index'])
        rd.close()

    tmp = tempfile.mkdtemp(prefix='pack_selftest_')
    try:
        cdn_dir = os.path.join(tmp, 'cdn')
        res = write_cdn_dir(cdn_dir, raw, title_id=tid, titlekey=tk, common_key_x=kx, common_key_index=2,
                            upper_case_names={0xABCDEF01}, present={0, 1, 0xFFFF})
        ok(sorted(os.listdir(cdn_dir)) == ['00000010', '00000013', 'ABCDEF01', 'cetk', 'tmd'], 'cdn os names')
        ok(res['names'] == {'tmd': 'tmd', 'cetk': 'cetk', 0: '00000010', 1: 'ABCDEF01', 0xFFFF: '00000013'}, 'cdn names')
        rd = CDNReader(os.path.join(cdn_dir, 'tmd'), load_contents=False)
        ok(readall(rd.open_raw_section(CDNSection.TitleMetadata)) == res['tmd'], 'cdn tmd view')
        ok(readall(rd.open_raw_section(CDNSection.Ticket)) == res['ticket'], 'cdn ticket view')
        check_cdn(rd, raw, {0, 1, 0xFFFF})
        check_cdn(CDNReader(os.path.join(cdn_dir, 'tmd'), load_contents=False, titlekey=res['enc_titlekey'],
                            common_key_index=2), raw, {0, 1, 0xFFFF})
        check_cdn(CDNReader(os.path.join(cdn_dir, 'tmd'), load_contents=False, decrypted_titlekey=tk),
                  raw, {0, 1, 0xFFFF})
        # SD title in an OS directory
        sd_dir = os.path.join(tmp, 'sd')
        res = write_sdtitle_dir(sd_dir, raw, title_id=tid, tmd_name='0000001a.tmd', present={0, 1})
        ok(sorted(os.listdir(sd_dir)) == ['00000010.app', '0000001a.tmd', 'abcdef01.app'], 'sd os names')
        rd = SDTitleReader(os.path.join(sd_dir, '0000001a.tmd'), load_contents=False)
        ok(readall(rd.open_raw_section(SDTitleSection.TitleMetadata)) == res['tmd'], 'sd tmd view')
        ok({r.cindex for r in rd.content_info} == {0, 1}, 'sd present set')
        for c in raw[:2]:
            ok(readall(rd.open_raw_section(c['index'])) == c['data'], 'sd os content view')
        rd.close()
    finally:
        shutil.rmtree(tmp)

    mem = MemoryFS()
    res = write_cdn_dir(mem, raw, title_id=tid, titlekey=tk, common_key_x=kx, subdir='a/b')
    ok(sorted(res['files']) == sorted('a/b/' + n for n in ['tmd', 'cetk', '00000010', 'abcdef01', '00000012', '00000013',
                                                            '00000014']), 'cdn memfs files')
    check_cdn(CDNReader('a/b/tmd', fs=mem, load_contents=False), raw, {c['index'] for c in raw})
    mem = MemoryFS()
    write_cdn_dir(mem, nc, title_id=tid, titlekey=tk, common_key_x=kx_dev, dev_key0=DEV_COMMON_KEY_0, with_ticket=False)
    ok(not mem.exists('cetk'), 'cdn without ticket')
    write_cdn_dir(mem, nc, title_id=tid, titlekey=tk, common_key_x=kx_dev, dev_key0=DEV_COMMON_KEY_0)
    check_cdn(CDNReader('/tmd', fs=mem, dev=True, load_contents=False), nc, {0, 1, 2})
    rd = CDNReader('tmd', fs=mem, dev=True)     # load_contents=True with minimal NCCHs
    ok(sorted(rd.contents) == [0, 1, 2], 'cdn load_contents with minimal ncch')
    rd.close()

    mem = MemoryFS()
    res = write_sdtitle_dir(mem, nc, title_id=tid)
    rd = SDTitleReader('00000000.tmd', fs=mem, load_contents=False)
    for c in nc:
        ok(readall(rd.open_raw_section(c['index'])) == c['data'], 'sd memfs content view')
    rd.close()
    rd = SDTitleReader('/00000000.tmd', fs=mem)
    ok(sorted(rd.contents) == [0, 1, 2], 'sd load_contents with minimal ncch')
    rd.close()
    mem = MemoryFS()
    seen = []
    res = write_sdtitle_dir(mem, nc, title_id=tid, subdir='title/00040000/00abcd00/content',
                            sd_encrypt=lambda p, d: seen.append(p) or bytes(x ^ 0x5A for x in d))
    ok(seen == ['title/00040000/00abcd00/content/' + n for n in ['00000000.tmd', '00000000.app', 'abcdef01.app',
                                                                   '00000012.app']], 'sd_encrypt paths')
    ok(mem.readbytes(seen[1]) == bytes(x ^ 0x5A for x in ncch[0]) == res['files'][seen[1]], 'sd_encrypt applied')
    ok(bytes(x ^ 0x5A for x in mem.readbytes(seen[0])) == res['tmd'], 'sd_encrypt applied to tmd')

    print('pack self test: %d checks passed' % checks[0])


if __name__ == '__main__':
    _selftest()
