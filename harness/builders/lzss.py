"""Reference backward-LZSS compressor for ExeFS .code (the inverse of pyctr.type.exefs.decompress_code).

Layout produced:  D[:s] | stream | 0xFF padding | u32 (header_len << 24 | stream_len + header_len) | u32 (len(D) - len(code))
The decoder walks the stream from its end: a control byte, then up to eight tokens taken from bit 7 down;
bit 0 = literal byte, bit 1 = 16-bit LE word: length-3 in the top nibble, distance-3 in the low 12 bits, where the
source of output index j is j + distance (already produced, since output is written from the end)."""


def tokens_for(data, s, rng=None, max_len=18, max_dist=4098, greedy=True):
    """tokens in decode order for the suffix data[s:], produced from the end: ('L', byte) | ('M', length, distance)"""
    n = len(data)
    p = n
    toks = []
    while p > s:
        best = None
        if n - p >= 3 - 0:
            lo = 3
            hi = min(max_dist, n - p)
            cands = range(lo, hi + 1)
            if rng is not None and hi >= lo:
                cands = sorted(set([lo, hi] + [rng.randrange(lo, hi + 1) for _ in range(12)]))
            for d in cands:
                L = 0
                while L < max_len and p - 1 - L >= s and data[p - 1 - L] == data[p - 1 - L + d]:
                    L += 1
                if L >= 3 and (best is None or L > best[0]):
                    best = (L, d)
                    if L == max_len:
                        break
        if best and (greedy or rng is None or rng.random() < 0.7):
            L, d = best
            if rng is not None and L > 3 and rng.random() < 0.3:
                L = rng.randrange(3, L + 1)
            toks.append(('M', L, d))
            p -= L
        else:
            toks.append(('L', data[p - 1]))
            p -= 1
    return toks


def serialise(toks):
    """stream bytes in memory order"""
    out = bytearray()   # decode order
    for g in range(0, len(toks), 8):
        group = toks[g:g + 8]
        ctrl = 0
        body = bytearray()
        for i, t in enumerate(group):
            if t[0] == 'M':
                ctrl |= 1 << (7 - i)
                word = ((t[1] - 3) << 12) | (t[2] - 3)
                body += bytes([word >> 8, word & 0xFF])
            else:
                body.append(t[1])
        out.append(ctrl)
        out += body
    return bytes(out[::-1])


def expand(prefix_len, toks, total):
    """what the tokens mean, independent of the in-place decoder: returns bytes for [prefix_len, total)"""
    buf = bytearray(total)
    p = total
    for t in toks:
        if t[0] == 'L':
            p -= 1
            buf[p] = t[1]
        else:
            for _ in range(t[1]):
                p -= 1
                buf[p] = buf[p + t[2]]
    assert p == prefix_len
    return bytes(buf[prefix_len:])


def margin_ok(s, toks, total, stream_len):
    """the in-place decoder's safety condition: at every control byte the write pointer is not below the read pointer"""
    ptr_in = s + stream_len
    ptr_out = total
    for g in range(0, len(toks), 8):
        if ptr_out < ptr_in:
            return False
        ptr_in -= 1
        for t in toks[g:g + 8]:
            if t[0] == 'L':
                ptr_in -= 1
                ptr_out -= 1
            else:
                ptr_in -= 2
                ptr_out -= t[1]
    return ptr_in == s and ptr_out == s


def compress(data, rng=None, greedy=True, min_prefix=0):
    """returns code image or None when the data cannot be shrunk"""
    n = len(data)
    s = min_prefix
    while s <= n:
        toks = tokens_for(data, s, rng, greedy=greedy)
        stream = serialise(toks)
        c = len(stream)
        pad = (-(s + c)) % 4
        hl = 8 + pad
        code_len = s + c + hl
        if code_len <= n and toks and margin_ok(s, toks, n, c):
            assert expand(s, toks, n) == data[s:]
            return (data[:s] + stream + b'\xff' * pad + ((hl << 24) | (c + hl)).to_bytes(4, 'little')
                    + (n - code_len).to_bytes(4, 'little')), dict(prefix=s, tokens=len(toks), stream=c,
                                                                  matches=sum(1 for t in toks if t[0] == 'M'))
        s += max(1, (n - s) // 8)
    return None, None
