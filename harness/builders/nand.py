"""Independent NAND image builder for C13 (written from the format description: NCSD NAND header, per-partition AES-CTR with
CID-derived counters, OTP key schedule, MBRs), with a sparse virtual file so the 0x3AF00000 / 0x4D800000 byte images cost nothing.

Nothing here imports pyctr.  AES through PyCryptodome (ECB / CBC primitives only)."""
import hashlib
import io
import struct

from Cryptodome.Cipher import AES

MU = 0x200
PAGE = 0x1000
NAND_SIZE = {0x200000: 0x3AF00000, 0x280000: 0x4D800000}
OTP_MAGIC = bytes.fromhex('0FB0ADDE')
M128 = (1 << 128) - 1

FS_NORMAL, FS_FIRM, FS_AGB = 1, 3, 4
CRYPT_TWL, CRYPT_CTR, CRYPT_NEW = 1, 2, 3

TWL_MBR_1C0 = bytes.fromhex('18000601A03F97000000A97D04000004')
TWL_MBR_1D0 = bytes.fromhex('8e400601a0c38d800400b30501000000')
STD_TWL_PARTS = [(77312, 150688256), (151067136, 34301440), (0, 0), (0, 0)]


def rol128(v, n):
    return ((v << n) | (v >> (128 - n))) & M128


def scramble_ctr(x, y):
    return rol128(((rol128(x, 2) ^ y) + 0x1FF9E9AAC5FE0408024591DC5D52768A) & M128, 87).to_bytes(16, 'big')


def scramble_twl(x, y):
    return rol128(((x ^ y) + 0xFFFEFB4E295902582A680F5F1A4F3E79) & M128, 42).to_bytes(16, 'big')


def make_otp(rng, body=None):
    """decrypted OTP with a valid SHA-256"""
    b = bytearray(body if body is not None else bytes(rng.getrandbits(8) for _ in range(0xE0)))
    b[0:4] = OTP_MAGIC
    return bytes(b) + hashlib.sha256(bytes(b)).digest()


def otp_encrypt(otp_dec, otp_key, otp_iv):
    return AES.new(otp_key, AES.MODE_CBC, otp_iv).encrypt(otp_dec)


def derive_keys(blob, otp_dec, otp_enc, dev=False):
    """normal keys of the NAND slots: 0x03 TWL (DSi scrambler), 0x04 CTR old, 0x05 CTR new, 0x06 FIRM, 0x07 AGB"""
    # console-unique key: slot 0x3F X|Y = sha256(otp[0x90:0xAC] || keyarea[0:0x24])
    h = hashlib.sha256(otp_dec[0x90:0xAC] + blob[0:0x24]).digest()
    k3f = scramble_ctr(int.from_bytes(h[:16], 'big'), int.from_bytes(h[16:], 'big'))
    # first generated block: IV at keyarea[36:52], 64 bytes of data at keyarea[52:116]
    a = AES.new(k3f, AES.MODE_CBC, blob[36:52]).encrypt(blob[52:116])
    keyx_47 = int.from_bytes(a[0:16], 'big')
    # KeyY of slots 4..7 from the key area, after the 4+4+4+4+... KeyX entries that start at 0x170
    ky = {0x04 + i: int.from_bytes(blob[0x1F0 + 16 * i:0x200 + 16 * i], 'big') for i in range(4)}
    ky[0x05] = 0x4D804F4E9990194613A204AC584460BE        # New 3DS CTRNAND KeyY is a constant set by NATIVE_FIRM
    keys = {s: scramble_ctr(keyx_47, ky[s]) for s in (4, 5, 6, 7)}
    # TWL NAND: KeyX from the console id in the OTP, DSi byte order (little endian), DSi scrambler
    if dev:
        cid = otp_enc[0:8]
        lo, hi = cid[0:4], cid[4:8]
        kx = lo + bytes.fromhex('1e4b7aee8bc042af') + hi
        kytwl = 0xE1A00005266A649766E8B87AF176BFAA
    else:
        cid = otp_dec[8:16]
        lo = ((int.from_bytes(cid[0:4], 'little') ^ 0xB358A6AF) | 0x80000000).to_bytes(4, 'little')
        hi = (int.from_bytes(cid[4:8], 'little') ^ 0x08C267B7).to_bytes(4, 'little')
        kx = lo + b'NINTENDO' + hi
        kytwl = 0xE1A00005202DDD1DBD4DC4D30AB9DC76
    keys[3] = scramble_twl(int.from_bytes(kx, 'little'), kytwl)
    return keys


def counters(cid):
    return (int.from_bytes(hashlib.sha256(cid).digest()[:16], 'big'), int.from_bytes(hashlib.sha1(cid).digest()[:16], 'little'))


def crypt(key, counter, offset, data, twl):
    """AES-CTR over the image: byte `offset` of the image uses counter + offset // 16; DSi mode reverses every 16-byte block
    before and after"""
    if not data:
        return b''
    e = AES.new(key, AES.MODE_ECB)
    first = offset // 16
    last = (offset + len(data) - 1) // 16
    ks = bytearray()
    for b in range(first, last + 1):
        blk = e.encrypt(((counter + b) & M128).to_bytes(16, 'big'))
        ks += blk[::-1] if twl else blk
    skip = offset - first * 16
    return bytes(x ^ y for x, y in zip(data, ks[skip:skip + len(data)]))


SLOT_OF = {'twl': 3, 'ctr_old': 4, 'ctr_new': 5, 'firm': 6, 'agb': 7}


def kind_of(fs_type, crypt_type):
    if fs_type == FS_NORMAL:
        return {CRYPT_TWL: 'twl', CRYPT_CTR: 'ctr_old', CRYPT_NEW: 'ctr_new'}.get(crypt_type)
    if fs_type == FS_FIRM:
        return 'firm'
    if fs_type == FS_AGB:
        return 'agb'
    return None


def mbr(parts, fill=0):
    """0x42-byte MBR table (at 0x1BE of a partition): 4 entries of 16 bytes + 55 AA; parts = [(offset, size)] in bytes"""
    out = bytearray()
    for i in range(4):
        off, size = parts[i] if i < len(parts) else (0, 0)
        e = bytearray(16)
        if size:
            e[0] = 0
            e[4] = 6
        e[8:12] = struct.pack('<I', off // MU)
        e[12:16] = struct.pack('<I', size // MU)
        out += e
    return bytes(out) + b'\x55\xAA'


def pattern(seed, page):
    return hashlib.shake_128(seed + page.to_bytes(8, 'little')).digest(PAGE)


class SparseImage(io.RawIOBase):
    """virtual file: page p = base(p) unless stored; counts writes"""

    def __init__(self, size, base, writable=True):
        super().__init__()
        self.size = size
        self.base = base
        self.pages = {}
        self.pos = 0
        self._writable = writable
        self.write_log = []

    def page(self, p):
        got = self.pages.get(p)
        return got if got is not None else self.base(p)

    def peek(self, off, n):
        n = max(0, min(n, self.size - off))
        out = bytearray()
        while n > 0:
            p, o = divmod(off, PAGE)
            chunk = self.page(p)[o:o + n]
            out += chunk
            off += len(chunk)
            n -= len(chunk)
        return bytes(out)

    def poke(self, off, data):
        i = 0
        while i < len(data):
            p, o = divmod(off + i, PAGE)
            pg = bytearray(self.page(p))
            k = min(PAGE - o, len(data) - i)
            pg[o:o + k] = data[i:i + k]
            self.pages[p] = bytes(pg)
            i += k

    def readable(self):
        return True

    def writable(self):
        return self._writable

    def seekable(self):
        return True

    def tell(self):
        return self.pos

    def seek(self, off, whence=0):
        if whence == 0:
            if off < 0:
                raise ValueError('negative seek')
            self.pos = off
        elif whence == 1:
            self.pos = max(0, self.pos + off)
        else:
            self.pos = max(0, self.size + off)
        return self.pos

    def read(self, n=-1):
        if n is None or n < 0:
            n = max(0, self.size - self.pos)
        out = self.peek(self.pos, n) if self.pos < self.size else b''
        self.pos += len(out)
        return out

    def write(self, data):
        if not self._writable:
            raise io.UnsupportedOperation('not writable')
        data = bytes(data)
        if self.pos + len(data) > self.size:
            self.size = self.pos + len(data)
        self.poke(self.pos, data)
        self.write_log.append((self.pos, len(data)))
        self.pos += len(data)
        return len(data)


def header_bytes(sig, size_mu, table, unknown, twl_mbr_enc, media_id=0):
    """table: 8 entries (fs_type, crypt_type, offset_mu, size_mu)"""
    fs = bytes(t[0] for t in table)
    cr = bytes(t[1] for t in table)
    loc = b''.join(struct.pack('<II', t[2], t[3]) for t in table)
    out = sig + b'NCSD' + struct.pack('<I', size_mu) + struct.pack('<Q', media_id) + fs + cr + loc + unknown + twl_mbr_enc
    assert len(out) == 0x200, len(out)
    return out


def build(spec):
    """spec: dict(seed bytes, size_mu, table [8 x (fs, crypt, off_mu, size_mu)], keys {slot: key}, ctr, ctr_twl, sig, unknown,
    twl_parts / ctr_parts (sub-partition lists) or twl_std / ctr_std flags, essential (bytes or None), bonus (bool))
    -> (SparseImage, info)"""
    size = NAND_SIZE[spec['size_mu']]
    seed = spec['seed']
    regions = []       # (start, end, kind)
    for idx, (fs, cr, off, sz) in enumerate(spec['table']):
        if fs:
            regions.append((off * MU, (off + sz) * MU, kind_of(fs, cr), idx))
    keys = spec['keys']

    def region_at(off):
        for r in regions:
            if r[0] <= off < r[1]:
                return r
        return None

    fixed = {}         # absolute offset -> plaintext bytes forced into a partition (MBRs)
    twl = next((r for r in regions if r[2] == 'twl'), None)
    ctrp = next((r for r in regions if r[2] in ('ctr_old', 'ctr_new')), None)
    info = dict(size=size, regions=regions, twl_parts=None, ctr_parts=None)
    if twl is not None:
        if spec.get('twl_std', True):
            m = bytearray(mbr([]))
            m[2:0x12] = TWL_MBR_1C0
            m[0x12:0x22] = TWL_MBR_1D0
            info['twl_parts'] = STD_TWL_PARTS
        else:
            m = bytearray(mbr(spec['twl_parts']))
            info['twl_parts'] = (list(spec['twl_parts']) + [(0, 0)] * 4)[:4]
        fixed[twl[0] + 0x1BE] = bytes(m)
    if ctrp is not None:
        parts = spec['ctr_parts']
        m = mbr(parts)
        info['ctr_parts'] = (list(parts) + [(0, 0)] * 4)[:4]
        fixed[ctrp[0] + 0x1BE] = m

    def enc(off, plain):
        r = region_at(off)
        if r is None or r[2] is None:
            return plain
        t = r[2] == 'twl'
        return crypt(keys[SLOT_OF[r[2]]], spec['ctr_twl'] if t else spec['ctr'], off, plain, t)

    twl_mbr_enc = enc(twl[0] + 0x1BE, fixed[twl[0] + 0x1BE]) if twl is not None else bytes(0x42)
    hdr = header_bytes(spec['sig'], spec['size_mu'], spec['table'], spec['unknown'], twl_mbr_enc if (twl is not None and twl[0] == 0) else spec.get('hdr_mbr', bytes(0x42)))
    info['header'] = hdr
    raw_low = bytearray(hdr)
    ess = spec.get('essential')
    raw_low += (ess if ess else b'') .ljust(0x12C00 - 0x200, b'\0')      # sectors 1..0x95: essential.exefs or zeros
    raw_low = bytes(raw_low)

    def base(p):
        off = p * PAGE
        plain = bytearray(pattern(seed, p))
        for a, b in fixed.items():
            if a < off + PAGE and a + len(b) > off:
                lo, hi = max(a, off), min(a + len(b), off + PAGE)
                plain[lo - off:hi - off] = b[lo - a:hi - a]
        # encrypt per region piece (a page may straddle regions only at multiples of 0x200)
        out = bytearray()
        o = off
        while o < off + PAGE:
            r = region_at(o)
            end = min(off + PAGE, r[1]) if r else min([x[0] for x in regions if x[0] > o] + [off + PAGE])
            out += enc(o, bytes(plain[o - off:end - off]))
            o = end
        if off < len(raw_low):
            k = min(PAGE, len(raw_low) - off)
            out[0:k] = raw_low[off:off + k]
        return bytes(out)

    img = SparseImage(size + (spec.get('bonus_size', 0)), base)
    if spec.get('bonus_size'):
        bm = bytearray(0x200)
        bm[0x1BE:0x200] = mbr([(0x200, spec['bonus_size'] - 0x200)])
        img.pages[size // PAGE] = bytes(bm) + pattern(seed, size // PAGE)[0x200:]
    return img, info


def expected_plain(img, spec, kind, abs_off, n):
    """what a view of a partition of key type `kind` must return for image bytes [abs_off, abs_off+n): independent decryption of the
    image as it is now"""
    raw = img.peek(abs_off, n)
    if kind is None:
        return raw
    t = kind == 'twl'
    return crypt(spec['keys'][SLOT_OF[kind]], spec['ctr_twl'] if t else spec['ctr'], abs_off, raw, t)
