"""Independent ExeFS builder (3dbrew: ExeFS): 0x200 header of ten 16-byte slots
(name[8] NUL-padded, offset u32 LE relative to the end of the header, size u32 LE), SHA-256 of
file i stored at 0x1E0 - 0x20*i, data from 0x200, every file starting at a multiple of 0x200."""
import hashlib


def build_exefs(files, slots=None, pad_to_unit=True, gap_units=None):
    """files: list of (name: bytes|str, data: bytes) in layout order; slots: slot number per file (default 0,1,2..);
    gap_units: extra empty 0x200 units inserted before file i.  Returns (image, info)."""
    n = len(files)
    slots = list(range(n)) if slots is None else list(slots)
    assert len(set(slots)) == n and all(0 <= s < 10 for s in slots)
    header = bytearray(0x200)
    body = bytearray()
    info = {}
    for i, ((name, data), slot) in enumerate(zip(files, slots)):
        if isinstance(name, str):
            name = name.encode('ascii')
        if gap_units:
            body += b'\0' * (0x200 * gap_units[i])
        off = len(body)
        header[16 * slot:16 * slot + 8] = name.ljust(8, b'\0')
        header[16 * slot + 8:16 * slot + 12] = off.to_bytes(4, 'little')
        header[16 * slot + 12:16 * slot + 16] = len(data).to_bytes(4, 'little')
        header[0x1E0 - 0x20 * slot:0x200 - 0x20 * slot] = hashlib.sha256(data).digest()
        body += data
        if len(body) % 0x200:
            body += b'\0' * (0x200 - len(body) % 0x200)
        info[name.decode('ascii', 'replace')] = dict(slot=slot, offset=off, size=len(data), hash=hashlib.sha256(data).digest())
    return bytes(header) + bytes(body), info
