"""Independent RomFS (level 3) packer and IVFC wrapper, used to generate inputs for pyctr.type.romfs.RomFSReader.

Pure Python, stdlib only.  Nothing in here imports pyctr except `_selftest()`.

Layout produced by `pack_lv3` (all integers little endian):

    0x00  u32 header size (0x28)
    0x04  u32 dir hash table offset      0x08  u32 dir hash table size
    0x0C  u32 dir meta table offset      0x10  u32 dir meta table size
    0x14  u32 file hash table offset     0x18  u32 file hash table size
    0x1C  u32 file meta table offset     0x20  u32 file meta table size
    0x24  u32 file data offset
    ....  dir hash table | dir meta table | file hash table | file meta table | pad to 16 | file data

    dir meta entry  (0x18 + name):  parent, next sibling, first child dir, first file, next in hash bucket, name length
    file meta entry (0x20 + name):  parent dir, next sibling, data offset (u64), data size (u64), next in bucket, name length

Names are UTF-16LE, not terminated, padded with zero bytes to a multiple of 4.  0xFFFFFFFF means "none".
Offsets inside meta entries are relative to the start of the respective meta table; data offsets are relative to the
file data offset of the header.
"""

import hashlib
import io
import struct

__all__ = ['pack_lv3', 'wrap_ivfc', 'flatten', 'random_tree', 'name_hash', 'hash_bucket_count', 'NONE']

NONE = 0xFFFFFFFF
LV3_HEADER_SIZE = 0x28
DIR_ENTRY_FIXED = 0x18
FILE_ENTRY_FIXED = 0x20
IVFC_MAGIC_NUM = 0x10000
IVFC_HASH_START = 0x60

_HDR_FIELDS = ('header_size', 'dirhash.offset', 'dirhash.size', 'dirmeta.offset', 'dirmeta.size',
               'filehash.offset', 'filehash.size', 'filemeta.offset', 'filemeta.size', 'filedata_offset')
# (name, offset in entry, width)
_DIR_FIELDS = (('parent', 0x00, 4), ('next_sibling', 0x04, 4), ('first_child_dir', 0x08, 4), ('first_file', 0x0C, 4),
               ('hash_next', 0x10, 4), ('name_length', 0x14, 4))
_FILE_FIELDS = (('parent', 0x00, 4), ('next_sibling', 0x04, 4), ('data_offset', 0x08, 8), ('data_size', 0x10, 8),
                ('hash_next', 0x18, 4), ('name_length', 0x1C, 4))


def _align(n: int, a: int) -> int:
    return (n + a - 1) // a * a


def _enc_name(name: str) -> bytes:
    # surrogatepass: a 3DS name is an arbitrary u16 array, so lone surrogates in the str are passed through as-is
    return name.encode('utf-16-le', 'surrogatepass')


def name_hash(parent_offset: int, name_utf16le: bytes) -> int:
    """The standard RomFS path hash over the parent directory's meta offset and the UTF-16 code units of the name."""
    h = (parent_offset ^ 123456789) & 0xFFFFFFFF
    for i in range(0, len(name_utf16le), 2):
        h = ((h >> 5) | (h << 27)) & 0xFFFFFFFF
        h ^= name_utf16le[i] | (name_utf16le[i + 1] << 8)
    return h


def hash_bucket_count(num_entries: int) -> int:
    """Number of buckets the standard tools allocate for a table with `num_entries` entries."""
    if num_entries < 3:
        return 3
    if num_entries < 19:
        return num_entries | 1
    count = num_entries
    while any(count % p == 0 for p in (2, 3, 5, 7, 11, 13, 17)):
        count += 1
    return count


def _join(parent: str, name: str) -> str:
    return '/' + name if parent == '/' else parent + '/' + name


def _check_tree(tree):
    stack = [('/', tree)]
    while stack:  # iterative: trees may be deeper than the interpreter's recursion limit
        where, node = stack.pop()
        if not isinstance(node, dict):
            raise TypeError(f'{where}: directory must be a dict')
        for name, value in node.items():
            if not isinstance(name, str):
                raise TypeError(f'{where}: name {name!r} is not a str')
            if len(name) < 1:
                raise ValueError(f'{where}: empty name')
            if isinstance(value, dict):
                stack.append((_join(where, name), value))
            elif not isinstance(value, (bytes, bytearray, memoryview)):
                raise TypeError(f'{_join(where, name)}: value must be bytes or dict, not {type(value).__name__}')


def flatten(tree: dict) -> dict:
    """{'/': ('dir', sorted child names), '/a': ('dir', [...]), '/a/f': ('file', bytes), ...}"""
    out = {}
    stack = [('/', tree)]
    while stack:
        path, node = stack.pop()
        out[path] = ('dir', sorted(node))
        for name, value in node.items():
            if isinstance(value, dict):
                stack.append((_join(path, name), value))
            else:
                out[_join(path, name)] = ('file', bytes(value))
    return out


class _Dir:
    __slots__ = ('path', 'name', 'parent', 'dirs', 'files', 'off')

    def __init__(self, path, name, parent):
        self.path = path
        self.name = name
        self.parent = parent
        self.dirs = []
        self.files = []
        self.off = None


class _File:
    __slots__ = ('path', 'name', 'parent', 'data', 'off', 'data_off')

    def __init__(self, path, name, parent, data):
        self.path = path
        self.name = name
        self.parent = parent
        self.data = data
        self.off = None
        self.data_off = None


def pack_lv3(tree: dict, *, hash_tables: str = 'valid', shuffle=None) -> 'tuple[bytes, dict]':
    """Pack `tree` into a bare level-3 RomFS image.  Returns (image, info).

    tree: nested dict; a key is a name (str, any Unicode incl. non-BMP, any length >= 1), a value is either `bytes`
    (a file) or a `dict` (a sub-directory, possibly empty).

    hash_tables: 'valid' (proper bucket tables using the standard RomFS name hash, chains linked through the
    next-in-bucket fields), or 'zero' (same table sizes but every bucket and every next-in-bucket field 0xFFFFFFFF).

    shuffle: None for the canonical layout (meta entries breadth first with the children of a directory contiguous,
    siblings chained in sorted name order, file data in file meta order), or a `random.Random` which is used to permute
    the placement of the non-root dir meta entries, of the file meta entries, of the file data, and the order of every
    sibling chain.  The described tree is the same either way.

    info: {'dirhash': (offset, size), 'dirmeta': (offset, size), 'filehash': (offset, size), 'filemeta': (offset, size),
           'data_offset': int,
           'dirs': {path: meta_entry_offset},                       # relative to dirmeta offset
           'files': {path: (meta_entry_offset, data_offset_rel, size)},  # relative to filemeta offset / data_offset
           'fields': [(absolute_byte_offset_in_image, width_in_bytes, description), ...],
           'hash_fields': [(absolute_byte_offset_in_image, 4, description), ...]}   # the bucket slots
    with paths like '/a/b.txt' and '/' for root.  'fields' lists every field of the header ('hdr.<name>') and of every
    meta entry ('dir[<path>].<name>', 'file[<path>].<name>').
    """
    if hash_tables not in ('valid', 'zero'):
        raise ValueError("hash_tables must be 'valid' or 'zero'")
    _check_tree(tree)

    def order(names):
        names = sorted(names)
        if shuffle is not None:
            shuffle.shuffle(names)
        return names

    # --- enumerate (breadth first, children of one directory contiguous)
    root = _Dir('/', '', None)
    root.parent = root
    dirs = [root]
    files = []
    nodes = {id(root): tree}
    i = 0
    while i < len(dirs):
        d = dirs[i]
        i += 1
        node = nodes[id(d)]
        for name in order(n for n, v in node.items() if isinstance(v, dict)):
            c = _Dir(_join(d.path, name), name, d)
            nodes[id(c)] = node[name]
            d.dirs.append(c)
            dirs.append(c)
    for d in dirs:
        node = nodes[id(d)]
        for name in order(n for n, v in node.items() if not isinstance(v, dict)):
            f = _File(_join(d.path, name), name, d, bytes(node[name]))
            d.files.append(f)
            files.append(f)

    dir_place = list(dirs)
    file_place = list(files)
    data_place = list(files)
    if shuffle is not None:
        rest = dir_place[1:]
        shuffle.shuffle(rest)
        dir_place[1:] = rest
        shuffle.shuffle(file_place)
        shuffle.shuffle(data_place)

    # --- assign offsets
    cur = 0
    for d in dir_place:
        d.off = cur
        cur += DIR_ENTRY_FIXED + _align(len(_enc_name(d.name)), 4)
    dirmeta_size = cur
    cur = 0
    for f in file_place:
        f.off = cur
        cur += FILE_ENTRY_FIXED + _align(len(_enc_name(f.name)), 4)
    filemeta_size = cur
    cur = 0
    for f in data_place:
        cur = _align(cur, 16)
        f.data_off = cur
        cur += len(f.data)
    data_size = cur

    # --- hash tables
    dir_buckets = [NONE] * hash_bucket_count(len(dirs))
    file_buckets = [NONE] * hash_bucket_count(len(files))
    hash_next = {}
    if hash_tables == 'valid':
        for buckets, entries in ((dir_buckets, dir_place), (file_buckets, file_place)):
            for e in entries:
                parent_off = 0 if e is root else e.parent.off
                b = name_hash(parent_off, _enc_name(e.name)) % len(buckets)
                hash_next[id(e)] = buckets[b]  # insert at the head of the chain, like the standard tools
                buckets[b] = e.off

    # --- regions
    dirhash_off = LV3_HEADER_SIZE
    dirhash_size = 4 * len(dir_buckets)
    dirmeta_off = dirhash_off + dirhash_size
    filehash_off = dirmeta_off + dirmeta_size
    filehash_size = 4 * len(file_buckets)
    filemeta_off = filehash_off + filehash_size
    data_off = _align(filemeta_off + filemeta_size, 16)

    def sibling(lst, e):
        k = lst.index(e)
        return lst[k + 1].off if k + 1 < len(lst) else NONE

    dirmeta = bytearray()
    for d in dir_place:
        assert len(dirmeta) == d.off
        nm = _enc_name(d.name)
        dirmeta += struct.pack('<IIIIII',
                               d.parent.off,
                               NONE if d is root else sibling(d.parent.dirs, d),
                               d.dirs[0].off if d.dirs else NONE,
                               d.files[0].off if d.files else NONE,
                               hash_next.get(id(d), NONE),
                               len(nm))
        dirmeta += nm + bytes(-len(nm) % 4)
    assert len(dirmeta) == dirmeta_size

    filemeta = bytearray()
    for f in file_place:
        assert len(filemeta) == f.off
        nm = _enc_name(f.name)
        filemeta += struct.pack('<IIQQII',
                                f.parent.off,
                                sibling(f.parent.files, f),
                                f.data_off,
                                len(f.data),
                                hash_next.get(id(f), NONE),
                                len(nm))
        filemeta += nm + bytes(-len(nm) % 4)
    assert len(filemeta) == filemeta_size

    data = bytearray(data_size)
    for f in data_place:
        data[f.data_off:f.data_off + len(f.data)] = f.data

    header = struct.pack('<10I', LV3_HEADER_SIZE, dirhash_off, dirhash_size, dirmeta_off, dirmeta_size,
                         filehash_off, filehash_size, filemeta_off, filemeta_size, data_off)
    image = bytearray(header)
    image += struct.pack(f'<{len(dir_buckets)}I', *dir_buckets)
    image += dirmeta
    image += struct.pack(f'<{len(file_buckets)}I', *file_buckets)
    image += filemeta
    image += bytes(data_off - len(image))
    image += data
    assert len(image) == data_off + data_size

    fields = [(4 * k, 4, 'hdr.' + n) for k, n in enumerate(_HDR_FIELDS)]
    for d in dir_place:
        fields += [(dirmeta_off + d.off + o, w, f'dir[{d.path}].{n}') for n, o, w in _DIR_FIELDS]
    for f in file_place:
        fields += [(filemeta_off + f.off + o, w, f'file[{f.path}].{n}') for n, o, w in _FILE_FIELDS]
    hash_fields = [(dirhash_off + 4 * k, 4, f'dirhash[{k}]') for k in range(len(dir_buckets))]
    hash_fields += [(filehash_off + 4 * k, 4, f'filehash[{k}]') for k in range(len(file_buckets))]

    info = {'dirhash': (dirhash_off, dirhash_size),
            'dirmeta': (dirmeta_off, dirmeta_size),
            'filehash': (filehash_off, filehash_size),
            'filemeta': (filemeta_off, filemeta_size),
            'data_offset': data_off,
            'dirs': {d.path: d.off for d in dirs},
            'files': {f.path: (f.off, f.data_off, len(f.data)) for f in files},
            'fields': fields,
            'hash_fields': hash_fields}
    return bytes(image), info


def wrap_ivfc(lv3: bytes, *, block_log2: int = 12, master_hash_size: int = 0x20) -> 'tuple[bytes, dict]':
    """Prefix an IVFC header as RomFSReader expects.

    0x00 b'IVFC' | 0x04 u32 0x10000 | 0x08 u32 master hash size |
    level 1 at 0x0C, level 2 at 0x24, level 3 at 0x3C, each: u64 logical offset, u64 hash data size, u32 block size log2,
    u32 reserved | 0x54 u32 reserved | 0x58 u32 optional info size (0) | 0x5C pad | 0x60 master hash bytes |
    zero padding so that lv3 starts at roundup(0x60 + master_hash_size, 1 << block_log2) | lv3.

    The level 1/2 descriptors hold the arithmetically correct sizes and logical offsets for the given lv3 and block size
    (all three levels use `block_log2`), but the level 1 and level 2 hash data themselves are NOT appended and the
    master hash bytes are deterministic filler, not real hashes: the reader never looks at them.

    Returns (image, {'lv3_offset': int, 'fields': [(absolute_offset, width, description), ...]}).
    """
    if block_log2 < 0 or master_hash_size < 0:
        raise ValueError('block_log2 and master_hash_size must be non-negative')
    block = 1 << block_log2

    def hash_size_of(size):
        return _align(size, block) // block * 0x20

    l3_size = len(lv3)
    l2_size = hash_size_of(l3_size)
    l1_size = hash_size_of(l2_size)
    l1_off = 0
    l2_off = l1_off + _align(l1_size, block)
    l3_off = l2_off + _align(l2_size, block)

    header = struct.pack('<4sII', b'IVFC', IVFC_MAGIC_NUM, master_hash_size)
    header += struct.pack('<QQII', l1_off, l1_size, block_log2, 0)
    header += struct.pack('<QQII', l2_off, l2_size, block_log2, 0)
    header += struct.pack('<QQII', l3_off, l3_size, block_log2, 0)
    header += struct.pack('<III', 0, 0, 0)  # reserved, optional info size, pad up to 0x60
    assert len(header) == IVFC_HASH_START

    filler = bytearray()
    seed = hashlib.sha256(lv3).digest()
    while len(filler) < master_hash_size:
        seed = hashlib.sha256(seed).digest()
        filler += seed
    del filler[master_hash_size:]

    lv3_offset = _align(IVFC_HASH_START + master_hash_size, block)
    image = header + bytes(filler)
    image += bytes(lv3_offset - len(image))
    image += lv3

    fields = [(0x04, 4, 'ivfc.magic_num'), (0x08, 4, 'ivfc.master_hash_size')]
    for lvl, base in ((1, 0x0C), (2, 0x24), (3, 0x3C)):
        fields += [(base, 8, f'ivfc.lv{lvl}.logical_offset'), (base + 8, 8, f'ivfc.lv{lvl}.hash_data_size'),
                   (base + 0x10, 4, f'ivfc.lv{lvl}.block_log2'), (base + 0x14, 4, f'ivfc.lv{lvl}.reserved')]
    fields += [(0x54, 4, 'ivfc.reserved'), (0x58, 4, 'ivfc.optional_info_size')]
    return bytes(image), {'lv3_offset': lv3_offset, 'fields': fields}


# ----------------------------------------------------------------------------------------------------------------------
# random trees

_ASCII_CHARS = ('abcdefghijklmnopqrstuvwxyzABCDEFGHIJKLMNOPQRSTUVWXYZ0123456789'
                " _-.+()[]{}!#$%&',;=@^`~")
_BMP_RANGES = ((0x00A1, 0x00FF), (0x0100, 0x017F), (0x0391, 0x03C9), (0x0410, 0x044F), (0x05D0, 0x05EA),
               (0x3041, 0x3096), (0x30A1, 0x30FA), (0x4E00, 0x4FFF), (0xAC00, 0xACFF), (0xE000, 0xE0FF),
               (0xFF01, 0xFF5E), (0xFFF0, 0xFFFD))
_ASTRAL_RANGES = ((0x10400, 0x1044F),  # Deseret: cased letters outside the BMP
                  (0x1F600, 0x1F64F), (0x20000, 0x200FF), (0x1D400, 0x1D4FF), (0x10FFF0, 0x10FFFD))


def _utf16_units(s: str) -> int:
    return sum(2 if ord(c) > 0xFFFF else 1 for c in s)


def _random_char(rng, unicode_names: bool) -> str:
    r = rng.random()
    if not unicode_names or r < 0.55:
        return rng.choice(_ASCII_CHARS)
    lo, hi = rng.choice(_BMP_RANGES if r < 0.85 else _ASTRAL_RANGES)
    return chr(rng.randint(lo, hi))


def _random_name(rng, unicode_names: bool) -> str:
    r = rng.random()
    if r < 0.04:
        units = rng.randint(200, 300)
    elif r < 0.12:
        units = rng.randint(30, 80)
    elif r < 0.22:
        units = 1
    else:
        units = rng.randint(2, 14)
    out = []
    n = 0
    if unicode_names and rng.random() < 0.06:
        # a first unit that a byte-order-mark-aware decoder would swallow (U+FEFF) or take as "the other byte order" (U+FFFE)
        out.append(rng.choice('\ufeff\ufffe'))
        n = 1
    while n < units:
        c = _random_char(rng, unicode_names)
        u = 2 if ord(c) > 0xFFFF else 1
        if n + u > units:
            continue
        out.append(c)
        n += u
    return ''.join(out)


def _recase(rng, name: str) -> str:
    return ''.join(rng.choice((c.lower(), c.upper(), c.swapcase(), c)) for c in name)


def random_tree(rng, *, max_depth=4, max_children=8, max_file=300, unicode_names=True,
                allow_case_collisions=False) -> dict:
    """Random tree from a `random.Random`.

    Produces empty directories, empty files, long names (occasionally 200..300 UTF-16 code units), one-unit names,
    non-ASCII and non-BMP characters (unless unicode_names=False).  Names never contain '/', NUL or surrogates and are
    never '.' or '..'.  Directories nest at most `max_depth` levels below the root, a directory has at most
    `max_children` entries, a file at most `max_file` bytes.

    Unless allow_case_collisions=True, no two names in one directory have the same `.lower()` or `.casefold()`.  With
    allow_case_collisions=True a directory frequently gets names that differ from an existing sibling only in case
    (file/file, dir/dir and file/dir).
    """
    def gen_data():
        r = rng.random()
        if r < 0.15:
            size = 0
        elif r < 0.30:
            size = rng.choice((1, 15, 16, 17, 31, 32, 33))
        else:
            size = rng.randint(1, max_file) if max_file >= 1 else 0
        size = min(size, max_file)
        return bytes(rng.getrandbits(8) for _ in range(size))

    def gen_dir(depth):
        node = {}
        r = rng.random()
        if r < 0.15:
            count = 0
        elif r < 0.25:
            count = max_children
        else:
            count = rng.randint(0, max_children)
        folded = set()
        for _ in range(count):
            name = None
            if allow_case_collisions and node and rng.random() < 0.35:
                cand = _recase(rng, rng.choice(sorted(node)))
                if cand not in node:
                    name = cand
            while name is None:
                cand = _random_name(rng, unicode_names)
                if cand in ('.', '..') or cand in node:
                    continue
                if not allow_case_collisions and (cand.lower() in folded or cand.casefold() in folded):
                    continue
                name = cand
            folded.add(name.lower())
            folded.add(name.casefold())
            if depth < max_depth and rng.random() < 0.35:
                node[name] = gen_dir(depth + 1)
            else:
                node[name] = gen_data()
        return node

    return gen_dir(0)


# ----------------------------------------------------------------------------------------------------------------------
# self test

class _Window(io.RawIOBase):
    """Read-only view of `base` starting at `start`, whose own position starts at 0 (selftest helper)."""

    def __init__(self, base, start):
        super().__init__()
        self._base = base
        self._start = start
        self._pos = 0

    def readable(self):
        return True

    def seekable(self):
        return True

    def tell(self):
        return self._pos

    def seek(self, pos, whence=0):
        if whence == 1:
            pos += self._pos
        elif whence == 2:
            self._base.seek(0, 2)
            pos += self._base.tell() - self._start
        self._pos = pos
        return pos

    def read(self, n=-1):
        self._base.seek(self._start + self._pos)
        data = self._base.read(n)
        self._pos += len(data)
        return data


def _hash_lookup(image: bytes, info: dict, path: str):
    """Resolve `path` the way the console does: through the hash tables only.  Returns ('dir', off) / ('file', off)."""
    def u32(o):
        return struct.unpack_from('<I', image, o)[0]

    dm, fm = info['dirmeta'][0], info['filemeta'][0]

    def find(table, meta, fixed, next_at, parent, name):
        off = u32(table[0] + 4 * (name_hash(parent, name) % (table[1] // 4)))
        steps = 0
        while off != NONE:
            nlen = u32(meta + off + fixed - 4)
            if u32(meta + off) == parent and image[meta + off + fixed:meta + off + fixed + nlen] == name:
                return off
            off = u32(meta + off + next_at)
            steps += 1
            assert steps < 1 << 20
        return None

    assert find(info['dirhash'], dm, DIR_ENTRY_FIXED, 0x10, 0, b'') == 0
    cur = 0
    parts = [p for p in path.split('/') if p]
    for k, part in enumerate(parts):
        name = _enc_name(part)
        d = find(info['dirhash'], dm, DIR_ENTRY_FIXED, 0x10, cur, name)
        if d is not None and d != 0:
            cur = d
            continue
        f = find(info['filehash'], fm, FILE_ENTRY_FIXED, 0x18, cur, name)
        if f is not None and k == len(parts) - 1:
            return 'file', f
        return None
    return 'dir', cur


def _selftest(count: int = 320, seed: int = 0x3D5, verbose: bool = True) -> dict:
    import random
    import warnings
    warnings.simplefilter('ignore')
    from pyctr.type.romfs import RomFSReader  # only place where pyctr is imported

    import logging
    import signal
    logging.getLogger('pyctr.type.romfs').setLevel(logging.CRITICAL)  # "collision" warnings, endless when it hangs

    class _Hang(BaseException):
        pass

    def _on_alarm(signum, frame):
        raise _Hang('no result after 1 s (endless loop)')

    signal.signal(signal.SIGALRM, _on_alarm)
    raw_probe_trees = 40

    rng = random.Random(seed)
    stats = {'trees': 0, 'opens': 0, 'paths': 0, 'ci_paths': 0, 'ci_skipped': 0, 'raw_nonzero_start_ok': 0,
             'raw_nonzero_start_bad': 0, 'raw_nonzero_start_examples': {}, 'listdir_on_file_typeerror': 0}

    def check_reader(r, flat, ci_safe):
        # walk
        seen_dirs = {}
        for step in r.walk('/'):
            names = [i.name for i in step.dirs] + [i.name for i in step.files]
            assert step.path not in seen_dirs, step.path
            seen_dirs[step.path] = names
            kind, children = flat[step.path]
            assert kind == 'dir'
            assert sorted(names) == children, (step.path, names, children)
            for i in step.dirs:
                assert flat[_join(step.path, i.name)][0] == 'dir'
            for i in step.files:
                assert flat[_join(step.path, i.name)][0] == 'file'
        assert set(seen_dirs) == {p for p, v in flat.items() if v[0] == 'dir'}
        total = 0
        for path, (kind, value) in flat.items():
            stats['paths'] += 1
            gi = r.getinfo(path)
            if path != '/':
                assert gi.name == path.rsplit('/', 1)[1], (path, gi.name)
            if kind == 'dir':
                assert gi.is_dir and gi.size == 0
                assert sorted(r.listdir(path)) == value
                assert sorted(i.name for i in r.scandir(path)) == value
                assert r.isdir(path) and not r.isfile(path)
                try:
                    r.openbin(path)
                except Exception as e:
                    assert type(e).__name__ == 'RomFSIsADirectoryError', repr(e)
                else:
                    raise AssertionError('openbin on a directory succeeded')
            else:
                assert not gi.is_dir and gi.size == len(value)
                assert r.isfile(path) and not r.isdir(path)
                with r.openbin(path) as f:
                    assert f.read() == value, path
                    f.seek(0)
                    assert f.read(7) == value[:7]
                total += len(value)
                try:
                    r.listdir(path)
                except TypeError as e:
                    # reader defect: `raise errors.DirectoryExpected` without the mandatory path argument
                    assert 'path' in str(e), repr(e)
                    stats['listdir_on_file_typeerror'] += 1
                except Exception as e:
                    assert type(e).__name__ == 'DirectoryExpected', repr(e)
                else:
                    raise AssertionError('listdir on a file succeeded')
            assert ci_safe or not r.case_insensitive
            if r.case_insensitive:
                want = path.lower()
                for alt in (path.upper(), path.lower(), path.swapcase()):
                    # str.lower() is the reader's notion of case folding; some upper-casings do not round-trip
                    # ('ß'.upper().lower() == 'ss'), those are skipped
                    if [c.lower() for c in alt.split('/')] != [c.lower() for c in path.split('/')] \
                            or alt.lower() != want:
                        stats['ci_skipped'] += 1
                        continue
                    stats['ci_paths'] += 1
                    ai = r.getinfo(alt)
                    assert ai.is_dir == (kind == 'dir')
                    if path != '/':
                        assert ai.name == path.rsplit('/', 1)[1]
                    if kind == 'file':
                        with r.openbin(alt) as f:
                            assert f.read() == value
                    else:
                        assert sorted(r.listdir(alt)) == value
        assert r.total_size == total
        for missing in ('/\x01nope', '/\x01nope/x'):
            try:
                r.getinfo(missing)
            except Exception as e:
                assert type(e).__name__ == 'RomFSFileNotFoundError', repr(e)
            else:
                raise AssertionError('missing path resolved')

    def lower_unique(flat):
        for path, (kind, value) in flat.items():
            if kind == 'dir' and len({n.lower() for n in value}) != len(value):
                return False
        return True

    for n in range(count):
        collide = n % 5 == 4
        kwargs = {}
        if n % 7 == 3:
            kwargs = {'max_depth': rng.randint(0, 7), 'max_children': rng.randint(0, 4)}
        elif n % 7 == 5:
            kwargs = {'max_depth': rng.randint(0, 2), 'max_children': rng.randint(8, 40), 'max_file': 2000}
        if n % 11 == 0:
            kwargs['unicode_names'] = False
        tree = {} if n == 0 else random_tree(rng, allow_case_collisions=collide, **kwargs)
        flat = flatten(tree)
        ci_safe = lower_unique(flat)
        assert ci_safe or collide
        stats['trees'] += 1

        hash_mode = 'zero' if n % 4 == 1 else 'valid'
        lv3, info = pack_lv3(tree, hash_tables=hash_mode, shuffle=rng if n % 3 == 2 else None)

        # packer-side consistency
        assert set(info['dirs']) | set(info['files']) == set(flat)
        assert len(info['fields']) == 10 + 6 * len(info['dirs']) + 6 * len(info['files'])
        assert len({(o, w) for o, w, _ in info['fields']}) == len(info['fields'])
        for o, w, desc in info['fields'] + info['hash_fields']:
            assert 0 <= o and o + w <= info['data_offset'], desc
        assert info['data_offset'] % 16 == 0
        for path, (moff, doff, size) in info['files'].items():
            assert doff % 16 == 0
            a = info['data_offset'] + doff
            assert lv3[a:a + size] == flat[path][1]
            assert struct.unpack_from('<QQ', lv3, info['filemeta'][0] + moff + 8) == (doff, size)
        if hash_mode == 'valid':
            for path, (kind, value) in flat.items():
                got = _hash_lookup(lv3, info, path)
                want = (kind, info['dirs'][path] if kind == 'dir' else info['files'][path][0])
                assert got == want, (path, got, want)
            assert _hash_lookup(lv3, info, '/\x01nope') is None
        else:
            for o, w, desc in info['hash_fields']:
                assert lv3[o:o + 4] == b'\xff\xff\xff\xff'

        # images to feed to the reader
        block_log2 = n % 17
        mhs = rng.choice((0, 0x20, 0x20, 0x40, 0x1000, rng.randint(0, 0x300)))
        ivfc, iinfo = wrap_ivfc(lv3, block_log2=block_log2, master_hash_size=mhs)
        block = 1 << block_log2
        assert iinfo['lv3_offset'] % block == 0 and 0 <= iinfo['lv3_offset'] - (0x60 + mhs) < block
        assert ivfc[iinfo['lv3_offset']:] == lv3 and ivfc[:4] == b'IVFC'
        assert struct.unpack_from('<I', ivfc, 0x4C)[0] == block_log2
        assert struct.unpack_from('<I', ivfc, 0x8)[0] == mhs

        for label, image in (('bare', lv3), ('ivfc', ivfc)):
            for start in (0, rng.choice((1, 0x10, 0x200, rng.randint(1, 0x3000)))):
                junk_before = bytes(rng.getrandbits(8) for _ in range(start))
                junk_after = bytes(rng.getrandbits(8) for _ in range(rng.randint(0, 64)))
                buf = junk_before + image + junk_after
                for ci in (False, True):
                    if ci and not ci_safe:
                        # colliding names: the reader keeps one of them; only require that it opens
                        f = io.BytesIO(buf)
                        f.seek(start)
                        if start == 0:
                            RomFSReader(f, case_insensitive=True).close()
                        continue
                    if start == 0:
                        f = io.BytesIO(buf)
                    else:
                        # a view whose own tell() is 0 at the image start
                        f = _Window(io.BytesIO(buf), start)
                    r = RomFSReader(f, case_insensitive=ci)
                    stats['opens'] += 1
                    check_reader(r, flat, ci_safe)
                    r.close()
                if start != 0 and n < raw_probe_trees:
                    # the literal request: a plain BytesIO positioned at a non-zero start.  RomFSReader adds the start
                    # offset twice (it seeks to self._start + lv3_offset where lv3_offset already contains tell()),
                    # so it parses junk: wrong results, exceptions or an endless loop.  Recorded, not asserted.
                    f = io.BytesIO(buf)
                    f.seek(start)
                    signal.setitimer(signal.ITIMER_REAL, 1.0)
                    try:
                        r = RomFSReader(f, case_insensitive=False)
                        check_reader(r, flat, ci_safe)
                        r.close()
                        stats['raw_nonzero_start_ok'] += 1
                    except BaseException as e:
                        stats['raw_nonzero_start_bad'] += 1
                        what = f'{type(e).__name__}: {str(e)[:60]}'
                        stats['raw_nonzero_start_examples'][what] = \
                            stats['raw_nonzero_start_examples'].get(what, 0) + 1
                    finally:
                        signal.setitimer(signal.ITIMER_REAL, 0)

    # deterministic: same seed, same bytes
    t1 = random_tree(random.Random(99), allow_case_collisions=True)
    t2 = random_tree(random.Random(99), allow_case_collisions=True)
    assert t1 == t2 and pack_lv3(t1) == pack_lv3(t2)
    assert pack_lv3(t1, shuffle=random.Random(5))[0] == pack_lv3(t2, shuffle=random.Random(5))[0]
    assert flatten({'a': {'b': b'x', 'c': {}}, 'd': b''}) == {
        '/': ('dir', ['a', 'd']), '/a': ('dir', ['b', 'c']), '/a/b': ('file', b'x'), '/a/c': ('dir', []),
        '/d': ('file', b'')}
    # known hash values of the standard function (root entry, and a one-letter name under root)
    assert name_hash(0, b'') == 123456789
    assert name_hash(0, 'a'.encode('utf-16-le')) == (((123456789 >> 5) | (123456789 << 27)) & 0xFFFFFFFF) ^ 0x61
    assert [hash_bucket_count(k) for k in (0, 1, 2, 3, 4, 18, 19, 20, 24)] == [3, 3, 3, 3, 5, 19, 19, 23, 29]

    if verbose:
        for k, v in stats.items():
            print(f'{k}: {v}')
        print('romfs builder selftest OK')
    return stats


if __name__ == '__main__':
    _selftest()
