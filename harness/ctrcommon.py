"""Shared by C01 and C12: driving CTRFileIO / TWLCTRFileIO against the extracted model and
against whole-stream AES-CTR computed independently."""
import io

from Cryptodome.Cipher import AES

from .core import hx, unhx, zhex
from . import pyenv, filecontract as fc

_ecb = {}


def aes_enc(keyhex, blkhex):
    k = _ecb.get(keyhex)
    if k is None:
        k = _ecb[keyhex] = AES.new(unhx(keyhex), AES.MODE_ECB)
    return hx(k.encrypt(unhx(blkhex)))


def aes_dec(keyhex, blkhex):
    k = _ecb.get(keyhex)
    if k is None:
        k = _ecb[keyhex] = AES.new(unhx(keyhex), AES.MODE_ECB)
    return hx(k.decrypt(unhx(blkhex)))


ORACLES = {'aes_enc': aes_enc, 'aes_dec': aes_dec}


def keystream(key, ctr, nbytes, twl):
    """independent whole-stream keystream: 3DS = AES-CTR big-endian counter; DSi = each block mirrored"""
    ecb = AES.new(key, AES.MODE_ECB)
    out = bytearray()
    for i in range((nbytes + 15) // 16):
        blk = ecb.encrypt(((ctr + i) % (1 << 128)).to_bytes(16, 'big'))
        out += blk[::-1] if twl else blk
    return bytes(out[:nbytes])


def stream_xor(key, ctr, data, twl):
    ks = keystream(key, ctr, len(data), twl)
    return bytes(a ^ b for a, b in zip(data, ks))


def make_engine(key, slot):
    from pyctr.crypto.engine import CryptoEngine
    pyenv.uninstall_fake_boot9()
    e = CryptoEngine(setup_b9_keys=False)
    e.set_normal_key(slot, key)
    return e


class AdvanceCheck:
    """file proxy: after every read / write the position must have advanced by exactly the number of bytes returned / reported"""

    def __init__(self, inner, report):
        self.__dict__['inner'] = inner
        self.__dict__['report'] = report
        self.__dict__['check_reads'] = None

    def __getattr__(self, name):
        return getattr(self.inner, name)

    def __setattr__(self, name, value):
        self.__dict__[name] = value

    def read(self, *a):
        before = self.inner.tell()
        got = self.inner.read(*a)
        after = self.inner.tell()
        if after - before != len(got):
            self.report(f'read{a} at {before} returned {len(got)} bytes but the position moved by {after - before}', len(got), after - before)
        if self.check_reads is not None and not self.check_reads(before, bytes(got)):
            self.report(f'read{a} at {before} did not return the decryption of the bytes the file holds there', 'decryption', bytes(got).hex()[:40])
        return got

    def write(self, data):
        before = self.inner.tell()
        n = self.inner.write(data)
        after = self.inner.tell()
        if after - before != n:
            self.report(f'write of {len(data)} bytes at {before} reported {n} but the position moved by {after - before}', n, after - before)
        return n


def open_view(case):
    """returns (view, base BytesIO, window offset, window size)"""
    from pyctr.fileio import SubsectionIO
    base = bytes.fromhex(case['base'])
    bio = io.BytesIO(base)
    key = bytes.fromhex(case['key'])
    slot = 0x03 if case['twl'] else 0x2C
    e = make_engine(key, slot)
    if case['kind'] == 'plain':
        under, off, sz = bio, 0, len(base)
    else:
        off, sz = case['off'], case['sz']
        under = SubsectionIO(bio, off, sz)
    if case.get('start'):
        under.seek(case['start'])       # the file is not at position 0 when it is wrapped: the wrapper starts where the file is
    v = e.create_ctr_io(slot, under, case['ctr'])
    return v, bio, off, sz


def model_line(case, ops):
    return (f'ctr {int(case["twl"])} {case["kind"]} {zhex(case.get("off", 0))} {zhex(case.get("sz", 0))} '
            f'h:{case["key"]} {zhex(case["ctr"])} h:{case["base"]} ' +
            ' '.join(fc.op_line(o) for o in ([['s', case['start'], 0]] if case.get('start') else []) + list(ops)))


def gen_case(rng, writes, kinds=('plain', 'window')):
    twl = rng.random() < 0.5
    kind = rng.choice(kinds)
    large = rng.random() < 0.04
    sz = rng.choice([0, 1, 15, 16, 17, 31, 32, 33, 40, 47, 48, 64, 100, 200])
    if large:
        sz = rng.choice([0x1000, 0x1001, 0x1FF0, 0x2010, 0x4100])
    off = rng.choice([0, 1, 16, 23]) if kind == 'window' else 0
    extra = rng.choice([0, 3, 16]) if kind == 'window' else 0
    base = pyenv.rbytes(rng, off + sz + extra)
    short = kind == 'window' and sz > 0 and rng.random() < 0.12
    if short:
        # a window declared larger than what the base file holds (a trimmed image): reads come back short at the real end
        base = base[:off + rng.randrange(0, sz)]
    nops = rng.randrange(1, 13)
    ops = []
    start = 0 if (short or sz == 0 or rng.random() < 0.8) else min(sz, rng.choice([1, 15, 16, 17, sz // 2, sz]))
    pos = start          # estimate of the position, to hit coincidences on purpose (a seek that does not move, a relative seek BY the position)
    for _ in range(nops):
        r = rng.random()
        if ops and rng.random() < 0.12:
            k = rng.randrange(3)
            if k == 0:
                ops.append(['s', pos, 1])
                pos += pos
            elif k == 1:
                ops.append(['s', pos, 0])
            else:
                ops.append(['s', pos - sz, 2] if pos else ['s', 0, 2])
                pos = pos if pos else sz
            if writes and rng.random() < 0.4:
                ops.append(['w', pyenv.rbytes(rng, rng.choice([1, 16, 17])).hex()])
                pos += len(ops[-1][1]) // 2
            else:
                ops.append(['r', rng.choice([1, 5, 16, 17])])
                pos += min(ops[-1][1], max(0, sz - pos))
            continue
        if r < 0.45 or (not writes and r < 0.6):
            n = rng.choice([-1, -1, 0, 1, 2, 15, 16, 17, 31, 33, sz, sz + 5, rng.randrange(0, sz + 2), -3])
            ops.append(['r', n])
            left = max(0, sz - pos)
            pos += left if n < 0 else min(n, left)
        elif r < 0.75 or not writes:
            wh = rng.choice([0, 0, 0, 1, 1, 2])
            if wh == 0:
                o = rng.choice([0, 1, 15, 16, 17, sz - 1, sz, sz + 1, sz + 16, rng.randrange(0, sz + 2)])
                if large:
                    o = rng.choice([0xFF0, 0xFFF, 0x1000, 0x1001, 0x100F, 0x1FFF, 0x2000, 0x2001, 0x3FFF, 0x4000, sz - 17, o])
                o = max(o, 0)
            elif wh == 1:
                o = rng.choice([-17, -16, -1, 0, 1, 15, 16, 17])
            else:
                o = rng.choice([-sz, -17, -16, -1, 0, 1])
            ops.append(['s', o, wh])
            pos = o if wh == 0 else (max(0, pos + o) if wh == 1 else max(0, sz + o))
        else:
            k = rng.choice([0, 1, 2, 15, 16, 17, 31, 32, 33, 5])
            if rng.random() < 0.15:
                # the data handed over as a buffer of 2-, 4- or 8-byte items: the same bytes, measured in bytes
                item = rng.choice([2, 2, 4, 8])
                k = item * rng.choice([1, 3, 5, 9])
                ops.append(['wv', pyenv.rbytes(rng, k).hex(), item])
            else:
                ops.append(['w', pyenv.rbytes(rng, k).hex()])
            pos += k
        if rng.random() < 0.1:
            ops.append(['t'])
    # the property's precondition: counter + blocks < 2^128 for every reachable position (also far past the end: relative seeks by the
    # current position double it); the margin is computed from the history that was generated
    reach = sz + 64
    p = 0
    for o in ops:
        if o[0] == 's':
            p = o[1] if o[2] == 0 else (p + o[1] if o[2] == 1 else sz + o[1])
            p = max(p, 0)
        elif o[0] == 'r':
            p += max(o[1], 0) if o[1] >= 0 else sz
        elif o[0] in ('w', 'wv'):
            p += len(o[1]) // 2
        reach = max(reach, p + 64)
    margin = reach // 16 + 64
    c = rng.randrange(6)
    if c == 0:
        ctr = 0
    elif c == 1:
        # near the top; the margin keeps every reachable position (also past the end) below 2^128 blocks
        ctr = (1 << 128) - 1 - margin - rng.randrange(3)
    elif c == 2:
        ctr = (rng.getrandbits(64) << 64) | ((1 << 64) - 1 - rng.randrange(2))   # carry into the high half
    else:
        ctr = rng.getrandbits(128) >> rng.choice([0, 1, 64])
        ctr = min(ctr, (1 << 128) - 1 - margin)
    return dict(start=start, twl=twl, kind=kind, off=off, sz=sz, base=base.hex(), key=pyenv.rbytes(rng, 16).hex(), ctr=ctr, ops=ops)


def run_impl(v, ops):
    """plain run (no oracle) returning the result tokens, in the model's format"""
    res = []
    for op in ops:
        try:
            if op[0] == 'r':
                res.append('h:' + bytes(v.read(op[1])).hex())
            elif op[0] == 's':
                res.append('i:%x' % v.seek(op[1], op[2]))
            elif op[0] == 'w':
                res.append('i:%x' % v.write(bytes.fromhex(op[1])))
            elif op[0] == 'wv':
                res.append('i:%x' % v.write(memoryview(bytes.fromhex(op[1])).cast({2: 'H', 4: 'I', 8: 'Q'}[op[2]])))
            else:
                res.append('i:%x' % v.tell())
        except Exception as e:
            res.append('e:' + pyenv.errname(e))
    return res
