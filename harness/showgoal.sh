#!/bin/sh
# usage: showgoal.sh file.v lineno  -- prints the goals after the first <lineno> lines
f=$1; n=$2
head -n $n $f > /tmp/_sg.v; echo "Show." >> /tmp/_sg.v
cd /verif/coq && coqtop -Q . Pyctr -batch -l /tmp/_sg.v 2>&1 | tail -${3:-60}
