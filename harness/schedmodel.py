"""C15: traced events -> programs of coq/Model/Sched.v, lock renaming, lockof, model line for the extracted runner."""
from collections import defaultdict


def var_key(ev):
    k = ev[0]
    if k in ('seek', 'tell', 'read', 'write', 'pseek', 'padv'):
        return ev[1]
    if k == 'cache':
        return 1000 + ev[1]
    return None


def sources(ev):
    """object names an event's argument was derived from"""
    k = ev[0]
    if k in ('seek', 'pseek') and ev[3] is not None and ev[3][0] != 'self':
        return [ev[3][0]]
    return []


def lock_order(traces):
    """rename locks so that nested acquisition goes upwards; -> (mapping, acyclic?)"""
    edges = defaultdict(set)
    locks = set()
    for evs in traces:
        held = []
        for ev in evs:
            if ev[0] == 'acq':
                locks.add(ev[1])
                for h in held:
                    edges[h].add(ev[1])
                held.append(ev[1])
            elif ev[0] == 'rel':
                if ev[1] in held:
                    held.remove(ev[1])
    order = []
    mark = {}
    acyclic = True

    def visit(n):
        nonlocal acyclic
        if mark.get(n) == 2:
            return
        if mark.get(n) == 1:
            acyclic = False
            return
        mark[n] = 1
        for m in sorted(edges[n]):
            visit(m)
        mark[n] = 2
        order.append(n)

    for n in sorted(locks):
        visit(n)
    order.reverse()
    return {n: i + 1 for i, n in enumerate(order)}, acyclic


def translate(traces):
    """-> dict(progs=[[action strings]], lockof={var: lock}, shared=set, init vars needed, files)"""
    touched = defaultdict(set)
    for t, evs in enumerate(traces):
        for ev in evs:
            v = var_key(ev)
            if v is not None:
                touched[v].add(t)
            for s in sources(ev):
                touched[s].add(t)
    shared = {v for v, ts in touched.items() if len(ts) > 1}
    lmap, acyclic = lock_order(traces)

    def V(v):
        return ('s' if v in shared else 'l') + str(v)

    def Z(x):
        return ('-%x' % -x) if x < 0 else ('%x' % x)

    held_at = defaultdict(list)          # shared var -> list of held-lock sets at its accesses
    progs = []
    files = set()
    for evs in traces:
        prog = []
        held = []
        last = 0
        for ev in evs:
            k = ev[0]
            if k == 'acq':
                held.append(lmap[ev[1]])
                prog.append('A%d' % lmap[ev[1]])
                continue
            if k == 'rel':
                if lmap[ev[1]] in held:
                    held.remove(lmap[ev[1]])
                prog.append('R%d' % lmap[ev[1]])
                continue
            v = var_key(ev)
            if v in shared:
                held_at[v].append(frozenset(held))
            for s in sources(ev):
                if s in shared:
                    held_at[s].append(frozenset(held))
            if k in ('seek', 'pseek'):
                d = ev[3]
                if d is None:
                    e = 'c' + Z(ev[2])
                elif d[0] == 'self':
                    e = 'v%s+%s' % (V(v), Z(d[1]))
                else:
                    e = 'v%s+%s' % (V(d[0]), Z(d[1]))
                prog.append('S%s=%s' % (V(v), e))
            elif k == 'padv':
                prog.append('S%s=%s' % (V(v), ('L' + V(v)) if ev[3] == last else 'v%s+%s' % (V(v), Z(ev[3]))))
            elif k == 'tell':
                prog.append('T' + V(v))
            elif k == 'read':
                files.add(v)
                prog.append('D%s:%d:%s' % (V(v), v, Z(ev[3])))
                last = ev[4]
            elif k == 'write':
                files.add(v)
                prog.append('W%s:%d:%d' % (V(v), v, ev[3]))
                last = ev[3]
            elif k == 'cache':
                prog.append('S%s=%s' % (V(v), 'c0' if ev[2] == 'reset' else 'v%s+1' % V(v)))
        progs.append(prog)
    lockof = {}
    for v in shared:
        common = None
        for hs in held_at[v]:
            common = set(hs) if common is None else (common & hs)
        lockof[v] = min(common) if common else 0
    return dict(progs=progs, lockof=lockof, shared=shared, files=files, acyclic=acyclic, lmap=lmap)


def model_line(tr, init, sizes, schedule):
    lk = ','.join('%d:%d' % (v, l) for v, l in sorted(tr['lockof'].items())) or '-'
    iv = ','.join('%d:%s' % (v, ('%x' % x)) for v, x in sorted(init.items())) or '-'
    fl = ','.join('%d:%x' % (f, sizes.get(f, 0)) for f in sorted(tr['files'])) or '-'
    ps = '/'.join(','.join(p) or '-' for p in tr['progs'])
    return 'sched %s %s %s %s %s' % (lk, iv, fl, ps, ','.join(map(str, schedule)) or '-')


def real_obs(evs):
    """observations of a real thread comparable with the model's: base-file reads, writes and tells"""
    out = []
    for ev in evs:
        if ev[0] == 'read':
            out.append('B%x:%d' % (ev[2], ev[4]))
        elif ev[0] == 'write':
            out.append('W%x:%d' % (ev[2], ev[3]))
        elif ev[0] == 'tell':
            out.append('P%x' % ev[2])
    return ','.join(out)


def coq_prog(prog):
    """action strings -> Coq list literal"""
    def var(s):
        return ('(Sh %s%%nat)' if s[0] == 's' else '(Lo %s%%nat)') % s[1:]

    def z(s):
        return '(%d)%%Z' % int(s, 16)

    def expr(s):
        if s[0] == 'c':
            return '(EConst %s)' % z(s[1:])
        if s[0] == 'L':
            return '(EVarLast %s)' % var(s[1:])
        v, c = s[1:].split('+')
        return '(EVar %s %s)' % (var(v), z(c))

    out = []
    for a in prog:
        b = a[1:]
        if a[0] == 'A':
            out.append('Acq %s%%nat' % b)
        elif a[0] == 'R':
            out.append('Rel %s%%nat' % b)
        elif a[0] == 'S':
            v, e = b.split('=')
            out.append('Set_ %s %s' % (var(v), expr(e)))
        elif a[0] == 'D':
            v, f, n = b.split(':')
            out.append('Read %s %s%%nat %s' % (var(v), f, z(n)))
        elif a[0] == 'W':
            v, f, n = b.split(':')
            out.append('Write %s %s%%nat (repeat 0%%Z %s%%nat)' % (var(v), f, n))
        elif a[0] == 'T':
            out.append('Tell %s' % var(b))
    return '[' + '; '.join(out) + ']'
