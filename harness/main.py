"""./check <property> [--tier quick|thorough] [--seed N] [--replay file]"""
import argparse
import importlib
import os
import sys


def main():
    ap = argparse.ArgumentParser()
    ap.add_argument('prop')
    ap.add_argument('--tier', default=os.environ.get('VERIF_TIER', 'quick'), choices=['quick', 'thorough'])
    ap.add_argument('--seed', type=int, default=int(os.environ.get('VERIF_SEED', '0') or 0))
    ap.add_argument('--replay', default=None)
    a = ap.parse_args()
    mod = importlib.import_module('harness.checks.' + a.prop.lower())
    from .core import Ctx
    ctx = Ctx(a.prop, a.tier, a.seed)
    if a.replay:
        sys.exit(mod.replay(ctx, a.replay))
    sys.exit(mod.run(ctx))


if __name__ == '__main__':
    main()
