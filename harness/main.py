"""./check <property> [--tier quick|thorough] [--seed N] [--replay file]"""
import argparse
import importlib
import os
import sys


def main():
    ap = argparse.ArgumentParser()
    ap.add_argument('prop')
    ap.add_argument('--tier', default=os.environ.get('VERIF_TIER', 'quick'), choices=['quick', 'thorough'])
    ap.add_argument('--seed', type=int, default=int(os.environ.get('VERIF_SEED', '0') or 0))
    ap.add_argument('--replay', default=None)
    a = ap.parse_args()
    mod = importlib.import_module('harness.checks.' + a.prop.lower())
    from .core import Ctx
    ctx = Ctx(a.prop, a.tier, a.seed)
    if a.replay:
        sys.exit(mod.replay(ctx, a.replay))
    try:
        rc = mod.run(ctx)
    except Exception as ex:          # the implementation did something no branch of the check expected while the last case ran
        import traceback
        from .core import write_replay
        from . import pyenv
        tb = traceback.format_exc()
        path = write_replay(a.prop, dict(property=a.prop, kind='unexpected-exception', case=ctx.last_case, seed=a.seed, tier=a.tier,
                                         what=f'{pyenv.errname(ex)}: {ex}', traceback=tb[-3000:]))
        print(tb[-1500:])
        print(f'VIOLATION property={a.prop} replay={path}')
        print(f'{a.prop} {a.tier}: the check was interrupted by {pyenv.errname(ex)} raised while the case in the replay file ran')
        rc = 1
    sys.exit(rc)


if __name__ == '__main__':
    main()
