"""Shared by C17 / C18: DISA / DIFF case generation, opening, chain validity of the verified view."""
import hashlib
import io
import random

from . import pyenv
from .builders import save as SV

FILL = 0xDD


def gen_geom(rng, small=True):
    kind = rng.choice(['diff', 'disa1', 'disa2'])
    nparts = 2 if kind == 'disa2' else 1
    def one():
        bl = tuple(rng.choice([7, 8, 9, 10, 12]) if not small else rng.choice([7, 8, 9]) for _ in range(4))
        if rng.random() < 0.25:
            bl = (5, rng.choice([5, 6]), rng.choice([5, 6, 7]), bl[3])       # one hash per level-1 block: several master hashes
        db = (rng.choice([2, 4, 7]), rng.choice([7, 8, 9]))
        wide = rng.random() < 0.35
        if wide:
            # DPFS level 1 with a block size of its own (retail saves use equal sizes, where a mix-up of the two is invisible), level-2
            # blocks of one u32 and enough level-3 blocks that the level-2 bitmap spans several of them
            db = (rng.choice([3, 4, 5, 7]), 2, 7)
        nblocks = rng.choice([1, 2, 3, 5, 8, 17, 40]) if not wide else rng.choice([17, 40])
        tail = rng.choice([0, 1, 7, (1 << bl[3]) - 1])
        size = max(1, nblocks * (1 << bl[3]) - tail)
        # DPFS level 3 usually is a whole number of its blocks; the format does not require it (the second copy starts at `size`)
        tail = rng.choice([1, 4, (1 << db[-1]) // 2, (1 << db[-1]) - 1]) if rng.random() < 0.3 else 0
        return dict(bl=bl, db=db, size=size, ext=rng.random() < 0.35, rb=rng.random() < 0.8, lv3_tail=tail)
    return dict(kind=kind, parts=[one() for _ in range(nparts)], active=rng.randrange(2), slack=rng.random() < 0.7, seed=rng.randrange(1 << 30),
                desc_gaps=rng.choice([[0, 0, 0], [0, 0, 0], [0, 0, 4], [4, 0, 4], [0, 8, 0], [4, 4, 4], [12, 0, 0]]))


def build(geom):
    rng = random.Random(geom['seed'])
    SV.DESC_LAYOUT['gaps'] = tuple(geom.get('desc_gaps', (0, 0, 0)))
    payloads = [pyenv.rbytes(rng, p['size']) for p in geom['parts']]
    kw = dict(rng=rng, active_table=geom['active'], slack=geom['slack'])
    if geom['kind'] == 'diff':
        p = geom['parts'][0]
        img, info = SV.build_diff(payloads[0], block_log2=p['bl'], dpfs_block_log2=p['db'], external_lv4=p['ext'], random_bitmaps=p['rb'], lv3_tail=p.get('lv3_tail', 0), **kw)
    else:
        img, info = SV.build_disa(payloads, block_log2=[p['bl'] for p in geom['parts']], dpfs_block_log2=[p['db'] for p in geom['parts']],
                                  external_lv4=[p['ext'] for p in geom['parts']], random_bitmaps=[p['rb'] for p in geom['parts']],
                                  lv3_tail=[p.get('lv3_tail', 0) for p in geom['parts']], **kw)
    return img, info, payloads


def open_container(img, kind, writable=True, cmac_base=None, start=0):
    """start: the container begins at that position of a larger file, and the file object is handed over standing there"""
    from pyctr.crypto.engine import CryptoEngine
    from pyctr.type.save.diff import DIFF
    from pyctr.type.save.disa import DISA
    pyenv.uninstall_fake_boot9()
    bio = io.BytesIO(bytes((i * 37 + 11) & 0xFF for i in range(start)) + img)
    bio.seek(start)
    if not writable:
        bio.writable = lambda: False
    e = CryptoEngine(setup_b9_keys=False)
    cls = DIFF if kind == 'diff' else DISA
    return cls(bio, crypto=e, cmac_base=cmac_base), bio


def lv4_reader(c, part):
    from pyctr.type.save.partdesc.ivfc import IVFCLevel4Reader
    return IVFCLevel4Reader(c.partitions[part].ivfc_hash_tree, verify=True, deep_verify=True)


def expected_verified_view(img, part=0):
    """payload with 0xDD filler in every level-4 block whose SHA-256 chain up to the master hash is not intact
    (independent verifier of the builder module)"""
    res = SV.verify_image(img)
    if part >= len(res['data']):
        return None, res
    data = bytearray(res['data'][part])
    bad = {(lv, b) for (p, lv, b) in res['bad_blocks'] if p == part}
    return data, res, bad


def chain_bad(bad, info_p, lv, b):
    """is block b of level lv (1..4) invalid: its own hash mismatches or an ancestor is invalid"""
    bs = info_p['block_sizes']
    while True:
        if (lv, b) in bad:
            return True
        if lv == 1:
            return False
        b = (b * 0x20) // bs[lv - 2]
        lv -= 1


def verified_view(img, info, part):
    res = SV.verify_image(img)
    ip = info['partitions'][part]
    data = bytearray(res['data'][part])
    bad = {(lv, b) for (p, lv, b) in res['bad_blocks'] if p == part}
    bs4 = ip['block_sizes'][3]
    n4 = ip['level_blocks'][3]
    invalid = []
    for b in range(n4):
        if chain_bad(bad, ip, 4, b):
            lo, hi = b * bs4, min((b + 1) * bs4, len(data))
            data[lo:hi] = bytes([FILL]) * (hi - lo)
            invalid.append(b)
    return bytes(data), invalid, res


def heal_neighbour_case(ctx, case, rng, img, info, payloads, geom):
    # healing through a neighbour: a damaged HASH block makes every block beneath it read as filler; rewriting one level-4 block beneath
    # it re-hashes the chain above, so the file authenticates again whatever its (unchanged) hash entries cover: in the same session
    # every block must then read as the file's own hash chain says (independent verifier), not as it was cached before the write
    pi = rng.randrange(len(info['partitions']))
    ip = info['partitions'][pi]
    bss = ip['block_sizes']
    b = rng.randrange(ip['level_blocks'][3])
    lv = rng.choice([3, 2, 1])
    anc = b
    for k in range(3, lv - 1, -1):
        anc = (anc * 32) // bss[k - 1]
    segs = [sg for sg in ip['hash_segments'][lv][anc] if sg[1]]
    if segs:
        off, ln = rng.choice(segs)
        bad = bytearray(img)
        bad[off + rng.randrange(ln)] ^= 0x04
        c4, bio4 = open_container(bytes(bad), geom['kind'])
        r4 = lv4_reader(c4, pi)
        before = r4.read()
        lo = b * bss[3]
        n = min(bss[3], len(payloads[pi]) - lo)
        r4.seek(lo)
        # ... also when the block is rewritten with the very bytes it holds (a block whose data is in place and whose hash path is not --
        # a never-hashed block of a formatted save, a stale entry): the write stores nothing new in level 4 and must still re-hash the path
        same = rng.random() < 0.5
        written = bytes(payloads[pi][lo:lo + n]) if same else pyenv.rbytes(rng, n)
        r4.write(written)
        r4.seek(0)
        after = r4.read()
        want, invalid4, res4 = verified_view(bio4.getvalue(), info, pi)
        ncase = dict(case, part=pi, block=b, damaged_hash_level=lv, damaged_hash_block=anc, same_bytes=same)
        ctx.stat('heal_by_same_bytes' if same else 'heal_by_new_bytes')
        if after[lo:lo + n] != written:
            ctx.diff('oracle', 'heal:written-block', ncase, written[:8].hex(), after[lo:lo + 8].hex(),
                     f'a whole-block write to level-4 block {b} beneath a damaged level-{lv} hash block ('
                     + ('the bytes the block already held' if same else 'new bytes') + ') does not read back in the same session: its hash path was not renewed')
        elif chain_bad({(lv_, b_) for (p_, lv_, b_) in res4['bad_blocks'] if p_ == pi}, ip, 4, b):
            ctx.diff('oracle', 'heal:written-block-file', ncase, 'a valid hash path', 'invalid',
                     f'after a whole-block write to level-4 block {b} beneath a damaged level-{lv} hash block the file\'s hash path of that block does not verify')
        if want is not None and after != bytes(want):
            k = next((i for i, (x, y) in enumerate(zip(after, bytes(want))) if x != y), min(len(after), len(want)))
            ctx.diff('oracle', 'heal:neighbours', ncase, bytes(want)[k:k + 8].hex(), after[k:k + 8].hex(),
                     f'after a write re-hashed a damaged level-{lv} hash block, level-4 block {k // bss[3]} does not read as the file\'s hash chain says '
                     f'(still the verdict cached before the write?)')
        c4.close()
        ctx.stat('heal_neighbour_histories')


def positioned_case(ctx, case, rng, img, info, payloads, geom, write=False):
    """the same container at a non-zero position of a larger file (a file object handed over standing at the container's first byte):
    every view is the view of the container at position 0; written through, the bytes in front stay and the container part becomes
    what the same writes make of the container alone"""
    start = rng.choice([0x40, 0x200, 0x233, 1])
    ncase = dict(case, start=start)
    try:
        c, bio = open_container(img, geom['kind'], start=start)
    except Exception as ex:
        ctx.diff('oracle', 'positioned:open-raises', ncase, 'a container', pyenv.errname(ex) + ': ' + str(ex)[:60], f'container at file position {start:#x} rejected')
        return
    ctx.stat('positioned_containers')
    try:
        for pi, ip in enumerate(info['partitions']):
            got_dpfs = c.partitions[pi].dpfs_lv3_file.read()
            got = lv4_reader(c, pi).read()
            if got_dpfs != ip['dpfs_view'] or got != payloads[pi]:
                ctx.diff('oracle', 'positioned:read', dict(ncase, part=pi), 'the views of the container', 'other bytes',
                         f'container at file position {start:#x}: partition {pi} ' + ('data view' if got_dpfs != ip['dpfs_view'] else 'verified level-4 view')
                         + ' differs from the same container at position 0')
        if write:
            c0, bio0 = open_container(img, geom['kind'])
            pi = rng.randrange(len(info['partitions']))
            for _ in range(3):
                off = rng.randrange(len(payloads[pi]))
                data = pyenv.rbytes(rng, rng.choice([1, 16, 33, 200]))
                for cc_ in (c, c0):
                    r = lv4_reader(cc_, pi)
                    r.seek(off)
                    r.write(data)
            front = bytes((i * 37 + 11) & 0xFF for i in range(start))
            if bio.getvalue()[:start] != front or bio.getvalue()[start:] != bio0.getvalue():
                k = next((i for i, (x, y) in enumerate(zip(bio.getvalue()[start:], bio0.getvalue())) if x != y), -1)
                ctx.diff('oracle', 'positioned:write', dict(ncase, part=pi), 'the bytes in front untouched, the container as after the same writes at position 0',
                         'bytes in front changed' if bio.getvalue()[:start] != front else f'container differs at {k:#x}',
                         f'container at file position {start:#x}: writes through the level-4 view landed somewhere else')
            c0.close()
    finally:
        c.close()
